#!/bin/bash
# Which lines of /repo/kcl-ezpz/src do the correspondence suites and oracles actually execute?
# Builds the harness with source-based coverage (nightly toolchain, own target dir), runs the same
# binaries the quick tier runs, and prints per-file line coverage plus the uncovered lines of the
# modelled files.  Usage: tools/coverage.sh [out-dir]   (default /verif/work/coverage)
set -u
OUT=${1:-/verif/work/coverage}
rm -rf "$OUT"; mkdir -p "$OUT/prof" "$OUT/run/k" "$OUT/run/t" "$OUT/run/x"
BIN=$(dirname "$(rustup +nightly which rustc)")/../lib/rustlib/x86_64-unknown-linux-gnu/bin
export CARGO_NET_OFFLINE=true RUSTFLAGS="-C instrument-coverage" CARGO_TARGET_DIR=/verif/harness/target/cov
# build scripts and proc macros are instrumented too: keep their profiles out of /repo
export LLVM_PROFILE_FILE="$OUT/prof/build-%p-%m.profraw"
cd /verif/harness && cargo +nightly build --offline --bins 2>&1 | tail -1
rm -f "$OUT"/prof/build-*.profraw
T=$CARGO_TARGET_DIR/debug
export LLVM_PROFILE_FILE="$OUT/prof/%p-%m.profraw"
S=${SEED:-1}
$T/corr_kernels $S 150 $OUT/run/k > /dev/null 2>&1
$T/corr_trace $S 600 $OUT/run/t planted,linear,prio,contra,malformed,caps,conflict,disparity,collapsed,pinned > /dev/null 2>&1
$T/corr_text $S 400 200 $OUT/run/x > /dev/null 2>&1
for o in "oracle_c01 $S 600" "oracle_c02 $S 3000" "oracle_c03 $S 1500 0" "oracle_c06 $S 3000" "oracle_c07 $S 1000" "oracle_c10 $S 800" \
         "oracle_c11 $S 600" "oracle_c12 $S 800" "oracle_c13 $S 150" "oracle_c14 $S 300" "oracle_c15 $S 2000" "oracle_c17 $S 300 12" \
         "dump_c04 $S 400" "dump_c05 $S 800"; do
  $T/$o > /dev/null 2>&1
done
$BIN/llvm-profdata merge -sparse $OUT/prof/*.profraw -o $OUT/all.profdata
OBJS=""; for b in corr_kernels corr_trace corr_text oracle_c01 oracle_c02 oracle_c03 oracle_c06 oracle_c07 oracle_c10 oracle_c11 oracle_c12 oracle_c13 oracle_c14 oracle_c15 oracle_c17 dump_c04 dump_c05; do OBJS="$OBJS -object $T/$b"; done
$BIN/llvm-cov report $OBJS -instr-profile=$OUT/all.profdata 2>/dev/null | grep -E "^repo/(kcl-ezpz|ezpz-cli)/src" | awk '{printf "%-40s lines %5s missed %5s cover %s\n", $1, $8, $9, $10}' | sed 's#^repo/##' > $OUT/report.txt
cat $OUT/report.txt
$BIN/llvm-cov show $OBJS -instr-profile=$OUT/all.profdata -ignore-filename-regex='(registry|rustc|rustup|verif/)' 2>/dev/null > $OUT/show.txt
# uncovered executable lines (count 0) per file
awk '/^\/?repo\// {f=$0} /^ +[0-9]+\| +0\|/ {print f" "$0}' $OUT/show.txt | sed 's#/\?repo/##' > $OUT/uncovered.txt
echo "uncovered executable lines: $(wc -l < $OUT/uncovered.txt)  (see $OUT/uncovered.txt)"
rm -rf $OUT/prof $OUT/run
