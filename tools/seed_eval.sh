#!/bin/bash
# usage: seed_eval.sh <patch.diff> <prop> [<prop>...]   -- applies the patch to /repo, runs the quick
# checks, undoes the patch straight afterwards.  Prints one line per property.
set -u
PATCH=$1; shift
cd /repo && git apply "$PATCH" || { echo "patch does not apply"; exit 2; }
cd /verif
for p in "$@"; do
  out=$(./check $p 2>&1); rc=$?
  echo "$p rc=$rc $(echo "$out" | grep -E '^VIOLATION' | head -1)"
  echo "$out" | grep -E "suite|oracle" | sed 's/^/    /' | cut -c1-220
done
git -C /repo checkout -- .
git -C /repo status --short | head -3
