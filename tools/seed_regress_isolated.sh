#!/bin/bash
# Re-runs every stored seeded change (or those given as arguments) against the quick check of the
# property it breaks, in a private snapshot: a copy of /verif and a detached worktree of /repo under
# $SNAP (default /tmp/regress-snap), so that /repo and /verif themselves are never touched and work
# there can go on.  Each seed must end with rc=1 and a VIOLATION line (ideally without
# no-failing-input-found).  The snapshot is removed at the end.
set -u
SNAP=${SNAP:-/tmp/regress-snap}
rm -rf "$SNAP/verif"; mkdir -p "$SNAP"
git -C /repo worktree remove --force "$SNAP/repo" 2>/dev/null; git -C /repo worktree prune
git -C /repo worktree add --detach "$SNAP/repo" HEAD >/dev/null 2>&1 || { echo "cannot create worktree"; exit 2; }
rsync -a --exclude work --exclude .git /verif/ "$SNAP/verif/"
sed -i "s#/repo/kcl-ezpz#$SNAP/repo/kcl-ezpz#" "$SNAP/verif/harness/Cargo.toml"
export EZPZ_REPO="$SNAP/repo"
cd "$SNAP/verif"
if [ $# -gt 0 ]; then LIST="$@"; else LIST=$(ls seeded); fi
for id in $LIST; do
  d=seeded/$id
  prop=$(python3 -c "import json;print(json.load(open('$d/meta.json'))['breaks_property'])")
  (cd "$SNAP/repo" && git apply "$SNAP/verif/$d/patch.diff") || { echo "$id: patch does not apply"; continue; }
  out=$(./check $prop 2>&1); rc=$?
  echo "$id: $prop rc=$rc $(echo "$out" | grep -E '^VIOLATION' | head -1 | sed "s#$SNAP##g" | cut -c1-120)"
  git -C "$SNAP/repo" checkout -- .
done
cd /; git -C /repo worktree remove --force "$SNAP/repo"; git -C /repo worktree prune; rm -rf "$SNAP"
