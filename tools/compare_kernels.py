#!/usr/bin/env python3
"""Compare the implementation's kernel answers (kernels.impl) with the Lean model's (kernels.model).
Discrete outputs must agree exactly; floats to a tolerance; cases the model flags as unstable
(within rounding distance of a guard / branch switch) and `special`-class floats are skipped and
counted.  Prints a JSON summary; exit 0 iff no disagreement."""
import sys, json, struct, math, collections

def f(bits):
    return struct.unpack("<d", struct.pack("<Q", int(bits)))[0]

def parse(line):
    t = line.split(" ")
    out = {}
    i = 0
    try:
        assert t[i] == "NZ"; out["nz"] = t[i+1]; i += 2
        assert t[i] == "DIM"; out["dim"] = t[i+1]; i += 2
        assert t[i] == "RES"; i += 1
        if t[i] == "panic":
            out["res"] = None; i += 1
        else:
            out["res"] = ([f(t[i+1]), f(t[i+2]), f(t[i+3])], t[i+4]); i += 5
        assert t[i] == "JAC"; i += 1
        if t[i] == "panic":
            out["jac"] = None; i += 1
        else:
            rows = []
            for r in t[i+1].split("|"):
                rows.append([(e.split(":")[0], f(e.split(":")[1])) for e in r.split(",") if e])
            out["jac"] = (rows, t[i+2]); i += 3
        if i < len(t) and t[i] == "STABLE":
            out["stable"] = t[i+1] == "1"
    except (AssertionError, IndexError, ValueError) as e:
        return None
    return out

def close(a, b, scale):
    if math.isnan(a) or math.isnan(b):
        return math.isnan(a) and math.isnan(b)
    if a == b:
        return True
    if math.isinf(a) or math.isinf(b):
        return False
    return abs(a - b) <= 1e-9 * max(abs(a), abs(b)) + 1e-11 * scale

def main():
    d = sys.argv[1]
    cases = open(f"{d}/kernels.cases").read().splitlines()
    imp = open(f"{d}/kernels.impl").read().splitlines()
    mod = open(f"{d}/kernels.model").read().splitlines()
    meta = open(f"{d}/kernels.meta").read().splitlines()
    assert len(cases) == len(imp) == len(meta), "harness files out of step"
    summary = {"cases": len(cases), "agreed": 0, "skipped_unstable": 0, "skipped_special_floats": 0,
               "disagreements": [], "per_shape": collections.Counter(), "per_class": collections.Counter(),
               "aliasing_patterns": collections.defaultdict(set), "branches": collections.Counter()}
    if len(mod) != len(cases):
        summary["disagreements"].append({"what": f"model produced {len(mod)} lines for {len(cases)} cases"})
    for idx, (c, a, b, m) in enumerate(zip(cases, imp, mod, meta)):
        shape, cls, pat = m.split(" ")
        summary["per_shape"][shape] += 1
        summary["per_class"][cls] += 1
        summary["aliasing_patterns"][shape].add(pat)
        A, B = parse(a), parse(b)
        def bad(what):
            summary["disagreements"].append({"index": idx, "shape": shape, "class": cls, "what": what,
                                             "case": c, "impl": a, "model": b})
        if A is None or B is None:
            bad("unparsable output"); continue
        if A["nz"] != B["nz"]:
            bad("nonzeroes differ"); continue
        if A["dim"] != B["dim"]:
            bad("residual_dim differs"); continue
        if (A["res"] is None) != (B["res"] is None):
            bad("residual: panic status differs"); continue
        if (A["jac"] is None) != (B["jac"] is None):
            bad("jacobian_rows: panic status differs"); continue
        if A["res"] is None:
            summary["branches"]["residual-panic"] += 1
        if A["jac"] is None:
            summary["branches"]["jacobian-panic"] += 1
        if not B.get("stable", True):
            summary["skipped_unstable"] += 1
            continue
        # every id reported must be declared in the same row (C06/C13)
        vals = [f(x) for x in c.split(" V ")[1].split(" ")[1:] if x] if " V " in c else []
        finite_vals = [abs(v) for v in vals if math.isfinite(v)]
        scale = max(finite_vals + [1.0])
        special = cls == "special" or any(not math.isfinite(v) or abs(v) > 1e100 or (v != 0.0 and abs(v) < 1e-100) for v in vals)
        if special:
            # NaN / inf / 1e300 inputs: Lean's Float has no overflow-safe hypot, so only the discrete,
            # float-independent outputs above (declared ids, row count, panic status) are compared.
            summary["skipped_special_floats"] += 1
            summary["agreed"] += 1
            continue
        ok = True
        if A["res"] is not None:
            (ra, da), (rb, db) = A["res"], B["res"]
            if da != db:
                bad("residual: degenerate flag differs"); continue
            if da == "1":
                summary["branches"]["residual-degenerate"] += 1
            if not special:
                for k in range(3):
                    if not close(ra[k], rb[k], scale):
                        bad(f"residual[{k}] differs: impl {ra[k]!r} model {rb[k]!r}"); ok = False; break
            if not ok: continue
        if A["jac"] is not None:
            (ja, da), (jb, db) = A["jac"], B["jac"]
            if da != db:
                bad("jacobian: degenerate flag differs"); continue
            if da == "1":
                summary["branches"]["jacobian-degenerate"] += 1
            for k in range(3):
                if [e[0] for e in ja[k]] != [e[0] for e in jb[k]]:
                    bad(f"jacobian row {k}: ids differ"); ok = False; break
                decl = A["nz"].split("|")[k].split(",")
                for (i, _) in ja[k]:
                    if i not in decl:
                        bad(f"jacobian row {k}: id {i} not declared in nonzeroes"); ok = False; break
                if not ok: break
                if special: continue
                rowscale = max([abs(e[1]) for e in ja[k] if math.isfinite(e[1])] + [1e-300])
                for (ea, eb) in zip(ja[k], jb[k]):
                    if not (close(ea[1], eb[1], scale) or (math.isfinite(ea[1]) and math.isfinite(eb[1]) and abs(ea[1] - eb[1]) <= 1e-9 * rowscale)):
                        bad(f"jacobian row {k} id {ea[0]}: impl {ea[1]!r} model {eb[1]!r}"); ok = False; break
                if not ok: break
            if not ok: continue
        summary["agreed"] += 1
    summary["per_shape"] = dict(summary["per_shape"])
    summary["per_class"] = dict(summary["per_class"])
    summary["branches"] = dict(summary["branches"])
    summary["aliasing_patterns"] = {k: len(v) for k, v in summary["aliasing_patterns"].items()}
    nd = len(summary["disagreements"])
    summary["n_disagreements"] = nd
    summary["disagreements"] = summary["disagreements"][:20]
    print(json.dumps(summary))
    sys.exit(0 if nd == 0 else 1)

if __name__ == "__main__":
    main()
