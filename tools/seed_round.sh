#!/bin/bash
# usage: seed_round.sh <seed-dir> <worktree> <prop>... : confirm a delivered seed, then evaluate it
SEED=$1; WT=$2; shift 2
DEMO=kcl-ezpz/tests/seed_demo.rs
grep -q "ezpz-cli/tests" "$SEED/notes.md" 2>/dev/null && DEMO=ezpz-cli/tests/seed_demo.rs
echo "### confirm $SEED"
/verif/tools/seed_confirm.sh "$SEED" "$WT" "$DEMO" 2>&1 | grep -E "^==|test result|error|PATCH" | head -12
rm -rf "$WT/ezpz-cli/tests"
echo "### evaluate"
/verif/tools/seed_eval.sh "$SEED/patch.diff" "$@" 2>&1 | grep -E "rc=|suite|oracle" | cut -c1-230
