#!/usr/bin/env python3-vt
"""C04 oracle: linear systems with dyadic-rational data solved by the real code (harness dump_c04)
vs the exact rational minimum-norm least-squares solution  x* = x0 + A^+ (b - A x0)  (sympy, exact).
A consistent system must be solved; any successful result must equal x* within 1e-4 of the scale.
Usage: oracle_c04.py <seed> <n>"""
import sys, json, subprocess, os
from fractions import Fraction
import sympy

ROOT = os.path.dirname(os.path.dirname(os.path.abspath(__file__)))

def main():
    seed, n = sys.argv[1], sys.argv[2]
    proc = subprocess.run([os.path.join(ROOT, "harness/target/debug/dump_c04"), seed, n], capture_output=True, text=True)
    out = proc.stdout
    # the dump must have run to completion: a helper that died half way (a panic or abort of the real
    # code on the k-th system) must not look like "no violations in the first k systems"
    if proc.returncode != 0 or f"DONE {n}" not in out.splitlines()[-3:]:
        print("VIOLATION " + json.dumps({"property": "C04", "kind": "impl-violates-oracle", "signature": "helper-process-died",
              "what": f"dump_c04 ended with status {proc.returncode} before finishing its {n} systems (a panic or abort on the real code): {proc.stderr[-300:]}",
              "input": {"cmd": "harness/target/debug/dump_c04 " + seed + " " + n}}))
        print("STATS " + json.dumps({"systems": 0, "helper_died": True}))
        sys.exit(0)
    stats = {"systems": 0, "consistent": 0, "inconsistent": 0, "rank_deficient": 0, "ok": 0, "err": 0, "violations": 0, "unmentioned_variables_checked": 0, "max_deviation": 0.0}
    seen = set()
    def viol(what, sig, rec):
        stats["violations"] += 1
        if sig not in seen:
            seen.add(sig)
            print("VIOLATION " + json.dumps({"property": "C04", "kind": "impl-violates-oracle", "what": what, "signature": sig,
                                             "input": {"requests": rec["requests"], "x0": rec["x0"]}}))
    for line in out.splitlines():
        if line.startswith("VIOLATION "):
            print(line); stats["violations"] += 1; continue
        if line.startswith("UNMENTIONED "):
            stats["unmentioned_variables_checked"] = int(line.split()[1]); continue
        if not line.startswith("LIN "):
            continue
        rec = json.loads(line[4:])
        stats["systems"] += 1
        nvar = len(rec["x0"])
        m = len(rec["rows"])
        x0 = sympy.Matrix([sympy.Rational(Fraction(v)) for v in rec["x0"]]) if nvar else sympy.zeros(0, 1)
        if m == 0 or nvar == 0:
            if rec["status"] == "ok" and [float(v) for v in rec["final"]] != [float(v) for v in rec["x0"]]:
                viol("no constraints but the guesses were changed", "no-constraints-changed", rec)
            continue
        A = sympy.zeros(m, nvar); b = sympy.zeros(m, 1)
        for i, (coeffs, rhs) in enumerate(rec["rows"]):
            for (v, c) in coeffs:
                A[i, v] += sympy.Rational(Fraction(c))
            b[i] = sympy.Rational(Fraction(rhs))
        c = b - A * x0
        y = A.pinv() * c            # exact: minimum-norm least-squares correction
        xs = x0 + y
        resid = A * xs - b
        consistent = all(r == 0 for r in resid)
        rank = A.rank()
        stats["consistent" if consistent else "inconsistent"] += 1
        if rank < nvar:
            stats["rank_deficient"] += 1
        scale = max([abs(float(v)) for v in rec["x0"]] + [abs(float(r[1])) for r in rec["rows"]] + [1.0])
        if rec["status"] != "ok":
            stats["err"] += 1
            if consistent:
                viol(f"a consistent linear system is not solved: {rec['status']}", "consistent-linear-not-solved", rec)
            else:
                # C04 demands success only of consistent systems; a contradictory system that fails is
                # outside the statement (the drift behind it is finding F16, reported under C12/C17)
                stats["inconsistent_not_solved"] = stats.get("inconsistent_not_solved", 0) + 1
            continue
        stats["ok"] += 1
        dev = max(abs(float(xs[i]) - float(rec["final"][i])) for i in range(nvar))
        stats["max_deviation"] = max(stats["max_deviation"], dev / scale)
        if dev > 1e-4 * scale:
            viol(f"result is {dev:.3e} from the minimum-norm least-squares point (scale {scale}, rank {rank}/{nvar}, consistent={consistent})",
                 "not-nearest-least-squares", rec)
    print("STATS " + json.dumps(stats))

if __name__ == "__main__":
    main()
