#!/usr/bin/env python3-vt
"""Compare recorded real solves (trace.impl / trace.iters) with the Lean model's replay
(trace.model), and check the certificates for the external numeric kernels:
  * LU:  (JᵀJ + λI) d = -Jᵀ r   for every recorded step (backward error),
  * SVD: V orthonormal, σ non-increasing and ≥ 0, ‖J v_k‖ = σ_k.
Result fields must agree exactly (final values bit for bit); per-iteration residuals and Jacobian
cells to a tolerance.  Prints a JSON summary; exit 0 iff nothing disagrees."""
import sys, json, struct, math, collections
import numpy as np

def f(bits):
    return struct.unpack("<d", struct.pack("<Q", int(bits)))[0]

def close(a, b, scale, xmax=0.0):
    if not math.isfinite(a) or not math.isfinite(b):
        # inf vs NaN is not distinguished: libm's hypot(inf, NaN) = inf has no counterpart in Lean's Float
        return (not math.isfinite(a)) and (not math.isfinite(b))
    if a == b:
        return True
    # last term: a residual such as hypot(..) - hypot(..) at coordinates of magnitude xmax inherits the
    # last-ulp difference between the two libm implementations of hypot (about 4.5 ulp(xmax) allowed)
    return abs(a - b) <= 1e-9 * max(abs(a), abs(b)) + 1e-11 * scale + 1e-15 * xmax

def parse_iters(s):
    out = {}
    if not s:
        return out
    for part in s.split(";"):
        ci, k, r, j = part.split(":")
        rv = None if r == "panic" else [f(x) for x in r.split(",") if x]
        jv = None if j == "panic" else [(int(c.split(".")[0]), int(c.split(".")[1]), f(c.split(".")[2])) for c in j.split(",") if c]
        out[(int(ci), int(k))] = (rv, jv)
    return out

def parse_case(line):
    """Pull what the certificates need out of the S record: λ is not in the record (constant);
    steps per call, svd per call, number of variables."""
    t = line.split(" ")
    gi = t.index("G")
    n = int(t[gi + 1])
    parse_case.guesses = [f(t[gi + 2 + 2 * q + 1]) for q in range(n)]
    ti = len(t) - 1 - t[::-1].index("T")
    i = ti + 2
    calls = []
    ncalls = int(t[ti + 1])
    for _ in range(ncalls):
        assert t[i] == "CALL"
        ni, ns = int(t[i + 1]), int(t[i + 2]); i += 3
        steps = []
        for _ in range(ns):
            if t[i] == "STEP":
                k = int(t[i + 1]); steps.append([f(x) for x in t[i + 2:i + 2 + k]]); i += 2 + k
            else:
                steps.append(None); i += 2
        svd = None
        if t[i] == "SVD":
            k = int(t[i + 1]); sigma = [f(x) for x in t[i + 2:i + 2 + k]]; i += 2 + k
            nr, nc = int(t[i]), int(t[i + 1]); i += 2
            V = np.array([f(x) for x in t[i:i + nr * nc]]).reshape(nr, nc) if nr * nc else np.zeros((nr, nc)); i += nr * nc
            svd = (np.array(sigma), V)
        else:
            i += 1
        calls.append((ni, steps, svd))
    return n, calls

def main():
    d = sys.argv[1]
    lam = float(sys.argv[2]) if len(sys.argv) > 2 else 1e-9
    cases = open(f"{d}/trace.cases").read().splitlines()
    imp = open(f"{d}/trace.impl").read().splitlines()
    its = open(f"{d}/trace.iters").read().split("\n")[:len(cases)]
    mod = open(f"{d}/trace.model").read().splitlines()
    meta = open(f"{d}/trace.meta").read().splitlines()
    S = {"cases": len(cases), "agreed": 0, "skipped_near_threshold": 0, "n_disagreements": 0, "disagreements": [],
         "per_class": collections.Counter(), "outcomes": collections.Counter(), "errors": collections.Counter(),
         "iterations_checked": 0, "lu_certificates": 0, "lu_skipped_nonfinite": 0, "svd_certificates": 0, "max_lu_backward_error": 0.0,
         "levels_hist": collections.Counter(), "impl_panics": 0, "warnings_seen": collections.Counter()}
    def bad(idx, what, extra=None):
        S["n_disagreements"] += 1
        if len(S["disagreements"]) < 20:
            S["disagreements"].append({"index": idx, "class": meta[idx].split(" ")[0], "what": what,
                                       "impl": imp[idx][:400], "model": (mod[idx] if idx < len(mod) else "")[:400],
                                       "case": cases[idx], **(extra or {})})
    if len(mod) != len(cases):
        bad(0, f"model produced {len(mod)} lines for {len(cases)} cases")
    for idx in range(min(len(cases), len(mod))):
        cls = meta[idx].split(" ")[0]
        S["per_class"][cls] += 1
        m = mod[idx]
        if " MARGIN " not in m:
            bad(idx, "model output unparsable"); continue
        res_m, rest = m.split(" MARGIN ", 1)
        margin_bits, iters_m = rest.split(" ITERS ", 1) if " ITERS " in rest else (rest.split(" ITERS")[0], "")
        margin = f(margin_bits)
        res_i = imp[idx]
        S["outcomes"][res_i.split(" ")[0]] += 1
        if res_i.startswith("ERR"):
            S["errors"][res_i.split(" ")[1].split(":")[0]] += 1
        if res_i.startswith("PANIC"):
            S["impl_panics"] += 1
        for w in (res_i.split(" W ")[1].split(" ")[0].split(",") if " W " in res_i else []):
            if w:
                S["warnings_seen"][w.split(":")[1]] += 1
        n, calls = parse_case(cases[idx])
        guesses0 = parse_case.guesses
        S["levels_hist"][len(calls)] += 1
        extreme = False
        for tok in cases[idx].split(" T ")[0].split(" "):
            if tok.isdigit() and int(tok) > (1 << 40):
                v = f(tok)
                # (numbers below 1e-100 in magnitude are as extreme as those above 1e100: their
                # reciprocals and squares over- / underflow, and Lean's Float has no overflow-safe hypot)
                if not math.isfinite(v) or abs(v) > 1e100 or (v != 0.0 and abs(v) < 1e-100):
                    extreme = True; break
        ok = True
        if res_i.startswith("PANIC"):
            if not res_m.startswith("ERR Panic"):
                bad(idx, "implementation panicked, model did not"); ok = False
        elif res_i != res_m:
            if extreme:
                # NaN / inf / 1e300 in the input: Lean's Float has no overflow-safe hypot; the
                # malformed stream is judged on the implementation alone (no panic, finite out).
                S["skipped_extreme_inputs"] = S.get("skipped_extreme_inputs", 0) + 1
                continue
            if margin < 1e-7:
                S["skipped_near_threshold"] += 1
                continue
            bad(idx, "result differs"); ok = False
        if extreme:
            # NaN / inf / 1e300 in the input: numbers are not compared (no overflow-safe hypot in Lean)
            S["skipped_extreme_numeric"] = S.get("skipped_extreme_numeric", 0) + 1
            if ok:
                S["agreed"] += 1
            continue
        # per-iteration numbers
        ii, im = parse_iters(its[idx]), parse_iters(iters_m)
        if ok and set(ii.keys()) != set(im.keys()):
            bad(idx, f"iterations visited differ: impl {sorted(ii.keys())} model {sorted(im.keys())}"); ok = False
        if ok:
            allx = [abs(f(x)) for x in []]
            for key in sorted(ii.keys()):
                (ri, ji), (rm, jm) = ii[key], im[key]
                if rm is None or jm is None:
                    bad(idx, f"model panics at iteration {key}"); ok = False; break
                if len(ri) != len(rm) or [(a, b) for a, b, _ in ji] != [(a, b) for a, b, _ in jm]:
                    bad(idx, f"shape of residual / pattern differs at {key}"); ok = False; break
                fin = [abs(v) for v in ri if math.isfinite(v)] + [abs(v) for _, _, v in ji if math.isfinite(v)]
                scale = max(fin + [1.0])
                # magnitude of the coordinates at this iteration: guesses plus the recorded steps so far
                xs_k = list(guesses0)
                for st in calls[key[0]][1][:key[1]]:
                    if st is not None and len(st) == len(xs_k):
                        xs_k = [p_ + q_ for p_, q_ in zip(xs_k, st)]
                xmax = max([abs(v) for v in xs_k if math.isfinite(v)] + [0.0])
                if xmax > 1e10:
                    # a run that has diverged to coordinates of 1e10 and beyond: one ulp of such a
                    # coordinate (>= 1e-6) flips the kernels' internal gates (0.05, EPSILON), after which
                    # whole rows differ; shapes were compared above, the numbers are not
                    S["iterations_skipped_huge_coordinates"] = S.get("iterations_skipped_huge_coordinates", 0) + 1
                    continue
                if scale > 1e100:
                    continue  # overflow territory: Lean has no overflow-safe hypot
                for a, b in zip(ri, rm):
                    if not close(a, b, scale, xmax):
                        bad(idx, f"residual differs at {key}: impl {a!r} model {b!r}"); ok = False; break
                if not ok: break
                for (r_, c_, a), (_, _, b) in zip(ji, jm):
                    if not close(a, b, scale, xmax):
                        bad(idx, f"jacobian cell ({r_},{c_}) differs at {key}: impl {a!r} model {b!r}"); ok = False; break
                if not ok: break
                S["iterations_checked"] += 1
                # LU certificate
                ci, k = key
                steps = calls[ci][1]
                if k < len(steps) and steps[k] is not None:
                    dvec = np.array(steps[k])
                    mrows = len(ri)
                    J = np.zeros((mrows, n))
                    for r_, c_, v in ji:
                        if c_ < n: J[r_, c_] = v
                    rvec = np.array(ri)
                    if not (np.all(np.isfinite(J)) and np.all(np.isfinite(rvec)) and np.all(np.isfinite(dvec))):
                        S["lu_skipped_nonfinite"] += 1
                    else:
                        A = J.T @ J + lam * np.eye(n)
                        b = -J.T @ rvec
                        num = np.linalg.norm(A @ dvec - b, np.inf)
                        # b = -Jᵀr is itself formed in floating point: its rounding error is bounded
                        # componentwise by γ·|Jᵀ||r|, so that is the scale a residual is measured against.
                        den = np.linalg.norm(A, np.inf) * np.linalg.norm(dvec, np.inf) + np.linalg.norm(np.abs(J.T) @ np.abs(rvec), np.inf) + 1e-300
                        be = num / den
                        S["max_lu_backward_error"] = max(S["max_lu_backward_error"], float(be))
                        S["lu_certificates"] += 1
                        # C04.1: a variable no constraint mentions (structurally empty column) gets a
                        # step component that is exactly zero (GN.untouched_var_step_zero over the reals)
                        used = {c_ for _, c_, _ in ji}
                        for col in range(n):
                            if col not in used:
                                S["zero_column_steps_checked"] = S.get("zero_column_steps_checked", 0) + 1
                                if dvec[col] != 0.0:
                                    bad(idx, f"step component of unmentioned variable {col} is {dvec[col]!r}, not 0, at {key}"); ok = False
                        if not ok: break
                        if be > 1e-12:  # observed maximum over all tiers and seeds: 4.5e-16
                            bad(idx, f"LU certificate fails at {key}: backward error {be:.3e}"); ok = False; break
                        # the damping term itself: with the extracted lambda the residual A d - b is pure
                        # rounding noise (~1e-16 of den); a solve that used another damping (0, 2*lambda,
                        # lambda on part of the diagonal) leaves a residual of about lambda*|d|, which the
                        # relative test above cannot see when |J^T J| is large
                        dn = np.linalg.norm(dvec, np.inf)
                        if dn > 0 and lam > 0 and lam * dn > 1e4 * 2.2e-16 * den:
                            S["damping_certificates"] = S.get("damping_certificates", 0) + 1
                            if num > 0.25 * lam * dn + 1e3 * 2.2e-16 * den:
                                bad(idx, f"damping certificate fails at {key}: |A d - b| = {num:.3e} is of the order of lambda*|d| = {lam * dn:.3e} (the linear solve did not use the extracted damping)"); ok = False; break
            # SVD certificates (against the Jacobian of the last iteration of that call)
            if ok:
                for ci, (ni, steps, svd) in enumerate(calls):
                    if svd is None or ni == 0 or (ci, ni - 1) not in ii:
                        continue
                    sigma, V = svd
                    ri, ji = ii[(ci, ni - 1)]
                    J = np.zeros((len(ri), n))
                    for r_, c_, v in ji:
                        if c_ < n: J[r_, c_] = v
                    if not np.all(np.isfinite(J)) or not np.all(np.isfinite(V)) or not np.all(np.isfinite(sigma)):
                        continue
                    smax = max(float(sigma.max()) if len(sigma) else 0.0, 1e-300)
                    if 0.0 < np.abs(J).max() < 1e-100:
                        continue  # Jacobian at underflow scale: relative accuracy is not meaningful
                    e1 = np.abs(V.T @ V - np.eye(V.shape[1])).max() if V.size else 0.0
                    e2 = 0.0
                    for kk in range(len(sigma)):
                        e2 = max(e2, abs(np.linalg.norm(J @ V[:, kk]) - sigma[kk]) / smax)
                    for kk in range(len(sigma), V.shape[1]):
                        e2 = max(e2, np.linalg.norm(J @ V[:, kk]) / smax)
                    # the contract the Lean theorems use (GN.SvdSpec): VᵀJᵀJV = diag(σ², 0…)
                    sp = np.zeros(V.shape[1]); sp[:len(sigma)] = sigma ** 2
                    e3 = np.abs(V.T @ (J.T @ J) @ V - np.diag(sp)).max() / max(smax * smax, 1e-300) if V.size else 0.0
                    S["max_svd_diag_error"] = max(S.get("max_svd_diag_error", 0.0), float(e3))
                    e2 = max(e2, e3)
                    mono = all(sigma[i] >= sigma[i + 1] - 1e-12 * smax for i in range(len(sigma) - 1)) and all(s >= 0 for s in sigma)
                    S["svd_certificates"] += 1
                    if e1 > 1e-9 or e2 > 1e-9 or not mono:
                        bad(idx, f"SVD certificate fails for call {ci}: orth {e1:.2e} resid {e2:.2e} mono {mono}"); ok = False; break
        if ok:
            S["agreed"] += 1
    for k in ["per_class", "outcomes", "errors", "levels_hist", "warnings_seen"]:
        S[k] = {str(a): b for a, b in S[k].items()}
    print(json.dumps(S))
    sys.exit(0 if S["n_disagreements"] == 0 else 1)

if __name__ == "__main__":
    main()
