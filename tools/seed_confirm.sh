#!/bin/bash
# usage: seed_confirm.sh <seed-dir> <worktree> [demo-relpath] [extra cargo test args for the demo]
# Confirms a seeded change in a scratch worktree: (1) demo passes on the clean tree, (2) with the
# patch the whole existing suite passes and (3) the demo fails.  Leaves the worktree clean.
set -u
SEED=$1; WT=$2; DEMO=${3:-kcl-ezpz/tests/seed_demo.rs}; EXTRA=${4:-}
export CARGO_NET_OFFLINE=true CARGO_TARGET_DIR=$WT/target
cd "$WT" || exit 2
git checkout -q -- . ; rm -f "$DEMO"
PKG=$(echo "$DEMO" | cut -d/ -f1)
mkdir -p "$(dirname "$DEMO")"; cp "$SEED/demo.rs" "$DEMO"
echo "== demo on clean tree"; cargo test -p $PKG --test seed_demo --offline $EXTRA 2>&1 | grep -E "^test result|error\[" | head -3
git apply "$SEED/patch.diff" || { echo "PATCH DOES NOT APPLY"; rm -f "$DEMO"; exit 3; }
echo "== demo with patch"; cargo test -p $PKG --test seed_demo --offline $EXTRA 2>&1 | grep -E "^test result|error\[" | head -3
rm -f "$DEMO"
echo "== full suite with patch"; cargo test --workspace --no-fail-fast --offline 2>&1 | grep -E "^test result|error\[" | head -6
git checkout -q -- . ; git status --short | head -3
