#!/bin/sh
# usage: run_trace.sh <seed> <n> <dir> [classes]
set -e
ROOT=$(cd "$(dirname "$0")/.." && pwd)
mkdir -p "$3"
"$ROOT/harness/target/debug/corr_trace" "$1" "$2" "$3" $4
"$ROOT/lean/.lake/build/bin/ezpz-driver" < "$3/trace.cases" > "$3/trace.model"
python3-vt "$ROOT/tools/compare_trace.py" "$3"
