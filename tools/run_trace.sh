#!/bin/sh
# usage: run_trace.sh <seed> <n> <dir> [classes]
set -e
mkdir -p "$3"
/verif/harness/target/debug/corr_trace "$1" "$2" "$3" $4
/verif/lean/.lake/build/bin/ezpz-driver < "$3/trace.cases" > "$3/trace.model"
python3-vt /verif/tools/compare_trace.py "$3"
