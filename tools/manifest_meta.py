"""Human-written texts for MANIFEST.json (see tools/gen_manifest.py)."""
HOOK_COMMITS = ["ce911b9", "6681dd4", "46c7d56", "d178c2c"]
NOTES = ("Every check: (1) regenerates the constants/tables translation from /repo, (2) re-checks the property's Lean theorems "
         "and audits their axioms, (3) rebuilds the harness against /repo's working tree and runs the model-vs-implementation "
         "correspondence suites the property depends on, (4) runs the property's oracle on the real code. See DESIGN.md.")
NOT_CLAIMED = {}
CHECKS = {
    "C12": {
        "text": "Machine-checked proof (Lean 4; every scalar type unless said otherwise) of the bookkeeping the property is about: the three row counters (pattern construction, residual fill, derivative scatter) agree - every scattered cell is a pattern cell of the same request at the same row offset, request i's residual components sit at rows rowOffset(i)..; permuting the request list permutes the residual and the (column, value) contributions as multisets, with explicit row maps for adjacent swaps, and never changes which error is raised; renumbering the variables by any injective map (guess list reordered to match) leaves every residual, warning, lint, validation result and the unsatisfied sweep unchanged and maps Jacobian columns through the renumbering (all 23 kinds); over the reals the damped step is invariant under row permutations and equivariant under column permutations, and the residual test, step norm and relative-step threshold depend only on multisets; the priority levels do not depend on the listing order; and lifted to the solve of one priority level: with exact solvers, reordering the requests yields the same values, iteration count, solved priority and under-constrained set and the same unsatisfied requests and warnings up to order, and renumbering the variables yields the reordered values and otherwise the identical outcome (solveInner_perm, solveInner_renumber).",
        "design_ref": "DESIGN.md §6 C12",
        "note": "The end-to-end equivariance of the f64 solve ('up to numerical noise') is the oracle's subject: all permutations for <= 4 requests, sampled otherwise, plus renumberings, on the real code. F16 is a known finding.",
        "technique": "Lean 4 proof (induction over the request list; case analysis over the 23 kinds for renaming; Mathlib matrix algebra for the step) + kernel/trace correspondence + permutation / renumbering oracle on the real code",
    },
    "C15": {
        "text": "Machine-checked proof (Lean 4): over the reals, an explicit-angle request of 0/180/360 degrees or 0/pi/2pi radians gets exactly the 'use Parallel' warning naming it and +-90 degrees or +-pi/2 radians the 'use Perpendicular' one; an angle more than 0.01 degrees from every multiple of 90 (sharp version: at least EPSILON from the five tested values) gets none; no other kind gets one; the two are never confused and a request gets at most one; for every scalar type, every return path of a level (Ok, validation, Newton, sweep and analysis failures) carries the lint of the attempted subset, the public entry point carries the lint of the subset it returns (all requests when there is one priority level); every degeneracy notice names a request whose evaluation raised the flag at a visited configuration; the flag is characterised geometrically per guarded kind; and a collapse at the initial guess always yields the notice for that request, in Ok and Err results alike.",
        "design_ref": "DESIGN.md §6 C15",
        "note": "The 'always' clause is false of the code for requests above the returned priority level: known finding F12, with a machine-checked negation witness. The f64 lint at the special values in both units and the absence of notices on clean starts are checked by the oracle on the real code.",
        "technique": "Lean 4 + Mathlib proof (interval arithmetic on the lint thresholds; provenance of warnings through the loop; guard characterisation per kind) + kernel/trace correspondence + warning-audit oracle on the real code",
    },
    "C16": {
        "text": "Machine-checked proof (Lean 4) about the model of the command-line program: the exit status is 0 exactly when the text was read, parsed, built and solved through the library, and 1 with a diagnostic otherwise; the only panic sites on the path (executor indexing, labelling, print_unsatisfied indexing) are unreachable for every text - the CLI panics iff the library's solve does; on success the standard output is exactly warnings, the unsatisfied section (one line per index, in order), the size / iterations / priority lines with the library's own numbers, and with --show-points one line per labelled point, circle and arc, each section depending only on its own list (arcs are printed without circles); the benchmark re-solves return the first result.",
        "design_ref": "DESIGN.md §6 C16",
        "note": "Mostly translation validation: the release binary built from /repo's working tree is run by path and by stdin and compared line by line with the model's rendering; the model's parse / build stages and sizes are recomputed from the text and compared with what the library reported.",
        "technique": "Lean 4 proof (decision table of main; index bounds from C03/C07/C09) + exact text correspondence + binary-vs-model differential on generated texts",
    },
    "C17": {
        "text": "Machine-checked proof (Lean 4) of why independent groups cannot influence each other: for request groups sharing no variables the assembled Jacobian is block diagonal and the residual a concatenation at every configuration, for any scalar type, with each group's rows depending only on that group's variables; over the reals the damped step of the union is exactly the pair of the groups' own steps, the union's residual test passes iff every group's does, and the union's step norm is the largest group norm; lifted to the loop: while both groups keep iterating, the k-th iterate of the union is the concatenation of the groups' k-th iterates, the union returns at the residual test exactly when both groups do, and a group's new values never depend on the other group's variables (exact solvers satisfy the block hypothesis used); an Ok result never contains a non-finite value (the NaN cross-talk path named in the property is closed by the fix of F3).",
        "design_ref": "DESIGN.md §6 C17",
        "note": "Equality of returned values across different iteration counts is a convergence quantity: searched on the real code with unions of up to 200 groups, interleaved requests and shuffled numbering. F16 is a known finding.",
        "technique": "Lean 4 proof (append laws of the assembly; Mathlib block matrices) + trace-replay correspondence + union-vs-parts oracle on the real code",
    },
    "C05": {
        "text": "Machine-checked proof (Lean 4 + Mathlib, over the reals) that the coded freedom analysis (rank by sigma > 1e-8*sigma_max, columns rank..n of V, participation norm, > 1e-3*max) reports variable j if and only if some direction v with J v = 0 has v_j != 0, whenever (sigma, V) satisfies the part of the SVD contract the code relies on and the spectrum and participations have a gap (the property's well-separated cases); that the squared participation is the squared length of the projection of e_j on ker J; that an unmentioned variable is reported and a pinned one is not; and (every scalar type) that the Jacobian analysed is that of exactly the attempted requests at a visited configuration (the returned one after a residual-test stop), that the answer is a strictly increasing list of positions < n, and that with no constraints every variable is reported.",
        "design_ref": "DESIGN.md §6 C05",
        "note": "Tied to find_dof.rs by trace replay: calculate is re-run by the model as an exact function of Rust's (sigma, V); the SVD contract is checked as a certificate with numpy. The oracle compares with an independent finite-difference null space on the real code.",
        "technique": "Lean 4 + Mathlib proof (orthogonal diagonalisation of JtJ; list-level characterisation of calculate) + trace-replay correspondence with SVD certificate + independent null-space oracle",
    },
    "C02": {
        "text": "Machine-checked proof (Lean 4): for every scalar type, each round of the model's loop is 'residual test, then the solver's step for the Jacobian and residual at the current point, then x + d, then the step test', and a start at an exact solution returns at once; over the reals (Mathlib) the damped step exists, is unique, is a descent direction and vanishes exactly at stationary points; on consistent linear systems no step moves away from any solution; and the abstract contraction argument: a 1/2-contraction towards x* on a ball containing the guess keeps every iterate in the ball, halves the error each round and never takes an iterate farther from the guess than 1.5 times the guess-to-x* distance (quadratic error reduction implies the hypothesis). and the link from derivative information to that hypothesis: if the error map is differentiable at x* with a Jacobian whose smallest singular value squared exceeds lambda, the exact damped Gauss-Newton iteration halves the error every round on a ball around x* and never leaves the 1.5x bound (gauss_newton_local_C02). With C13 (Jacobian = derivative for all 23 kinds) this is the whole logical content; convergence of the f64 iteration on a given system is searched on the real code, not proved.",
        "design_ref": "DESIGN.md §6 C02",
        "note": "Partial by nature: the property is about floating-point Newton convergence. The planted-solution oracle on the real code is the property's own quantifier; F15 (rare >1.5x landings on under-determined systems) is a known finding.",
        "technique": "Lean 4 proof (loop anatomy by case analysis; Mathlib linear algebra for the step; induction for the contraction bound) + kernel/trace correspondence with step certificate + planted-solution oracle on the real code",
    },
    "C04": {
        "text": "Machine-checked proof (Lean 4): for every scalar type, a variable whose step component is a neutral element keeps its guess through every round, level and in the returned values, and an empty request list returns the guesses; over the reals (Mathlib), the exact step has a zero component for every variable whose Jacobian column is zero, the linear kinds are affine with constant Jacobian rows (all aliasings), one damped step is the minimiser of |Ax-b|^2 + lambda|x-x0|^2, the total displacement stays orthogonal to the kernel of A, the gradient after a step is exactly -lambda*d, a stationary point is a global least-squares minimiser, a stationary point whose displacement lies in range(A^T) is the unique least-squares point nearest the guess, and on a consistent system the exact iteration converges geometrically (factor lambda/(c+lambda) per round) to the solution nearest the guess.",
        "design_ref": "DESIGN.md §6 C04",
        "note": "The 1e-4*scale closeness of the f64 result is compared with an exact rational minimum-norm least-squares oracle (sympy) on the real code; trace replay checks d_j == 0 for unmentioned variables on every recorded iteration.",
        "technique": "Lean 4 proof (loop invariant for untouched variables; Mathlib matrix algebra for Tikhonov / nearest least squares) + kernel/trace correspondence + exact rational least-squares oracle",
    },
    "C03": {
        "text": "Machine-checked proof (Lean 4) that the model's prioritised solve returns, for every request list, priority assignment and per-level behaviour, exactly the outcome of the last level of the maximal fully-satisfied prefix (or the first level's own error / best effort), with the solved priority and caller positions reported; for every scalar type, so also for the Float instantiation that is replayed against recorded runs of the real solver.",
        "design_ref": "DESIGN.md §6 C03",
        "note": "Theorems are about the hand-written model; the tie to lib.rs is the trace-replay correspondence (sampled) and the differential oracle solve(reqs) vs single-level solves of each cumulative subset on the real code. solve_inner is a parameter of the theorems.",
        "technique": "Lean 4 proof by induction over the level list (loop = fold; fold spec) + trace-replay correspondence + differential oracle",
    },
    "C14": {
        "text": "Machine-checked proof (Lean 4, every scalar type, every LU oracle) that the Newton loop reports fewer rounds than the cap, that any result other than DidNotConverge (in particular every success, bit for bit) is reproduced under every larger cap, that DidNotConverge under a cap implies DidNotConverge under every smaller cap, and that the public entry point inherits this for one priority level (several levels: under the stated hypothesis; the general statement is false of the code, known finding F11).",
        "design_ref": "DESIGN.md §6 C14",
        "note": "Model tied to newton.rs / lib.rs by trace replay across caps 0..200 and tolerances; the oracle runs the three relations of the statement on the real code. The tolerance clause (f64 convergence) is only searched, not proved.",
        "technique": "Lean 4 proof by induction on the iteration cap (fuel monotonicity) + trace-replay correspondence + cap-sweep oracle on the real code",
    },
    "C01": {
        "text": "Machine-checked proof (Lean 4, every scalar type) that the unsatisfied list of a successful result is exactly the list of caller positions of the attempted requests whose own error measure fails the EPSILON threshold at the returned coordinates; what each error measure means geometrically is proved over the reals for all 23 kinds (each live component equals the documented geometric quantity, with its scale factor and sign; 'satisfied' iff that quantity is within EPSILON; zero iff the exact geometric predicate), against a coordinate vocabulary written independently of the kernels, with the guard cases stated explicitly; for the f64 code the same specification is checked by an independent geometric oracle on the real solver.",
        "design_ref": "DESIGN.md §6 C01",
        "note": "The f64 residual code is tied to the model by corr-kernels (all kinds, all aliasing patterns); the geometric oracle (harness/src/geom.rs) is written from the documented meaning, not from the kernels. PointArcCoincident's sweep is a known finding (F14).",
        "technique": "Lean 4 proof (sweep = filter) + kernel/trace correspondence + independent geometric oracle on the real code",
    },
    "C06": {
        "text": "Machine-checked proof (Lean 4, every scalar type) that in the model no Rust panic site is reachable at any priority level for any requests (aliased, out-of-range, duplicate ids), guesses and configuration — reads are of declared ids, reported Jacobian ids are declared in the same row so the scatter finds its cell, the row dimension is 1..3 — under the stated contracts of faer's LU and SVD; that the loop runs at most max_iterations rounds; and that every value of an Ok result is a guess or passed the finiteness guard.",
        "design_ref": "DESIGN.md §6 C06",
        "note": "Panic sites are explicit in the model and their reachability is what is proved; the model's read sets are tied to the code by the out-of-range stream of corr-kernels (panic iff model says none). Panics inside faer and allocation failure are outside the model; the malformed-input oracle runs the real entry points under catch_unwind.",
        "technique": "Lean 4 proof (index discipline by case analysis over the 23 kinds; loop invariants) + kernel/trace correspondence incl. malformed stream + malformed-input oracle",
    },
    "C07": {
        "text": "Machine-checked proof (Lean 4, every scalar type) that a successful result has one value per guess, that the unsatisfied list is strictly increasing and names attempted requests by caller position, that every warning names (by caller position) an attempted request of the right kind — lint: a LinesAtAngle(Other) request; Degenerate: a request whose evaluation raised the flag at a visited assignment —, that the solved priority is requested, and that failures carry the true sizes; values-by-id under the dense-ids hypothesis (false otherwise: known finding F5, with a proved negation witness).",
        "design_ref": "DESIGN.md §6 C07",
        "note": "Tied to lib.rs / solver.rs by trace replay of every report field; the oracle re-derives every index on the real code from recorded visited configurations.",
        "technique": "Lean 4 proof (provenance of every report field through the loop) + trace-replay correspondence + report oracle on the real code",
    },
    "C10": {
        "text": "The model is a pure function (determinism by rfl). Machine-checked proof (Lean 4, every scalar type) that the priority levels do not depend on the collection order of the priority set, that a failure of solve is the same failure of solve_analysis, that a successful analysis run yields the plain run's outcome, and that if the analysis succeeds at every attempted level the two entry points agree field by field (general statement false: known finding F10). Cross-process bit-reproducibility is sampled by a digest comparison between two fresh processes.",
        "design_ref": "DESIGN.md §6 C10",
        "note": "faer/libm reproducibility across processes is a runtime property: sampled, not proved. faer's feature list (no rayon) is extracted from Cargo.toml on every run.",
        "technique": "Lean 4 proof (loop commutes with forgetting the analysis) + trace-replay correspondence + repeated-call / two-process digest oracle",
    },
    "C11": {
        "text": "Machine-checked proof (Lean 4, every scalar type, every LU oracle) that if the residual test passes at the guesses (for every attempted subset) the solve returns the guesses bit for bit with 0 iterations and never consults the linear solver, and that any run which returned at the residual test is a fixed point of re-solving (chains of any length).",
        "design_ref": "DESIGN.md §6 C11",
        "note": "Tied to newton.rs by trace replay (first-iteration decision, order 'residual test before the step' also checked by the translator); the chain oracle re-solves real results up to 4 times, adding already-satisfied constraints.",
        "technique": "Lean 4 proof (one unfolding of the loop; ghost 'stopped at residual test' flag) + trace-replay correspondence + re-solve chain oracle",
    },
    "C08": {
        "text": "Machine-checked proof (Lean 4) that, for any number of points, circles and arcs in any declaration order, the executor's label lookups return exactly the variable ids of an independently written layout specification (sequential allocation points → circles → arcs; arcs after the points AND the circles), that every point-role / radius label resolves to the specified entity with the documented precedence or to an UndefinedPoint error, and that the variable list has one slot per specified variable. Grammar, guess values and labelled outcome: exact differential correspondence plus comparison with hand-built constraints.",
        "design_ref": "DESIGN.md §6 C08",
        "note": "The lowering of each instruction form is tied to executor.rs by corr-text (exact comparison of constraints, guesses and labels on generated texts that mix circles and arcs) and by the hand-built-constraints oracle; the winnow grammar is modelled by hand.",
        "technique": "Lean 4 proof (layout invariant of the variable builder; index arithmetic) + exact text correspondence + hand-built-constraints oracle",
    },
    "C09": {
        "text": "Machine-checked proof (Lean 4) that the model executor never indexes out of bounds for any parsed problem (it returns Ok or a textual error), that an accepted problem has a guess for every declared entity and no guess for an undeclared one, that an unresolvable label is an UndefinedPoint error, and that every constraint-stating instruction of an accepted problem contributes exactly one constraint; the model parser is total. Stack depth and input length are exercised on the real parser in a child process.",
        "design_ref": "DESIGN.md §6 C09",
        "note": "Tied to parser.rs / executor.rs by the exact correspondence on the mutation stream (accept/reject, error class and label, instruction list). Stack overflow is a runtime behaviour no Lean term exhibits: observed through a child process's exit status.",
        "technique": "Lean 4 proof (executor totality, guess-map accounting, one-constraint-per-instruction) + exact text correspondence on a mutation stream + child-process stress run",
    },
    "C13": {
        "text": "Machine-checked proof (Lean 4 + Mathlib, over the reals) that for the constraint kinds listed in the evidence the model's Jacobian row applied to any direction is the derivative of the model's error measure along that direction, at every configuration outside the kind's guard set and for every assignment of variable ids to the constraint's slots (aliasing included); and (every scalar type) that the error measure ignores undeclared variables and every reported variable is declared for its row. Kinds not yet proved are covered by a finite-difference oracle on the real code.",
        "design_ref": "DESIGN.md §6 C13",
        "note": "The model's formulas are tied to constraints.rs by corr-kernels (exact ids, flags and branch; floats to 1e-9) over all 27 shapes and all aliasing patterns; the FD oracle works on the real residual / jacobian_rows through the verif-hooks wrappers.",
        "technique": "Lean 4 + Mathlib HasDerivAt proofs per kind and row (structural derivative + field_simp/ring) + kernel correspondence + finite-difference oracle",
    },
}
