"""Human-written texts for MANIFEST.json (see tools/gen_manifest.py)."""
HOOK_COMMITS = ["ce911b9", "6681dd4", "46c7d56"]
NOTES = ("Every check: (1) regenerates the constants/tables translation from /repo, (2) re-checks the property's Lean theorems "
         "and audits their axioms, (3) rebuilds the harness against /repo's working tree and runs the model-vs-implementation "
         "correspondence suites the property depends on, (4) runs the property's oracle on the real code. See DESIGN.md.")
NOT_CLAIMED = {}
CHECKS = {
    "C03": {
        "text": "Machine-checked proof (Lean 4) that the model's prioritised solve returns, for every request list, priority assignment and per-level behaviour, exactly the outcome of the last level of the maximal fully-satisfied prefix (or the first level's own error / best effort), with the solved priority and caller positions reported; for every scalar type, so also for the Float instantiation that is replayed against recorded runs of the real solver.",
        "design_ref": "DESIGN.md §6 C03",
        "note": "Theorems are about the hand-written model; the tie to lib.rs is the trace-replay correspondence (sampled) and the differential oracle solve(reqs) vs single-level solves of each cumulative subset on the real code. solve_inner is a parameter of the theorems.",
        "technique": "Lean 4 proof by induction over the level list (loop = fold; fold spec) + trace-replay correspondence + differential oracle",
    },
}
