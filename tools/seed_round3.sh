#!/bin/bash
# usage: seed_round3.sh <seed-dir> <worktree> : reads "breaks: Cxx" from notes.md, confirms, evaluates
SEED=$1; WT=$2
PROP=$(head -3 "$SEED/notes.md" | grep -o -m1 "C[01][0-9]")
[ -z "$PROP" ] && { echo "no property named in $SEED/notes.md"; exit 2; }
DEMO=kcl-ezpz/tests/seed_demo.rs
grep -q "ezpz-cli/tests" "$SEED/notes.md" 2>/dev/null && DEMO=ezpz-cli/tests/seed_demo.rs
EXTRA=""
grep -q "verif-hooks" "$SEED/demo.rs" 2>/dev/null && EXTRA="--features verif-hooks"
echo "### $SEED breaks $PROP (demo at $DEMO $EXTRA)"
/verif/tools/seed_confirm.sh "$SEED" "$WT" "$DEMO" "$EXTRA" 2>&1 | grep -E "^==|test result|error|PATCH" | grep -v "ok. 3 passed\|ok. 74\|ok. 18\|ok. 0 passed" | head -12
rm -rf "$WT/ezpz-cli/tests"; git -C "$WT" checkout -q -- . 
/verif/tools/seed_eval.sh "$SEED/patch.diff" "$PROP" 2>&1 | grep -E "rc=|suite|oracle" | cut -c1-230
