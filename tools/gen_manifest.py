#!/usr/bin/env python3
"""Regenerates MANIFEST.json from tools/props.py (claimed properties) and tools/manifest_meta.py."""
import json, os, sys
ROOT = os.path.dirname(os.path.dirname(os.path.abspath(__file__)))
sys.path.insert(0, os.path.join(ROOT, "tools"))
import props, manifest_meta as mm

checks = []
for pid in sorted(props.PROPS):
    meta = mm.CHECKS[pid]
    checks.append({
        "property_id": pid,
        "quick_cmd": f"./check {pid} --tier quick",
        "thorough_cmd": f"./check {pid} --tier thorough",
        "evidence_file": f"/verif/evidence/{pid}.json",
        "replay_cmd_template": f"./check {pid} --replay {{path}}",
        "engine": "lean4-model+correspondence",
        "level_claimed": {"category": "proof", "text": meta["text"], "design_ref": meta["design_ref"]},
        "level_note": meta["note"],
        "technique": meta["technique"],
    })
all_ids = [json.loads(l)["id"] for l in open(os.path.join(ROOT, "properties.jsonl"))]
na = [{"property_id": pid, "reason": mm.NOT_CLAIMED.get(pid, "check not built yet in this session; no claim is made")}
      for pid in all_ids if pid not in props.PROPS]
manifest = {
    "version": 1,
    "setup_cmd": "./setup.sh",
    "hooks": {
        "guard": "cargo feature `verif-hooks` of kcl-ezpz (off by default)",
        "enable": "the harness depends on /repo/kcl-ezpz by path with features = [\"verif-hooks\", \"unstable-exhaustive\"] (harness/Cargo.toml); built by ./setup.sh and by every ./check run",
        "baseline_off_cmd": "cd /repo && CARGO_NET_OFFLINE=true cargo test --workspace --no-fail-fast --offline",
        "source_commits": mm.HOOK_COMMITS,
        "add_only": True,
    },
    "engines": [
        {"name": "lean4-model+correspondence", "path": "/verif/lean", "serves_properties": sorted(props.PROPS),
         "kind_free_text": "Lean 4 model of the solver (generic in the scalar type) with machine-checked theorems; tied to the Rust code by a constants translator and differential / trace-replay correspondence run by /verif/check"},
    ],
    "checks": checks,
    "notes": mm.NOTES,
    "not_applicable": na,
}
json.dump(manifest, open(os.path.join(ROOT, "MANIFEST.json"), "w"), indent=1)
print("MANIFEST.json:", len(checks), "checks,", len(na), "not claimed")
