#!/usr/bin/env python3
"""C16 check on the real binary: for generated problem texts (valid, unsolvable, contradictory,
malformed) passed by path and by standard input, the `ezpz` command built from /repo's working tree
must exit 0 exactly when the library parses, builds and solves the text, never panic, and print what
the Lean CLI model renders from the library's outcome (problem size, iterations, solved priority,
unsatisfied indices, warnings, points / circles / arcs with --show-points).
Usage: oracle_c16.py <seed> <n>"""
import sys, os, re, json, subprocess, shutil

ROOT = os.path.dirname(os.path.dirname(os.path.abspath(__file__)))
REPO = os.environ.get("EZPZ_REPO", "/repo")
ANSI = re.compile(r"\x1b\[[0-9;]*m")

def main():
    seed, n = sys.argv[1], int(sys.argv[2])
    work = os.path.join(ROOT, "work", "cli")
    shutil.rmtree(work, ignore_errors=True)
    os.makedirs(work)
    env = dict(os.environ, CARGO_NET_OFFLINE="true", NO_COLOR="1")
    tdir = os.path.join(ROOT, "harness", "target", "cli")
    b = subprocess.run(["cargo", "build", "--release", "--offline", "-p", "ezpz-cli", "--manifest-path", os.path.join(REPO, "Cargo.toml"),
                        "--target-dir", tdir], capture_output=True, text=True, env=env)
    exe = os.path.join(tdir, "release", "ezpz")
    if b.returncode != 0 or not os.path.exists(exe):
        print("STATS " + json.dumps({"systems": 0, "error": "cannot build ezpz-cli: " + b.stderr[-400:]}))
        sys.exit(3)
    subprocess.run([os.path.join(ROOT, "harness/target/debug/dump_c16"), seed, str(n), work, REPO], check=True, capture_output=True)
    cases = open(os.path.join(work, "cli.cases")).read().splitlines()
    meta = open(os.path.join(work, "cli.meta")).read().splitlines()
    with open(os.path.join(work, "cli.cases")) as fin:
        model = subprocess.run([os.path.join(ROOT, "lean/.lake/build/bin/ezpz-driver")], stdin=fin, capture_output=True, text=True).stdout.splitlines()
    stats = {"systems": 0, "runs": 0, "exit0": 0, "exit1": 0, "by_kind": {}, "by_status": {}, "violations": 0}
    seen = set()
    def viol(what, sig, text, extra=None):
        stats["violations"] += 1
        if sig not in seen:
            seen.add(sig)
            print("VIOLATION " + json.dumps({"property": "C16", "kind": "impl-violates-oracle", "what": what, "signature": sig,
                                             "input": {"text": text, **(extra or {})}}))
    for ci, line in enumerate(cases):
        i, showp = ci // 2, ci % 2
        kind, status = meta[i].split(" ")
        if showp == 0:
            stats["systems"] += 1
            stats["by_kind"][kind] = stats["by_kind"].get(kind, 0) + 1
            stats["by_status"][status] = stats["by_status"].get(status, 0) + 1
        path = os.path.join(work, f"case_{i}.txt")
        text = open(path, "rb").read().decode("utf-8", "replace")
        m = model[ci] if ci < len(model) else "bad-op"
        if not m.startswith("EXIT "):
            viol(f"the CLI model cannot render this case: {m[:80]}", "model-cannot-render", text)
            continue
        exp_exit = int(m.split(" ")[1])
        exp_out = m.split(" OUT ", 1)[1].split("\\n") if " OUT " in m and m.split(" OUT ", 1)[1] else []
        for mode in ("path", "stdin"):
            args = [exe, "-f", path if mode == "path" else "-"] + (["--show-points"] if showp else [])
            try:
                p = subprocess.run(args, stdin=open(path, "rb") if mode == "stdin" else subprocess.DEVNULL, capture_output=True, timeout=60, env=env)
            except subprocess.TimeoutExpired:
                viol("the CLI hangs", "cli-hangs", text, {"mode": mode}); continue
            stats["runs"] += 1
            rc = p.returncode
            out = ANSI.sub("", p.stdout.decode("utf-8", "replace")).split("\n")
            if out and out[-1] == "":
                out.pop()
            stats["exit0" if rc == 0 else "exit1"] += 1
            if rc not in (0, 1):
                viol(f"exit status {rc} (panic / signal) instead of 0 or 1; stderr: {p.stderr.decode('utf-8','replace')[-300:]}", "cli-panics", text, {"mode": mode, "show_points": bool(showp)})
                continue
            if rc != exp_exit:
                viol(f"exit status {rc} but the library says {'success' if exp_exit == 0 else 'failure (' + status + ')'}", "exit-status", text, {"mode": mode})
                continue
            if rc != 0 and not p.stderr.strip():
                viol("non-zero exit without a diagnostic on standard error", "no-diagnostic", text, {"mode": mode})
            # the library's own sentences for this text (Debug of each request's constraint, Display of each
            # warning, written by dump_c16): the CLI's unsatisfied lines and warning lines must carry them
            side_c, side_w = {}, []
            sp = os.path.join(work, f"case_{i}.side")
            if os.path.exists(sp):
                for sl in open(sp, encoding="utf-8", errors="replace").read().split("\n"):
                    if sl.startswith("C "):
                        k, _, txt = sl[2:].partition(" ")
                        side_c[int(k)] = txt
                    elif sl.startswith("W "):
                        side_w.append(sl[2:])
            warn_seen = 0
            # normalise the wall-clock lines and the parts that are not modelled (warning sentences, Debug of constraints)
            got = []
            for l in out:
                if l.startswith("Solved in ") and "(mean over" in l:
                    got.append("<performance>"); continue
                if l.startswith("i.e. ") and l.endswith("solves per second"):
                    continue
                mm = re.match(r"^\t(\d+): .*$", l)
                if mm and got and (got[-1].startswith("Not all constraints") or re.match(r"^\t\d+: <constraint>$", got[-1])):
                    idx_u = int(mm.group(1))
                    stats["unsatisfied_lines_compared"] = stats.get("unsatisfied_lines_compared", 0) + 1
                    if side_c and l != f"\t{idx_u}: {side_c.get(idx_u)}":
                        viol(f"unsatisfied request {idx_u} is printed as {l!r} but the library's constraint {idx_u} is {side_c.get(idx_u)!r}", "unsatisfied-line-names-another-constraint", text, {"mode": mode})
                    got.append(f"\t{mm.group(1)}: <constraint>"); continue
                if l.startswith("\t") and got and (got[-1] == "Warnings:" or got[-1].startswith("\t<warning")):
                    stats["warning_lines_compared"] = stats.get("warning_lines_compared", 0) + 1
                    if warn_seen >= len(side_w) or l != "\t" + side_w[warn_seen]:
                        viol(f"warning line {warn_seen} is printed as {l!r} but the library's warning reads {side_w[warn_seen] if warn_seen < len(side_w) else '<none>'!r}", "warning-line-differs-from-library", text, {"mode": mode})
                    warn_seen += 1
                    k = "degenerate" if "degenerate" in l else ("Parallel" if "Parallel" in l else ("Perpendicular" if "Perpendicular" in l else "?"))
                    got.append("\t<warning " + k + ">"); continue
                got.append(l)
            exp = [("\t<warning " + l[1:] + ">") if (l.startswith("\t") and idx > 0 and (exp_out[idx-1] == "Warnings:" or exp_out[idx-1] in ("\tdegenerate", "\tParallel", "\tPerpendicular")) and l[1:] in ("degenerate", "Parallel", "Perpendicular")) else l for idx, l in enumerate(exp_out)]
            if got != exp:
                first = next((k for k in range(min(len(got), len(exp))) if got[k] != exp[k]), min(len(got), len(exp)))
                viol(f"standard output differs from what the library computed at line {first}: printed {got[first] if first < len(got) else '<nothing>'!r}, expected {exp[first] if first < len(exp) else '<nothing>'!r}",
                     "stdout-differs", text, {"mode": mode, "show_points": bool(showp)})
    print("STATS " + json.dumps(stats))

if __name__ == "__main__":
    main()
