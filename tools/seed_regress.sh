#!/bin/bash
# Re-runs every stored seeded change against the quick check of the property it breaks; each must
# end with rc=1 and a VIOLATION line (ideally without no-failing-input-found).  /repo is restored after each.
cd /verif
for d in seeded/*/; do
  id=$(basename "$d"); prop=$(python3 -c "import json;print(json.load(open('$d/meta.json'))['breaks_property'])")
  r=$(tools/seed_eval.sh "/verif/$d/patch.diff" "$prop" 2>&1 | grep -E "^$prop rc=" | cut -c1-140)
  echo "$id: $r"
done
git -C /repo status --short | head -3
