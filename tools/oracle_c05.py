#!/usr/bin/env python3-vt
"""C05 oracle: after a successful solve_analysis on the real code (harness dump_c05), a variable must
be reported under-constrained iff it takes part in the null space of the constraints' linearisation
at the returned point.  The linearisation is an independent finite-difference Jacobian; the null space
is computed here with numpy's SVD.  Cases without a clear gap in the singular values or in the
participations are excluded by this oracle (not by the implementation's thresholds).
Usage: oracle_c05.py <seed> <n>"""
import sys, json, subprocess, os
import numpy as np

ROOT = os.path.dirname(os.path.dirname(os.path.abspath(__file__)))

def main():
    seed, n = sys.argv[1], sys.argv[2]
    proc = subprocess.run([os.path.join(ROOT, "harness/target/debug/dump_c05"), seed, n], capture_output=True, text=True)
    out = proc.stdout
    # the dump must have run to completion: a helper that died half way (a panic or abort of the real
    # code on the k-th system) must not look like "no violations in the first k systems"
    if proc.returncode != 0 or f"DONE {n}" not in out.splitlines()[-3:]:
        print("VIOLATION " + json.dumps({"property": "C05", "kind": "impl-violates-oracle", "signature": "helper-process-died",
              "what": f"dump_c05 ended with status {proc.returncode} before finishing its {n} systems (a panic or abort on the real code): {proc.stderr[-300:]}",
              "input": {"cmd": "harness/target/debug/dump_c05 " + seed + " " + n}}))
        print("STATS " + json.dumps({"systems": 0, "helper_died": True}))
        sys.exit(0)
    stats = {"systems": 0, "checked": 0, "excluded_no_gap": 0, "excluded_degenerate": 0, "no_constraints": 0,
             "fully_constrained": 0, "with_free_variables": 0, "fell_back_to_a_previous_level": 0, "violations": 0}
    seen = set()
    for line in out.splitlines():
        if line.startswith("SKIPPED "):
            stats["skipped"] = json.loads(line[8:]); continue
        if not line.startswith("DOF "):
            continue
        rec = json.loads(line[4:])
        stats["systems"] += 1
        nv = rec["nvars"]
        reported = sorted(rec["reported"])
        if rec["degenerate"]:
            stats["excluded_degenerate"] += 1
            continue
        J = np.array(rec["rows"], dtype=float).reshape(-1, nv) if rec["rows"] else np.zeros((0, nv))
        if J.shape[0] == 0:
            stats["no_constraints"] += 1
            expected = list(range(nv))
        else:
            # scale rows so that mixed units do not hide a gap
            U, s, Vt = np.linalg.svd(J, full_matrices=True)
            smax = s.max() if len(s) else 0.0
            sv = np.concatenate([s, np.zeros(nv - len(s))])
            if smax == 0.0:
                # every attempted constraint is EXACTLY insensitive to every variable (requests made
                # vacuous by aliasing their arguments, e.g. a line parallel to itself): nothing is pinned,
                # so - "the answer does not depend on how many constraints exist" - every variable is free
                # ... unless a request measures a quantity against a target that is non-zero but below the
                # rounding noise of the coordinates (a planted distance of -8.9e-16 between a point and a
                # line through it): its exact sensitivity is that tiny number, the finite differences
                # round to exactly 0 and the implementation's own entries to 0 or 1e-16 as rounding has
                # it - a borderline sensitivity, which the property excludes
                import struct
                def tiny_target(req):
                    for tok in req.split()[2:]:
                        if tok.isdigit() and int(tok) > 10**9:
                            v = struct.unpack("<d", struct.pack("<Q", int(tok)))[0]
                            if v == v and 0.0 < abs(v) < 1e-9 * max(rec.get("scale", 1.0), 1.0):
                                return True
                    return False
                if any(tiny_target(r) for r in rec["requests"]):
                    stats["excluded_no_gap"] += 1
                    continue
                stats["vacuous_constraints_only"] = stats.get("vacuous_constraints_only", 0) + 1
                expected = list(range(nv))
                stats["checked"] += 1
                stats["with_free_variables"] += 1
                if expected != reported:
                    stats["violations"] += 1
                    sig = "vacuous-constraints-not-everything-free"
                    if sig not in seen:
                        seen.add(sig)
                        print("VIOLATION " + json.dumps({"property": "C05", "kind": "impl-violates-oracle", "signature": sig,
                            "what": f"every attempted constraint is exactly insensitive to every variable, so all {nv} variables are free, but the under-constrained set is {reported}",
                            "input": {"requests": rec["requests"], "returned_values": rec["x"]}}))
                continue
            if smax < 1e-8:
                # every attempted constraint is (numerically) insensitive to every variable: no
                # meaningful spectrum, excluded
                stats["excluded_no_gap"] += 1
                continue
            else:
                rel = sv / smax
                if np.any((rel > 1e-11) & (rel < 1e-5)):
                    stats["excluded_no_gap"] += 1
                    continue
                null = Vt[rel <= 1e-11].T          # nv x k
                if null.shape[1] == 0:
                    expected = []
                else:
                    part = np.linalg.norm(null, axis=1)
                    pm = part.max()
                    relp = part / pm
                    if np.any((relp > 1e-6) & (relp < 3e-2)):
                        stats["excluded_no_gap"] += 1
                        continue
                    expected = [j for j in range(nv) if relp[j] >= 3e-2]
        stats["checked"] += 1
        if rec.get("unmentioned_added", 0) >= 40:
            stats["with_many_unmentioned_variables"] = stats.get("with_many_unmentioned_variables", 0) + 1
        if rec.get("fell_back"):
            stats["fell_back_to_a_previous_level"] += 1
        stats["with_free_variables" if expected else "fully_constrained"] += 1
        if expected != reported:
            stats["violations"] += 1
            missing = sorted(set(expected) - set(reported)); extra = sorted(set(reported) - set(expected))
            sig = "no-constraints-nothing-reported" if J.shape[0] == 0 else ("free-variable-not-reported" if missing else "pinned-variable-reported")
            if sig not in seen:
                seen.add(sig)
                print("VIOLATION " + json.dumps({"property": "C05", "kind": "impl-violates-oracle", "signature": sig,
                    "what": f"under-constrained set {reported} but the null space of the linearisation involves exactly {expected} (missing {missing}, extra {extra})",
                    "input": {"requests": rec["requests"], "returned_values": rec["x"]}}))
    print("STATS " + json.dumps(stats))

if __name__ == "__main__":
    main()
