"""Per-property configuration of ./check: theorem modules, correspondence suites, oracles."""

TRUSTED_BASE = [
    "Lean 4.33 kernel; axioms limited to propext, Classical.choice, Quot.sound (audited per theorem by #print axioms on every run)",
    "hand-written Lean model (lean/Ezpz/Model), tied to /repo by: tools/extract.py (constants/tables, regenerated every run), corr-kernels and corr-trace (differential, sampled)",
    "faer sparse LU and dense SVD are parameters of the model; their contracts are checked as certificates on every recorded trace",
    "Lean `Float` = IEEE binary64 with the C library's libm; Rust uses the `libm` crate (last-ulp differences tolerated, NaN/inf/1e300 inputs not compared numerically)",
]

COMMON_ASSUMPTIONS = [
    "analytic theorems are about exact real arithmetic; rounding, overflow and libm accuracy are outside them",
    "correspondence is sampled: a code path no generator reaches is not tied to the model",
]

TRACE_ALL = "planted,linear,prio,contra,malformed,caps"

PROPS = {
    "C03": {
        "modules": ["Ezpz.Properties.C03"],
        "suites": [
            {"suite": "trace", "quick": (400, "prio,contra,planted,linear,caps,malformed"), "thorough": (6000, "prio,contra,planted,linear,caps,malformed")},
        ],
        "oracles": [
            {"bin": "oracle_c03", "quick": ("{seed}", "1500", "0"), "thorough": ("{seed}", "20000", "1")},
        ],
        "partial": [],
        "assumptions": ["the per-level solve is a parameter of the priority theorems: they hold for whatever solve_inner computes"],
    },
}
