"""Per-property configuration of ./check: theorem modules, correspondence suites, oracles."""

TRUSTED_BASE = [
    "Lean 4.33 kernel; axioms limited to propext, Classical.choice, Quot.sound (audited per theorem by #print axioms on every run)",
    "hand-written Lean model (lean/Ezpz/Model), tied to /repo by: tools/extract.py (constants/tables, regenerated every run), corr-kernels and corr-trace (differential, sampled)",
    "faer sparse LU and dense SVD are parameters of the model; their contracts are checked as certificates on every recorded trace",
    "Lean `Float` = IEEE binary64 with the C library's libm; Rust uses the `libm` crate (last-ulp differences tolerated, NaN/inf/1e300 inputs not compared numerically)",
]

COMMON_ASSUMPTIONS = [
    "analytic theorems are about exact real arithmetic; rounding, overflow and libm accuracy are outside them",
    "correspondence is sampled: a code path no generator reaches is not tied to the model",
]

TRACE_ALL = "planted,linear,prio,contra,malformed,caps,collapsed"

PROPS = {
    "C12": {
        "modules": ["Ezpz.Proofs.Assembly", "Ezpz.Proofs.AssemblyPerm", "Ezpz.Proofs.Rename", "Ezpz.Proofs.EquivHelpers", "Ezpz.Real.Equivariance", "Ezpz.Real.EquivarianceRenumber", "Ezpz.Proofs.Relabel", "Ezpz.Real.EquivarianceEntry", "Ezpz.Real.GaussNewton", "Ezpz.Real.StopTests", "Ezpz.Properties.C10", "Ezpz.Real.EquivarianceDof", "Ezpz.Real.EquivarianceExamples"],
        "suites": [
            {"suite": "kernels", "quick": (750,), "thorough": (10000,)},
            {"suite": "trace", "quick": (2000, "planted,linear,prio,contra,collapsed,pinned,large"), "thorough": (18000, "planted,linear,prio,contra,caps,conflict,collapsed,pinned,large")},
        ],
        "oracles": [
            {"bin": "oracle_c12", "min_stats": {"systems": 0.5, "request_permutations": 2.36, "renumberings": 0.948, "outcomes_compared": 3.32}, "quick": ("{seed}", "4000"), "thorough": ("{seed}", "20000")},
        ],
        "partial": ["solve_equivariant is proved per priority level over the reals (solveInner_perm, solveInner_renumber, with newtonStep/newtonLoop versions): reordering the requests gives the same values, iterations, solved priority and under-constrained set, the same unsatisfied requests and warnings up to order (equal after sorting: unsatisfied_sorted_eq); renumbering the variables gives the reordered values and otherwise the identical outcome; the solver hypotheses (RowPermSolve, ColPermSolve) are shown to hold for exact total solvers (rowPermSolve_of_exact, colPermSolve_of_exact via step_row_perm / step_col_perm / step_unique). Not invariant, and stated so (solveInner_perm_invalid): which request a MissingGuess error names when several requests have missing guesses (first in list order). At the public entry point (solveWithPriority_perm, solveWithPriority_renumber; solve without analysis): request ids are pure labels (solveInner_relabel_cases), enumerate of a permuted list is a permutation of the relabelled entries, the levels are equal, so both runs take the same decisions level by level: same values, iterations and solved priority, unsatisfied requests and warnings mapped through the position bijection (up to order), or the same failure",
                    "with analysis (Real/EquivarianceDof.lean): the under-constrained list is a function of the kernel of the analysed Jacobian only (dof_same_kernel, spectrum gap needed, participation gap not), hence equal under request permutation (dof_row_perm, solveInner_perm_withAnalysis, solveWithPriority_perm_withAnalysis) and mapped through the renumbering under variable renumbering (dof_col_perm, solveInner_renumber_withAnalysis, solveWithPriority_renumber_withAnalysis with the relation RenumEqDof; the older RenumEq demands equal lists and is only right without analysis); the SVD contract is assumed for the two Jacobians actually analysed (SvdGood), not for all matrices; renumber_example_with_step and perm_example_with_step (Real/EquivarianceExamples.lean) instantiate both entry-point theorems on runs that SUCCEED after a genuine Newton step with the code's damping 1e-9, an exact solver and the configuration (30 rounds, tolerances 1e-5 - not the default 35 / 1e-8 / 1e-12), and derive the second run's values / iterations / under-constrained list from the theorem's relation, not by recomputation",
                    "'up to numerical noise': summation order inside faer changes with row / column order; left to the oracle on the real code (known finding F16: on inconsistent rank-deficient systems one order converges and another does not)"],
        "assumptions": ["the LU answer is a parameter; over the reals it is characterised by IsStep, which is what the permutation theorems are about"],
        "rule": "planted and linear systems; all request permutations for <= 4 requests, random samples otherwise; random variable renumberings with the guess list reordered to match; verdicts, solved priority and under-constrained sets must match exactly through the permutation, values of constrained variables within 1e-6*scale, under-constrained ones within 1e-2*scale with every constraint still satisfied",
    },
    "C15": {
        "modules": ["Ezpz.Proofs.Lint", "Ezpz.Real.Lint", "Ezpz.Proofs.Warnings", "Ezpz.Proofs.Visited", "Ezpz.Properties.C07b"],
        "suites": [
            {"suite": "kernels", "quick": (750,), "thorough": (10000,)},
            {"suite": "trace", "quick": (2000, "planted,prio,contra,malformed,conflict,collapsed,pinned,large"), "thorough": (18000, "planted,prio,contra,malformed,conflict,linear,caps,collapsed,pinned,large")},
        ],
        "oracles": [
            {"bin": "oracle_c15", "min_stats": {"systems": 0.5, "angle_requests": 0.734, "special_angles": 0.0699, "lints_seen": 0.16, "degeneracy_audits": 0.397, "healthy_request_audits": 2.02, "collapsed_guess_systems": 0.165, "clean_starts": 0.0539}, "quick": ("{seed}", "10000"), "thorough": ("{seed}", "60000")},
        ],
        "partial": ["'always gets a warning' is proved for the request subset whose outcome / failure is returned (lint_survives, lint_survives_error, lint_single_level); for a special-angle request at a level that was never attempted or was abandoned the code emits nothing - the statement is false of the code there (known finding F12; machine-checked negation witness lint_lost_below_solved_priority, general form no_warning_above_solved_priority)",
                    "'none for solves that start near a non-degenerate solution' is a claim about the iterates of the f64 loop: searched by the oracle, not proved; what is proved is that the Degenerate notices of a run are EXACTLY the notices of the flags raised at the configurations it visited, in order, without de-duplication (newtonLoop_warnings_eq, warning_indices_visited, degenerate_reported; Proofs/Visited.lean, Properties/C07b.lean), what the flag means geometrically per kind (degenerate_sound_*), and that a collapse at the guess is always reported for the guarded kinds (degenerate_complete_at_guess, per level: a collapsed request above the solved priority gets no notice, same shape as F12); the values returned after a step-size stop are never evaluated for degeneracy",
                    "kinds without a guard never raise the flag (never_degenerate_kinds: Parallel, Perpendicular, Vertical, Horizontal, Midpoint, PointsCoincident, Arc, the horizontal / vertical distances): a zero-length line in one of those gets no notice - 'zero-length line' in the statement is covered for the guarded kinds only",
                    "zero radius is not guarded for circles (CircleRadius never raises the flag, circle_kinds_unguarded; CircleTangentToCircle raises it for coincident centres only - degenerate_sound_circleTangentToCircle, after fix d85fbd0): 'zero radius' in the statement is covered for arcs only"],
        "assumptions": ["EPSILON is the value extracted from lib.rs on this run; the angle lint theorems are over the reals (pi*180/pi = 180 exactly), the f64 behaviour at the special values is checked by the oracle in both units"],
        "rule": "systems containing explicit-angle requests with angles from a dense set around 0, +-90, 180, 360 (and 270, -180, 45, ...) in degrees and radians, at one and at several priority levels, solvable and unsolvable; planted systems with and without deliberately collapsed guesses (zero-length lines, coincident points, zero-radius arcs); every warning in Ok and Err results is audited against the request it names",
    },
    "C16": {
        "modules": ["Ezpz.Properties.C16", "Ezpz.Proofs.FmtCorrect"],
        "suites": [
            {"suite": "text", "quick": (1200, 600), "thorough": (10000, 4000)},
        ],
        "oracles": [
            {"bin": "oracle_c16.py", "min_stats": {"systems": 0.55, "runs": 2.2, "exit0": 0.947, "exit1": 1.15, "unsatisfied_lines_compared": 0.733, "warning_lines_compared": 20.9, "by_status.ok": 0.237, "by_status.serr": 0.152}, "python": True, "quick": ("{seed}", "300"), "thorough": ("{seed}", "3000"), "timeout": 7200},
        ],
        "partial": ["the theorems are about the hand-written model of main.rs (Ezpz/Model/Cli.lean, CliMain.lean); the tie to the real program is the comparison of exit status and standard output of the release binary built from /repo with the model's rendering, by path and by stdin, on every generated text",
                    "cli_never_panics assumes the LU oracle does not panic (LinSolveTotal, as in C06); panics inside faer, clap argument handling, --image-path (visualize::save_png) and the two wall-clock performance lines are outside the model",
                    "the text after the index on an unsatisfied-request line ('<i>: <constraint Debug>') and the sentences of warnings are not in the Lean model (Rust's Debug / Display of f64 are not modelled); they are compared, line by line, with what the library itself prints for the same request / warning (dump_c16 side file), so a CLI that printed the wrong constraint for the right index is caught on the real code, not by a theorem",
                    "the benchmark loop's unwrap is safe given determinism of the numeric kernels (C10): resolve_deterministic is about the model, a pure function"],
        "assumptions": ["fmt2 ({:.2} formatting) is in the model (Ezpz/Model/Fmt.lean) and proved to be round-half-even of the exact binary value to two decimals (FmtCorrect.lean: fmt2Core_nearest, fmt2Core_ties_even, fmt2Core_unique, fmt2_digits); that Rust's {:.2} does the same is checked against the real binary's output"],
        "rule": "problem texts: the repository's own test cases, generated valid texts (points, circles, arcs, all instruction forms), unsolvable and contradictory ones, and mutated / malformed ones; each is run through the release `ezpz` binary by path and by stdin, with and without --show-points; exit status, absence of panic and every stdout line are compared with the model's rendering of the library outcome computed in-process",
    },
    "C17": {
        "modules": ["Ezpz.Proofs.Assembly", "Ezpz.Proofs.Union", "Ezpz.Real.Union", "Ezpz.Real.UnionEntry", "Ezpz.Real.GaussNewton2", "Ezpz.Real.StopTests", "Ezpz.Properties.C06", "Ezpz.Real.UnionMany"],
        "suites": [
            {"suite": "trace", "quick": (2000, "planted,linear,prio,contra,pinned,collapsed,large"), "thorough": (18000, "planted,linear,prio,contra,caps,conflict,pinned,collapsed,large")},
        ],
        "oracles": [
            {"bin": "oracle_c17", "min_stats": {"systems": 0.5, "groups": 2.83}, "quick": ("{seed}", "1500", "12"), "thorough": ("{seed}", "3000", "200")},
        ],
        "partial": ["iterates_restrict is proved (Union.lean: newtonStep_union, newtonRun_union, newtonLoop_union_prefix, newtonLoop_union_converged, residual_test_union_iff, union_values_split; blockSolve_of_exact shows exact solvers satisfy the block hypothesis): while both groups keep iterating the union's values are the concatenation of the groups' values, the union returns at the residual test iff both groups do, and in every case the new values of a group are computed from that group's data only - only the decision when to stop is global (step_test_is_global: the relative step threshold uses the largest coordinate of the whole union). Also proved: requests of groups sharing no variables give a block-diagonal Jacobian and a concatenated residual at every configuration (disjoint_block_structure, disjoint_no_coupling), a group's rows depend only on its own variables (group1_independent, group2_independent), the damped step of the union is exactly the pair of the groups' steps (step_of_blocks), the union's residual test passes iff every group's does and its step norm is the largest group norm (residual_test_of_union, step_norm_of_union), an Ok result has only finite values (C06.ok_implies_finite, which closes the NaN cross-talk path); equality of returned values is therefore exact for equal iteration counts; when one group converges earlier the union keeps stepping it (global stopping rules) and the difference is a convergence quantity, left to the oracle (<= 1e-5*scale)",
                    "scope of the theorems: any number k >= 1 of groups (Real/UnionMany.lean: solveWithPriority_unionMany_converged, by induction with the two-group theorem; newton_union_byResidual supplies the ghost flag for the induction), in any interleaving of the requests and any numbering of the variables (solveWithPriority_unionMany_any_order(_exact), by composition with the C12 permutation / renumbering theorems: values reordered by the renumbering, same iteration count, unsatisfied list mapped through the position permutation up to order); remaining restrictions, stated in the hypotheses: one priority level, no freedom analysis, every group returns at the residual test, all groups report the same iteration count, exact solvers with one common positive damping - the cases outside (different round counts, step-size stops) are the convergence quantities left to the oracle",
                    "known finding F16: a group that is inconsistent and rank-deficient may converge alone and not in the union (or vice versa) because of rounding noise in the null space"],
        "assumptions": ["the LU answer is a parameter; over the reals it is characterised by IsStep"],
        "rule": "disjoint unions of 2..200 planted or linear sub-systems (each 1..12 constraints), requests interleaved at random, variable ids offset and shuffled; each group is first solved alone on the real code; the union must succeed with the same verdicts per group and the same values for every variable that is not under-constrained within 1e-5*scale",
    },
    "C05": {
        "modules": ["Ezpz.Properties.C05", "Ezpz.Real.Kernel", "Ezpz.Real.Dof", "Ezpz.Real.DofEntry", "Ezpz.Real.StepExamples"],
        "suites": [
            {"suite": "trace", "quick": (2500, "planted,linear,prio,contra,collapsed,pinned,large"), "thorough": (24000, "planted,linear,prio,contra,caps,conflict,disparity,collapsed,pinned,large")},
        ],
        "oracles": [
            {"bin": "oracle_c05.py", "min_stats": {"systems": 0.405, "checked": 0.388, "no_constraints": 0.0631, "fully_constrained": 0.0398, "with_free_variables": 0.345, "fell_back_to_a_previous_level": 0.0239, "with_many_unmentioned_variables": 0.02}, "python": True, "quick": ("{seed}", "4000"), "thorough": ("{seed}", "20000")},
        ],
        "partial": ["dof_spec is about exact real arithmetic under the SvdSpec contract and the two gap hypotheses (the property's own 'well-separated cases only'); that faer's f64 SVD meets the contract is checked as a certificate (V orthogonal, VtJtJV = diag sigma^2, sigma sorted) on every recorded trace, and the float thresholds on borderline spectra are outside the statement",
                    "tied to the solver's outcome by Real/DofEntry.lean: underconstrained_is_nullspace_participation - for a successful solveWithPriority with analysis the reported list is exactly {j | some null vector of the analysed Jacobian has a non-zero j-th component}, under the SVD contract for the matrix actually analysed; the analysed Jacobian (LastRound) is the assembled Jacobian of the requests of priority <= the solved priority at the point the last executed round STARTED from: the returned point after a residual-test stop, the point one step earlier after a step-size stop (lastJac_is_before_last_step is a concrete run where the two Jacobians differ) - the difference is below the step tolerance"],
        "assumptions": ["SvdSpec: the part of faer's SVD contract the code relies on (U is never used)"],
        "trusted_extra": ["faer dense SVD: modelled as a parameter; contract SvdSpec checked numerically per recorded trace (tools/compare_trace.py)"],
        "rule": "planted and linear systems with 0..15 constraints and 2..40 variables (incl. pinned, free-floating, rank-deficient but over-determined, free variables hidden behind equalities, no constraints, and multi-priority lists whose lower level solves but stays unsatisfied so that the previous level is what is returned): solve_analysis on the real code vs numpy null space of a finite-difference Jacobian at the returned point; cases without a clear gap in the singular values or participations are excluded by the oracle",
    },
    "C02": {
        "modules": ["Ezpz.Properties.C02", "Ezpz.Real.GaussNewton", "Ezpz.Real.GaussNewton3", "Ezpz.Real.LocalContraction", "Ezpz.Real.ContinuityGN", "Ezpz.Real.LinearEntry", "Ezpz.Real.FDerivKinds", "Ezpz.Real.FDerivEntry", "Ezpz.Real.Fixes", "Ezpz.Real.FDerivKinds2", "Ezpz.Real.FDerivEntry2", "Ezpz.Real.FDerivLoop", "Ezpz.Real.FDerivKinds3", "Ezpz.Real.FDerivEntry3", "Ezpz.Real.FDerivLoop3"],
        "suites": [
            {"suite": "kernels", "quick": (750,), "thorough": (10000,)},
            {"suite": "trace", "quick": (2000, "planted,linear,prio,collapsed,pinned,large"), "thorough": (18000, "planted,linear,prio,caps,disparity,collapsed,pinned,large")},
        ],
        "oracles": [
            {"bin": "oracle_c02", "min_stats": {"checked": 0.35, "with_short_feature": 0.0487, "fully_pinned": 0.1, "full_rank": 0.04}, "quick": ("{seed}", "15000"), "thorough": ("{seed}", "200000")},
        ],
        "partial": ["convergence of the f64 iteration (success, iteration count <= 8, landing within 1.5x) is NOT proved: the theorems give the loop's anatomy (every round is residual test -> damped step of the Jacobian at the current point -> step test), existence/uniqueness/descent of the exact step, monotone approach on consistent linear systems, and the abstract contraction argument with the constant 1.5; that a given planted system satisfies the contraction hypothesis is left to the oracle on the real code; the exact-arithmetic statement is now instantiated for the MODEL's own assembled residual and Jacobian (Real/FDerivEntry.lean): for request lists made of every kind (PointArcCoincident: see the end of this note) (Real/FDerivKinds.lean: the guard-free kinds with no hypothesis, distance / linesEqualLength / arcRadius with points strictly farther apart than EPS; Real/FDerivKinds2.lean: the three point-line distances, lineTangentToCircle, symmetric, arcLength, circleTangentToCircle, explicit angles and arcAngle, each under the hypothesis that every guard of its residual and Jacobian kernel is strictly inactive at x* and, for the angle kinds, that x* is off the atan2 cut - RegularAt2) the assembled residual rOf is Frechet differentiable at x* with derivative the model's Jacobian JOf, JOf is continuous there (hasFDerivAt_rOf_regular), one continuing round of the model's newtonStep with an exact solver IS the map x -> x - (J^T J + lambda I)^-1 J^T r(x) (newtonStep_eq_gnMap, all kinds), and hence for a zero x* with sigma_min(J)^2 >= c > lambda the CONTINUING rounds the model's loop executes from within rho of x* halve the error and stay within 1.5|x0 - x*| of the guess (model_newtonRun_C02, model_newtonRun_C02_2; four concrete non-linear systems meet the hypotheses of the gnMap form with lambda = 1e-9; and - Real/FDerivLoop.lean - for the RESULT of the loop, including the extra step of a step-size return: model_newtonLoop_C02 (|res.values - x*| <= (1/2)^(iterations - k) |x - x*| and |res.values - x| <= 1.5 |x - x*|), model_solveInner_C02 and model_solve_C02_single_level (the same two bounds for o.finalValues relative to the guesses at the public entry point with one priority level; loop_C02_example_with_step is a run with a genuine step); not lifted to several priority levels; PointArcCoincident is covered since Real/FDerivKinds3.lean (StrictPAC: both distances of row 0 strictly above EPS - with |centre - p| = EPS exactly the Jacobian row is NOT continuous, machine-checked witness pacB_not_kindC1; the same argument for radius = EPS is stated in a docstring only - and rows 1, 2 strictly inside the gate, or strictly outside with non-zero orientation and cross product; automatically true at a zero of the residual with radius > EPS, strictPAC_of_r0_zero): RegularAt3 / kindC1_of_regular3 cover all 23 kinds and model_newtonLoop_C02_3, model_solveInner_C02_3, model_solve_C02_single_level_3 (Real/FDerivLoop3.lean) are the loop / entry-point statements for every kind (non-vacuity: pac1, a fully determined system with a PointArcCoincident request); nothing here is about f64",
                    "gauss_newton_local_C02 (LocalContraction.lean) proves the whole chain for the exact iteration: error map differentiable at x* with Jacobian J, sigma_min(J)^2 >= c > lambda > 0, iteration operator continuous at x* => a ball around x* on which the error halves every round and no iterate is farther from the guess than 1.5x; continuity of the iteration operator is derived from continuity of the Jacobian at x* (gauss_newton_local_C02_of_continuous_jacobian); rank-deficient ('not pinned down') systems are outside it: the defect operator is the identity on ker J (damped_defect_on_kernel), which is the regime of known finding F15",
                    "under-determined planted systems do land farther than 1.5x from the guess in about 0.02% of the cases on the real code (known finding F15)"],
        "assumptions": ["the LU answer is a parameter of the loop theorems; over the reals it is characterised by IsStep (existence and uniqueness proved), and held to it on recorded traces by the step certificate"],
        "rule": "planted-solution systems: random geometry X*, 1..15 constraints of any of the 23 kinds sharing entities with parameters derived from X*, anchored or free-floating, one in ten with an additional short fully determined feature (edge or arc of size 1.5e-3..9e-3 with its guess off by up to 30% of its size), guesses X* + delta with |delta| <= 1e-2*scale; the oracle demands Ok, all satisfied, <= 8 iterations and |x_out - x0| <= 1.5|x0 - X*| + 1e-9, excluding (by the oracle) degenerate / ill-conditioned plants and branch switches inside the ball",
    },
    "C04": {
        "modules": ["Ezpz.Properties.C04", "Ezpz.Real.GaussNewton", "Ezpz.Real.GaussNewton2", "Ezpz.Real.GaussNewton3", "Ezpz.Real.Linear", "Ezpz.Real.LinearConvergence", "Ezpz.Real.GapExists", "Ezpz.Proofs.Untouched2", "Ezpz.Real.UntouchedEntry", "Ezpz.Real.LinearEntry", "Ezpz.Real.StepExamples", "Ezpz.Real.LeastSquaresLimit", "Ezpz.Real.LeastSquaresEntry"],
        "suites": [
            {"suite": "kernels", "quick": (750,), "thorough": (10000,)},
            {"suite": "trace", "quick": (2000, "linear,planted,contra,conflict,collapsed,pinned,large"), "thorough": (18000, "linear,planted,contra,conflict,prio,caps,collapsed,pinned,large")},
        ],
        "oracles": [
            {"bin": "oracle_c04.py", "min_stats": {"systems": 0.5, "consistent": 0.129, "inconsistent": 0.335, "ok": 0.47, "unmentioned_variables_checked": 2.26}, "python": True, "quick": ("{seed}", "2000"), "thorough": ("{seed}", "8000")},
        ],
        "partial": ["the 1e-4*scale closeness of the f64 result to the exact minimum-norm least-squares point (effect of lambda = 1e-9, of stopping early, of rounding) is not proved: the theorems give the exact algebra (one step is the Tikhonov minimiser; displacement stays in range(A^T); a stationary point with displacement in range(A^T) is the unique nearest least-squares point; the last step d certifies stationarity up to lambda*|d|); in exact arithmetic a consistent system converges geometrically with factor lambda/(c+lambda) per round to the solution nearest the guess, c a lower bound of |Az|^2/|z|^2 on range(A^T), which exists and is positive for every matrix (gap_exists), and the nearest solution exists (nearest_solution_exists): linear_consistent_converges_from_guess has no hypothesis beyond consistency; that the f64 iteration gets there within 35 rounds and stops is left to the exact-rational oracle on the real code",
                    "unmentioned variables: untouched_var_fixed' (Proofs/Untouched2.lean, every scalar type) says: no request mentions j (=> no triplet in column j, jacobianAll_no_column) and the solver returns a neutral element of + in slot j for Jacobians without a column j (ZeroStepOn) => j is returned at its guess; over the reals every exact solver satisfies ZeroStepOn (zeroStepOn_of_exact via untouched_var_step_zero), giving unmentioned_variable_returned_at_guess with no hypothesis on the solver beyond exactness with a non-zero damping (StepEx.unmentioned_example_with_step is a run that takes a real step with an exact damped solver); that faer's LU returns exactly 0.0 there is checked on every recorded trace (zero-column certificate). For f64 'exactly at its guess' means equal as numbers: a guess of -0.0 comes back as +0.0 (-0.0 + 0.0)",
                    "the linear-algebra theorems are tied to the model by Real/LinearEntry.lean: for a list of linear kinds the assembled residual is A x - b with a constant A (assembled_affine), one round of the model's loop with an exact solver is IsStep A (A x - b) lambda (x' - x) (newtonStep_isStep), and after j executed rounds of newtonLoop the squared distance to the nearest solution of a consistent system has contracted by q^(2j), q < 1 depending only on the requests and lambda (newtonRun_converges_prefix, newtonLoop_result_contracts); for INCONSISTENT systems too (Real/LeastSquaresLimit.lean, Real/LeastSquaresEntry.lean): the normal equations are always consistent (normal_equations_consistent), the least-squares point nearest the guess exists and is unique (nearest_least_squares_exists(_spec), nearest_least_squares_point_unique), and every run of exact damped rounds converges geometrically to it with a rate depending on A and lambda only (linear_converges_to_least_squares, no consistency hypothesis; model level: newtonRun_converges_prefix_ls, newtonLoop_result_contracts_ls; non-vacuity: at matrix level the inconsistent pair 'x = 0', 'x = 1' with limit 1/2 (ex_inconsistent, ex_stationary_unique); at model level the theorem is instantiated on the request list twoFixed, proved inconsistent, without exhibiting a run of j >= 1 rounds; an inconsistent system can only return at the step-size test, where newtonLoop_result_contracts_ls gives q^(2 iterations), the trivial bound for a round-0 stop)"],
        "assumptions": ["the LU answer is a parameter; IsStep characterises it over the reals"],
        "rule": "linear systems over up to 8 points with dyadic-rational parameters and guesses (consistent, redundant, contradictory, rank-deficient) solved by the real code and compared with x* = x0 + pinv(A)(b - A x0) computed exactly (sympy rationals); systems of any kind with extra unmentioned variables must return those at their guesses (equal as f64 values: bit for bit except that a -0.0 guess may come back as +0.0)",
    },
    "C03": {
        "modules": ["Ezpz.Properties.C03", "Ezpz.Proofs.PriorityEntry", "Ezpz.Real.PriorityEntry"],
        "suites": [
            {"suite": "trace", "quick": (2000, "prio,contra,planted,linear,caps,malformed,conflict,disparity,resolve,large"), "thorough": (18000, "prio,contra,planted,linear,caps,malformed,conflict,disparity,resolve,large")},
        ],
        "oracles": [
            {"bin": "oracle_c03", "min_stats": {"exhaustive_lists": 2.0, "systems": 0.5, "level_ok": 0.525, "level_unsatisfied": 0.26, "level_error": 0.0931}, "quick": ("{seed}", "7500", "1"), "thorough": ("{seed}", "20000", "1")},
        ],
        "partial": [],
        "partial": ["full for every scalar type and every per-level solver: priority_spec / result_is_subset_solve, and at the public observation point result_is_filtered_solve(_fields) / error_is_filtered_solve (Proofs/PriorityEntry.lean): the prioritised solve of the whole list returns exactly what the public solve of the filtered list reqs.filter (priority <= P) returns, positions mapped through the strictly increasing position map pos, with the same LU / SVD oracles and no re-indexing (level_index_coincide); nothing about this property is left to the oracle except the f64 numerics inside one level"],
        "assumptions": ["the per-level solve is a parameter of the priority theorems: they hold for whatever solve_inner computes"],
    },
    "C14": {
        "modules": ["Ezpz.Properties.C14", "Ezpz.Real.Tolerance", "Ezpz.Proofs.Caps", "Ezpz.Real.ToleranceEntry", "Ezpz.Real.ToleranceVisited"],
        "suites": [
            {"suite": "trace", "quick": (2000, "caps,prio,planted,contra,collapsed,pinned,large"), "thorough": (18000, "caps,prio,planted,contra,linear,malformed,collapsed,pinned,large")},
        ],
        "oracles": [
            {"bin": "oracle_c14", "min_stats": {"systems": 0.5, "runs": 7.0, "ok_runs": 5.38, "did_not_converge_runs": 1.6, "multi_level_systems": 0.167, "tolerance_checks": 0.343, "round_count_runs": 3.5}, "quick": ("{seed}", "1500"), "thorough": ("{seed}", "6000")},
        ],
        "partial": ["single priority level: solve_cap_monotone_single_level (Proofs/Caps.lean) - unconditional at the public entry point; error direction for ANY request list: solve_cap_monotone_err (DidNotConverge under cap c' => DidNotConverge with the same sizes under every c <= c'); several levels, success direction: solve_cap_monotone_partial needs the hypothesis that no level call runs out of iterations under the smaller cap - without it the statement is false of model and code (known finding F11; machine-checked witnesses cap_not_monotone_multi_level over the reals and cap_not_monotone_multi_level_float evaluated at f64)",
                    "the tolerance clause is proved over the reals at the public outcome (Real/ToleranceEntry.lean: solve_within_tolerance - every residual component of every attempted request at the returned values is <= the configured tolerance when the returned level stopped on the residual test; solve_within_tolerance_of_silentOn (Real/ToleranceVisited.lean) replaces the ghost flag by an observable condition on the configurations the run visits (the step test does not fire at any visited configuration), satisfiable with the default positive step tolerance (tvSolve: Config.default, one real step); the older StepTestSilent quantified over every configuration and can only be met with step tolerance 0 (tv_not_silent)); that the f64 iteration reaches the residual test for a given tighter tolerance is a convergence claim, checked by the oracle on the real code only"],
        "assumptions": ["the LU solve is a parameter indexed by (level, iteration): the theorems hold for every such family"],
    },
    "C01": {
        "modules": ["Ezpz.Properties.C01", "Ezpz.Real.Meaning", "Ezpz.Real.MeaningArcs", "Ezpz.Real.Composite", "Ezpz.Real.MeaningEntry"],
        "suites": [
            {"suite": "composite", "quick": (2000,), "thorough": (20000,)},
            {"suite": "kernels", "quick": (750,), "thorough": (10000,)},
            {"suite": "trace", "quick": (1500, "planted,contra,prio,linear,conflict,disparity,collapsed,pinned,resolve,large"), "thorough": (15000, "planted,contra,prio,linear,caps,malformed,conflict,disparity,collapsed,pinned,resolve,large")},
        ],
        "oracles": [
            {"bin": "oracle_c01", "min_stats": {"ok_results": 0.994, "verdicts_checked": 6.82, "listed_unsatisfied": 0.463, "angle_reexpressions": 0.194, "nan_target_requests": 0.0213, "undefined_errors_checked": 0.038}, "quick": ("{seed}", "3000"), "thorough": ("{seed}", "20000")},
        ],
        "partial": ["point_arc_verdict: for PointArcCoincident only 'on the circle' is guaranteed by a satisfied verdict; the arc's sweep is not checked within 0.05 of the circle (known finding F14)",
                    "the geometric meaning of each error measure is proved over the reals (measures_<kind>, satisfied_<kind>, zero_iff_<kind> for all 23 kinds, in coordinates, against a vocabulary written independently of the kernels); for the f64 code it is checked by the independent geometric oracle; where a kind's residual guard is active the measure is 0 and the verdict is 'satisfied' whatever the geometry (guarded_* / satisfied_of_guard_* theorems): those configurations are exempt in the oracle as degenerate",
                    "end to end (Real/MeaningEntry.lean, all 23 kinds): for an attempted request of a successful solve, 'not listed' is equivalent to its geometric meaning holding within EPS at the returned coordinates and 'listed' to a violation by at least EPS in some component (<kind>_end_to_end, from satisfiedAt_iff_residualV + satisfied_<kind>), over the reals (symmetric additionally needs its axis not to be collapsed, hax); the guarded kinds carry their guard-inactive hypothesis and have <kind>_guard_never_listed for the other case"],
        "assumptions": ["EPSILON is the value extracted from lib.rs on this run"],
    },
    "C06": {
        "modules": ["Ezpz.Properties.C06"],
        "suites": [
            {"suite": "kernels", "quick": (750,), "thorough": (10000,)},
            {"suite": "trace", "quick": (2000, "malformed,planted,contra,caps,collapsed,large"), "thorough": (24000, "malformed,planted,contra,caps,prio,linear,collapsed,large")},
        ],
        "oracles": [
            {"bin": "oracle_c06", "min_stats": {"systems": 1.0, "ok": 0.503, "err": 0.491, "ok_with_finite_input": 0.493, "round_count_runs": 0.164}, "quick": ("{seed}", "15000"), "thorough": ("{seed}", "100000")},
        ],
        "partial": ["the Float instance's hypot is sqrt(x*x + y*y), not libm's overflow-safe hypot: for coordinates around 1e154 and beyond the model's residual is inf where the code's is finite, so such runs are not compared numerically by corr-trace (they are skipped and counted); C06's theorems hold for every scalar type and are unaffected; the real code's behaviour on huge inputs is covered by the totality oracle",
                    "iterations_bounded is about the reported count of successful runs; that no level runs more Newton rounds than the cap is checked on the real code from the trace (oracle_c06 / oracle_c14 'rounds-exceed-cap') and, for the model, follows from iteratesFrom_length_le",
                    "panics inside faer, float overflow producing non-finite intermediates (caught by the guard, not prevented) and memory exhaustion are runtime behaviour the model cannot exhibit; they are covered by the oracle on the real code only"],
        "assumptions": ["LinSolveTotal / SvdTotal: faer returns a step with one entry per variable and a V of at least n x n entries, and reports failures as errors"],
    },
    "C07": {
        "modules": ["Ezpz.Properties.C07", "Ezpz.Proofs.Visited", "Ezpz.Properties.C07b"],
        "suites": [
            {"suite": "composite", "quick": (3000,), "thorough": (30000,)},
            {"suite": "trace", "quick": (2000, "prio,contra,planted,malformed,conflict,collapsed,pinned,resolve,large"), "thorough": (18000, "prio,contra,planted,malformed,linear,caps,conflict,collapsed,pinned,resolve,large")},
        ],
        "oracles": [
            {"bin": "oracle_c07", "min_stats": {"systems": 0.5, "ok": 0.43, "err": 0.0676, "warnings_checked": 0.0327, "degenerate_warnings": 0.0274, "fallback_outcomes": 0.248, "permuted_guess_lists": 0.167, "typed_lookup_rounds": 1.72}, "quick": ("{seed}", "5000"), "thorough": ("{seed}", "30000")},
        ],
        "partial": ["values_by_id_partial: proved under 'guess ids are 0..n in order'; false of the code otherwise (known finding F5, negation witness values_by_id_fails_when_permuted)",
                    "warnings: warning_indices_visited / failure_warning_indices (Properties/C07b.lean) - every warning of an Ok or Failure outcome names, by caller position, an attempted request, and is either a lint of a LinesAtAngle(Other) request or a Degenerate notice whose flag was raised at a configuration this run visited (DegenerateAtVisited over the iterates of the returned level, Proofs/Visited.lean); the older warning_indices / newtonLoop_warnings say only 'a request of a kind that can raise the flag' and are kept as the weak form; failure_sizes_solve' names the level (the numerically smallest requested priority)",
                    "typed lookups: Model/Outcome.lean mirrors solve_outcome.rs:52-86 and is compared exactly (corr-composite, every third case: arbitrary values, unordered / repeated / out-of-range ids, PANIC <-> none); finalValue{Distance,Point,Circle,Arc}_spec say each entity is read at its own ids"],
        "assumptions": [],
    },
    "C10": {
        "modules": ["Ezpz.Properties.C10", "Ezpz.Proofs.TextMethods"],
        "suites": [
            {"suite": "trace", "quick": (1500, "planted,prio,contra,linear,collapsed,pinned,resolve,large"), "thorough": (15000, "planted,prio,contra,linear,caps,malformed,collapsed,pinned,resolve,large")},
        ],
        "oracles": [
            {"bin": "oracle_c10", "min_stats": {"systems": 0.5, "both_ok": 0.479, "repeated_calls": 1.0, "texts": 0.125, "text_runs_under_other_configs": 0.625, "of_which_fail": 0.495, "fresh_thread_solves": 0.781}, "quick": ("{seed}", "4000"), "thorough": ("{seed}", "20000"), "digest_twice": True, "second_args": ["rev"]},
        ],
        "partial": ["analysis_only_adds_failure_partial: proved under the hypothesis hok that plain and analysed level runs agree at EVERY (priority value, call index) pair - stronger than 'the analysis succeeds at every attempted level'; analysis_only_adds_failure_levels needs the agreement only for the j-th level of the list at call index j (levels after the first unsatisfied one are still included, so an analysis failure at a level that is never attempted falsifies the hypothesis although the conclusion holds); without any such hypothesis the statement is false of the code (known finding F10)",
                    "'the text front-end's solve methods agree': the four methods (solve, solve_with_config, solve_with_config_analysis, solve_no_metadata) and their two private helpers are modelled in Model/TextMethods.lean; their call structure, their bodies (whitespace- and comment-free text; the labelling function as a SHA-256) and the priority 0 that to_constraint_system assigns are regenerated from executor.rs on every run (Gen.TEXT_METHODS, Gen.TEXT_METHOD_BODIES, Gen.TEXT_PRIORITY, tools/extract.py) and pinned by text_methods_shape, text_method_bodies, text_priority_zero - any edit of these functions, harmless or not, breaks the tie and sends the check to the search on the real code; SCOPE: systems as built by to_constraint_system - the Rust field `constraints` is public, and a caller who pushes a request of another priority into a built system gets the library's multi-priority solve, where F10 applies (the model's ConstraintSystem has no priorities); proved for every scalar type and every oracle (Proofs/TextMethods.lean): solve = solve_with_config(default); solve_with_config returns exactly solve_no_metadata's fields plus the labelling of its final values, fails with the same failure, and for a system built from the problem never panics in the labelling (withConfig_of_noMetadata_ok/_error/_panic, withConfig_label_total); since every text constraint has priority 0 the solve is single-level, F10 cannot occur, and the analysis clause holds with NO hypothesis: text_plain_fails_then_analysis_fails, text_analysis_only_adds_failure (same labelled outcome plus analysis, or the Newton run succeeds and runAnalysis on its last Jacobian fails and that very error is returned - or unwinds, if it is a panic; never a different outcome, never a failure of the solve itself), text_analysis_ok_then_plain_ok; bit-identity of the f64 results of the real methods is checked on the real code (oracle_c10: default and five non-default configurations, most of which make the solve fail)",
                    "bit-reproducibility of faer and libm across processes is sampled (digest of all results compared between two fresh processes), not proved"],
        "rule": "planted, linear, contradictory, prioritised and collapsed-guess systems: two calls in one process and two fresh processes (digest) must agree bit for bit including the ordered warnings list; solve vs solve_analysis field by field; plus generated problem texts through the text front-end: solve() twice, solve_with_config, solve_with_config_analysis, solve_no_metadata and the library call on the same constraints and guesses must agree bit for bit (labelled values included)",
        "assumptions": ["faer is built without the rayon feature (extracted from Cargo.toml on this run): sequential linear algebra"],
    },
    "C11": {
        "modules": ["Ezpz.Properties.C11", "Ezpz.Proofs.Resolve", "Ezpz.Real.Resolve", "Ezpz.Real.StepStopNotFixed"],
        "suites": [
            {"suite": "trace", "quick": (1500, "planted,linear,prio,resolve,large"), "thorough": (15000, "planted,linear,prio,caps,contra,resolve,large")},
        ],
        "oracles": [
            {"bin": "oracle_c11", "min_stats": {"systems": 0.5, "exact_starts": 0.333, "near_tolerance_starts": 0.14, "tolerance_boundary_starts": 0.464, "chains": 0.405, "chain_links": 1.21}, "quick": ("{seed}", "3000"), "thorough": ("{seed}", "20000")},
        ],
        "partial": ["results that stopped on the step-size test or fell back to a higher level are not 'converged' in the property's sense; the theorems' hypotheses say so (ghost flag byResidual / ConvergedAt / htop); the file has a counterexample for the fall-back case (a lower-level fall-back result is not a fixed point of the full list), and Real/StepStopNotFixed.lean one for the step-size stop (step_stop_not_fixed_point: with convergence tolerance 1e-12 and step tolerance 10 the solve of 'variable 0 is 5' from 0 returns after one applied step at the step test - reported iterations 0, as in newton.rs - and re-solving from that result moves variable 0 again; resolve_is_identity_needs_residual_stop: every hypothesis of the re-solve theorem but the ghost flag holds and its conclusion fails)",
                    "converged_guess_untouched (repaired: its hypothesis used to be unsatisfiable unless some request had priority 0) derives success and gives values unchanged, 0 iterations, unsatisfied = [] and the top priority, every scalar type, every LU oracle; resolve_untouched lifts it to a re-solve from a previous result at the public entry point; the clauses about sub-lists and about adding already-satisfied constraints (ConvergedAt_subset, ConvergedAt_append, converged_guess_untouched_append, resolve_with_extra_untouched) need the order laws MaxLaws (le_trans, fmax is the least upper bound): true over the reals (Real/Resolve.lean), FALSE for f64 when a residual is NaN because fmax skips NaN (counterexample in Properties/C11.lean) - for finite residuals the f64 behaviour is covered by the oracle's chains"],
        "assumptions": [],
    },
    "C08": {
        "modules": ["Ezpz.Properties.C08", "Ezpz.Proofs.Label", "Ezpz.Proofs.Render", "Ezpz.Proofs.NumberCorrect"],
        "suites": [
            {"suite": "text", "quick": (1600, 800), "thorough": (40000, 10000)},
        ],
        "oracles": [],
        "partial": ["the grammar (winnow combinators, f64::from_str) is modelled by hand and tied to parser.rs by the exact differential comparison; about the model it is proved that parsing the canonical rendering of any well-formed problem (all 23 instruction forms, declarations, both guess kinds; integer or plain decimal literals) returns that problem (parse_render, parse_render_dec, parse_render_instr); literals with exponents, nan/inf and sqrt(...), the pair form 'l = (x, y)' and non-canonical spacing are outside the round-trip theorem (covered by corr-text only); the model's decimal-to-binary64 conversion is proved correctly rounded (NumberCorrect.lean: ratToBits_nearest, ratToBits_ties_even, ratToBits_exact, ratToBits_overflow, both cut-offs of decToFloat sound); that Rust's f64::from_str is correctly rounded too is checked by corr-text, not proved",
                    "'same constraint kinds, same entities in the same roles, same numeric parameters': there is NO independent specification of the lowering of each instruction in Lean (which label goes into which role of which constraint) - lower IS the model of executor.rs; that clause rests on the exact corr-text comparison (constraints dumped by the real front-end vs the model's) and on the hand-built-constraints oracle in corr_text.rs, which constructs the expected constraint for every instruction form independently in Rust; proved: which lookups each instruction performs and that they resolve exactly the declared labels (Proofs/TextStrict2.lean: lower_isOk_iff, resolves_iff_declared, datumPoint_* search order)",
                    "the labelled outcome is proved to report, for every declared point / circle / arc in declaration order, the final values at exactly the ids the layout specification assigns - the same ids the lowered constraints use (labelOutcome_spec, labelled_*_is_constraint_variable) - and the initial guesses round-trip through it (label_roundtrip)"],
        "assumptions": ["VARS_PER_POINT/CIRCLE/ARC are the values extracted from geometry_variables.rs on this run"],
        "rule": "texts are generated from the grammar (0..6 points, 0..3 circles, 0..3 arcs in any interleaving, 1..20 instructions over all 24 syntactic forms, several number syntaxes, optional whitespace) plus a mutation stream; each is compared exactly (parse dump, constraints, guesses, labelled outcome) between the real front-end and the Lean model, and against hand-built constraints",
    },
    "C09": {
        "modules": ["Ezpz.Properties.C09", "Ezpz.Proofs.TextStrict", "Ezpz.Proofs.TextStrict2"],
        "suites": [
            {"suite": "text", "quick": (800, 2400), "thorough": (10000, 60000)},
        ],
        "oracles": [
            {"bin": "oracle_c09_deep", "min_stats": {"non_ascii_positions": 0.004}, "quick": ("100000", "1000000"), "thorough": ("1000000", "8000000"), "expect_stdout": "DEEP-OK"},
        ],
        "partial": ["parser_total proves that the *grammar* terminates on every string; the stack depth and running time of the Rust parser are runtime behaviour, observed by running deep / long inputs in a child process",
                    "strictness at the problem level (Proofs/TextStrict2.lean): strict_labels / undeclared_rejected (every label of every instruction, all 23 forms incl. line(..), resolves in an accepted text; otherwise a textual error naming an undeclared reference, rejected_names_culprit), buildVars_isOk_iff (accepted iff the guessed keys are exactly the declared ones, no duplicates among the declared), accepted_iff_text, rejection_kinds (every rejection is missingGuess, unusedGuesses or undefinedPoint); the problem-level label statement was false of model and code before fix 2942897 (finding F19). Not covered by 'nothing the user wrote is silently ignored': two guesses for the same label are accepted and the last one wins (amFromList_find?; HashMap::extend in executor.rs) - recorded as an observation, the property's three rejection clauses do not name it"],
        "assumptions": [],
        "rule": "mutation stream over generated valid texts (deleted / duplicated / renamed labels, swapped sections, truncation, inserted characters incl. non-ASCII, extra / missing guesses, undeclared references, sqrt nesting, odd numbers, noise) compared exactly between the real front-end and the Lean model; strictness and no-silent-drop checked on the real code",
    },
    "C13": {
        "modules": ["Ezpz.Properties.C13", "Ezpz.Real.Deriv", "Ezpz.Real.DerivA", "Ezpz.Real.DerivB", "Ezpz.Real.DerivC", "Ezpz.Real.DerivD", "Ezpz.Real.DerivE", "Ezpz.Real.FDerivKinds", "Ezpz.Real.FDerivKinds2", "Ezpz.Real.FDerivKinds3"],
        "suites": [
            {"suite": "kernels", "quick": (1000,), "thorough": (15000,)},
        ],
        "oracles": [
            {"bin": "oracle_c13", "min_stats": {"systems": 13.5, "jacobian_entries_checked": 74.3, "aliased_cases": 4.1}, "quick": ("{seed}", "750"), "thorough": ("{seed}", "5000")},
        ],
        "partial": [
                    "completeness over the 23 kinds and their rows is by enumeration (one deriv_* theorem per kind and row, listed in DESIGN 11.2), not a single theorem quantified over kinds; DerivRow is the derivative along every line through the configuration (what 'sensitivity with respect to each variable' means, and more); the single statement quantified over all 23 kinds is the Frechet one, kindC1_of_regular3 (Real/FDerivKinds3.lean): at a configuration where the kind's guards are strictly inactive (RegularAt3) every Jacobian row of the model is the Frechet derivative of the corresponding residual slot and is continuous there",
                    "inside the coarse guard bands (e.g. Symmetric |pq| < 0.1, LineTangentToCircle |v| < 0.01) the linearisation is switched off while the residual is live: excluded by the property's own 'away from the documented degeneracies'"],
        "assumptions": ["derivative theorems are about exact real arithmetic of the model's formulas; the f64 code is tied to the model by corr-kernels (all aliasing patterns)"],
        "rule": "corr-kernels: per shape, ids from small pools so that aliasing patterns occur, values over scales 1e-2..1e3 plus degenerate / special / out-of-range streams; oracle: 4th-order central differences with Richardson extrapolation of the real residual vs the real jacobian_rows per shape, row and declared variable",
    },
}
