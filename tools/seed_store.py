#!/usr/bin/env python3
"""usage: seed_store.py <seed-id> <tmp-seed-dir> <property> <needs> <ran> <caught-by...>
Stores a confirmed seeded change under /verif/seeded/<seed-id>/ (patch.diff, demo, meta.json)."""
import sys, os, shutil, json
sid, src, prop, needs, ran = sys.argv[1:6]
caught = sys.argv[6:]
dst = f"/verif/seeded/{sid}"
os.makedirs(dst, exist_ok=True)
for f in ("patch.diff", "demo.rs", "notes.md"):
    if os.path.exists(os.path.join(src, f)):
        shutil.copy(os.path.join(src, f), os.path.join(dst, f))
json.dump({"id": sid, "breaks_property": prop, "needs_to_manifest": needs, "what_was_run": ran,
           "source": "independent sub-agent given only the property text and a scratch worktree",
           "caught_by": caught}, open(os.path.join(dst, "meta.json"), "w"), indent=1)
print("stored", dst)
