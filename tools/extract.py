#!/usr/bin/env python3
"""Translator for constants and tables: regenerates lean/Ezpz/Generated/Constants.lean from the
working tree of /repo.  Fails (exit 2) when the source no longer has the expected shape; that is a
broken tie and is reported as such by ./check."""
import re, sys, os, json

REPO = os.environ.get("EZPZ_REPO", "/repo")
OUT = os.path.join(os.path.dirname(os.path.abspath(__file__)), "..", "lean", "Ezpz", "Generated", "Constants.lean")

class ExtractError(Exception):
    pass

def read(rel):
    with open(os.path.join(REPO, rel)) as f:
        return f.read()

FLOAT = r"[0-9][0-9_]*(?:\.[0-9_]*)?(?:[eE][-+]?[0-9]+)?(?:_?f64)?"

def one(pattern, text, what, all_equal=False):
    ms = re.findall(pattern, text)
    if not ms:
        raise ExtractError(f"cannot find {what}")
    if len(set(ms)) != 1:
        raise ExtractError(f"{what}: conflicting values {ms}")
    if not all_equal and len(ms) != 1:
        raise ExtractError(f"{what}: expected exactly one occurrence, found {len(ms)}")
    return ms[0]

def lean_float(lit):
    """Canonical Lean literal for a Rust float literal: the value decides the text, not the spelling
    (`0.0001`, `1e-4`, `1.0E-4_f64` all become `1e-4`), so that a respelt constant is not a broken tie."""
    from decimal import Decimal
    if not re.fullmatch(FLOAT, lit):
        raise ExtractError(f"unsupported float literal {lit!r}")
    t = lit.replace("_", "").lower()
    if t.endswith("f64"):
        t = t[:-3]
    if t.endswith("."):
        t += "0"
    d = Decimal(t).normalize()
    sign, digits, exp = d.as_tuple()
    mant = int("".join(map(str, digits))) if digits else 0
    if mant == 0:
        return "0.0"
    if exp >= 0:
        return f"{mant * 10 ** exp}.0"
    if exp >= -2:
        s_ = f"{mant:0{-exp + 1}d}"
        return f"{s_[:exp]}.{s_[exp:]}"
    return f"{mant}e{exp}"

def extract():
    c = {}
    lib = read("kcl-ezpz/src/lib.rs")
    solver = read("kcl-ezpz/src/solver.rs")
    cons = read("kcl-ezpz/src/constraints.rs")
    dof = read("kcl-ezpz/src/solver/find_dof.rs")
    gv = read("kcl-ezpz/src/textual/geometry_variables.rs")
    cli = read("ezpz-cli/src/main.rs")
    cargo = read("kcl-ezpz/Cargo.toml")
    newton = read("kcl-ezpz/src/solver/newton.rs")

    c["EPSILON"] = one(rf"const\s+EPSILON\s*:\s*f64\s*=\s*({FLOAT})\s*;", lib, "EPSILON")
    c["REGULARIZATION_LAMBDA"] = one(rf"const\s+REGULARIZATION_LAMBDA\s*:\s*f64\s*=\s*({FLOAT})\s*;", solver, "REGULARIZATION_LAMBDA")
    m = re.search(r"impl Default for Config \{.*?max_iterations: ([0-9]+),\s*convergence_tolerance: (" + FLOAT + r"),\s*step_tolerance: (" + FLOAT + r"),", solver, re.S)
    if not m:
        raise ExtractError("Config::default")
    c["DEFAULT_MAX_ITERATIONS"], c["DEFAULT_CONVERGENCE_TOLERANCE"], c["DEFAULT_STEP_TOLERANCE"] = m.groups()
    c["ANGULAR_DISTANCE_TOLERANCE"] = one(rf"const\s+ANGULAR_DISTANCE_TOLERANCE\s*:\s*f64\s*=\s*({FLOAT})\s*;", cons, "ANGULAR_DISTANCE_TOLERANCE", all_equal=True)
    c["DOF_RANK_TOLERANCE"] = one(rf"let tolerance = ({FLOAT}) \* largest_singular_value;", dof, "dof rank tolerance")
    c["DOF_PARTICIPATION_TOLERANCE"] = one(rf"let var_tol = ({FLOAT}) \* max_participation;", dof, "dof participation tolerance")
    c["VARS_PER_POINT"] = one(r"const VARS_PER_POINT: usize = ([0-9]+);", gv, "VARS_PER_POINT")
    c["VARS_PER_CIRCLE"] = one(r"const VARS_PER_CIRCLE: usize = ([0-9]+);", gv, "VARS_PER_CIRCLE")
    c["VARS_PER_ARC"] = one(r"pub const VARS_PER_ARC: usize = ([0-9]+);", gv, "VARS_PER_ARC")
    c["NUM_ITERS_BENCHMARK"] = one(r"const NUM_ITERS_BENCHMARK: u32 = ([0-9]+);", cli, "NUM_ITERS_BENCHMARK")

    # residual_dim table
    m = re.search(r"pub\(crate\) fn residual_dim\(&self\) -> usize \{\s*match self \{(.*?)\n    \}\n", cons, re.S)
    if not m:
        raise ExtractError("residual_dim body")
    body = m.group(1)
    table = re.findall(r"Constraint::([A-Za-z]+)\([^)]*\) => ([0-9]+),", body)
    m2 = re.search(r"Constraint::ArcAngle\(circular_arc, angle\) => Constraint::LinesAtAngle\(", body)
    if not m2:
        raise ExtractError("residual_dim: ArcAngle no longer delegates to LinesAtAngle")
    d = dict(table)
    if len(table) != 22 or len(d) != 22:
        raise ExtractError(f"residual_dim: expected 22 literal arms, found {len(table)}")
    d["ArcAngle"] = d["LinesAtAngle"]
    c["RESIDUAL_DIM"] = d

    # enum variant order
    m = re.search(r"pub enum Constraint \{(.*?)\n\}\n", cons, re.S)
    if not m:
        raise ExtractError("enum Constraint")
    variants = re.findall(r"^\s{4}([A-Z][A-Za-z]+)\(", m.group(1), re.M)
    if len(variants) != 23:
        raise ExtractError(f"enum Constraint: expected 23 variants, found {len(variants)}")
    c["VARIANTS"] = variants

    m = re.search(r'^faer = \{[^}]*features = \[([^\]]*)\]', cargo, re.M)
    if not m:
        raise ExtractError("faer dependency line")
    c["FAER_FEATURES"] = re.findall(r'"([^"]+)"', m.group(1))

    # Order of the two stopping tests in the Newton loop (residual test before the linear solve,
    # step test after the update).
    i_conv = newton.find("largest_absolute_elem <= config.convergence_tolerance")
    i_solve = newton.find("factored.solve(&b)")
    i_step = newton.find("step_inf_norm <= step_threshold")
    if not (0 < i_conv < i_solve < i_step):
        raise ExtractError("newton.rs: stopping tests not found in the expected order")
    # Call structure of the text front-end's solve methods (executor.rs, impl ConstraintSystem):
    # each method's body contains exactly one call of another solve function; record
    # (method, callee, explicit type argument or the literal config argument).
    executor = read("kcl-ezpz/src/textual/executor.rs")
    methods = []
    bodies = []
    for name in ["solve_no_metadata", "solve_no_metadata_inner", "solve", "solve_with_config_analysis",
                 "solve_with_config", "solve_with_config_inner"]:
        m = re.search(r"\bfn\s+" + name + r"\s*(?:<[^>]*>)?\s*\(", executor)
        if not m:
            raise ExtractError(f"executor.rs: fn {name}")
        i = executor.index("{", m.end())
        depth, j = 0, i
        while True:
            if executor[j] == "{": depth += 1
            elif executor[j] == "}":
                depth -= 1
                if depth == 0: break
            j += 1
        body = executor[i:j]
        calls = re.findall(r"(crate::solve\w*|self\s*\.\s*solve\w*)\s*(?:::<\s*(\w+)\s*>)?\s*\(\s*([^;]*?)\)\s*[?;]?", body)
        calls = [(re.sub(r"\s+", "", a), b, re.sub(r"\s+", "", cargs)) for a, b, cargs in calls]
        if len(calls) != 1:
            raise ExtractError(f"executor.rs: fn {name}: expected exactly one solve call, found {calls}")
        callee, targ, cargs = calls[0]
        arg = targ if targ else ("Default::default()" if cargs.startswith("Default::default(") else "")
        methods.append((name, callee, arg))
        # the whole body, whitespace and comments removed: arguments, the configuration passed on,
        # anything done before or after the call.  The five short methods are kept verbatim, the long
        # one (`solve_with_config_inner`: sizes, the call, the labelling) as a SHA-256.
        nb = re.sub(r"//[^\n]*", "", body)
        nb = re.sub(r"\s+", "", nb)
        if name == "solve_with_config_inner":
            import hashlib
            nb = "sha256:" + hashlib.sha256(nb.encode()).hexdigest()
        if '"' in nb or "\\" in nb:
            raise ExtractError(f"executor.rs: fn {name}: body contains a quote or backslash")
        bodies.append((name, nb))
    c["TEXT_METHODS"] = methods
    c["TEXT_METHOD_BODIES"] = bodies
    # the priority `to_constraint_system` gives every request
    pr = one(r"let\s+priority\s*=\s*(\d+)\s*;", executor, "executor.rs: let priority = <n>;")
    if not re.search(r"ConstraintRequest::new\(\s*\w+\s*,\s*priority\s*\)", executor):
        raise ExtractError("executor.rs: ConstraintRequest::new(<c>, priority)")
    if len(re.findall(r"ConstraintRequest::(?:new|highest_priority)\s*\(", executor.split("#[cfg(feature = \"verif-hooks\")]")[0])) != 1:
        raise ExtractError("executor.rs: expected exactly one place where requests are constructed")
    c["TEXT_PRIORITY"] = pr
    return c

def render(c):
    L = []
    L.append("/- GENERATED by tools/extract.py from /repo's working tree.  Do not edit. -/")
    L.append("namespace Ezpz.Gen")
    L.append("")
    for k in ["EPSILON", "REGULARIZATION_LAMBDA", "DEFAULT_CONVERGENCE_TOLERANCE", "DEFAULT_STEP_TOLERANCE",
              "ANGULAR_DISTANCE_TOLERANCE", "DOF_RANK_TOLERANCE", "DOF_PARTICIPATION_TOLERANCE"]:
        L.append(f"/-- `{k}` as written in the Rust source: `{c[k]}`. -/")
        L.append(f"def {k} {{α : Type}} [OfScientific α] : α := {lean_float(c[k])}")
    for k in ["DEFAULT_MAX_ITERATIONS", "VARS_PER_POINT", "VARS_PER_CIRCLE", "VARS_PER_ARC", "NUM_ITERS_BENCHMARK"]:
        L.append(f"def {k} : Nat := {int(c[k])}")
    L.append("")
    L.append("/-- Variants of `enum Constraint`, in source order. -/")
    L.append("def VARIANTS : List String := [" + ", ".join(f'"{v}"' for v in c["VARIANTS"]) + "]")
    L.append("/-- The arms of `Constraint::residual_dim`. -/")
    L.append("def RESIDUAL_DIM : List (String × Nat) := [" + ", ".join(f'("{v}", {int(c["RESIDUAL_DIM"][v])})' for v in c["VARIANTS"]) + "]")
    L.append("/-- Cargo features of the `faer` dependency (no `rayon` ⇒ sequential linear algebra). -/")
    L.append("def FAER_FEATURES : List String := [" + ", ".join(f'"{v}"' for v in c["FAER_FEATURES"]) + "]")
    L.append("/-- Call structure of the text front-end's solve methods: (method, the one solve function it")
    L.append("calls, explicit type argument / literal config argument). -/")
    L.append("def TEXT_METHODS : List (String × String × String) := [" + ", ".join(f'("{a}", "{b}", "{d}")' for a, b, d in c["TEXT_METHODS"]) + "]")
    L.append("/-- The bodies of those methods with whitespace and comments removed (the long one as a SHA-256). -/")
    L.append("def TEXT_METHOD_BODIES : List (String × String) := [" + ", ".join(f'("{a}", "{b}")' for a, b in c["TEXT_METHOD_BODIES"]) + "]")
    L.append("/-- The priority `to_constraint_system` gives every request (`let priority = …;`). -/")
    L.append(f"def TEXT_PRIORITY : Nat := {int(c['TEXT_PRIORITY'])}")
    L.append("")
    L.append("end Ezpz.Gen")
    return "\n".join(L) + "\n"

def main():
    try:
        c = extract()
    except (ExtractError, OSError, KeyError) as e:
        print(f"extract: FAILED: {e}", file=sys.stderr)
        sys.exit(2)
    txt = render(c)
    out = os.path.normpath(OUT)
    os.makedirs(os.path.dirname(out), exist_ok=True)
    old = open(out).read() if os.path.exists(out) else None
    if old != txt:
        with open(out, "w") as f:
            f.write(txt)
    if "--json" in sys.argv:
        print(json.dumps(c))

if __name__ == "__main__":
    main()
