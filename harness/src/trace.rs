//! Running the real solver with the trace sink on, and rendering the run in the line protocol
//! (`S` record for the Lean driver, result line, per-iteration dump).
use crate::codec::*;
use crate::planted::System;
use kcl_ezpz::verif_hooks::{self as vh, TraceEvent};
use kcl_ezpz::{FailureOutcome, NonLinearSystemError, SolveOutcome, solve, solve_analysis};
use std::panic::{AssertUnwindSafe, catch_unwind};

pub fn err_class(e: &NonLinearSystemError) -> String {
    match e {
        NonLinearSystemError::NotFound(id) => format!("NotFound:{id}"),
        NonLinearSystemError::WrongNumberGuesses { labels, guesses } => {
            format!("WrongNumberGuesses:{labels}:{guesses}")
        }
        NonLinearSystemError::MissingGuess {
            constraint_id,
            variable,
        } => format!("MissingGuess:{constraint_id}:{variable}"),
        NonLinearSystemError::FaerMatrix { .. } => "FaerMatrix".to_owned(),
        NonLinearSystemError::Faer { .. } => "Faer".to_owned(),
        NonLinearSystemError::FaerSolve { .. } => "FaerSolve".to_owned(),
        NonLinearSystemError::FaerSvd(_) => "FaerSvd".to_owned(),
        NonLinearSystemError::DidNotConverge => "DidNotConverge".to_owned(),
        NonLinearSystemError::EmptySystemNotAllowed => "EmptySystemNotAllowed".to_owned(),
    }
}

pub fn show_ok(o: &SolveOutcome, under: Option<&[u32]>) -> String {
    let uc = match under {
        None => "none".to_owned(),
        Some(us) => format!("[{}]", enc_ids(us)),
    };
    format!(
        "OK F {} IT {} UN {} PR {} W {} UC {}",
        enc_floats(o.final_values()),
        o.iterations(),
        enc_ids(o.unsatisfied()),
        o.priority_solved(),
        enc_warnings(o.warnings()),
        uc
    )
}

pub fn show_err(f: &FailureOutcome) -> String {
    format!(
        "ERR {} NV {} NE {} W {}",
        err_class(&f.error),
        f.num_vars,
        f.num_eqs,
        enc_warnings(&f.warnings)
    )
}

pub enum RunResult {
    Ok(SolveOutcome, Option<Vec<u32>>),
    Err(FailureOutcome),
    Panic(String),
}

impl RunResult {
    pub fn line(&self) -> String {
        match self {
            RunResult::Ok(o, u) => show_ok(o, u.as_deref()),
            RunResult::Err(f) => show_err(f),
            RunResult::Panic(_) => "PANIC".to_owned(),
        }
    }
}

/// Run the real solver (plain or with analysis) with tracing on.
pub fn run_traced(sys: &System, analysis: bool) -> (RunResult, Vec<TraceEvent>) {
    vh::trace_start();
    let r = catch_unwind(AssertUnwindSafe(|| {
        if analysis {
            match solve_analysis(&sys.reqs, sys.guesses.clone(), sys.config()) {
                Ok(o) => {
                    let under = o.analysis.underconstrained().to_vec();
                    RunResult::Ok(o.outcome, Some(under))
                }
                Err(f) => RunResult::Err(f),
            }
        } else {
            match solve(&sys.reqs, sys.guesses.clone(), sys.config()) {
                Ok(o) => RunResult::Ok(o, None),
                Err(f) => RunResult::Err(f),
            }
        }
    }));
    let events = vh::trace_take();
    match r {
        Ok(rr) => (rr, events),
        Err(p) => {
            let msg = p
                .downcast_ref::<String>()
                .cloned()
                .or_else(|| p.downcast_ref::<&str>().map(|s| s.to_string()))
                .unwrap_or_default();
            (RunResult::Panic(msg), events)
        }
    }
}

/// Run without tracing (plain call, as a user would).
pub fn run_plain(sys: &System, analysis: bool) -> RunResult {
    let r = catch_unwind(AssertUnwindSafe(|| {
        if analysis {
            match solve_analysis(&sys.reqs, sys.guesses.clone(), sys.config()) {
                Ok(o) => {
                    let under = o.analysis.underconstrained().to_vec();
                    RunResult::Ok(o.outcome, Some(under))
                }
                Err(f) => RunResult::Err(f),
            }
        } else {
            match solve(&sys.reqs, sys.guesses.clone(), sys.config()) {
                Ok(o) => RunResult::Ok(o, None),
                Err(f) => RunResult::Err(f),
            }
        }
    }));
    match r {
        Ok(rr) => rr,
        Err(_) => RunResult::Panic(String::new()),
    }
}

pub fn enc_system_head(sys: &System, analysis: bool) -> String {
    let mut s = format!(
        "S A{} CFG {} {} {} G {}",
        analysis as u8,
        sys.max_iterations,
        bits(sys.convergence_tolerance),
        bits(sys.step_tolerance),
        sys.guesses.len()
    );
    for (id, v) in &sys.guesses {
        s.push_str(&format!(" {} {}", id, bits(*v)));
    }
    s.push_str(&format!(" R {}", sys.reqs.len()));
    for r in &sys.reqs {
        s.push_str(&format!(" {} {}", r.priority(), enc_constraint(r.constraint())));
    }
    s
}

/// The `T …` section (oracle answers) and the per-iteration dump of the implementation.
pub fn enc_trace(events: &[TraceEvent], analysis: bool) -> (String, String) {
    struct Call {
        n_iters: usize,
        steps: Vec<String>,
        newton_ok: bool,
        svd: Option<String>,
        pending_iter: bool,
    }
    let mut calls: Vec<Call> = Vec::new();
    let mut dump: Vec<String> = Vec::new();
    for ev in events {
        match ev {
            TraceEvent::SolveInnerStart { .. } => calls.push(Call {
                n_iters: 0,
                steps: Vec::new(),
                newton_ok: false,
                svd: None,
                pending_iter: false,
            }),
            TraceEvent::Iter { iteration, r, jac, .. } => {
                let ci = calls.len() - 1;
                let c = calls.last_mut().unwrap();
                c.n_iters += 1;
                c.pending_iter = true;
                let j = jac
                    .iter()
                    .map(|(row, col, v)| format!("{}.{}.{}", row, col, bits(*v)))
                    .collect::<Vec<_>>()
                    .join(",");
                dump.push(format!("{}:{}:{}:{}", ci, iteration, enc_floats(r), j));
            }
            TraceEvent::Step { d, .. } => {
                let c = calls.last_mut().unwrap();
                c.pending_iter = false;
                c.steps.push(format!(
                    "STEP {} {}",
                    d.len(),
                    d.iter().map(|v| bits(*v)).collect::<Vec<_>>().join(" ")
                ));
            }
            TraceEvent::Converged { .. } | TraceEvent::StepStop { .. } => {
                let c = calls.last_mut().unwrap();
                c.newton_ok = true;
                c.pending_iter = false;
            }
            TraceEvent::NewtonErr { what } => {
                let c = calls.last_mut().unwrap();
                if c.pending_iter && what.starts_with("Faer") {
                    let cls = if what.starts_with("FaerSolve") {
                        "FaerSolve"
                    } else if what.starts_with("FaerMatrix") {
                        "FaerMatrix"
                    } else {
                        "Faer"
                    };
                    c.steps.push(format!("SERR {cls}"));
                }
                c.pending_iter = false;
            }
            TraceEvent::Dof { sigma, v, .. } => {
                let c = calls.last_mut().unwrap();
                let nr = v.len();
                let nc = v.first().map(|r| r.len()).unwrap_or(0);
                let mut s = format!("SVD {}", sigma.len());
                for x in sigma {
                    s.push(' ');
                    s.push_str(&bits(*x));
                }
                s.push_str(&format!(" {nr} {nc}"));
                for row in v {
                    for x in row {
                        s.push(' ');
                        s.push_str(&bits(*x));
                    }
                }
                c.svd = Some(s);
            }
            TraceEvent::SolveInnerEnd { .. } => {}
        }
    }
    let mut t = format!("T {}", calls.len());
    for c in &calls {
        t.push_str(&format!(" CALL {} {}", c.n_iters, c.steps.len()));
        for s in &c.steps {
            t.push(' ');
            t.push_str(s);
        }
        t.push(' ');
        match (&c.svd, analysis && c.newton_ok) {
            (Some(s), _) => t.push_str(s),
            (None, true) => t.push_str("SVDERR"),
            (None, false) => t.push_str("NOSVD"),
        }
    }
    (t, dump.join(";"))
}
