//! Grammar-based generator of problem texts (all 24 syntactic instruction forms, every label role,
//! several number syntaxes, optional whitespace), with the generator's own entity table so that the
//! constraints a user would build by hand through the library API are known independently of the
//! executor; plus a mutation stream of malformed texts.
use crate::rng::Rng;
use kcl_ezpz::Constraint;
use kcl_ezpz::datatypes::inputs::*;
use kcl_ezpz::datatypes::{Angle, AngleKind};

#[derive(Clone, Debug)]
pub enum GI {
    DeclPoint(String),
    DeclCircle(String),
    DeclArc(String),
    FixPoint(String, bool, f64),          // p.x = v / p.y = v
    FixCenter(String, bool, f64),         // obj.center.x = v
    AssignPoint(String, f64, f64),        // p = (x, y)
    AssignCenter(String, f64, f64),       // obj.center = (x, y)
    Horizontal(String, String),
    Vertical(String, String),
    Coincident(String, String),
    PointArc(String, String),
    Midpoint(String, String, String),
    Symmetric(String, String, String, String),
    Distance(String, String, f64),
    Parallel(String, String, String, String),
    Perpendicular(String, String, String, String),
    AngleDeg(String, String, String, String, f64),
    AngleRad(String, String, String, String, f64),
    Radius(String, f64),
    Tangent(String, String, String),
    ArcRadius(String, f64),
    ArcLength(String, f64),
    IsArc(String),
    PointLineDistance(String, String, String, f64),
    Line(String, String),
    LinesEqualLength(String, String, String, String),
}

#[derive(Clone, Debug, Default)]
pub struct GenProblem {
    pub instrs: Vec<(GI, String)>, // instruction and its rendered line
    pub points: Vec<String>,
    pub circles: Vec<String>,
    pub arcs: Vec<String>,
    pub guess_lines: Vec<String>,
    /// the guess values the text gives, by variable id (sequential allocation)
    pub guess_values: Vec<f64>,
}

/// A number together with a textual form that parses to exactly that number.
fn number(rng: &mut Rng) -> (f64, String) {
    match rng.below(9) {
        0 => {
            let k = rng.below(20) as i64 - 5;
            (k as f64, k.to_string())
        }
        1 => {
            let k = rng.below(2000) as f64 / 8.0 - 100.0;
            (k, format!("{k}"))
        }
        2 => {
            let k = rng.below(9) as i32 + 1;
            let e = rng.below(5) as i32 - 2;
            let s = format!("{k}e{e}");
            (s.parse().unwrap(), s)
        }
        3 => {
            let k = rng.below(999);
            let s = format!(".{k:03}");
            (s.parse().unwrap(), s)
        }
        4 => {
            let k = rng.below(50);
            let s = format!("{k}.");
            (s.parse().unwrap(), s)
        }
        5 => {
            let k = rng.below(50);
            let s = format!("+{k}.5");
            (s.parse().unwrap(), s)
        }
        6 => {
            let k = rng.below(9) + 1;
            let s = format!("{k}.25E-1");
            (s.parse().unwrap(), s)
        }
        7 => {
            let v = rng.sym() * 50.0;
            let s = format!("{v}");
            (s.parse().unwrap(), s)
        }
        _ => {
            let k = rng.below(30) as i64 - 15;
            let s = format!("{k}.0");
            (s.parse().unwrap(), s)
        }
    }
}

/// A number expression (for `distance` / `radius`): plain or `sqrt(` nested.
fn number_expr(rng: &mut Rng) -> (f64, String) {
    if rng.chance(1, 3) {
        let depth = rng.range(1, 3);
        let k = (rng.below(40) + 1) as f64;
        let mut v = k;
        let mut s = format!("{k}");
        for _ in 0..depth {
            v = v.sqrt();
            s = format!("sqrt({s})");
        }
        (v, s)
    } else {
        let (v, s) = number(rng);
        (v.abs(), s.trim_start_matches(['-', '+']).to_string())
    }
}

fn sp(rng: &mut Rng) -> &'static str {
    *rng.pick(&["", "", " ", "  ", "\t"])
}

fn comma(rng: &mut Rng) -> String {
    format!("{}{}{}", sp(rng), ",", *rng.pick(&[" ", " ", "", "  "]))
}

fn args(rng: &mut Rng, xs: &[&str]) -> String {
    let mut s = String::new();
    for (i, x) in xs.iter().enumerate() {
        if i > 0 {
            s.push_str(&comma(rng));
        }
        s.push_str(x);
    }
    s
}

// (labels that differ only in letter case, or that extend one another, are distinct labels)
// (labels that begin with a keyword of the format - point1, arcade, circles - or that look like a
// component or suffix name - x, y, a, b, center, radius - are ordinary labels too)
const NAMES: [&str; 27] = ["p", "q", "r", "P", "Q", "u", "m", "p0", "P0", "Q1", "a1", "b2", "xx", "xX", "k9", "z", "point1", "arcade", "circles", "pointA", "x", "y", "a", "b", "center", "radius", "sqrt"];
const CNAMES: [&str; 8] = ["c", "C", "c2", "K", "w", "circleA", "arc2", "pointy"];
const ANAMES: [&str; 8] = ["e", "E", "g2", "H", "e2", "arc1", "pointer", "circ"];

/// A valid problem: 0..6 points, 0..3 circles, 0..3 arcs, 1..20 instructions.
pub fn gen_valid(rng: &mut Rng) -> GenProblem {
    let mut gp = GenProblem::default();
    // now and then a text several times larger than the usual one (many entities of every sort)
    let big = rng.chance(1, 20);
    let np = if big { rng.range(10, 40) } else { rng.range(0, 6) };
    let nc = if big { rng.range(3, 12) } else { rng.range(0, 3) };
    let na = if big { rng.range(3, 12) } else { rng.range(0, 3) };
    let mut names: Vec<String> = NAMES.iter().map(|s| s.to_string()).collect();
    let mut cn: Vec<String> = CNAMES.iter().map(|s| s.to_string()).collect();
    let mut an: Vec<String> = ANAMES.iter().map(|s| s.to_string()).collect();
    if big {
        for i in 0..40 { names.push(format!("v{i}")); }
        for i in 0..12 { cn.push(format!("ci{i}")); an.push(format!("ar{i}")); }
    }
    rng.shuffle(&mut names);
    gp.points = names[..np].to_vec();
    rng.shuffle(&mut cn);
    gp.circles = cn[..nc].to_vec();
    rng.shuffle(&mut an);
    gp.arcs = an[..na].to_vec();
    // declarations, to be interleaved with the constraints
    let mut decls: Vec<GI> = Vec::new();
    for p in &gp.points {
        decls.push(GI::DeclPoint(p.clone()));
    }
    for c in &gp.circles {
        decls.push(GI::DeclCircle(c.clone()));
    }
    for a in &gp.arcs {
        decls.push(GI::DeclArc(a.clone()));
    }
    let ninstr = if big { rng.range(20, 80) } else { rng.range(1, 20) };
    let mut cons: Vec<GI> = Vec::new();
    let pt = |rng: &mut Rng, gp: &GenProblem| gp.points[rng.below(gp.points.len())].clone();
    for _ in 0..ninstr {
        let have_p = !gp.points.is_empty();
        let have_c = !gp.circles.is_empty();
        let have_a = !gp.arcs.is_empty();
        let form = rng.below(23);
        let gi = match form {
            0 if have_p => GI::FixPoint(pt(rng, &gp), rng.chance(1, 2), number(rng).0),
            1 if have_c || have_a => {
                let obj = if have_c && (!have_a || rng.chance(1, 2)) {
                    gp.circles[rng.below(gp.circles.len())].clone()
                } else {
                    gp.arcs[rng.below(gp.arcs.len())].clone()
                };
                GI::FixCenter(obj, rng.chance(1, 2), number(rng).0)
            }
            2 if have_p => GI::AssignPoint(pt(rng, &gp), number(rng).0, number(rng).0),
            3 if have_c || have_a => {
                let obj = if have_c && (!have_a || rng.chance(1, 2)) {
                    gp.circles[rng.below(gp.circles.len())].clone()
                } else {
                    gp.arcs[rng.below(gp.arcs.len())].clone()
                };
                GI::AssignCenter(obj, number(rng).0, number(rng).0)
            }
            4 if have_p => GI::Horizontal(pt(rng, &gp), pt(rng, &gp)),
            5 if have_p => GI::Vertical(pt(rng, &gp), pt(rng, &gp)),
            6 if have_p => GI::Coincident(pt(rng, &gp), pt(rng, &gp)),
            7 if have_p && have_a => GI::PointArc(pt(rng, &gp), gp.arcs[rng.below(gp.arcs.len())].clone()),
            8 if have_p => GI::Midpoint(pt(rng, &gp), pt(rng, &gp), pt(rng, &gp)),
            9 if have_p => GI::Symmetric(pt(rng, &gp), pt(rng, &gp), pt(rng, &gp), pt(rng, &gp)),
            10 if have_p => GI::Distance(pt(rng, &gp), pt(rng, &gp), number_expr(rng).0),
            11 if have_p => GI::Parallel(pt(rng, &gp), pt(rng, &gp), pt(rng, &gp), pt(rng, &gp)),
            12 if have_p => GI::Perpendicular(pt(rng, &gp), pt(rng, &gp), pt(rng, &gp), pt(rng, &gp)),
            13 if have_p => GI::AngleDeg(pt(rng, &gp), pt(rng, &gp), pt(rng, &gp), pt(rng, &gp), number(rng).0),
            14 if have_p => GI::AngleRad(pt(rng, &gp), pt(rng, &gp), pt(rng, &gp), pt(rng, &gp), number(rng).0),
            15 if have_c => GI::Radius(gp.circles[rng.below(gp.circles.len())].clone(), number_expr(rng).0),
            16 if have_c && have_p => GI::Tangent(pt(rng, &gp), pt(rng, &gp), gp.circles[rng.below(gp.circles.len())].clone()),
            17 if have_a => GI::ArcRadius(gp.arcs[rng.below(gp.arcs.len())].clone(), number(rng).0.abs()),
            18 if have_a => GI::ArcLength(gp.arcs[rng.below(gp.arcs.len())].clone(), number(rng).0.abs()),
            19 if have_a => GI::IsArc(gp.arcs[rng.below(gp.arcs.len())].clone()),
            20 if have_p => GI::PointLineDistance(pt(rng, &gp), pt(rng, &gp), pt(rng, &gp), number(rng).0),
            21 if have_p => GI::Line(pt(rng, &gp), pt(rng, &gp)),
            22 if have_p => GI::LinesEqualLength(pt(rng, &gp), pt(rng, &gp), pt(rng, &gp), pt(rng, &gp)),
            _ => continue,
        };
        cons.push(gi);
    }
    // interleave declarations and constraints (references to later declarations are allowed)
    let mut all: Vec<GI> = Vec::new();
    let (mut di, mut ci) = (0, 0);
    let decl_first = rng.chance(2, 3);
    while di < decls.len() || ci < cons.len() {
        let take_decl = di < decls.len() && (ci >= cons.len() || decl_first || rng.chance(1, 2));
        if take_decl {
            all.push(decls[di].clone());
            di += 1;
        } else {
            all.push(cons[ci].clone());
            ci += 1;
        }
    }
    if all.is_empty() {
        // the grammar needs at least one instruction
        gp.points.push("p".into());
        all.push(GI::DeclPoint("p".into()));
    }
    for gi in all {
        let line = render(rng, &gi);
        gp.instrs.push((gi, line));
    }
    // guesses, in a random order
    let mut glines: Vec<(usize, String, Vec<f64>)> = Vec::new();
    let mut values = vec![0.0; 2 * gp.points.len() + 3 * gp.circles.len() + 6 * gp.arcs.len()];
    let p2 = 2 * gp.points.len();
    let c3 = 3 * gp.circles.len();
    for (i, p) in gp.points.iter().enumerate() {
        let (x, xs) = number(rng);
        let (y, ys) = number(rng);
        values[2 * i] = x;
        values[2 * i + 1] = y;
        glines.push((0, format!("{}{p}{}roughly{}({xs},{}{ys})", sp(rng), *rng.pick(&[" ", "  "]), *rng.pick(&[" ", "\t"]), *rng.pick(&["", " "])), vec![]));
    }
    for (j, c) in gp.circles.iter().enumerate() {
        let (x, xs) = number(rng);
        let (y, ys) = number(rng);
        let (r, rs) = number_expr_plain(rng);
        values[p2 + 3 * j] = x;
        values[p2 + 3 * j + 1] = y;
        values[p2 + 3 * j + 2] = r;
        glines.push((0, format!("{c}.center roughly ({xs}, {ys})"), vec![]));
        glines.push((0, format!("{c}.radius roughly {rs}"), vec![]));
    }
    for (k, a) in gp.arcs.iter().enumerate() {
        let b = p2 + c3 + 6 * k;
        let (ax, axs) = number(rng);
        let (ay, ays) = number(rng);
        let (bx, bxs) = number(rng);
        let (by, bys) = number(rng);
        let (cx, cxs) = number(rng);
        let (cy, cys) = number(rng);
        values[b] = ax;
        values[b + 1] = ay;
        values[b + 2] = bx;
        values[b + 3] = by;
        values[b + 4] = cx;
        values[b + 5] = cy;
        glines.push((0, format!("{a}.a roughly ({axs}, {ays})"), vec![]));
        glines.push((0, format!("{a}.b roughly ({bxs},{bys})"), vec![]));
        glines.push((0, format!("{a}.center roughly ({cxs}, {cys})"), vec![]));
    }
    let mut order: Vec<usize> = (0..glines.len()).collect();
    rng.shuffle(&mut order);
    gp.guess_lines = order.iter().map(|i| glines[*i].1.clone()).collect();
    gp.guess_values = values;
    gp
}

fn number_expr_plain(rng: &mut Rng) -> (f64, String) {
    let (v, s) = number(rng);
    (v, s)
}

fn num_text(rng: &mut Rng, v: f64) -> String {
    // a textual form that parses back to exactly v
    if v.fract() == 0.0 && v.abs() < 1e15 && rng.chance(1, 2) {
        format!("{}", v as i64)
    } else {
        format!("{v}")
    }
}

pub fn render(rng: &mut Rng, gi: &GI) -> String {
    let ind = *rng.pick(&["", "", "  ", "\t"]);
    let o = sp(rng);
    let body = match gi {
        GI::DeclPoint(l) => format!("point {l}"),
        GI::DeclCircle(l) => format!("circle {l}"),
        GI::DeclArc(l) => format!("arc {l}"),
        GI::FixPoint(p, is_x, v) => format!("{p}.{}{}={}{}", if *is_x { "x" } else { "y" }, sp(rng), sp(rng), num_text(rng, *v)),
        GI::FixCenter(obj, is_x, v) => format!("{obj}.center.{}{}={}{}", if *is_x { "x" } else { "y" }, sp(rng), sp(rng), num_text(rng, *v)),
        GI::AssignPoint(p, x, y) => format!("{p}{}={}({}{},{}{})", sp(rng), sp(rng), sp(rng), num_text(rng, *x), *rng.pick(&["", " "]), num_text(rng, *y)),
        GI::AssignCenter(obj, x, y) => format!("{obj}.center{}={}({},{}{})", sp(rng), sp(rng), num_text(rng, *x), *rng.pick(&["", " "]), num_text(rng, *y)),
        GI::Horizontal(a, b) => format!("horizontal{o}({}{}{})", sp(rng), args(rng, &[a, b]), sp(rng)),
        GI::Vertical(a, b) => format!("vertical{o}({}{})", args(rng, &[a, b]), sp(rng)),
        GI::Coincident(a, b) => format!("coincident{o}({}{})", args(rng, &[a, b]), sp(rng)),
        GI::PointArc(p, a) => format!("point_arc_coincident{o}({}{})", args(rng, &[p, a]), sp(rng)),
        GI::Midpoint(a, b, m) => format!("midpoint{o}({}{})", args(rng, &[a, b, m]), sp(rng)),
        GI::Symmetric(p, q, a, b) => format!("symmetric{o}({}{})", args(rng, &[p, q, a, b]), sp(rng)),
        GI::Distance(a, b, d) => format!("distance{o}({}{}{})", args(rng, &[a, b]), comma(rng), expr_text(rng, *d)),
        GI::Parallel(a, b, c, d) => format!("parallel{o}({}{})", args(rng, &[a, b, c, d]), sp(rng)),
        GI::Perpendicular(a, b, c, d) => format!("perpendicular{o}({}{})", args(rng, &[a, b, c, d]), sp(rng)),
        GI::AngleDeg(a, b, c, d, v) => format!("lines_at_angle{o}({}{}{}deg)", args(rng, &[a, b, c, d]), comma(rng), num_text(rng, *v)),
        GI::AngleRad(a, b, c, d, v) => format!("lines_at_angle{o}({}{}{}rad)", args(rng, &[a, b, c, d]), comma(rng), num_text(rng, *v)),
        GI::Radius(c, r) => format!("radius{o}({}{}{})", c, comma(rng), expr_text(rng, *r)),
        GI::Tangent(p, q, c) => format!("tangent{o}({})", args(rng, &[p, q, c])),
        GI::ArcRadius(a, r) => format!("arc_radius{o}({}{}{})", a, comma(rng), num_text(rng, *r)),
        GI::ArcLength(a, d) => format!("arc_length{o}({}{}{})", a, comma(rng), num_text(rng, *d)),
        GI::IsArc(a) => format!("is_arc{o}({}{a})", sp(rng)),
        GI::PointLineDistance(p, a, b, d) => format!("point_line_distance{o}({}{}{}{})", args(rng, &[p, a, b]), comma(rng), num_text(rng, *d), sp(rng)),
        GI::Line(a, b) => format!("line{o}({})", args(rng, &[a, b])),
        GI::LinesEqualLength(a, b, c, d) => format!("lines_equal_length{o}({}{})", args(rng, &[a, b, c, d]), sp(rng)),
    };
    format!("{ind}{body}")
}

/// A textual expression that evaluates to exactly `v` (`sqrt(` forms when `v` is an exact root).
fn expr_text(rng: &mut Rng, v: f64) -> String {
    // nested forms: sqrt(sqrt(v^4)), sqrt(sqrt(sqrt(v^8))) when they evaluate back to exactly v
    let q4 = v * v * v * v;
    if v > 0.0 && q4.fract() == 0.0 && q4 < 1e12 && q4.sqrt().sqrt() == v && rng.chance(1, 2) {
        let q8 = q4 * q4;
        if q8 < 1e15 && q8.fract() == 0.0 && q8.sqrt().sqrt().sqrt() == v && rng.chance(1, 2) {
            return format!("sqrt(sqrt(sqrt({})))", q8 as i64);
        }
        return format!("sqrt(sqrt({}))", q4 as i64);
    }
    let sq = v * v;
    if sq.sqrt() == v && sq.fract() == 0.0 && sq < 1e6 && rng.chance(1, 2) {
        format!("sqrt({})", sq as i64)
    } else {
        format!("{v}")
    }
}

pub fn text_of(gp: &GenProblem, rng: &mut Rng) -> String {
    let mut s = String::from("# constraints\n");
    s.push_str(&gp.instrs.iter().map(|(_, l)| l.clone()).collect::<Vec<_>>().join("\n"));
    s.push_str("\n\n");
    s.push_str(*rng.pick(&["", "", " ", "\t"]));
    s.push_str("# guesses\n");
    s.push_str(&gp.guess_lines.join("\n"));
    s.push_str(*rng.pick(&["", "\n", "\n  ", " "]));
    s
}

/// The constraints a user would build by hand for the entities the labels name
/// (sequential id allocation: points, then circles `[cx, cy, r]`, then arcs `[ax, ay, bx, by, cx, cy]`).
pub fn expected_constraints(gp: &GenProblem) -> Vec<Constraint> {
    let p2 = 2 * gp.points.len() as u32;
    let c3 = 3 * gp.circles.len() as u32;
    let point = |l: &str| -> DatumPoint {
        let i = gp.points.iter().position(|p| p == l).unwrap() as u32;
        DatumPoint::new_xy(2 * i, 2 * i + 1)
    };
    let circle = |l: &str| -> DatumCircle {
        let j = gp.circles.iter().position(|c| c == l).unwrap() as u32;
        DatumCircle {
            center: DatumPoint::new_xy(p2 + 3 * j, p2 + 3 * j + 1),
            radius: DatumDistance::new(p2 + 3 * j + 2),
        }
    };
    let arc = |l: &str| -> DatumCircularArc {
        let k = gp.arcs.iter().position(|a| a == l).unwrap() as u32;
        let b = p2 + c3 + 6 * k;
        DatumCircularArc {
            start: DatumPoint::new_xy(b, b + 1),
            end: DatumPoint::new_xy(b + 2, b + 3),
            center: DatumPoint::new_xy(b + 4, b + 5),
        }
    };
    let center_of = |l: &str| -> DatumPoint {
        if gp.circles.iter().any(|c| c == l) { circle(l).center } else { arc(l).center }
    };
    let seg = |a: &str, b: &str| DatumLineSegment::new(point(a), point(b));
    let mut out = Vec::new();
    for (gi, _) in &gp.instrs {
        match gi {
            GI::DeclPoint(_) | GI::DeclCircle(_) | GI::DeclArc(_) | GI::Line(..) => {}
            GI::FixPoint(p, is_x, v) => {
                let d = point(p);
                out.push(Constraint::Fixed(if *is_x { d.x_id } else { d.y_id }, *v));
            }
            GI::FixCenter(o, is_x, v) => {
                let d = center_of(o);
                out.push(Constraint::Fixed(if *is_x { d.x_id } else { d.y_id }, *v));
            }
            GI::AssignPoint(p, x, y) => {
                let d = point(p);
                out.push(Constraint::Fixed(d.x_id, *x));
                out.push(Constraint::Fixed(d.y_id, *y));
            }
            GI::AssignCenter(o, x, y) => {
                let d = center_of(o);
                out.push(Constraint::Fixed(d.x_id, *x));
                out.push(Constraint::Fixed(d.y_id, *y));
            }
            GI::Horizontal(a, b) => out.push(Constraint::Horizontal(seg(a, b))),
            GI::Vertical(a, b) => out.push(Constraint::Vertical(seg(a, b))),
            GI::Coincident(a, b) => out.push(Constraint::PointsCoincident(point(a), point(b))),
            GI::PointArc(p, a) => out.push(Constraint::PointArcCoincident(arc(a), point(p))),
            GI::Midpoint(a, b, m) => out.push(Constraint::Midpoint(seg(a, b), point(m))),
            GI::Symmetric(p, q, a, b) => out.push(Constraint::Symmetric(seg(p, q), point(a), point(b))),
            GI::Distance(a, b, d) => out.push(Constraint::Distance(point(a), point(b), *d)),
            GI::Parallel(a, b, c, d) => out.push(Constraint::LinesAtAngle(seg(a, b), seg(c, d), AngleKind::Parallel)),
            GI::Perpendicular(a, b, c, d) => out.push(Constraint::LinesAtAngle(seg(a, b), seg(c, d), AngleKind::Perpendicular)),
            GI::AngleDeg(a, b, c, d, v) => out.push(Constraint::LinesAtAngle(seg(a, b), seg(c, d), AngleKind::Other(Angle::from_degrees(*v)))),
            GI::AngleRad(a, b, c, d, v) => out.push(Constraint::LinesAtAngle(seg(a, b), seg(c, d), AngleKind::Other(Angle::from_radians(*v)))),
            GI::Radius(c, r) => out.push(Constraint::CircleRadius(circle(c), *r)),
            GI::Tangent(p, q, c) => out.push(Constraint::LineTangentToCircle(seg(p, q), circle(c))),
            GI::ArcRadius(a, r) => out.push(Constraint::ArcRadius(arc(a), *r)),
            GI::ArcLength(a, d) => out.push(Constraint::ArcLength(arc(a), *d)),
            GI::IsArc(a) => out.push(Constraint::Arc(arc(a))),
            GI::PointLineDistance(p, a, b, d) => out.push(Constraint::PointLineDistance(point(p), seg(a, b), *d)),
            GI::LinesEqualLength(a, b, c, d) => out.push(Constraint::LinesEqualLength(seg(a, b), seg(c, d))),
        }
    }
    out
}

/// Malformed texts: mutations of a valid text and raw noise.  Returns (text, mutation kind).
pub fn mutate(rng: &mut Rng, gp: &GenProblem) -> (String, &'static str) {
    let base = text_of(gp, rng);
    let lines: Vec<&str> = base.split('\n').collect();
    match rng.below(16) {
        0 => {
            // delete a line
            let mut l = lines.clone();
            if l.len() > 1 {
                l.remove(rng.below(l.len()));
            }
            (l.join("\n"), "delete-line")
        }
        1 => {
            let mut l = lines.clone();
            let i = rng.below(l.len());
            l.insert(i, lines[i]);
            (l.join("\n"), "duplicate-line")
        }
        2 => {
            // rename one occurrence of a label to an undeclared one
            let all: Vec<&String> = gp.points.iter().chain(gp.circles.iter()).chain(gp.arcs.iter()).collect();
            if all.is_empty() {
                return (base, "none");
            }
            let l = *rng.pick(&all);
            let idxs: Vec<usize> = base.match_indices(l.as_str()).map(|(i, _)| i).collect();
            if idxs.is_empty() {
                return (base, "none");
            }
            let i = *rng.pick(&idxs);
            let mut s = base.clone();
            s.replace_range(i..i + l.len(), "zz9");
            (s, "rename-label")
        }
        3 => {
            // swap the two sections
            let parts: Vec<&str> = base.splitn(2, "\n\n").collect();
            if parts.len() == 2 { (format!("{}\n\n{}", parts[1], parts[0]), "swap-sections") } else { (base, "none") }
        }
        4 => {
            let cut = rng.below(base.len().max(1));
            let mut c = cut;
            while !base.is_char_boundary(c) {
                c -= 1;
            }
            (base[..c].to_string(), "truncate")
        }
        5 => {
            // delete one character
            let mut cs: Vec<char> = base.chars().collect();
            if !cs.is_empty() {
                cs.remove(rng.below(cs.len()));
            }
            (cs.into_iter().collect(), "delete-char")
        }
        6 => {
            // insert a random (possibly non-ASCII) character
            let mut cs: Vec<char> = base.chars().collect();
            let c = *rng.pick(&['é', '(', ')', ',', '.', '=', '#', ' ', '\n', '\t', 'x', '9', '-', 'e', '\u{1F600}', '\r', '_']);
            cs.insert(rng.below(cs.len() + 1), c);
            (cs.into_iter().collect(), "insert-char")
        }
        7 => {
            // extra guess for an undeclared entity: a point guess, or a scalar guess (also when the
            // text declares no circle at all)
            let g = *rng.pick(&["ghost roughly (1, 2)", "ghost.radius roughly 3", "ghost roughly 4", "ghost.center roughly (0, 0)", "zz.a roughly (1,1)"]);
            let b = base.trim_end_matches([' ', '\n', '\t']).to_string();
            (format!("{b}\n{g}"), "extra-guess")
        }
        8 => {
            // drop one guess line
            let parts: Vec<&str> = base.splitn(2, "# guesses\n").collect();
            if parts.len() == 2 {
                let mut g: Vec<&str> = parts[1].split('\n').collect();
                // drop a line that really is a guess (not a blank one), so that the text omits a guess
                // for a declared entity and must be rejected
                let real: Vec<usize> = g.iter().enumerate().filter(|(_, l)| l.contains("roughly")).map(|(k, _)| k).collect();
                if real.is_empty() {
                    return (base, "none");
                }
                g.remove(*rng.pick(&real));
                (format!("{}# guesses\n{}", parts[0], g.join("\n")), "missing-guess")
            } else {
                (base, "none")
            }
        }
        9 => {
            // reference to an undeclared label: EVERY instruction form of the format, with exactly one
            // role (chosen at random) naming something that was never declared and the other roles
            // filled with declared labels of the right kind (where the text has any)
            const FORMS: [(&str, &str); 24] = [
                ("@0.x = 3", "P"), ("@0.center.y = 1", "O"), ("@0 = (1, 2)", "P"), ("@0.center = (1, 2)", "O"),
                ("horizontal(@0, @1)", "PP"), ("vertical(@0, @1)", "PP"), ("coincident(@0, @1)", "PP"),
                ("point_arc_coincident(@0, @1)", "PA"), ("midpoint(@0, @1, @2)", "PPP"),
                ("symmetric(@0, @1, @2, @3)", "PPPP"), ("distance(@0, @1, 2)", "PP"),
                ("parallel(@0, @1, @2, @3)", "PPPP"), ("perpendicular(@0, @1, @2, @3)", "PPPP"),
                ("lines_at_angle(@0, @1, @2, @3, 30deg)", "PPPP"), ("lines_at_angle(@0, @1, @2, @3, 1rad)", "PPPP"),
                ("radius(@0, 3)", "C"), ("tangent(@0, @1, @2)", "PPC"), ("arc_radius(@0, 2)", "A"),
                ("arc_length(@0, 2)", "A"), ("is_arc(@0)", "A"), ("point_line_distance(@0, @1, @2, 1)", "PPP"),
                ("line(@0, @1)", "PP"), ("lines_equal_length(@0, @1, @2, @3)", "PPPP"), ("line(@1, @0)", "PP"),
            ];
            let (tmpl, roles) = *rng.pick(&FORMS);
            let bad_slot = rng.below(roles.len());
            let mut l = tmpl.to_string();
            for (k, role) in roles.chars().collect::<Vec<char>>().into_iter().enumerate().rev() {
                let good: Option<String> = match role {
                    'P' => {
                        let mut pool: Vec<String> = gp.points.clone();
                        pool.extend(gp.circles.iter().map(|c| format!("{c}.center")));
                        pool.extend(gp.arcs.iter().flat_map(|a| [format!("{a}.center"), format!("{a}.a"), format!("{a}.b")]));
                        if pool.is_empty() { None } else { Some(rng.pick(&pool).clone()) }
                    }
                    'C' => gp.circles.first().cloned(),
                    'A' => gp.arcs.first().cloned(),
                    _ => gp.circles.iter().chain(gp.arcs.iter()).next().cloned(),
                };
                let v = if k == bad_slot || good.is_none() {
                    match role {
                        'P' => (*rng.pick(&["nosuch", "nosuch", "nosuch.center", "nosuch.a", "nosuch.b"])).to_string(),
                        _ => "nosuch".to_string(),
                    }
                } else {
                    good.unwrap()
                };
                l = l.replace(&format!("@{k}"), &v);
            }
            (base.replacen("# constraints\n", &format!("# constraints\n{l}\n"), 1), "undeclared-reference")
        }
        10 => {
            // arc centre through the point syntax (accepted forms)
            if let Some(a) = gp.arcs.first() {
                (base.replacen("# constraints\n", &format!("# constraints\n{a}.center = (5, 6)\n"), 1), "arc-center-assign")
            } else {
                (base, "none")
            }
        }
        11 => {
            let depth = rng.range(1, 40);
            let e = format!("{}2{}", "sqrt(".repeat(depth), ")".repeat(depth - rng.below(2)));
            if gp.points.len() >= 2 {
                (base.replacen("# constraints\n", &format!("# constraints\ndistance({}, {}, {e})\n", gp.points[0], gp.points[1]), 1), "sqrt-nesting")
            } else {
                (base, "none")
            }
        }
        13 => {
            // a label that merely *extends* (or is a prefix of) a declared circle / arc label and is
            // itself undeclared: `radius(c2, 3)` with only `circle c` declared, `is_arc(ab)` with only
            // `arc a`, `c7.center` ... must be rejected like any other undeclared label
            let owners: Vec<&String> = gp.circles.iter().chain(gp.arcs.iter()).collect();
            if owners.is_empty() {
                return (base, "none");
            }
            let o = (*rng.pick(&owners)).clone();
            let all: Vec<&String> = gp.points.iter().chain(gp.circles.iter()).chain(gp.arcs.iter()).collect();
            let cand = if rng.chance(1, 4) && o.len() > 1 { o[..o.len() - 1].to_string() } else { format!("{o}{}", rng.pick(&["2", "0", "b", "x", "10"])) };
            if all.iter().any(|l| **l == cand) {
                return (base, "none");
            }
            let is_circle = gp.circles.contains(&o);
            let l = if is_circle {
                (*rng.pick(&["radius(@, 3)", "tangent(@, @, @)", "@.center.x = 1", "@.center = (1, 2)"])).replace('@', &cand)
            } else {
                (*rng.pick(&["is_arc(@)", "arc_radius(@, 2)", "arc_length(@, 2)", "@.center.y = 1", "@.center = (1, 2)"])).replace('@', &cand)
            };
            let l = if l.starts_with("tangent(") {
                // tangent(p, q, circle): use the near-miss only as the circle
                let p = gp.points.first().cloned().unwrap_or_else(|| "nosuch".into());
                format!("tangent({p}, {p}, {cand})")
            } else { l };
            (base.replacen("# constraints\n", &format!("# constraints\n{l}\n"), 1), "undeclared-reference")
        }
        15 => {
            // a non-ASCII character (unit sign, currency, accent, emoji) a few BYTES into or right
            // after a number token, or a keyword: every parser that peeks at the input by byte offsets
            // (`&i[..5]`) instead of by characters panics exactly when a multi-byte character straddles
            // its offset, and only there - a uniformly placed character almost never lands on it
            let bytes = base.as_bytes();
            let mut starts: Vec<usize> = Vec::new();
            for k in 0..bytes.len() {
                let prev_alnum = k > 0 && (bytes[k - 1].is_ascii_alphanumeric() || bytes[k - 1] == b'_' || bytes[k - 1] == b'.');
                let tokenish = bytes[k].is_ascii_digit() || bytes[k] == b'-' || (k + 4 < bytes.len() && &bytes[k..k + 4] == b"sqrt");
                if tokenish && !prev_alnum {
                    starts.push(k);
                }
            }
            // number slots of the instructions that take a number expression come first half of the time
            let in_calls: Vec<usize> = starts.iter().copied().filter(|k| base[..*k].rfind('\n').map(|l| base[l..*k].contains('(')).unwrap_or(false)).collect();
            let pool = if !in_calls.is_empty() && rng.chance(1, 2) { &in_calls } else { &starts };
            if pool.is_empty() {
                return (base, "none");
            }
            let st = *rng.pick(pool);
            let line_end = base[st..].find('\n').map(|e| st + e).unwrap_or(base.len());
            let mut at = (st + rng.below(8)).min(line_end);
            while !base.is_char_boundary(at) {
                at -= 1;
            }
            let c = *rng.pick(&['°', 'µ', '€', 'é', '²', '×', '\u{1F600}', '\u{0301}', '′', '½']);
            let mut t = base.clone();
            t.insert(at, c);
            (t, "non-ascii-in-number")
        }
        12 => {
            let n = rng.range(0, 60);
            let s: String = (0..n).map(|_| *rng.pick(&['#', ' ', 'c', 'o', 'n', 's', 't', 'r', 'a', 'i', '\n', 'p', '(', ')', ',', '1', '.', 'é', '=', 'g', 'u', 'e'])).collect();
            (s, "noise")
        }
        _ => {
            // odd numbers
            let l: String = if rng.chance(1, 4) {
                // extreme exponents and long digit strings: the exponent digits saturate in the standard
                // library's parser, a long fraction shifts the exponent back, a long mantissa is truncated
                match rng.below(8) {
                    0 => format!("p0.x = 0.{}1e{}", "0".repeat(70), 71),
                    1 => format!("p0.x = 0.{}1e100002", "0".repeat(100001)),
                    2 => format!("p0.x = 0.{}1e700000", "0".repeat(69999)),
                    3 => format!("p0.x = 1{}e-300", "0".repeat(300)),
                    4 => "p0.x = 1e70000000000000000000000".to_string(),
                    5 => "p0.x = 1e-70000000000000000000000".to_string(),
                    6 => format!("p0.x = {}.5", "123456789".repeat(rng.range(3, 100))),
                    _ => format!("p0.x = 0.{}e{}", "987654321".repeat(rng.range(3, 100)), rng.range(0, 40)),
                }
            } else {
                (*rng.pick(&["p0.x = inf", "p0.x = nan", "p0.x = 1e", "p0.x = 1e400", "p0.x = -.5e-3", "p0.x = 1.e2", "p0.x = +infinity", "p0.x = 0x10", "p0.x = 1_000", "p0.x = 4.9e-324", "p0.x = 2.4703282292062327e-324", "p0.x = 1.7976931348623158e308", "p0.x = 1.7976931348623159e308", "p0.x = 9007199254740993", "p0.x = 0.1e1", "p0.x = 1E+2", "p0.x = -0.0"])).to_string()
            };
            (base.replacen("# constraints\n", &format!("# constraints\npoint p0\n{l}\n"), 1) + "\np0 roughly (0, 0)", "odd-number")
        }
    }
}
