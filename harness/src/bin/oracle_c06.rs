//! C06 oracle on the real code: both entry points return (no panic) on arbitrary well-typed input
//! (aliased / out-of-range / duplicate ids, NaN / inf / huge / subnormal numbers, caps 0..200);
//! finite guesses and parameters with an Ok result give finite coordinates.
//! Usage: oracle_c06 <seed> <n>
use ezpz_verif_harness::gen_sys::SHAPES;
use ezpz_verif_harness::oracle::*;
use ezpz_verif_harness::planted::*;
use ezpz_verif_harness::rng::Rng;
use ezpz_verif_harness::trace::{RunResult, run_plain};
use ezpz_verif_harness::codec::enc_constraint;
use kcl_ezpz::datatypes::inputs::*;
use kcl_ezpz::*;

fn finite_input(sys: &System) -> bool {
    sys.guesses.iter().all(|(_, v)| v.is_finite())
        && sys.reqs.iter().all(|r| {
            // parameters: decode from the codec (tokens that are float bits)
            enc_constraint(r.constraint())
                .split(' ')
                .filter_map(|t| t.parse::<u64>().ok())
                .filter(|b| *b > (1u64 << 40))
                .all(|b| f64::from_bits(b).is_finite())
        })
        && sys.convergence_tolerance.is_finite()
        && sys.step_tolerance.is_finite()
}

fn main() {
    let args: Vec<String> = std::env::args().collect();
    let seed: u64 = args[1].parse().unwrap();
    let n: usize = args[2].parse().unwrap();
    std::panic::set_hook(Box::new(|_| {}));
    let mut rng = Rng::new(seed);
    let mut out: Vec<Violation> = Vec::new();
    let (mut systems, mut oks, mut errs, mut finite_oks, mut round_counts) = (0usize, 0usize, 0usize, 0usize, 0usize);
    let mut classes = std::collections::BTreeMap::new();
    for i in 0..n {
        let sys = match i % 8 {
            0..=3 => gen_malformed(&mut rng),
            4 => {
                let b = gen_planted(&mut rng, 8, 0.5, &SHAPES);
                with_contradictions(&mut rng, b)
            }
            5 => {
                // degenerate geometry: everything at the same place
                let mut s = gen_planted(&mut rng, 6, 0.0, &SHAPES);
                let v = s.scale * rng.sym();
                for g in s.guesses.iter_mut() {
                    if rng.chance(2, 3) {
                        g.1 = if rng.chance(1, 2) { v } else { 0.0 };
                    }
                }
                s.class = "collapsed";
                s
            }
            6 => {
                // the documented NaN trigger: concentric tangent circles plus another constraint
                let ca = DatumCircle { center: DatumPoint::new_xy(0, 1), radius: DatumDistance::new(4) };
                let cb = DatumCircle { center: DatumPoint::new_xy(2, 3), radius: DatumDistance::new(5) };
                let x = rng.sym();
                let y = rng.sym();
                let mut s = System::default_cfg(
                    vec![
                        ConstraintRequest::highest_priority(Constraint::CircleTangentToCircle(ca, cb)),
                        ConstraintRequest::highest_priority(Constraint::Fixed(6, 1.0)),
                    ],
                    vec![(0, x), (1, y), (2, x), (3, y), (4, 1.0 + rng.unit()), (5, rng.unit()), (6, rng.sym())],
                    "concentric",
                );
                s.max_iterations = *rng.pick(&[1, 2, 35, 200]);
                s
            }
            _ => {
                let b = gen_linear(&mut rng, 5, 8);
                with_priorities(&mut rng, b)
            }
        };
        let mut sys = sys;
        if rng.chance(1, 10) {
            sys.max_iterations = *rng.pick(&[0usize, 0, 1, 3, 7]);
        }
        *classes.entry(sys.class).or_insert(0usize) += 1;
        // bounded work: no level runs more Newton rounds than the configured cap (trace of the real code)
        if rng.chance(1, 3) {
            let (_r, events) = ezpz_verif_harness::trace::run_traced(&sys, false);
            round_counts += 1;
            let (mut rounds, mut worst) = (0usize, 0usize);
            for e in &events {
                match e {
                    kcl_ezpz::verif_hooks::TraceEvent::SolveInnerStart { .. } => rounds = 0,
                    kcl_ezpz::verif_hooks::TraceEvent::Iter { .. } => {
                        rounds += 1;
                        worst = worst.max(rounds);
                    }
                    _ => {}
                }
            }
            if worst > sys.max_iterations {
                out.push(Violation {
                    property: "C06",
                    what: format!("a level ran {worst} Newton rounds although the configured maximum is {}", sys.max_iterations),
                    signature: "rounds-exceed-cap".into(),
                    system: Some(sys.clone()),
                    extra: String::new(),
                });
            }
        }
        for analysis in [false, true] {
            systems += 1;
            match run_plain(&sys, analysis) {
                RunResult::Panic(_) => out.push(Violation {
                    property: "C06",
                    what: format!("{} panicked", if analysis { "solve_analysis" } else { "solve" }),
                    signature: "panic".into(),
                    system: Some(sys.clone()),
                    extra: String::new(),
                }),
                RunResult::Ok(o, _) => {
                    oks += 1;
                    if o.iterations() > sys.max_iterations {
                        out.push(Violation {
                            property: "C06",
                            what: "more iterations than the cap".into(),
                            signature: "iterations-exceed-cap".into(),
                            system: Some(sys.clone()),
                            extra: String::new(),
                        });
                    }
                    if finite_input(&sys) {
                        finite_oks += 1;
                        if o.final_values().iter().any(|v| !v.is_finite()) {
                            out.push(Violation {
                                property: "C06",
                                what: format!("Ok with non-finite coordinates from finite input: {:?}", o.final_values()),
                                signature: "non-finite-ok".into(),
                                system: Some(sys.clone()),
                                extra: String::new(),
                            });
                        }
                    }
                }
                RunResult::Err(_) => errs += 1,
            }
        }
    }
    ezpz_verif_harness::oracle::print_signature_counts(&out);
    let mut seen = std::collections::BTreeSet::new();
    for v in &out {
        if seen.insert(v.signature.clone()) {
            println!("VIOLATION {}", v.to_json());
        }
    }
    println!(
        "STATS {{\"systems\": {systems}, \"ok\": {oks}, \"err\": {errs}, \"ok_with_finite_input\": {finite_oks}, \"round_count_runs\": {round_counts}, \"classes\": {:?}, \"violations\": {}}}",
        classes,
        out.len()
    );
}
