//! C04 helper: runs the real solver on linear systems with dyadic-rational data and prints, as JSON
//! lines, the affine form `A x - b` of the system (from the documented meaning of each linear kind),
//! the guesses and the result, for the exact rational oracle in tools/oracle_c04.py.  Also checks here
//! that variables no constraint mentions come back bit for bit (systems of any kind).
//! Usage: dump_c04 <seed> <n>
use ezpz_verif_harness::codec::enc_constraint;
use ezpz_verif_harness::gen_sys::SHAPES;
use ezpz_verif_harness::oracle::*;
use ezpz_verif_harness::planted::*;
use ezpz_verif_harness::rng::Rng;
use kcl_ezpz::verif_hooks as vh;
use kcl_ezpz::*;

/// Rows of the affine form: each row is (coefficients as (var, coeff) pairs, right-hand side).
fn affine_rows(c: &Constraint) -> Option<Vec<(Vec<(u32, f64)>, f64)>> {
    Some(match c {
        Constraint::Fixed(id, v) => vec![(vec![(*id, 1.0)], *v)],
        Constraint::Horizontal(l) => vec![(vec![(l.p0.y_id, 1.0), (l.p1.y_id, -1.0)], 0.0)],
        Constraint::Vertical(l) => vec![(vec![(l.p0.x_id, 1.0), (l.p1.x_id, -1.0)], 0.0)],
        Constraint::PointsCoincident(p, q) => vec![
            (vec![(p.x_id, 1.0), (q.x_id, -1.0)], 0.0),
            (vec![(p.y_id, 1.0), (q.y_id, -1.0)], 0.0),
        ],
        Constraint::Midpoint(l, m) => vec![
            (vec![(m.x_id, 1.0), (l.p0.x_id, -0.5), (l.p1.x_id, -0.5)], 0.0),
            (vec![(m.y_id, 1.0), (l.p0.y_id, -0.5), (l.p1.y_id, -0.5)], 0.0),
        ],
        Constraint::ScalarEqual(a, b) => vec![(vec![(*a, 1.0), (*b, -1.0)], 0.0)],
        Constraint::HorizontalDistance(p, q, d) => vec![(vec![(p.x_id, 1.0), (q.x_id, -1.0)], *d)],
        Constraint::VerticalDistance(p, q, d) => vec![(vec![(p.y_id, 1.0), (q.y_id, -1.0)], *d)],
        Constraint::CircleRadius(c, r) => vec![(vec![(c.radius.id, 1.0)], *r)],
        _ => return None,
    })
}

fn main() {
    let args: Vec<String> = std::env::args().collect();
    let seed: u64 = args[1].parse().unwrap();
    let n: usize = args[2].parse().unwrap();
    std::panic::set_hook(Box::new(|_| {}));
    let mut rng = Rng::new(seed);
    let mut unmentioned_checked = 0usize;
    for i in 0..n {
        let sys = if i % 3 == 2 {
            let b = gen_linear(&mut rng, 8, 12);
            with_contradictions(&mut rng, b)
        } else {
            gen_linear(&mut rng, 8, 12)
        };
        let sys = {
            let mut s = sys;
            s.reqs = s.reqs.iter().map(|r| ConstraintRequest::highest_priority(*r.constraint())).collect();
            s
        };
        // one system in eight is large, or has its guesses thousands to millions of units away from the
        // solution (powers of two keep the rational oracle exact)
        let sys = if i % 8 == 5 {
            let (kp, kg) = *rng.pick(&[(10, 10), (0, 14), (17, 0), (20, 20), (0, 24), (24, 3), (27, 27)]);
            with_magnitudes(sys, kp, kg)
        } else { sys };
        let rows: Vec<(Vec<(u32, f64)>, f64)> = sys.reqs.iter().flat_map(|r| affine_rows(r.constraint()).unwrap()).collect();
        let res = solve(&sys.reqs, sys.guesses.clone(), sys.config());
        let (status, finals, iters) = match &res {
            Ok(o) => ("ok".to_string(), o.final_values().to_vec(), o.iterations()),
            Err(e) => (format!("err:{}", ezpz_verif_harness::trace::err_class(&e.error)), vec![], 0),
        };
        let rows_json: Vec<String> = rows.iter().map(|(cs, b)| format!("[[{}], {}]", cs.iter().map(|(v, c)| format!("[{v}, {c}]")).collect::<Vec<_>>().join(", "), b)).collect();
        println!(
            "LIN {{\"rows\": [{}], \"x0\": [{}], \"status\": \"{}\", \"final\": [{}], \"iterations\": {}, \"requests\": [{}]}}",
            rows_json.join(", "),
            sys.guesses.iter().map(|g| format!("{}", g.1)).collect::<Vec<_>>().join(", "),
            status,
            finals.iter().map(|v| format!("{v:e}")).collect::<Vec<_>>().join(", "),
            iters,
            sys.reqs.iter().map(|r| format!("\"{}\"", enc_constraint(r.constraint()))).collect::<Vec<_>>().join(", ")
        );
    }
    // unmentioned variables, systems of any kind
    for i in 0..n {
        let mut sys = match i % 3 {
            0 => gen_planted(&mut rng, 6, 0.2, &SHAPES),
            1 => {
                let b = gen_planted(&mut rng, 5, 0.05, &SHAPES);
                with_contradictions(&mut rng, b)
            }
            _ => gen_linear(&mut rng, 5, 6),
        };
        // extra unmentioned variables
        let extra = rng.range(1, 4);
        for _ in 0..extra {
            let id = sys.guesses.len() as u32;
            sys.guesses.push((id, sys.scale * rng.sym()));
        }
        let mentioned: std::collections::BTreeSet<u32> = sys.reqs.iter().flat_map(|r| vh::nonzeroes(r.constraint()).into_iter().flatten()).collect();
        if let Ok(o) = solve(&sys.reqs, sys.guesses.clone(), sys.config()) {
            for (id, g) in &sys.guesses {
                if !mentioned.contains(id) {
                    unmentioned_checked += 1;
                    let f = o.final_values()[*id as usize];
                    if f.to_bits() != g.to_bits() && !(f == 0.0 && *g == 0.0) {
                        let v = Violation { property: "C04", what: format!("variable {id} is mentioned by no constraint but moved from {g:e} to {f:e}"), signature: "unmentioned-variable-moved".into(), system: Some(sys.clone()), extra: String::new() };
                        println!("VIOLATION {}", v.to_json());
                        break;
                    }
                }
            }
        }
    }
    println!("UNMENTIONED {unmentioned_checked}");
    println!("DONE {n}");
}
