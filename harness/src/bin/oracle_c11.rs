//! C11 oracle on the real code: a converged result is a fixed point.  Chains
//! solve -> re-solve -> add already-satisfied constraints -> re-solve (length up to 4) must return
//! bit-identical values with 0 iterations; guesses that already satisfy everything come back
//! bit for bit.
//! Usage: oracle_c11 <seed> <n>
use ezpz_verif_harness::gen_sys::SHAPES;
use ezpz_verif_harness::oracle::*;
use ezpz_verif_harness::planted::*;
use ezpz_verif_harness::rng::Rng;
use kcl_ezpz::datatypes::inputs::*;
use kcl_ezpz::verif_hooks::{self as vh, TraceEvent};
use kcl_ezpz::*;

fn bits(v: &[f64]) -> Vec<u64> {
    v.iter().map(|x| x.to_bits()).collect()
}

fn main() {
    let args: Vec<String> = std::env::args().collect();
    let seed: u64 = args[1].parse().unwrap();
    let n: usize = args[2].parse().unwrap();
    if std::env::var("ORACLE_DEBUG").is_err() { ezpz_verif_harness::oracle::arm_crash_reporter("C11"); }
    let mut rng = Rng::new(seed);
    let mut out: Vec<Violation> = Vec::new();
    let (mut systems, mut chains, mut links, mut exact_starts, mut near_starts, mut boundary_starts) = (0usize, 0usize, 0usize, 0usize, 0usize, 0usize);
    let mut added_kinds = 0usize;
    for i in 0..n {
        let sys = match i % 3 {
            0 => gen_planted(&mut rng, 8, 1e-2, &SHAPES),
            1 => gen_planted(&mut rng, 5, 0.2, &SHAPES),
            _ => gen_linear(&mut rng, 5, 6),
        };
        let mut sys = maybe_large(&mut rng, i, sys);
        if i % 5 == 4 {
            sys = with_priorities(&mut rng, sys);
        }
        systems += 1;
        ezpz_verif_harness::oracle::note_current(&sys);
        // (a) exact start: planted solution as the guess
        if let Some(xs) = sys.planted.clone() {
            let mut s = sys.clone();
            s.guesses = xs.iter().enumerate().map(|(i, v)| (i as u32, *v)).collect();
            // is every residual within tolerance at X*?
            let within = s.reqs.iter().all(|r| {
                let (res, _) = vh::residual(r.constraint(), &xs);
                (0..vh::residual_dim(r.constraint())).all(|k| res[k].abs() <= s.convergence_tolerance)
            });
            if within {
                exact_starts += 1;
                match solve(&s.reqs, s.guesses.clone(), s.config()) {
                    Ok(o) => {
                        if bits(o.final_values()) != bits(&xs) || o.iterations() != 0 {
                            out.push(Violation {
                                property: "C11",
                                what: format!("guesses already satisfy every constraint to the convergence tolerance but were changed ({} iterations)", o.iterations()),
                                signature: "converged-guess-changed".into(),
                                system: Some(s.clone()),
                                extra: String::new(),
                            });
                        }
                    }
                    Err(e) => out.push(Violation {
                        property: "C11",
                        what: format!("converged guess gives an error: {:?}", e.error),
                        signature: "converged-guess-error".into(),
                        system: Some(s.clone()),
                        extra: String::new(),
                    }),
                }
            }
        }
        // (a') near-exact start: every constraint already within the tolerance, several of them not
        // exactly satisfied (residuals of the order of the tolerance)
        if let Some(xs) = sys.planted.clone() {
            for attempt in 0..3 {
                let amp = sys.convergence_tolerance * *rng.pick(&[0.2, 0.45, 0.6]) / (1.0 + attempt as f64);
                let g: Vec<f64> = xs.iter().map(|v| v + amp * rng.sym()).collect();
                let mut within = !sys.reqs.is_empty();
                let mut sizable = 0;
                for r in &sys.reqs {
                    let (res, _) = vh::residual(r.constraint(), &g);
                    for k in 0..vh::residual_dim(r.constraint()) {
                        if !(res[k].abs() <= sys.convergence_tolerance) {
                            within = false;
                        }
                        if res[k].abs() > sys.convergence_tolerance / 4.0 {
                            sizable += 1;
                        }
                    }
                }
                if within && sizable >= 2 {
                    near_starts += 1;
                    let mut s = sys.clone();
                    s.guesses = g.iter().enumerate().map(|(i, v)| (i as u32, *v)).collect();
                    match solve(&s.reqs, s.guesses.clone(), s.config()) {
                        Ok(o) if bits(o.final_values()) == bits(&g) && o.iterations() == 0 => {}
                        Ok(o) => out.push(Violation {
                            property: "C11",
                            what: format!("every constraint is within the convergence tolerance at the guesses ({sizable} residuals above a quarter of it) but the solve took {} iteration(s) and moved the values", o.iterations()),
                            signature: "converged-guess-changed".into(),
                            system: Some(s.clone()),
                            extra: String::new(),
                        }),
                        Err(e) => out.push(Violation {
                            property: "C11",
                            what: format!("converged guess gives an error: {:?}", e.error),
                            signature: "converged-guess-error".into(),
                            system: Some(s.clone()),
                            extra: String::new(),
                        }),
                    }
                    break;
                }
            }
        }
        // (a'') boundary start: the convergence tolerance set to exactly the largest constraint error at
        // the guesses ("to within the tolerance" includes equality)
        if !sys.reqs.is_empty() {
            let g: Vec<f64> = sys.guesses.iter().map(|(_, v)| *v).collect();
            let mut m0 = 0.0f64;
            let mut finite = true;
            for r in &sys.reqs {
                let inb = vh::nonzeroes(r.constraint()).iter().flatten().all(|id| (*id as usize) < g.len());
                if !inb {
                    finite = false;
                    break;
                }
                let (res, _) = vh::residual(r.constraint(), &g);
                for k in 0..vh::residual_dim(r.constraint()) {
                    if !res[k].is_finite() {
                        finite = false;
                    }
                    m0 = m0.max(res[k].abs());
                }
            }
            if finite && m0 > 0.0 && m0.is_finite() {
                boundary_starts += 1;
                let mut s = sys.clone();
                s.convergence_tolerance = m0;
                match solve(&s.reqs, s.guesses.clone(), s.config()) {
                    Ok(o) if bits(o.final_values()) == bits(&g) && o.iterations() == 0 => {}
                    Ok(o) => out.push(Violation {
                        property: "C11",
                        what: format!("the largest constraint error at the guesses equals the convergence tolerance {m0:e} exactly, yet the solve took {} iteration(s) and moved the values", o.iterations()),
                        signature: "converged-guess-changed-at-the-tolerance-boundary".into(),
                        system: Some(s.clone()),
                        extra: String::new(),
                    }),
                    Err(e) => out.push(Violation {
                        property: "C11",
                        what: format!("guess at the tolerance boundary gives an error: {:?}", e.error),
                        signature: "converged-guess-error".into(),
                        system: Some(s.clone()),
                        extra: String::new(),
                    }),
                }
            }
        }
        // (b) chains
        vh::trace_start();
        let first = solve(&sys.reqs, sys.guesses.clone(), sys.config());
        let ev = vh::trace_take();
        let Ok(first) = first else { continue };
        // only results that stopped on the residual test at the last level, fully satisfied and with
        // every requested level attempted, are "converged" in the property's sense
        let last_converged = matches!(ev.iter().rev().find(|e| matches!(e, TraceEvent::Converged { .. } | TraceEvent::StepStop { .. } | TraceEvent::NewtonErr { .. })), Some(TraceEvent::Converged { .. }));
        let max_prio = sys.reqs.iter().map(|r| r.priority()).max().unwrap_or(0);
        if !last_converged || first.is_unsatisfied() || first.priority_solved() != max_prio || sys.reqs.is_empty() {
            continue;
        }
        chains += 1;
        let mut cur_reqs = sys.reqs.clone();
        let cur_vals: Vec<f64> = first.final_values().to_vec();
        for step in 0..3 {
            if step >= 1 {
                // add constraints the result already satisfies (to within the tolerance)
                let k = rng.range(1, 3);
                for _ in 0..k {
                    let nvars = cur_vals.len();
                    let pt_of = |k: usize| DatumPoint::new_xy(2 * k as u32, 2 * k as u32 + 1);
                    let xy = |k: usize| (cur_vals[2 * k], cur_vals[2 * k + 1]);
                    let c = match rng.below(6) {
                        0 => {
                            let id = rng.below(nvars) as u32;
                            Constraint::Fixed(id, cur_vals[id as usize])
                        }
                        3 if nvars >= 6 => {
                            // signed distance of a point from a line through two others, measured here
                            let (a, b, c3) = (rng.below(nvars / 2), rng.below(nvars / 2), rng.below(nvars / 2));
                            let ((ax, ay), (bx, by), (cx, cy)) = (xy(a), xy(b), xy(c3));
                            let (dx, dy) = (cx - bx, cy - by);
                            let len = dx.hypot(dy);
                            if len < 1e-2 { Constraint::Fixed(0, cur_vals[0]) } else {
                                // positive on the left of b -> c (the documented sign convention)
                                let d = (dx * (ay - by) - dy * (ax - bx)) / len;
                                Constraint::PointLineDistance(pt_of(a), DatumLineSegment::new(pt_of(b), pt_of(c3)), d)
                            }
                        }
                        4 if nvars >= 8 => {
                            // the directed angle between two segments, measured here
                            let ks: Vec<usize> = (0..4).map(|_| rng.below(nvars / 2)).collect();
                            let (p0, p1, p2, p3) = (xy(ks[0]), xy(ks[1]), xy(ks[2]), xy(ks[3]));
                            let (ux, uy, vx, vy) = (p1.0 - p0.0, p1.1 - p0.1, p3.0 - p2.0, p3.1 - p2.1);
                            if ux.hypot(uy) < 1e-2 || vx.hypot(vy) < 1e-2 { Constraint::Fixed(0, cur_vals[0]) } else {
                                let th = (ux * vy - uy * vx).atan2(ux * vx + uy * vy);
                                let ang = if rng.chance(1, 2) { kcl_ezpz::datatypes::Angle::from_radians(th) } else { kcl_ezpz::datatypes::Angle::from_degrees(th.to_degrees()) };
                                Constraint::LinesAtAngle(DatumLineSegment::new(pt_of(ks[0]), pt_of(ks[1])), DatumLineSegment::new(pt_of(ks[2]), pt_of(ks[3])), kcl_ezpz::datatypes::AngleKind::Other(ang))
                            }
                        }
                        5 if nvars >= 4 => {
                            let (a, b) = (rng.below(nvars / 2), rng.below(nvars / 2));
                            Constraint::HorizontalDistance(pt_of(a), pt_of(b), xy(a).0 - xy(b).0)
                        }
                        1 if nvars >= 4 => {
                            let a = 2 * rng.below(nvars / 2) as u32;
                            let b = 2 * rng.below(nvars / 2) as u32;
                            let (p, q) = (DatumPoint::new_xy(a, a + 1), DatumPoint::new_xy(b, b + 1));
                            let d = (cur_vals[a as usize] - cur_vals[b as usize]).hypot(cur_vals[a as usize + 1] - cur_vals[b as usize + 1]);
                            Constraint::Distance(p, q, d)
                        }
                        _ => {
                            let a = rng.below(nvars) as u32;
                            let b = rng.below(nvars) as u32;
                            let (lo, hi) = (a.min(b), a.max(b));
                            if nvars >= 2 && lo + 1 < nvars as u32 && hi + 1 < nvars as u32 {
                                let (p, q) = (DatumPoint::new_xy(lo, lo + 1), DatumPoint::new_xy(hi, hi + 1));
                                Constraint::VerticalDistance(p, q, cur_vals[lo as usize + 1] - cur_vals[hi as usize + 1])
                            } else {
                                Constraint::Fixed(a, cur_vals[a as usize])
                            }
                        }
                    };
                    // keep it only if the real error measure is within the tolerance at the result
                    let (res, _) = vh::residual(&c, &cur_vals);
                    if (0..vh::residual_dim(&c)).all(|k| res[k].abs() <= sys.convergence_tolerance) {
                        // anywhere in the list, at the last level or (now and then) at a new, lower one
                        let prio = if rng.chance(1, 4) { max_prio.saturating_add(1) } else { max_prio };
                        let at = rng.below(cur_reqs.len() + 1);
                        cur_reqs.insert(at, ConstraintRequest::new(c, prio));
                        added_kinds += 1;
                    }
                }
            }
            let g: Vec<(u32, f64)> = cur_vals.iter().enumerate().map(|(i, v)| (i as u32, *v)).collect();
            let mut s2 = sys.clone();
            s2.reqs = cur_reqs.clone();
            s2.guesses = g.clone();
            links += 1;
            match solve(&cur_reqs, g, sys.config()) {
                Ok(o) => {
                    if bits(o.final_values()) != bits(&cur_vals) || o.iterations() != 0 || o.is_unsatisfied() {
                        out.push(Violation {
                            property: "C11",
                            what: format!(
                                "re-solving from a converged result (chain link {}) changed it: {} iterations, unsatisfied {:?}",
                                step + 1,
                                o.iterations(),
                                o.unsatisfied()
                            ),
                            signature: "resolve-drifts".into(),
                            system: Some(s2),
                            extra: String::new(),
                        });
                        break;
                    }
                }
                Err(e) => {
                    out.push(Violation {
                        property: "C11",
                        what: format!("re-solving from a converged result fails: {:?}", e.error),
                        signature: "resolve-fails".into(),
                        system: Some(s2),
                        extra: String::new(),
                    });
                    break;
                }
            }
        }
    }
    ezpz_verif_harness::oracle::print_signature_counts(&out);
    let mut seen = std::collections::BTreeSet::new();
    for v in &out {
        if seen.insert(v.signature.clone()) {
            println!("VIOLATION {}", v.to_json());
        }
    }
    let large_systems = large_count();
    println!(
        "STATS {{\"systems\": {systems}, \"large_systems\": {large_systems}, \"exact_starts\": {exact_starts}, \"near_tolerance_starts\": {near_starts}, \"tolerance_boundary_starts\": {boundary_starts}, \"chains\": {chains}, \"chain_links\": {links}, \"already_satisfied_requests_added\": {added_kinds}, \"violations\": {}}}",
        out.len()
    );
}
