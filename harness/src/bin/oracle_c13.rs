//! C13 oracle on the real code: for every constraint shape, row and declared variable, the entry of
//! `jacobian_rows` (summed over aliased slots) equals the rate of change of `residual`, measured by
//! 4th-order central differences with Richardson extrapolation; every reported id is declared.
//! Configurations where the evaluation is flagged degenerate, or where two step sizes disagree
//! (branch switch / non-smooth point inside the stencil), are skipped and counted.
//! Usage: oracle_c13 <seed> <cases-per-shape>
use ezpz_verif_harness::gen_sys::*;
use ezpz_verif_harness::oracle::Violation;
use ezpz_verif_harness::planted::System;
use ezpz_verif_harness::rng::Rng;
use kcl_ezpz::verif_hooks as vh;
use kcl_ezpz::*;

fn d4(c: &Constraint, x: &[f64], row: usize, var: usize, h: f64) -> f64 {
    let f = |t: f64| {
        let mut y = x.to_vec();
        y[var] += t;
        vh::residual(c, &y).0[row]
    };
    (-f(2.0 * h) + 8.0 * f(h) - 8.0 * f(-h) + f(-2.0 * h)) / (12.0 * h)
}

fn main() {
    let args: Vec<String> = std::env::args().collect();
    let seed: u64 = args[1].parse().unwrap();
    let per_shape: usize = args[2].parse().unwrap();
    std::panic::set_hook(Box::new(|_| {}));
    let mut rng = Rng::new(seed);
    let mut out: Vec<Violation> = Vec::new();
    let (mut cases, mut entries, mut skipped_degenerate, mut skipped_nonsmooth, mut aliased) = (0usize, 0usize, 0usize, 0usize, 0usize);
    let mut undeclared_vars = 0usize;
    let mut special_configs = 0usize;
    let mut per_shape_checked = std::collections::BTreeMap::new();
    for shape in SHAPES {
        let (ni, np) = shape_arity(shape);
        let mut done = 0;
        let mut attempts = 0;
        while done < per_shape && attempts < per_shape * 20 {
            attempts += 1;
            let scale = *rng.pick(&SCALES);
            // ids: distinct, or aliased through a small pool
            let alias = rng.chance(1, 3) && ni >= 2;
            let ids: Vec<u32> = if alias {
                let k = rng.range((ni / 2).max(1), ni);
                (0..ni).map(|_| rng.below(k) as u32).collect()
            } else {
                let mut p: Vec<u32> = (0..ni as u32).collect();
                rng.shuffle(&mut p);
                p
            };
            let n = ni + 1;
            let mut x: Vec<f64> = (0..n).map(|_| scale * rng.sym()).collect();
            // one case in four has exactly equal coordinates somewhere (axis-aligned lines, points on a
            // common vertical / horizontal, a coordinate equal to 0): the commonest real configurations
            if rng.chance(1, 4) {
                for _ in 0..rng.range(1, 2) {
                    let (a, b) = (rng.below(n), rng.below(n));
                    if rng.chance(1, 4) { x[a] = 0.0; } else { x[a] = x[b]; }
                }
                special_configs += 1;
            }
            let params: Vec<f64> = (0..np).map(|_| param(&mut rng, shape, scale)).collect();
            let c = build(shape, &ids, &params);
            let (res, rdeg) = vh::residual(&c, &x);
            let (rows, jdeg) = vh::jacobian_rows(&c, &x);
            // degeneracy is decided by the independent specification (documented guard bands), not by
            // the implementation's own flag: a linearisation switched off at a healthy configuration is a
            // violation, not a reason to skip
            let spec_guard = {
                let g = ezpz_verif_harness::geom::geom_err(&c, &x, scale);
                g.degenerate || ezpz_verif_harness::geom::in_guard_band(&c, &x)
            };
            if (rdeg || jdeg) && !spec_guard {
                out.push(Violation {
                    property: "C13",
                    what: format!("{shape}: the evaluation is flagged degenerate (residual {rdeg}, derivatives {jdeg}) at a configuration outside the documented degeneracies"),
                    signature: format!("spurious-degenerate:{shape}"),
                    system: Some(System::default_cfg(vec![ConstraintRequest::highest_priority(c)], x.iter().enumerate().map(|(i, v)| (i as u32, *v)).collect(), "c13")),
                    extra: format!("ids {:?}", ids),
                });
                continue;
            }
            if spec_guard || rdeg || jdeg || res.iter().any(|v| !v.is_finite()) {
                skipped_degenerate += 1;
                continue;
            }
            // stay away from the documented degeneracy bands (Jacobian switched off below a coarse
            // threshold while the residual is still live) and from tiny geometry
            let dim = vh::residual_dim(&c);
            let nz = vh::nonzeroes(&c);
            let mut ok_case = true;
            let mut case_entries = 0;
            let h = 1e-3 * scale;
            'rows: for row in 0..dim {
                for id in &rows[row] {
                    if !nz[row].contains(&id.0) {
                        out.push(Violation {
                            property: "C13",
                            what: format!("{shape} row {row}: reported variable {} is not declared for that row", id.0),
                            signature: format!("undeclared-id:{shape}"),
                            system: Some(System::default_cfg(vec![ConstraintRequest::highest_priority(c)], x.iter().enumerate().map(|(i, v)| (i as u32, *v)).collect(), "c13")),
                            extra: String::new(),
                        });
                    }
                }
                // every variable of the configuration is differenced, not only those the row declares:
                // an error measure that depends on a variable missing from the declared pattern (and from
                // the derivative rows) must show up as a non-zero rate of change with no Jacobian entry
                let vars: Vec<u32> = (0..n as u32).collect();
                let rownorm = rows[row].iter().fold(0.0f64, |a, e| a.max(e.1.abs())).max(1e-300);
                for v in vars {
                    let jac: f64 = rows[row].iter().filter(|e| e.0 == v).map(|e| e.1).sum();
                    let f1 = d4(&c, &x, row, v as usize, h);
                    let f2 = d4(&c, &x, row, v as usize, h / 2.0);
                    let f3 = d4(&c, &x, row, v as usize, h / 4.0);
                    let fd_coarse = (16.0 * f2 - f1) / 15.0;
                    let fd = (16.0 * f3 - f2) / 15.0;
                    // how well the extrapolated estimates agree with each other bounds the error of `fd`
                    // (short vectors make the higher derivatives large: the stencil must resolve them)
                    let fd_err = (fd - fd_coarse).abs();
                    let tol_smooth = 1e-5 * (f1.abs().max(f2.abs()).max(rownorm));
                    if !(f1.is_finite() && f2.is_finite() && f3.is_finite()) || (f1 - f2).abs() > tol_smooth {
                        ok_case = false;
                        break 'rows;
                    }
                    case_entries += 1;
                    let tol = 1e-6 * rownorm.max(fd.abs()) + 1e-9 + 10.0 * fd_err;
                    if !nz[row].contains(&v) {
                        undeclared_vars += 1;
                        if fd.abs() > tol {
                            out.push(Violation {
                                property: "C13",
                                what: format!("{shape} row {row}: the error measure changes with variable {v} at rate {fd:.6e}, but the row does not declare that variable"),
                                signature: format!("depends-on-undeclared-variable:{shape}:row{row}"),
                                system: Some(System::default_cfg(vec![ConstraintRequest::highest_priority(c)], x.iter().enumerate().map(|(i, v)| (i as u32, *v)).collect(), "c13")),
                                extra: format!("ids {:?} aliased {}", ids, alias),
                            });
                        }
                        continue;
                    }
                    if (jac - fd).abs() > tol {
                        out.push(Violation {
                            property: "C13",
                            what: format!(
                                "{shape} row {row} variable {v}: jacobian {jac:.9e} but d(residual)/dx {fd:.9e} (finite differences, scale {scale})"
                            ),
                            signature: format!("derivative-mismatch:{shape}:row{row}"),
                            system: Some(System::default_cfg(vec![ConstraintRequest::highest_priority(c)], x.iter().enumerate().map(|(i, v)| (i as u32, *v)).collect(), "c13")),
                            extra: format!("ids {:?} aliased {}", ids, alias),
                        });
                    }
                }
            }
            if !ok_case {
                skipped_nonsmooth += 1;
                continue;
            }
            done += 1;
            cases += 1;
            entries += case_entries;
            if alias {
                aliased += 1;
            }
            *per_shape_checked.entry(shape).or_insert(0usize) += 1;
        }
    }
    ezpz_verif_harness::oracle::print_signature_counts(&out);
    let mut seen = std::collections::BTreeSet::new();
    for v in &out {
        if seen.insert(v.signature.clone()) {
            println!("VIOLATION {}", v.to_json());
        }
    }
    println!(
        "STATS {{\"systems\": {cases}, \"jacobian_entries_checked\": {entries}, \"aliased_cases\": {aliased}, \"undeclared_variable_rates_checked\": {undeclared_vars}, \"configurations_with_equal_coordinates\": {special_configs}, \"skipped_degenerate\": {skipped_degenerate}, \"skipped_nonsmooth\": {skipped_nonsmooth}, \"per_shape\": {:?}, \"violations\": {}}}",
        per_shape_checked,
        out.len()
    );
}
