//! C17 oracle on the real code: if the requests split into groups that share no variables and each
//! group solves on its own, solving everything together succeeds and gives, for every group, the
//! same verdicts and (for variables that are not under-constrained) the same values within 1e-5 of
//! the sketch scale — for 2..200 groups, interleaved requests, offset / shuffled variable blocks.
//! Usage: oracle_c17 <seed> <n-unions> <max-groups>
use ezpz_verif_harness::codec::{dec_constraint, enc_constraint};
use ezpz_verif_harness::gen_sys::SHAPES;
use ezpz_verif_harness::oracle::*;
use ezpz_verif_harness::planted::*;
use ezpz_verif_harness::rng::Rng;
use kcl_ezpz::verif_hooks as vh;
use kcl_ezpz::*;

fn shift(c: &Constraint, map: &[u32]) -> Constraint {
    let enc = enc_constraint(c);
    let t: Vec<&str> = enc.split(' ').collect();
    let (ni, _) = ezpz_verif_harness::gen_sys::shape_arity(t[0]);
    let mut out = vec![t[0].to_string()];
    for (k, tok) in t.iter().enumerate().skip(1) {
        if k <= ni { out.push(map[tok.parse::<usize>().unwrap()].to_string()) } else { out.push(tok.to_string()) }
    }
    dec_constraint(&out.join(" ")).unwrap()
}

fn main() {
    let args: Vec<String> = std::env::args().collect();
    let seed: u64 = args[1].parse().unwrap();
    let n: usize = args[2].parse().unwrap();
    let max_groups: usize = args[3].parse().unwrap();
    ezpz_verif_harness::oracle::arm_crash_reporter("C17");
    let mut rng = Rng::new(seed);
    let mut out: Vec<Violation> = Vec::new();
    let (mut unions, mut groups_total, mut max_vars, mut skipped_group_fail) = (0usize, 0usize, 0usize, 0usize);
    let mut residual_unions = 0usize;
    let mut off_origin_skipped = 0usize;
    for u in 0..n {
        let ng = if u % 10 == 9 { rng.range(50.min(max_groups), max_groups) } else { rng.range(2, 8.min(max_groups)) };
        // groups that solve on their own
        let mut groups: Vec<(System, SolveOutcome, Vec<u32>)> = Vec::new();
        let mut tries = 0;
        while groups.len() < ng && tries < ng * 4 {
            tries += 1;
            let g = match rng.below(5) {
                0 => gen_linear(&mut rng, 4, 6),
                1 => {
                    let b = gen_linear(&mut rng, 3, 5);
                    with_contradictions(&mut rng, b)
                }
                4 => gen_pinned_degenerate(&mut rng),
                2 => {
                    // collapsed guesses: degenerate geometry inside one group
                    let mut s = gen_planted(&mut rng, 4, 0.0, &SHAPES);
                    let v = s.scale * rng.sym();
                    for gg in s.guesses.iter_mut() {
                        if rng.chance(1, 3) { gg.1 = v; }
                    }
                    s
                }
                _ => {
                    let k = rng.range(1, 12);
                    gen_planted(&mut rng, k, 1e-2, &SHAPES)
                }
            };
            if g.reqs.is_empty() { continue; }
            // groups drawn far away from the origin are left out here: the step-size test is relative to
            // the largest coordinate of the WHOLE sketch (step_test_is_global, known finding F17), so a
            // far-away group loosens the test for every other group; that effect has its own replay
            // (`repro finding F17-...`) and would otherwise drown everything else this oracle looks for
            if g.guesses.iter().any(|(_, v)| v.abs() > 20.0 * g.scale.max(1.0)) || g.planted.as_ref().map(|xs| xs.iter().any(|v| v.abs() > 20.0 * g.scale.max(1.0))).unwrap_or(false) {
                off_origin_skipped += 1;
                continue;
            }
            // one priority level: the property is about variable-disjoint groups, not about levels
            let mut g = g;
            g.reqs = g.reqs.iter().map(|r| ConstraintRequest::highest_priority(*r.constraint())).collect();
            ezpz_verif_harness::oracle::note_current(&g);
            match solve_analysis(&g.reqs, g.guesses.clone(), g.config()) {
                Ok(o) if o.outcome.iterations() <= 12 => {
                    let under = o.analysis.underconstrained().to_vec();
                    groups.push((g, o.outcome, under));
                }
                _ => skipped_group_fail += 1,
            }
        }
        if groups.len() < 2 { continue; }
        unions += 1;
        groups_total += groups.len();
        // variable blocks: offset, sometimes shuffled within the union
        let total: usize = groups.iter().map(|g| g.0.guesses.len()).sum();
        max_vars = max_vars.max(total);
        let mut slots: Vec<u32> = (0..total as u32).collect();
        if rng.chance(1, 2) { rng.shuffle(&mut slots); }
        let mut maps: Vec<Vec<u32>> = Vec::new();
        let mut off = 0;
        for g in &groups {
            let k = g.0.guesses.len();
            maps.push(slots[off..off + k].to_vec());
            off += k;
        }
        let mut guesses: Vec<(u32, f64)> = vec![(0, 0.0); total];
        for (gi, g) in groups.iter().enumerate() {
            for (local, (_, val)) in g.0.guesses.iter().enumerate() {
                let id = maps[gi][local];
                guesses[id as usize] = (id, *val);
            }
        }
        // interleave the requests
        let mut tagged: Vec<(usize, usize, ConstraintRequest)> = Vec::new();
        for (gi, g) in groups.iter().enumerate() {
            for (ri, r) in g.0.reqs.iter().enumerate() {
                tagged.push((gi, ri, ConstraintRequest::new(shift(r.constraint(), &maps[gi]), 0)));
            }
        }
        if rng.chance(2, 3) { rng.shuffle(&mut tagged); }
        let reqs: Vec<ConstraintRequest> = tagged.iter().map(|t| t.2).collect();
        let usys = System::default_cfg(reqs.clone(), guesses.clone(), "union");
        ezpz_verif_harness::oracle::note_current(&usys);
        let mut bad = |what: String, sig: &str| out.push(Violation { property: "C17", what, signature: sig.into(), system: if total <= 3000 { Some(usys.clone()) } else { None }, extra: format!("{} groups, {} variables", groups.len(), total) });
        let union_scale = groups.iter().map(|g| g.0.scale).fold(1e-9f64, f64::max);
        match solve(&reqs, guesses, Config::default()) {
            Err(e) => {
                let drift = matches!(e.error, NonLinearSystemError::DidNotConverge) && groups.iter().any(|g| g.1.is_unsatisfied() && !g.2.is_empty());
                // an inconsistent group (unsatisfied requests when solved alone, i.e. it ends at the
                // step-size test) keeps the union's largest error above the tolerance for ever, so the
                // union can only end at the step-size test: a group that converges slowly (a singular
                // solution reached from a collapsed guess) then exhausts the iteration cap although it
                // meets the residual test on its own after a dozen rounds
                let stuck = matches!(e.error, NonLinearSystemError::DidNotConverge) && groups.iter().any(|g| g.1.is_unsatisfied());
                // the known findings F16 / F17 explain a failure of the union by the presence of a group that
                // is inconsistent on its own.  That explanation is only accepted when it is the cause: the
                // union of the REMAINING groups (those fully satisfied alone) must solve.  If it does not,
                // the failure has another cause and is reported as such.
                let mut explained = drift || stuck;
                if explained {
                    let keep: Vec<ConstraintRequest> = tagged.iter().filter(|t| !groups[t.0].1.is_unsatisfied()).map(|t| t.2).collect();
                    residual_unions += 1;
                    if !keep.is_empty() {
                        if let Err(e2) = solve(&keep, usys.guesses.clone(), Config::default()) {
                            explained = false;
                            // the finest split: variable-connected parts of the remaining requests.  When one
                            // of them fails on its own, the premise "each group solves on its own" only held
                            // for the coarser split (a singular start - collapsed guesses - inside one group,
                            // whose outcome depends on the numbering: known finding F23); otherwise the
                            // failure is a genuine interaction between independent parts.
                            let n = usys.guesses.len();
                            let mut parent: Vec<usize> = (0..n).collect();
                            fn find(p: &mut Vec<usize>, i: usize) -> usize { if p[i] != i { let r = find(p, p[i]); p[i] = r; } p[i] }
                            for r in &keep {
                                let ids: Vec<usize> = vh::nonzeroes(r.constraint()).iter().flatten().map(|i| *i as usize).filter(|i| *i < n).collect();
                                for w in ids.windows(2) { let (a, b) = (find(&mut parent, w[0]), find(&mut parent, w[1])); parent[a] = b; }
                            }
                            let mut roots: Vec<usize> = keep.iter().filter_map(|r| vh::nonzeroes(r.constraint()).iter().flatten().map(|i| *i as usize).find(|i| *i < n)).map(|i| find(&mut parent, i)).collect();
                            roots.sort(); roots.dedup();
                            let a_part_fails = roots.iter().any(|root| {
                                let part: Vec<ConstraintRequest> = keep.iter().filter(|r| vh::nonzeroes(r.constraint()).iter().flatten().any(|i| (*i as usize) < n && find(&mut parent, *i as usize) == *root)).copied().collect();
                                !part.is_empty() && solve(&part, usys.guesses.clone(), Config::default()).is_err()
                            });
                            if a_part_fails {
                                bad(format!("the union fails ({:?}); every generated group solves alone, but one variable-connected PART of a group fails on its own", e.error), "union-fails-a-part-fails-alone");
                            } else {
                                bad(format!("the union fails ({:?}) and still fails ({:?}) when every group that is inconsistent on its own is left out, although every variable-connected part of the rest solves alone", e.error, e2.error), "union-fails-without-the-inconsistent-groups");
                            }
                        }
                    }
                }
                if explained || !(drift || stuck) {
                    bad(format!("every group solves alone but the union fails: {:?}", e.error), if drift { "drift-on-inconsistent-rank-deficient" } else if stuck { "union-runs-out-of-iterations-beside-an-inconsistent-part" } else { "union-fails" });
                }
            }
            Ok(o) => {
                // verdicts per group
                for (gi, g) in groups.iter().enumerate() {
                    let mut un: Vec<usize> = o.unsatisfied().iter().filter(|k| tagged[**k].0 == gi).map(|k| tagged[*k].1).collect();
                    un.sort();
                    if un != g.1.unsatisfied() {
                        bad(format!("group {gi}: unsatisfied {:?} in the union but {:?} alone", un, g.1.unsatisfied()), "verdicts-differ");
                        break;
                    }
                    // the property's tolerance is relative to the scale of the whole sketch (the union)
                    let scale = union_scale;
                    for (local, val) in g.1.final_values().iter().enumerate() {
                        if g.2.contains(&(local as u32)) { continue; }
                        let d = (o.final_values()[maps[gi][local] as usize] - val).abs();
                        if !(d <= 1e-5 * scale) {
                            // a weakly determined group (sigma_min/sigma_max of its own linearisation at its
                            // own solution below 1e-3) keeps moving along the weak direction for as long as the
                            // union keeps iterating: bucketed separately (global stopping rules, F17)
                            let mut at = g.0.clone();
                            for (k, v) in g.1.final_values().iter().enumerate() { at.guesses[k].1 = *v; }
                            kcl_ezpz::verif_hooks::trace_start();
                            let _ = solve_analysis(&at.reqs, at.guesses.clone(), at.config());
                            let ev = kcl_ezpz::verif_hooks::trace_take();
                            let sigma: Vec<f64> = ev.iter().rev().find_map(|e| if let kcl_ezpz::verif_hooks::TraceEvent::Dof { sigma, .. } = e { Some(sigma.clone()) } else { None }).unwrap_or_default();
                            let smax = sigma.iter().cloned().fold(0.0f64, f64::max);
                            let smin = sigma.iter().cloned().filter(|s| *s > 1e-9 * smax).fold(f64::INFINITY, f64::min);
                            let weak = sigma.is_empty() || smax == 0.0 || smin / smax < 1e-3;
                            bad(format!("group {gi} variable {local}: {d:.3e} away from its value when solved alone (sketch scale {scale}, group scale {}, sigma ratio of the group {:.2e})", g.0.scale, smin / smax), if weak { "values-differ-weakly-determined-group" } else { "values-differ" });
                            break;
                        }
                    }
                }
                if o.final_values().iter().any(|v| !v.is_finite()) {
                    bad("non-finite value in the union".into(), "non-finite");
                }
            }
        }
    }
    ezpz_verif_harness::oracle::print_signature_counts(&out);
    let mut seen = std::collections::BTreeSet::new();
    for v in &out {
        if seen.insert(v.signature.clone()) {
            println!("VIOLATION {}", v.to_json());
        }
    }
    println!("STATS {{\"systems\": {unions}, \"groups\": {groups_total}, \"max_variables_in_a_union\": {max_vars}, \"candidate_groups_that_do_not_solve_alone\": {skipped_group_fail}, \"failed_unions_re_solved_without_their_inconsistent_groups\": {residual_unions}, \"off_origin_groups_left_out\": {off_origin_skipped}, \"violations\": {}}}", out.len());
}
