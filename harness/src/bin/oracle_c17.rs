//! C17 oracle on the real code: if the requests split into groups that share no variables and each
//! group solves on its own, solving everything together succeeds and gives, for every group, the
//! same verdicts and (for variables that are not under-constrained) the same values within 1e-5 of
//! the sketch scale — for 2..200 groups, interleaved requests, offset / shuffled variable blocks.
//! Usage: oracle_c17 <seed> <n-unions> <max-groups>
use ezpz_verif_harness::codec::{dec_constraint, enc_constraint};
use ezpz_verif_harness::gen_sys::SHAPES;
use ezpz_verif_harness::oracle::*;
use ezpz_verif_harness::planted::*;
use ezpz_verif_harness::rng::Rng;
use kcl_ezpz::*;

fn shift(c: &Constraint, map: &[u32]) -> Constraint {
    let enc = enc_constraint(c);
    let t: Vec<&str> = enc.split(' ').collect();
    let (ni, _) = ezpz_verif_harness::gen_sys::shape_arity(t[0]);
    let mut out = vec![t[0].to_string()];
    for (k, tok) in t.iter().enumerate().skip(1) {
        if k <= ni { out.push(map[tok.parse::<usize>().unwrap()].to_string()) } else { out.push(tok.to_string()) }
    }
    dec_constraint(&out.join(" ")).unwrap()
}

fn main() {
    let args: Vec<String> = std::env::args().collect();
    let seed: u64 = args[1].parse().unwrap();
    let n: usize = args[2].parse().unwrap();
    let max_groups: usize = args[3].parse().unwrap();
    std::panic::set_hook(Box::new(|_| {}));
    let mut rng = Rng::new(seed);
    let mut out: Vec<Violation> = Vec::new();
    let (mut unions, mut groups_total, mut max_vars, mut skipped_group_fail) = (0usize, 0usize, 0usize, 0usize);
    for u in 0..n {
        let ng = if u % 10 == 9 { rng.range(50.min(max_groups), max_groups) } else { rng.range(2, 8.min(max_groups)) };
        // groups that solve on their own
        let mut groups: Vec<(System, SolveOutcome, Vec<u32>)> = Vec::new();
        let mut tries = 0;
        while groups.len() < ng && tries < ng * 4 {
            tries += 1;
            let g = match rng.below(5) {
                0 => gen_linear(&mut rng, 4, 6),
                1 => {
                    let b = gen_linear(&mut rng, 3, 5);
                    with_contradictions(&mut rng, b)
                }
                4 => gen_pinned_degenerate(&mut rng),
                2 => {
                    // collapsed guesses: degenerate geometry inside one group
                    let mut s = gen_planted(&mut rng, 4, 0.0, &SHAPES);
                    let v = s.scale * rng.sym();
                    for gg in s.guesses.iter_mut() {
                        if rng.chance(1, 3) { gg.1 = v; }
                    }
                    s
                }
                _ => {
                    let k = rng.range(1, 12);
                    gen_planted(&mut rng, k, 1e-2, &SHAPES)
                }
            };
            if g.reqs.is_empty() { continue; }
            // one priority level: the property is about variable-disjoint groups, not about levels
            let mut g = g;
            g.reqs = g.reqs.iter().map(|r| ConstraintRequest::highest_priority(*r.constraint())).collect();
            match solve_analysis(&g.reqs, g.guesses.clone(), g.config()) {
                Ok(o) if o.outcome.iterations() <= 12 => {
                    let under = o.analysis.underconstrained().to_vec();
                    groups.push((g, o.outcome, under));
                }
                _ => skipped_group_fail += 1,
            }
        }
        if groups.len() < 2 { continue; }
        unions += 1;
        groups_total += groups.len();
        // variable blocks: offset, sometimes shuffled within the union
        let total: usize = groups.iter().map(|g| g.0.guesses.len()).sum();
        max_vars = max_vars.max(total);
        let mut slots: Vec<u32> = (0..total as u32).collect();
        if rng.chance(1, 2) { rng.shuffle(&mut slots); }
        let mut maps: Vec<Vec<u32>> = Vec::new();
        let mut off = 0;
        for g in &groups {
            let k = g.0.guesses.len();
            maps.push(slots[off..off + k].to_vec());
            off += k;
        }
        let mut guesses: Vec<(u32, f64)> = vec![(0, 0.0); total];
        for (gi, g) in groups.iter().enumerate() {
            for (local, (_, val)) in g.0.guesses.iter().enumerate() {
                let id = maps[gi][local];
                guesses[id as usize] = (id, *val);
            }
        }
        // interleave the requests
        let mut tagged: Vec<(usize, usize, ConstraintRequest)> = Vec::new();
        for (gi, g) in groups.iter().enumerate() {
            for (ri, r) in g.0.reqs.iter().enumerate() {
                tagged.push((gi, ri, ConstraintRequest::new(shift(r.constraint(), &maps[gi]), 0)));
            }
        }
        if rng.chance(2, 3) { rng.shuffle(&mut tagged); }
        let reqs: Vec<ConstraintRequest> = tagged.iter().map(|t| t.2).collect();
        let usys = System::default_cfg(reqs.clone(), guesses.clone(), "union");
        let mut bad = |what: String, sig: &str| out.push(Violation { property: "C17", what, signature: sig.into(), system: if total <= 3000 { Some(usys.clone()) } else { None }, extra: format!("{} groups, {} variables", groups.len(), total) });
        let union_scale = groups.iter().map(|g| g.0.scale).fold(1e-9f64, f64::max);
        match solve(&reqs, guesses, Config::default()) {
            Err(e) => {
                let drift = matches!(e.error, NonLinearSystemError::DidNotConverge) && groups.iter().any(|g| g.1.is_unsatisfied() && !g.2.is_empty());
                // an inconsistent group (unsatisfied requests when solved alone, i.e. it ends at the
                // step-size test) keeps the union's largest error above the tolerance for ever, so the
                // union can only end at the step-size test: a group that converges slowly (a singular
                // solution reached from a collapsed guess) then exhausts the iteration cap although it
                // meets the residual test on its own after a dozen rounds
                let stuck = matches!(e.error, NonLinearSystemError::DidNotConverge) && groups.iter().any(|g| g.1.is_unsatisfied());
                bad(format!("every group solves alone but the union fails: {:?}", e.error), if drift { "drift-on-inconsistent-rank-deficient" } else if stuck { "union-runs-out-of-iterations-beside-an-inconsistent-part" } else { "union-fails" });
            }
            Ok(o) => {
                // verdicts per group
                for (gi, g) in groups.iter().enumerate() {
                    let mut un: Vec<usize> = o.unsatisfied().iter().filter(|k| tagged[**k].0 == gi).map(|k| tagged[*k].1).collect();
                    un.sort();
                    if un != g.1.unsatisfied() {
                        bad(format!("group {gi}: unsatisfied {:?} in the union but {:?} alone", un, g.1.unsatisfied()), "verdicts-differ");
                        break;
                    }
                    // the property's tolerance is relative to the scale of the whole sketch (the union)
                    let scale = union_scale;
                    for (local, val) in g.1.final_values().iter().enumerate() {
                        if g.2.contains(&(local as u32)) { continue; }
                        let d = (o.final_values()[maps[gi][local] as usize] - val).abs();
                        if !(d <= 1e-5 * scale) {
                            // a weakly determined group (sigma_min/sigma_max of its own linearisation at its
                            // own solution below 1e-3) keeps moving along the weak direction for as long as the
                            // union keeps iterating: bucketed separately (global stopping rules, F17)
                            let mut at = g.0.clone();
                            for (k, v) in g.1.final_values().iter().enumerate() { at.guesses[k].1 = *v; }
                            kcl_ezpz::verif_hooks::trace_start();
                            let _ = solve_analysis(&at.reqs, at.guesses.clone(), at.config());
                            let ev = kcl_ezpz::verif_hooks::trace_take();
                            let sigma: Vec<f64> = ev.iter().rev().find_map(|e| if let kcl_ezpz::verif_hooks::TraceEvent::Dof { sigma, .. } = e { Some(sigma.clone()) } else { None }).unwrap_or_default();
                            let smax = sigma.iter().cloned().fold(0.0f64, f64::max);
                            let smin = sigma.iter().cloned().filter(|s| *s > 1e-9 * smax).fold(f64::INFINITY, f64::min);
                            let weak = sigma.is_empty() || smax == 0.0 || smin / smax < 1e-3;
                            bad(format!("group {gi} variable {local}: {d:.3e} away from its value when solved alone (sketch scale {scale}, group scale {}, sigma ratio of the group {:.2e})", g.0.scale, smin / smax), if weak { "values-differ-weakly-determined-group" } else { "values-differ" });
                            break;
                        }
                    }
                }
                if o.final_values().iter().any(|v| !v.is_finite()) {
                    bad("non-finite value in the union".into(), "non-finite");
                }
            }
        }
    }
    let mut seen = std::collections::BTreeSet::new();
    for v in &out {
        if seen.insert(v.signature.clone()) {
            println!("VIOLATION {}", v.to_json());
        }
    }
    println!("STATS {{\"systems\": {unions}, \"groups\": {groups_total}, \"max_variables_in_a_union\": {max_vars}, \"candidate_groups_that_do_not_solve_alone\": {skipped_group_fail}, \"violations\": {}}}", out.len());
}
