//! C03 oracle on the real code: a prioritised solve must equal the single-level solve of the
//! requests of priority <= P, where P is the last level of the maximal fully-satisfied prefix
//! (indices mapped back to caller positions); error / best effort of the first level otherwise.
//! Usage: oracle_c03 <seed> <n-random> <exhaustive:0|1>
use ezpz_verif_harness::gen_sys::SHAPES;
use ezpz_verif_harness::oracle::*;
use ezpz_verif_harness::planted::*;
use ezpz_verif_harness::rng::Rng;
use ezpz_verif_harness::codec::*;
use kcl_ezpz::datatypes::inputs::*;
use kcl_ezpz::*;

/// Expected behaviour, computed from single-level solves of each cumulative subset.
fn check(sys: &System, out: &mut Vec<Violation>, stats: &mut Stats) {
    stats.systems += 1;
    let cfg = sys.config();
    let real = solve(&sys.reqs, sys.guesses.clone(), cfg);
    if sys.reqs.is_empty() {
        return;
    }
    let mut levels: Vec<u32> = sys.reqs.iter().map(|r| r.priority()).collect();
    levels.sort();
    levels.dedup();
    stats.levels[levels.len().min(4)] += 1;
    // single-level solve of each cumulative subset
    let mut held: Option<(SolveOutcome, Vec<usize>, u32)> = None;
    let mut expected: Option<Result<(SolveOutcome, Vec<usize>, u32), (FailureOutcome, Vec<usize>)>> = None;
    for &p in &levels {
        let (sub, pos) = subset(&sys.reqs, p);
        let flat: Vec<ConstraintRequest> =
            sub.iter().map(|r| ConstraintRequest::highest_priority(*r.constraint())).collect();
        match solve(&flat, sys.guesses.clone(), cfg) {
            Ok(o) => {
                if o.is_unsatisfied() {
                    stats.level_unsat += 1;
                    expected = Some(Ok(held.take().unwrap_or((o, pos, p))));
                    break;
                }
                stats.level_ok += 1;
                held = Some((o, pos, p));
            }
            Err(f) => {
                stats.level_err += 1;
                expected = Some(match held.take() {
                    Some(h) => Ok(h),
                    None => Err((f, pos)),
                });
                break;
            }
        }
    }
    let expected = expected.unwrap_or_else(|| Ok(held.take().unwrap()));
    let mut bad = |what: String| {
        out.push(Violation {
            property: "C03",
            what,
            signature: "priority-spec".to_owned(),
            system: Some(sys.clone()),
            extra: describe(&real),
        })
    };
    match (&real, &expected) {
        (Err(a), Err((b, pos))) => {
            // request indices inside the error are caller positions
            let eb = match &b.error {
                NonLinearSystemError::MissingGuess { constraint_id, variable } => {
                    format!("MissingGuess:{}:{}", pos[*constraint_id], variable)
                }
                e => ezpz_verif_harness::trace::err_class(e),
            };
            if ezpz_verif_harness::trace::err_class(&a.error) != eb {
                bad(format!("error differs from the highest level's own error: {:?} vs {:?}", a.error, b.error));
            } else if a.num_vars != b.num_vars || a.num_eqs != b.num_eqs {
                bad("failure sizes differ from the highest level's".to_owned());
            } else {
                // the failure's warnings are the highest level's, indices mapped to caller positions
                let wa = enc_warnings(&a.warnings);
                let wb: Vec<String> = b
                    .warnings
                    .iter()
                    .map(|w| {
                        let mut w2 = *w;
                        w2.about_constraint = w.about_constraint.map(|i| pos[i]);
                        enc_warning(&w2)
                    })
                    .collect();
                if wa != wb.join(",") {
                    bad(format!("failure warnings {wa} but the highest level alone gives {}", wb.join(",")));
                }
            }
        }
        (Ok(a), Ok((b, pos, p))) => {
            let mapped: Vec<usize> = b.unsatisfied().iter().map(|i| pos[*i]).collect();
            if a.priority_solved() != *p {
                bad(format!("priority_solved {} but the last fully satisfied prefix ends at {}", a.priority_solved(), p));
            } else if a.final_values().iter().map(|v| v.to_bits()).collect::<Vec<_>>()
                != b.final_values().iter().map(|v| v.to_bits()).collect::<Vec<_>>()
            {
                bad(format!("final values differ from the solve of the requests of priority <= {p}"));
            } else if a.unsatisfied() != mapped.as_slice() {
                bad(format!("unsatisfied {:?} but expected caller positions {:?}", a.unsatisfied(), mapped));
            } else if a.iterations() != b.iterations() {
                bad("iterations differ".to_owned());
            } else {
                // warnings: same content, indices mapped to caller positions
                let wa = enc_warnings(a.warnings());
                let wb: Vec<String> = b
                    .warnings()
                    .iter()
                    .map(|w| {
                        let mut w2 = *w;
                        w2.about_constraint = w.about_constraint.map(|i| pos[i]);
                        enc_warning(&w2)
                    })
                    .collect();
                if wa != wb.join(",") {
                    bad(format!("warnings {wa} but expected {}", wb.join(",")));
                }
            }
        }
        (Ok(_), Err(e)) => bad(format!("Ok returned although the highest level errors: {:?}", e.0.error)),
        (Err(e), Ok(_)) => bad(format!("Err {:?} returned although a level solved", e.error)),
    }
}

#[derive(Default)]
struct Stats {
    systems: usize,
    levels: [usize; 5],
    level_ok: usize,
    level_unsat: usize,
    level_err: usize,
}

/// Basis of behaviours for the exhaustive enumeration.
fn basis() -> Vec<Constraint> {
    let p0 = DatumPoint::new_xy(0, 1);
    let p1 = DatumPoint::new_xy(2, 3);
    vec![
        Constraint::Fixed(0, 1.0),            // satisfiable
        Constraint::Fixed(0, 2.0),            // contradicts the first
        Constraint::Fixed(1, 3.0),            // independent, satisfiable
        Constraint::Distance(p0, p1, 2.0),    // non-linear, satisfiable
        Constraint::Fixed(9, 0.0),            // missing variable: hard error
        Constraint::PointsCoincident(p0, p1), // makes the Distance degenerate / contradictory
    ]
}

fn main() {
    let args: Vec<String> = std::env::args().collect();
    let seed: u64 = args[1].parse().unwrap();
    let n: usize = args[2].parse().unwrap();
    let exhaustive = args.get(3).map(|s| s == "1").unwrap_or(false);
    std::panic::set_hook(Box::new(|_| {}));
    let mut rng = Rng::new(seed);
    let mut out = Vec::new();
    let mut stats = Stats::default();
    for i in 0..n {
        let base = match i % 3 {
            0 => gen_planted(&mut rng, 6, 1e-2, &SHAPES),
            1 => gen_linear(&mut rng, 4, 8),
            _ => gen_planted(&mut rng, 4, 0.3, &SHAPES),
        };
        let base = maybe_large(&mut rng, i, base);
        let mut sys = with_priorities(&mut rng, base);
        if rng.chance(1, 2) {
            sys = with_contradictions(&mut rng, sys);
        }
        if i % 9 == 8 {
            sys = gen_disparity(&mut rng);
        } else if i % 4 == 3 {
            let b = gen_planted(&mut rng, 8, 1e-2, &SHAPES);
            sys = with_mild_conflicts(&mut rng, b);
        }
        if rng.chance(1, 8) {
            // a request on a missing variable somewhere
            let n = sys.guesses.len() as u32;
            let prio = *rng.pick(&[0u32, 1, 5]);
            sys.reqs.push(ConstraintRequest::new(Constraint::Fixed(n + 3, 0.0), prio));
        }
        if rng.chance(1, 8) {
            sys.max_iterations = *rng.pick(&[0, 1, 2]);
        }
        check(&sys, &mut out, &mut stats);
    }
    let mut exhaustive_count = 0usize;
    if exhaustive {
        let b = basis();
        let prios = [0u32, 5, 4_000_000_000];
        let guesses: Vec<(u32, f64)> = vec![(0, 0.5), (1, 0.25), (2, 3.0), (3, 0.5)];
        for len in 1..=4usize {
            let choices = b.len() * prios.len();
            let total = choices.pow(len as u32);
            for code in 0..total {
                let mut c = code;
                let mut reqs = Vec::new();
                for _ in 0..len {
                    let k = c % choices;
                    c /= choices;
                    reqs.push(ConstraintRequest::new(b[k % b.len()], prios[k / b.len()]));
                }
                let sys = System::default_cfg(reqs, guesses.clone(), "exhaustive");
                check(&sys, &mut out, &mut stats);
                exhaustive_count += 1;
            }
        }
    }
    for v in &out {
        println!("VIOLATION {}", v.to_json());
    }
    println!(
        "STATS {{\"systems\": {}, \"levels_hist\": {:?}, \"level_ok\": {}, \"level_unsatisfied\": {}, \"level_error\": {}, \"exhaustive_lists\": {}, \"violations\": {}}}",
        stats.systems, stats.levels, stats.level_ok, stats.level_unsat, stats.level_err, exhaustive_count, out.len()
    );
}
