//! corr-kernels: runs the real `nonzeroes / residual_dim / residual / jacobian_rows` on generated
//! cases and writes (a) the case lines for the Lean driver and (b) the implementation's answers in
//! the driver's output format.  Usage: corr_kernels <seed> <cases-per-shape> <out-dir>
use ezpz_verif_harness::codec::*;
use ezpz_verif_harness::gen_sys::*;
use ezpz_verif_harness::rng::Rng;
use kcl_ezpz::verif_hooks as vh;
use std::io::Write;
use std::panic::{AssertUnwindSafe, catch_unwind};

fn jrow(r: &[(u32, f64)]) -> String {
    r.iter()
        .map(|(id, pd)| format!("{}:{}", id, bits(*pd)))
        .collect::<Vec<_>>()
        .join(",")
}

fn main() {
    let args: Vec<String> = std::env::args().collect();
    let seed: u64 = args[1].parse().unwrap();
    let per_shape: usize = args[2].parse().unwrap();
    let out_dir = &args[3];
    std::panic::set_hook(Box::new(|_| {}));
    let mut rng = Rng::new(seed);
    let mut cases = std::io::BufWriter::new(std::fs::File::create(format!("{out_dir}/kernels.cases")).unwrap());
    let mut imp = std::io::BufWriter::new(std::fs::File::create(format!("{out_dir}/kernels.impl")).unwrap());
    let mut meta = std::io::BufWriter::new(std::fs::File::create(format!("{out_dir}/kernels.meta")).unwrap());
    for shape in SHAPES {
        for _ in 0..per_shape {
            let case = gen_kernel_case(&mut rng, shape);
            let c = case.constraint();
            writeln!(
                cases,
                "K {} V {} {}",
                enc_constraint(&c),
                case.values.len(),
                case.values.iter().map(|v| bits(*v)).collect::<Vec<_>>().join(" ")
            )
            .unwrap();
            let nz = vh::nonzeroes(&c);
            let dim = vh::residual_dim(&c);
            let res = match catch_unwind(AssertUnwindSafe(|| vh::residual(&c, &case.values))) {
                Ok((r, deg)) => format!("ok {} {} {} {}", bits(r[0]), bits(r[1]), bits(r[2]), deg as u8),
                Err(_) => "panic".to_owned(),
            };
            let jac = match catch_unwind(AssertUnwindSafe(|| vh::jacobian_rows(&c, &case.values))) {
                Ok((rows, deg)) => format!(
                    "ok {}|{}|{} {}",
                    jrow(&rows[0]),
                    jrow(&rows[1]),
                    jrow(&rows[2]),
                    deg as u8
                ),
                Err(_) => "panic".to_owned(),
            };
            writeln!(
                imp,
                "NZ {}|{}|{} DIM {} RES {} JAC {}",
                enc_ids(&nz[0]),
                enc_ids(&nz[1]),
                enc_ids(&nz[2]),
                dim,
                res,
                jac
            )
            .unwrap();
            writeln!(meta, "{} {} {}", case.shape, case.class, aliasing_pattern(&case.ids)).unwrap();
        }
    }
}
