//! C12 oracle on the real code: permuting the request list (priorities kept) or consistently
//! renumbering the variables yields the same solved priority, the same unsatisfied requests and the
//! same under-constrained variables (mapped through the permutation), and the same value for every
//! variable that is not under-constrained (1e-6 of the sketch scale); under-constrained ones within
//! 1e-2 with every constraint still satisfied.
//! Usage: oracle_c12 <seed> <n>
use ezpz_verif_harness::codec::{dec_constraint, enc_constraint};
use ezpz_verif_harness::gen_sys::SHAPES;
use ezpz_verif_harness::oracle::*;
use ezpz_verif_harness::planted::*;
use ezpz_verif_harness::rng::Rng;
use kcl_ezpz::*;

/// Renumber every variable id of a constraint through `pi`.
fn renumber(c: &Constraint, pi: &[u32]) -> Constraint {
    let enc = enc_constraint(c);
    let t: Vec<&str> = enc.split(' ').collect();
    let (ni, _) = ezpz_verif_harness::gen_sys::shape_arity(t[0]);
    let mut out = vec![t[0].to_string()];
    for (k, tok) in t.iter().enumerate().skip(1) {
        if k <= ni {
            out.push(pi[tok.parse::<usize>().unwrap()].to_string());
        } else {
            out.push(tok.to_string());
        }
    }
    dec_constraint(&out.join(" ")).unwrap()
}

/// F16's explanation, verified without the implementation's own verdicts: at the base solve's result
/// the requests of the solved levels are (a) inconsistent — the geometric specification
/// (`geom.rs`) measures a clear error for at least one of them — and (b) rank-deficient — a
/// finite-difference Jacobian of the error measures has rank below the number of variables
/// (`oracle::fd_rank`, own eigenvalue routine).  Only then may an order-dependent `DidNotConverge`
/// be filed under F16.
fn indep_drift(sys: &System, base: &SolveOutcomeFreedomAnalysis) -> bool {
    let x = base.outcome.final_values();
    let (level, _) = subset(&sys.reqs, base.outcome.priority_solved());
    let scale = sys.scale.max(1e-9);
    let inconsistent = level.iter().any(|r| {
        let g = ezpz_verif_harness::geom::geom_err(r.constraint(), x, scale);
        !g.degenerate && g.errs.iter().any(|e| !(e.abs() <= 1e-4 * scale.max(1.0)))
    });
    inconsistent && fd_rank(&level, x, 1e-6) < x.len()
}

fn main() {
    let args: Vec<String> = std::env::args().collect();
    let seed: u64 = args[1].parse().unwrap();
    let n: usize = args[2].parse().unwrap();
    ezpz_verif_harness::oracle::arm_crash_reporter("C12");
    let mut rng = Rng::new(seed);
    let mut out: Vec<Violation> = Vec::new();
    let (mut systems, mut perms, mut renums, mut compared) = (0usize, 0usize, 0usize, 0usize);
    let mut unsat_value_comparisons = 0usize;
    let mut far_skipped = 0usize;
    for i in 0..n {
        let mut sys = match i % 4 {
            0 => gen_planted(&mut rng, 8, 1e-3, &SHAPES),
            1 => gen_linear(&mut rng, 5, 8),
            // geometry pinned where several requests are degenerate (their evaluation returns early):
            // the solution is unique, so the outcome must not depend on the order, and the row
            // bookkeeping of the degenerate branches is exercised.  (Guesses collapsed onto a singular
            // point are NOT used here: from a bifurcation point rounding noise legitimately picks the
            // branch, and the property quantifies over planted-solution and linear systems.)
            2 => gen_pinned_degenerate(&mut rng),
            _ => gen_planted(&mut rng, 5, 1e-2, &SHAPES),
        };
        if i % 4 == 3 {
            sys = with_priorities(&mut rng, sys);
        }
        systems += 1;
        ezpz_verif_harness::oracle::note_current(&sys);
        let base = solve_analysis(&sys.reqs, sys.guesses.clone(), sys.config());
        let Ok(base) = base else { continue };
        if base.outcome.iterations() > 20 {
            continue; // not comfortably converged: noise is not bounded by the property's tolerances
        }
        let nvars = sys.guesses.len();
        let scale = sys.scale.max(1e-9);
        let under: Vec<u32> = base.analysis.underconstrained().to_vec();
        // --- request permutations (all of them for <= 4 requests, random otherwise)
        let m = sys.reqs.len();
        let mut orders: Vec<Vec<usize>> = Vec::new();
        if m <= 4 {
            fn permute(k: usize, cur: &mut Vec<usize>, used: &mut Vec<bool>, out: &mut Vec<Vec<usize>>) {
                if cur.len() == k {
                    out.push(cur.clone());
                    return;
                }
                for i in 0..k {
                    if !used[i] {
                        used[i] = true;
                        cur.push(i);
                        permute(k, cur, used, out);
                        cur.pop();
                        used[i] = false;
                    }
                }
            }
            permute(m, &mut Vec::new(), &mut vec![false; m], &mut orders);
        } else {
            for _ in 0..3 {
                let mut o: Vec<usize> = (0..m).collect();
                rng.shuffle(&mut o);
                orders.push(o);
            }
        }
        for order in orders {
            perms += 1;
            let reqs: Vec<ConstraintRequest> = order.iter().map(|k| sys.reqs[*k]).collect();
            let attempt = std::panic::catch_unwind(std::panic::AssertUnwindSafe(|| solve_analysis(&reqs, sys.guesses.clone(), sys.config())));
            let Ok(attempt) = attempt else {
                out.push(Violation { property: "C12", what: "a permuted request list makes the solver panic while the original succeeds".into(), signature: "perm-panics".into(), system: Some(sys.clone()), extra: format!("{order:?}") });
                continue;
            };
            let other = match attempt {
                Ok(o) => o,
                Err(e) => {
                    // an inconsistent, rank-deficient system can drift forever along the null space
                    // (rounding noise in -J^T r amplified by 1/lambda): whether it does depends on the
                    // summation order
                    let drift = matches!(e.error, NonLinearSystemError::DidNotConverge) && indep_drift(&sys, &base);
                    out.push(Violation { property: "C12", what: format!("a permuted request list fails ({:?}) while the original succeeds", e.error), signature: if drift { "drift-on-inconsistent-rank-deficient".into() } else if matches!(e.error, NonLinearSystemError::FaerSvd(_)) { "svd-no-convergence-under-reordering".into() } else { "perm-fails".into() }, system: Some(sys.clone()), extra: format!("{order:?}") });
                    continue;
                }
            };
            compared += 1;
            let mapped_unsat: Vec<usize> = {
                let mut u: Vec<usize> = other.outcome.unsatisfied().iter().map(|k| order[*k]).collect();
                u.sort();
                u
            };
            let mut bad = |what: String, sig: &str| out.push(Violation { property: "C12", what, signature: sig.into(), system: Some(sys.clone()), extra: format!("order {order:?}") });
            if other.outcome.priority_solved() != base.outcome.priority_solved() {
                // when the plain solve of the permuted list still reaches the base's level, the difference
                // comes from the freedom analysis failing at a later level under this ordering (faer's SVD
                // not converging, F18) and the priority loop swallowing that error (F10): known
                let plain_same = matches!(solve(&reqs, sys.guesses.clone(), sys.config()), Ok(p) if p.priority_solved() == base.outcome.priority_solved());
                bad(format!("solved priority {} vs {} after permuting the requests", other.outcome.priority_solved(), base.outcome.priority_solved()), if plain_same { "svd-no-convergence-under-reordering" } else { "perm-priority" });
            } else if mapped_unsat != base.outcome.unsatisfied() {
                bad(format!("unsatisfied {:?} vs {:?} after permuting the requests", mapped_unsat, base.outcome.unsatisfied()), "perm-unsatisfied");
            } else if base.outcome.is_satisfied() {
                if other.analysis.underconstrained() != under.as_slice() {
                    // borderline participation thresholds are excluded: only report clear differences
                    let a: std::collections::BTreeSet<u32> = under.iter().copied().collect();
                    let b: std::collections::BTreeSet<u32> = other.analysis.underconstrained().iter().copied().collect();
                    let far_u = base.outcome.final_values().iter().any(|v| v.abs() > 1e3 * scale.max(1.0));
                    if a.symmetric_difference(&b).count() > 0 && base.outcome.iterations() <= 8 && !far_u {
                        bad(format!("under-constrained set {:?} vs {:?} after permuting the requests", b, a), "perm-underconstrained");
                    }
                }
                // (a sketch of size 1 drawn at coordinates of 1e5..1e6 resolves its coordinates to about
                // 1e-10 and its error measures to about 1e-9: with the convergence tolerance 1e-8 and ordinary
                // conditioning the results of two orders agree to about 1e-6 of the SIZE at best, which is the
                // property's bound itself; such sketches are compared on verdicts and sets only)
                let far = base.outcome.final_values().iter().any(|v| v.abs() > 1e3 * scale.max(1.0));
                if far { far_skipped += 1; }
                for v in 0..nvars {
                    if far { break; }
                    let d = (other.outcome.final_values()[v] - base.outcome.final_values()[v]).abs();
                    let tol = if under.contains(&(v as u32)) { 1e-2 } else { 1e-6 } * scale;
                    if d > tol {
                        bad(format!("variable {v} differs by {d:.3e} after permuting the requests (tolerance {tol:.1e})"), "perm-values");
                        break;
                    }
                }
            } else if base.outcome.iterations() <= 12 && other.outcome.iterations() <= 12 {
                // a best-effort result (something stays unsatisfied: the least-squares compromise): the
                // variables that are not under-constrained must still agree, a little less tightly
                unsat_value_comparisons += 1;
                for v in 0..nvars {
                    if under.contains(&(v as u32)) || other.analysis.underconstrained().contains(&(v as u32)) { continue; }
                    let d = (other.outcome.final_values()[v] - base.outcome.final_values()[v]).abs();
                    if d > 1e-5 * scale {
                        bad(format!("variable {v} of a best-effort (partly unsatisfied) result differs by {d:.3e} after permuting the requests"), "perm-values-best-effort");
                        break;
                    }
                }
            }
        }
        // --- variable renumbering
        for _ in 0..2 {
            renums += 1;
            let mut pi: Vec<u32> = (0..nvars as u32).collect();
            rng.shuffle(&mut pi);
            let reqs: Vec<ConstraintRequest> = sys.reqs.iter().map(|r| ConstraintRequest::new(renumber(r.constraint(), &pi), r.priority())).collect();
            let mut g: Vec<(u32, f64)> = vec![(0, 0.0); nvars];
            for (old, (_, val)) in sys.guesses.iter().enumerate() {
                g[pi[old] as usize] = (pi[old], *val);
            }
            let attempt = std::panic::catch_unwind(std::panic::AssertUnwindSafe(|| solve_analysis(&reqs, g, sys.config())));
            let Ok(attempt) = attempt else {
                out.push(Violation { property: "C12", what: "a renumbered system makes the solver panic while the original succeeds".into(), signature: "renumber-panics".into(), system: Some(sys.clone()), extra: format!("{pi:?}") });
                continue;
            };
            let other = match attempt {
                Ok(o) => o,
                Err(e) => {
                    let drift = matches!(e.error, NonLinearSystemError::DidNotConverge) && indep_drift(&sys, &base);
                    out.push(Violation { property: "C12", what: format!("a renumbered system fails ({:?}) while the original succeeds", e.error), signature: if drift { "drift-on-inconsistent-rank-deficient".into() } else if matches!(e.error, NonLinearSystemError::FaerSvd(_)) { "svd-no-convergence-under-reordering".into() } else { "renumber-fails".into() }, system: Some(sys.clone()), extra: format!("{pi:?}") });
                    continue;
                }
            };
            compared += 1;
            let mut bad = |what: String, sig: &str| out.push(Violation { property: "C12", what, signature: sig.into(), system: Some(sys.clone()), extra: format!("pi {pi:?}") });
            if other.outcome.priority_solved() != base.outcome.priority_solved() {
                bad("solved priority changes under renumbering".into(), "renumber-priority");
            } else if other.outcome.unsatisfied() != base.outcome.unsatisfied() {
                bad(format!("unsatisfied {:?} vs {:?} under renumbering", other.outcome.unsatisfied(), base.outcome.unsatisfied()), "renumber-unsatisfied");
            } else if base.outcome.is_satisfied() {
                let mut mapped: Vec<u32> = under.iter().map(|v| pi[*v as usize]).collect();
                mapped.sort();
                let far_u = base.outcome.final_values().iter().any(|v| v.abs() > 1e3 * scale.max(1.0));
                if other.analysis.underconstrained() != mapped.as_slice() && base.outcome.iterations() <= 8 && !far_u {
                    bad(format!("under-constrained set {:?} vs expected {:?} under renumbering", other.analysis.underconstrained(), mapped), "renumber-underconstrained");
                }
                let far = base.outcome.final_values().iter().any(|v| v.abs() > 1e3 * scale.max(1.0));
                if far { far_skipped += 1; }
                for v in 0..nvars {
                    if far { break; }
                    let d = (other.outcome.final_values()[pi[v] as usize] - base.outcome.final_values()[v]).abs();
                    let tol = if under.contains(&(v as u32)) { 1e-2 } else { 1e-6 } * scale;
                    if d > tol {
                        bad(format!("variable {v} differs by {d:.3e} under renumbering (tolerance {tol:.1e})"), "renumber-values");
                        break;
                    }
                }
            }
        }
    }
    ezpz_verif_harness::oracle::print_signature_counts(&out);
    let mut seen = std::collections::BTreeSet::new();
    for v in &out {
        if seen.insert(v.signature.clone()) {
            println!("VIOLATION {}", v.to_json());
        }
    }
    println!("STATS {{\"systems\": {systems}, \"request_permutations\": {perms}, \"renumberings\": {renums}, \"outcomes_compared\": {compared}, \"best_effort_results_compared_by_value\": {unsat_value_comparisons}, \"far_from_origin_not_compared_by_value\": {far_skipped}, \"violations\": {}}}", out.len());
}
