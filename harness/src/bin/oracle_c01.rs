//! C01 oracle on the real code: after every successful solve, every attempted request that is not
//! listed as unsatisfied really holds by its geometric meaning (independent specification in
//! `geom.rs`), and every listed one is really violated; angles are understood modulo a full turn and
//! independently of the unit.
//! Usage: oracle_c01 <seed> <n>
use ezpz_verif_harness::gen_sys::SHAPES;
use ezpz_verif_harness::geom::*;
use ezpz_verif_harness::oracle::*;
use ezpz_verif_harness::planted::*;
use ezpz_verif_harness::rng::Rng;
use kcl_ezpz::datatypes::inputs::DatumPoint;
use kcl_ezpz::datatypes::{Angle, AngleKind};

use kcl_ezpz::*;
use std::f64::consts::PI;

const EPS: f64 = 1e-4;

fn reexpress(rng: &mut Rng, a: &Angle) -> Angle {
    let rad = angle_radians(a) + 2.0 * PI * (rng.below(5) as f64 - 2.0);
    if rng.chance(1, 2) { Angle::from_degrees(rad.to_degrees()) } else { Angle::from_radians(rad) }
}

fn main() {
    let args: Vec<String> = std::env::args().collect();
    let seed: u64 = args[1].parse().unwrap();
    let n: usize = args[2].parse().unwrap();
    ezpz_verif_harness::oracle::arm_crash_reporter("C01");
    let mut rng = Rng::new(seed);
    // a generator of its own for the half-turn class: adding the class leaves the main stream alone
    let mut rng_half = Rng::new(seed ^ 0x4A1F_0C01);
    let mut half_turn_systems = 0usize;
    let mut out: Vec<Violation> = Vec::new();
    let (mut systems, mut oks, mut verdicts, mut listed, mut exempt, mut angle_variants) = (0usize, 0usize, 0usize, 0usize, 0usize, 0usize);
    let (mut nan_targets, mut undefined_errors) = (0usize, 0usize);
    let mut per_kind = std::collections::BTreeMap::new();
    // the half-turn class is APPENDED (indices n .. n + n/29): no system of the main stream is replaced
    for i in 0..n + n / 29 {
        let sys = match i % 6 {
            0 => gen_planted(&mut rng, 10, 1e-2, &SHAPES),
            1 => gen_planted(&mut rng, 6, 0.3, &SHAPES),
            2 => {
                let b = gen_planted(&mut rng, 6, 0.1, &SHAPES);
                with_contradictions(&mut rng, b)
            }
            3 => {
                let b = gen_planted(&mut rng, 6, 0.05, &SHAPES);
                with_priorities(&mut rng, b)
            }
            4 => {
                // redundant: every constraint twice
                let mut b = gen_planted(&mut rng, 5, 0.05, &SHAPES);
                let dup = b.reqs.clone();
                b.reqs.extend(dup);
                b
            }
            _ => gen_linear(&mut rng, 5, 8),
        };
        let mut sys = maybe_large(&mut rng, i, sys);
        // (the half-turn systems come after the main stream and are drawn from their own generator,
        // so that adding the class leaves every other system as it was)
        let half_turn = i >= n;
        if half_turn {
            half_turn_systems += 1;
        }
        if i % 7 == 5 {
            sys = gen_disparity(&mut rng);
        } else if i % 3 == 2 {
            // mild conflicts across priority levels (mixed verdicts within the attempted subset)
            let b = gen_planted(&mut rng, 8, 1e-2, &SHAPES);
            sys = with_mild_conflicts(&mut rng, b);
        }
        if i % 9 == 8 {
            let s2 = with_priorities(&mut rng, sys);
            sys = with_contradictions(&mut rng, s2);
        }
        if i % 5 == 4 {
            // a re-solve from the previous result (for contradictory systems: from the compromise)
            sys = with_resolve(sys);
        }
        if i % 11 == 3 {
            // a short, fully determined feature (edge, arc or segment at an explicit angle, size
            // 1.5e-3..9e-3): guards that are wider than documented switch a measure off there
            sys = with_short_feature(&mut rng, sys);
        }
        if i % 13 == 6 {
            // a request that can never hold: a NaN target (its error is NaN at every configuration).
            // Everything else is satisfied at the planted point, which is also the guess, so the solve
            // returns at once; the request must be listed as unsatisfied.
            if let Some(xs) = sys.planted.clone() {
                if xs.len() >= 4 {
                    sys.guesses = xs.iter().enumerate().map(|(k, v)| (k as u32, *v)).collect();
                    let ids: Vec<u32> = (0..4).map(|_| rng.below(xs.len()) as u32).collect();
                    let (a, b) = (DatumPoint::new_xy(ids[0], ids[1]), DatumPoint::new_xy(ids[2], ids[3]));
                    let c = match rng.below(4) {
                        0 => Constraint::Fixed(ids[0], f64::NAN),
                        1 => Constraint::Distance(a, b, f64::NAN),
                        2 => Constraint::VerticalDistance(a, b, f64::NAN),
                        _ => Constraint::HorizontalDistance(a, b, f64::NAN),
                    };
                    let at = rng.below(sys.reqs.len() + 1);
                    sys.reqs.insert(at, ConstraintRequest::highest_priority(c));
                    nan_targets += 1;
                }
            }
        }
        if i % 7 == 2 || i % 7 == 5 {
            // (a selector that does not coincide with one of the six generator classes above)
            // explicit angles re-expressed up front (other unit, whole turns added or removed: 450deg,
            // -270deg, 7.85rad ...): the geometric verdict check below then runs on angles outside
            // atan2's range as well ("angles are understood modulo a full turn")
            sys.reqs = sys
                .reqs
                .iter()
                .map(|r| {
                    let c = match r.constraint() {
                        Constraint::LinesAtAngle(a, b, AngleKind::Other(ang)) => Constraint::LinesAtAngle(*a, *b, AngleKind::Other(reexpress(&mut rng, ang))),
                        Constraint::ArcAngle(a, ang) => Constraint::ArcAngle(*a, reexpress(&mut rng, ang)),
                        c => *c,
                    };
                    ConstraintRequest::new(c, r.priority())
                })
                .collect();
        }
        if half_turn {
            sys = gen_half_turn_far_guess(&mut rng_half);
        }
        systems += 1;
        ezpz_verif_harness::oracle::note_current(&sys);
        for analysis in [false, true] {
            let res = if analysis {
                solve_analysis(&sys.reqs, sys.guesses.clone(), sys.config()).map(|o| o.outcome)
            } else {
                solve(&sys.reqs, sys.guesses.clone(), sys.config())
            };
            let Ok(o) = res else { continue };
            oks += 1;
            let x = o.final_values();
            if x.iter().any(|v| !v.is_finite()) {
                continue;
            }
            // the SIZE of the sketch (the generator's scale; for generators that do not set one, the
            // spread of the returned coordinates), not the magnitude of its coordinates: a sketch of
            // size 1 drawn at (1.5e6, 2.5e6) is not "degenerate up to 1e3"
            let spread = {
                let (lo, hi) = x.iter().fold((f64::INFINITY, f64::NEG_INFINITY), |(lo, hi), v| (lo.min(*v), hi.max(*v)));
                (hi - lo).abs()
            };
            let scale = if sys.planted.is_some() { sys.scale } else { x.iter().fold(0.0f64, |a, v| a.max(v.abs())).min(spread.max(1e-9)) }.max(1e-9);
            for (idx, r) in sys.reqs.iter().enumerate() {
                if r.priority() > o.priority_solved() {
                    continue;
                }
                let c = r.constraint();
                verdicts += 1;
                *per_kind.entry(c.constraint_kind()).or_insert(0usize) += 1;
                let is_listed = o.unsatisfied().contains(&idx);
                if is_listed {
                    listed += 1;
                }
                let g = geom_err(c, x, scale);
                // exemption by the independent specification only (documented guard bands), never by the
                // implementation's own degenerate flag: a request wrongly flagged degenerate must not hide
                let guarded = ezpz_verif_harness::geom::in_guard_band(c, x);
                if g.degenerate || guarded {
                    exempt += 1;
                    continue;
                }
                if g.errs.iter().any(|e| !e.is_finite()) {
                    // the geometric error is undefined (NaN target, overflow): the request does not hold,
                    // so it must be listed
                    undefined_errors += 1;
                    if !is_listed {
                        out.push(Violation {
                            property: "C01",
                            what: format!("request {idx} ({}) is reported satisfied but its geometric error is not a number (it cannot hold at the returned coordinates)", c.constraint_kind()),
                            signature: format!("satisfied-but-undefined:{}", c.constraint_kind()),
                            system: Some(sys.clone()),
                            extra: String::new(),
                        });
                    }
                    continue;
                }
                let gmax = g.errs.iter().fold(0.0f64, |a, e| a.max(e.abs()));
                let measure = gmax * g.k;
                if !is_listed && measure > 10.0 * EPS * (g.errs.len() as f64).sqrt().max(1.0) {
                    out.push(Violation {
                        property: "C01",
                        what: format!(
                            "request {idx} ({}) is reported satisfied but its geometric error is {:.3e} (scale factor {:.3e})",
                            c.constraint_kind(), gmax, g.k
                        ),
                        signature: format!("satisfied-but-violated:{}", c.constraint_kind()),
                        system: Some(sys.clone()),
                        extra: describe(&Ok(o_clone(&o))),
                    });
                }
                if is_listed && measure < 0.1 * EPS {
                    out.push(Violation {
                        property: "C01",
                        what: format!(
                            "request {idx} ({}) is listed as unsatisfied but its geometric error is only {:.3e}",
                            c.constraint_kind(), gmax
                        ),
                        signature: format!("listed-but-satisfied:{}", c.constraint_kind()),
                        system: Some(sys.clone()),
                        extra: String::new(),
                    });
                }
                if !is_listed {
                    if let Some(false) = point_in_arc_sweep(c, x, 0.05) {
                        out.push(Violation {
                            property: "C01",
                            what: format!("request {idx} (PointArcCoincident) is reported satisfied but the point lies outside the arc's sweep"),
                            signature: "point-arc-coincident-on-circle-outside-sweep".into(),
                            system: Some(sys.clone()),
                            extra: String::new(),
                        });
                    }
                }
            }
        }
        // angle units / full turns: re-express every explicit angle, verdicts must not change
        if sys.reqs.iter().any(|r| matches!(r.constraint(), Constraint::LinesAtAngle(_, _, AngleKind::Other(_)) | Constraint::ArcAngle(..))) {
            angle_variants += 1;
            let mut s2 = sys.clone();
            s2.reqs = sys
                .reqs
                .iter()
                .map(|r| {
                    let c = match r.constraint() {
                        Constraint::LinesAtAngle(a, b, AngleKind::Other(ang)) => {
                            Constraint::LinesAtAngle(*a, *b, AngleKind::Other(reexpress(&mut rng, ang)))
                        }
                        Constraint::ArcAngle(a, ang) => Constraint::ArcAngle(*a, reexpress(&mut rng, ang)),
                        c => *c,
                    };
                    ConstraintRequest::new(c, r.priority())
                })
                .collect();
            let a = solve(&sys.reqs, sys.guesses.clone(), sys.config());
            let b = solve(&s2.reqs, s2.guesses.clone(), s2.config());
            if let (Ok(a), Ok(b)) = (&a, &b) {
                let scale = a.final_values().iter().fold(0.0f64, |m, v| m.max(v.abs())).max(1e-9);
                // compare only when the solve is comfortably converged on both sides
                let close = a.final_values().iter().zip(b.final_values()).all(|(x, y)| (x - y).abs() <= 1e-5 * scale);
                if a.unsatisfied() != b.unsatisfied() && a.iterations() < 30 && b.iterations() < 30 {
                    // verdict change is a violation only if the geometry is also the same
                    // a request whose error sits on the 1e-4 threshold itself (a conflict of exactly 2e-4
                    // split evenly, say) may flip with the last bit: only differences on requests whose
                    // error is clearly away from the threshold count
                    let clear_difference = (0..sys.reqs.len()).any(|k| {
                        a.unsatisfied().contains(&k) != b.unsatisfied().contains(&k) && {
                            let (res, _) = kcl_ezpz::verif_hooks::residual(sys.reqs[k].constraint(), a.final_values());
                            (0..kcl_ezpz::verif_hooks::residual_dim(sys.reqs[k].constraint())).all(|j| (res[j].abs() - EPS).abs() > 1e-7)
                        }
                    });
                    if close && clear_difference {
                        out.push(Violation {
                            property: "C01",
                            what: format!("re-expressing the angles (unit / full turns) changes the verdicts: {:?} vs {:?}", a.unsatisfied(), b.unsatisfied()),
                            signature: "angle-units".into(),
                            system: Some(s2.clone()),
                            extra: String::new(),
                        });
                    }
                }
            }
        }
    }
    ezpz_verif_harness::oracle::print_signature_counts(&out);
    let mut seen = std::collections::BTreeSet::new();
    for v in &out {
        if seen.insert(v.signature.clone()) {
            println!("VIOLATION {}", v.to_json());
        }
    }
    let large_systems = large_count();
    println!(
        "STATS {{\"systems\": {systems}, \"large_systems\": {large_systems}, \"half_turn_far_guess\": {half_turn_systems}, \"ok_results\": {oks}, \"verdicts_checked\": {verdicts}, \"listed_unsatisfied\": {listed}, \"exempt_degenerate\": {exempt}, \"angle_reexpressions\": {angle_variants}, \"nan_target_requests\": {nan_targets}, \"undefined_errors_checked\": {undefined_errors}, \"per_kind\": {:?}, \"violations\": {}}}",
        per_kind,
        out.len()
    );
}

fn o_clone(o: &SolveOutcome) -> SolveOutcome {
    // SolveOutcome is not Clone; re-solve is not needed for the description, so rebuild what is printed
    // through the public API by solving a trivial empty system is impossible; describe from fields.
    // (Used only to print.)
    let r = solve(&[], o.final_values().iter().enumerate().map(|(i, v)| (i as u32, *v)).collect(), Config::default());
    r.unwrap()
}
