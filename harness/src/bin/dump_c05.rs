//! C05 helper: after a successful solve_analysis, prints the reported under-constrained ids and an
//! independent linearisation of the attempted constraints at the returned point (central differences
//! of the real error measures, not jacobian_rows), for the null-space oracle in tools/oracle_c05.py.
//! Usage: dump_c05 <seed> <n>
use ezpz_verif_harness::codec::enc_constraint;
use ezpz_verif_harness::gen_sys::SHAPES;
use ezpz_verif_harness::planted::*;
use ezpz_verif_harness::rng::Rng;
use kcl_ezpz::verif_hooks as vh;
use kcl_ezpz::*;

fn main() {
    let args: Vec<String> = std::env::args().collect();
    let seed: u64 = args[1].parse().unwrap();
    let n: usize = args[2].parse().unwrap();
    std::panic::set_hook(Box::new(|_| {}));
    let mut rng = Rng::new(seed);
    let (mut skipped_err, mut skipped_unsat) = (0usize, 0usize);
    let mut skipped_far = 0usize;
    for i in 0..n {
        let mut sys = match i % 4 {
            0 => gen_planted(&mut rng, 15, 1e-3, &SHAPES),
            1 => gen_linear(&mut rng, 8, 12),
            2 => gen_planted(&mut rng, 4, 1e-3, &SHAPES),
            _ => {
                // no constraints at all / only a few, plus unmentioned variables
                let mut s = gen_linear(&mut rng, 6, 2);
                if rng.chance(1, 2) { s.reqs.clear(); }
                s
            }
        };
        if i % 4 == 2 || i % 8 == 0 {
            // pin most (or all) coordinates: fully pinned variables must never be reported
            if let Some(xs) = sys.planted.clone() {
                let all = rng.chance(1, 2);
                for (id, v) in xs.iter().enumerate() {
                    if all || rng.chance(3, 4) {
                        sys.reqs.push(ConstraintRequest::highest_priority(Constraint::Fixed(id as u32, *v)));
                    }
                }
            }
        }
        if i % 5 == 4 {
            // over-determined but rank-deficient: duplicate every request
            let dup = sys.reqs.clone();
            sys.reqs.extend(dup);
        }
        if i % 6 == 5 {
            // lower-priority requests on top: a pair that contradicts itself on one variable (that level
            // solves but stays unsatisfied, so the previous level is what is returned and the analysis
            // must be about the kept requests only), or one the planted point already satisfies
            let nv0 = sys.guesses.len();
            if nv0 > 0 {
                let levels = 1 + rng.below(2) as u32;
                for lvl in 1..=levels {
                    let v = rng.below(nv0) as u32;
                    let base = sys.planted.as_ref().map(|xs| xs[v as usize]).unwrap_or(0.0);
                    if rng.chance(2, 3) {
                        let gap = sys.scale.max(1.0) * (0.5 + rng.unit());
                        sys.reqs.push(ConstraintRequest::new(Constraint::Fixed(v, base - gap), lvl));
                        sys.reqs.push(ConstraintRequest::new(Constraint::Fixed(v, base + gap), lvl));
                    } else {
                        sys.reqs.push(ConstraintRequest::new(Constraint::Fixed(v, base), lvl));
                    }
                }
                // requests are not grouped by priority in the caller's list
                if rng.chance(1, 2) {
                    let k = sys.reqs.len();
                    sys.reqs.swap(0, k - 1);
                }
            }
        }
        // now and then MANY unmentioned variables (40 ... 1200) beside the sketch: "the answer does not
        // depend on how many" variables or constraints exist - a threshold that grows with the number of
        // free variables, a buffer sized for small sketches, shows up only here
        let many = i % 23 == 11;
        let extra = if many { *rng.pick(&[40usize, 150, 150, 400, 1200]) } else { rng.below(3) };
        for _ in 0..extra {
            let id = sys.guesses.len() as u32;
            sys.guesses.push((id, sys.scale * rng.sym()));
        }
        // the analysis of a system of the same structure but other values (its guesses collapsed onto
        // one point, or its own solution revisited) runs right before: an answer remembered from a
        // previous call of the same shape would show up as a wrong answer for this one
        {
            let pred = with_collapsed_guess(&mut rng, sys.clone());
            let _ = solve_analysis(&pred.reqs, pred.guesses.clone(), pred.config());
        }
        let o = match solve_analysis(&sys.reqs, sys.guesses.clone(), sys.config()) {
            Ok(o) => o,
            Err(e) => {
                if std::env::var("DUMP_C05_DEBUG").is_ok() {
                    eprintln!("skip {i}: error {:?}", e.error);
                }
                skipped_err += 1;
                continue;
            }
        };
        if o.outcome.is_unsatisfied() || o.outcome.iterations() > 15 {
            if std::env::var("DUMP_C05_DEBUG").is_ok() {
                eprintln!("skip {i}: unsatisfied {:?} iterations {} prio_solved {} prios {:?}", o.outcome.unsatisfied(), o.outcome.iterations(), o.outcome.priority_solved(), sys.reqs.iter().map(|r| format!("{} {:?}", r.priority(), r.constraint())).collect::<Vec<_>>());
                eprintln!("   guesses {:?} final {:?}", sys.guesses, o.outcome.final_values());
            }
            skipped_unsat += 1;
            continue;
        }
        let x = o.outcome.final_values().to_vec();
        let nv = x.len();
        // sketches drawn far away from the origin are left out: the finite-difference linearisation
        // below (step 1e-6 x size) is dominated by rounding noise at coordinates of 1e5..1e6, so the
        // "clear gap" this oracle needs cannot be established there (the freedom analysis of such
        // sketches is still tied to the model by corr-trace's SVD certificate)
        if x.iter().any(|v| v.abs() > 1e3 * sys.scale.max(1.0)) {
            skipped_far += 1;
            continue;
        }
        let mut rows: Vec<Vec<f64>> = Vec::new();
        let mut flagged = false;
        for r in sys.reqs.iter().filter(|r| r.priority() <= o.outcome.priority_solved()) {
            let c = r.constraint();
            // degeneracy by the independent specification only (never the implementation's own flags:
            // a request wrongly treated as degenerate loses its Jacobian row and must not be skipped)
            if ezpz_verif_harness::geom::in_guard_band(c, &x) || ezpz_verif_harness::geom::geom_err(c, &x, sys.scale).degenerate {
                flagged = true;
            }
            let dim = vh::residual_dim(c);
            let decl: std::collections::BTreeSet<u32> = vh::nonzeroes(c).into_iter().flatten().collect();
            for k in 0..dim {
                let mut row = vec![0.0; nv];
                for v in &decl {
                    let h = 1e-6 * sys.scale.max(1e-3);
                    let f = |t: f64| {
                        let mut y = x.clone();
                        y[*v as usize] += t;
                        vh::residual(c, &y).0[k]
                    };
                    row[*v as usize] = (-f(2.0 * h) + 8.0 * f(h) - 8.0 * f(-h) + f(-2.0 * h)) / (12.0 * h);
                }
                rows.push(row);
            }
        }
        let fell_back = sys.reqs.iter().any(|r| r.priority() > o.outcome.priority_solved());
        println!(
            "DOF {{\"fell_back\": {fell_back}, \"unmentioned_added\": {extra}, \"nvars\": {nv}, \"degenerate\": {flagged}, \"reported\": {:?}, \"rows\": [{}], \"scale\": {}, \"requests\": [{}], \"x\": [{}]}}",
            o.analysis.underconstrained(),
            rows.iter().map(|r| format!("[{}]", r.iter().map(|v| format!("{v:e}")).collect::<Vec<_>>().join(", "))).collect::<Vec<_>>().join(", "),
            sys.scale,
            sys.reqs.iter().map(|r| format!("\"{} {}\"", r.priority(), enc_constraint(r.constraint()))).collect::<Vec<_>>().join(", "),
            x.iter().map(|v| format!("{v:e}")).collect::<Vec<_>>().join(", ")
        );
    }
    println!("SKIPPED {{\"errors\": {skipped_err}, \"unsatisfied_or_slow\": {skipped_unsat}, \"far_from_the_origin\": {skipped_far}}}");
    println!("DONE {n}");
}
