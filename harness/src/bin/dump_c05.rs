//! C05 helper: after a successful solve_analysis, prints the reported under-constrained ids and an
//! independent linearisation of the attempted constraints at the returned point (central differences
//! of the real error measures, not jacobian_rows), for the null-space oracle in tools/oracle_c05.py.
//! Usage: dump_c05 <seed> <n>
use ezpz_verif_harness::codec::enc_constraint;
use ezpz_verif_harness::gen_sys::SHAPES;
use ezpz_verif_harness::planted::*;
use ezpz_verif_harness::rng::Rng;
use kcl_ezpz::verif_hooks as vh;
use kcl_ezpz::*;

fn main() {
    let args: Vec<String> = std::env::args().collect();
    let seed: u64 = args[1].parse().unwrap();
    let n: usize = args[2].parse().unwrap();
    std::panic::set_hook(Box::new(|_| {}));
    let mut rng = Rng::new(seed);
    for i in 0..n {
        let mut sys = match i % 4 {
            0 => gen_planted(&mut rng, 15, 1e-3, &SHAPES),
            1 => gen_linear(&mut rng, 8, 12),
            2 => gen_planted(&mut rng, 4, 1e-3, &SHAPES),
            _ => {
                // no constraints at all / only a few, plus unmentioned variables
                let mut s = gen_linear(&mut rng, 6, 2);
                if rng.chance(1, 2) { s.reqs.clear(); }
                s
            }
        };
        if i % 4 == 2 || i % 8 == 0 {
            // pin most (or all) coordinates: fully pinned variables must never be reported
            if let Some(xs) = sys.planted.clone() {
                let all = rng.chance(1, 2);
                for (id, v) in xs.iter().enumerate() {
                    if all || rng.chance(3, 4) {
                        sys.reqs.push(ConstraintRequest::highest_priority(Constraint::Fixed(id as u32, *v)));
                    }
                }
            }
        }
        if i % 5 == 4 {
            // over-determined but rank-deficient: duplicate every request
            let dup = sys.reqs.clone();
            sys.reqs.extend(dup);
        }
        let extra = rng.below(3);
        for _ in 0..extra {
            let id = sys.guesses.len() as u32;
            sys.guesses.push((id, sys.scale * rng.sym()));
        }
        // the analysis of a system of the same structure but other values (its guesses collapsed onto
        // one point, or its own solution revisited) runs right before: an answer remembered from a
        // previous call of the same shape would show up as a wrong answer for this one
        {
            let pred = with_collapsed_guess(&mut rng, sys.clone());
            let _ = solve_analysis(&pred.reqs, pred.guesses.clone(), pred.config());
        }
        let Ok(o) = solve_analysis(&sys.reqs, sys.guesses.clone(), sys.config()) else { continue };
        if o.outcome.is_unsatisfied() || o.outcome.iterations() > 15 {
            continue;
        }
        let x = o.outcome.final_values().to_vec();
        let nv = x.len();
        let mut rows: Vec<Vec<f64>> = Vec::new();
        let mut flagged = false;
        for r in sys.reqs.iter().filter(|r| r.priority() <= o.outcome.priority_solved()) {
            let c = r.constraint();
            // degeneracy by the independent specification only (never the implementation's own flags:
            // a request wrongly treated as degenerate loses its Jacobian row and must not be skipped)
            if ezpz_verif_harness::geom::in_guard_band(c, &x) || ezpz_verif_harness::geom::geom_err(c, &x, sys.scale).degenerate {
                flagged = true;
            }
            let dim = vh::residual_dim(c);
            let decl: std::collections::BTreeSet<u32> = vh::nonzeroes(c).into_iter().flatten().collect();
            for k in 0..dim {
                let mut row = vec![0.0; nv];
                for v in &decl {
                    let h = 1e-6 * sys.scale.max(1e-3);
                    let f = |t: f64| {
                        let mut y = x.clone();
                        y[*v as usize] += t;
                        vh::residual(c, &y).0[k]
                    };
                    row[*v as usize] = (-f(2.0 * h) + 8.0 * f(h) - 8.0 * f(-h) + f(-2.0 * h)) / (12.0 * h);
                }
                rows.push(row);
            }
        }
        println!(
            "DOF {{\"nvars\": {nv}, \"degenerate\": {flagged}, \"reported\": {:?}, \"rows\": [{}], \"scale\": {}, \"requests\": [{}], \"x\": [{}]}}",
            o.analysis.underconstrained(),
            rows.iter().map(|r| format!("[{}]", r.iter().map(|v| format!("{v:e}")).collect::<Vec<_>>().join(", "))).collect::<Vec<_>>().join(", "),
            sys.scale,
            sys.reqs.iter().map(|r| format!("\"{} {}\"", r.priority(), enc_constraint(r.constraint()))).collect::<Vec<_>>().join(", "),
            x.iter().map(|v| format!("{v:e}")).collect::<Vec<_>>().join(", ")
        );
    }
}
