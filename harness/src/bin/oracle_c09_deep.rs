//! C09 (runtime part): inputs that stress the stack or the input length, run in this child process
//! so that an abort (stack overflow) is observed as an exit status by ./check.
//! Usage: oracle_c09_deep <depth> <long-len>
use kcl_ezpz::textual::Problem;
use std::str::FromStr;

fn main() {
    let args: Vec<String> = std::env::args().collect();
    let depth: usize = args[1].parse().unwrap();
    let long: usize = args[2].parse().unwrap();
    let mut cases = 0;
    // deeply nested sqrt( in every place a number expression is allowed
    for (head, tail) in [("distance(p, q, ", ")"), ("radius(c, ", ")")] {
        for closed in [true, false] {
            let e = format!("{}16{}", "sqrt(".repeat(depth), ")".repeat(if closed { depth } else { depth - 1 }));
            let txt = format!(
                "# constraints\npoint p\npoint q\ncircle c\n{head}{e}{tail}\n\n# guesses\np roughly (0, 0)\nq roughly (1, 1)\nc.center roughly (0, 0)\nc.radius roughly 1\n"
            );
            let r = Problem::from_str(&txt);
            if closed {
                let p = r.expect("balanced nesting must parse");
                let cs = p.to_constraint_system().expect("must build");
                assert_eq!(cs.constraints.len(), 1);
            } else {
                assert!(r.is_err(), "unbalanced nesting must be rejected");
            }
            cases += 1;
        }
    }
    // very long inputs: many instructions, very long labels, very long number tokens
    let mut txt = String::from("# constraints\npoint p\npoint q\n");
    for _ in 0..long / 20 {
        txt.push_str("horizontal(p, q)\n");
    }
    txt.push_str("vertical(p, q)\n\n# guesses\np roughly (0, 0)\nq roughly (1, 1)\n");
    let p = Problem::from_str(&txt).expect("long text must parse");
    assert_eq!(p.to_constraint_system().unwrap().constraints.len(), long / 20 + 1);
    cases += 1;
    let label = "a".repeat(long);
    let txt = format!("# constraints\npoint {label}\n{label}.x = 1\n\n# guesses\n{label} roughly (0, 0)\n");
    assert!(Problem::from_str(&txt).unwrap().to_constraint_system().is_ok());
    cases += 1;
    let digits = "9".repeat(long.min(100_000));
    let txt = format!("# constraints\npoint p\np.x = {digits}.{digits}e-{}\n\n# guesses\np roughly (0, 0)\n", digits.len() - 1);
    let _ = Problem::from_str(&txt).map(|p| p.to_constraint_system().map(|c| c.constraints.len()));
    cases += 1;
    // noise: arbitrary bytes that are valid UTF-8
    let mut x: u64 = 0x1234_5678;
    for _ in 0..2000 {
        let mut s = String::new();
        for _ in 0..(x % 200) {
            x = x.wrapping_mul(6364136223846793005).wrapping_add(1442695040888963407);
            let c = char::from_u32(((x >> 33) % 0x2FF) as u32).unwrap_or('?');
            s.push(c);
        }
        let _ = Problem::from_str(&s);
        cases += 1;
    }
    // a multi-byte character at EVERY character boundary of well-formed texts (all instruction forms
    // occur over the 24 generated texts): byte-offset peeking (`&i[..5]`) panics only when a
    // multi-byte character straddles the offset, so every position is tried with 2-, 3- and 4-byte
    // characters; each result may be Ok or Err, but the call must return
    let mut non_ascii_positions = 0usize;
    for sd in 0..24u64 {
        let mut rng = ezpz_verif_harness::rng::Rng::new(0xC09 + sd);
        let gp = ezpz_verif_harness::textgen::gen_valid(&mut rng);
        let base = ezpz_verif_harness::textgen::text_of(&gp, &mut rng);
        for at in 0..=base.len() {
            if !base.is_char_boundary(at) {
                continue;
            }
            for c in ['°', '€', '\u{1F600}'] {
                let mut t = base.clone();
                t.insert(at, c);
                let _ = Problem::from_str(&t).map(|p| p.to_constraint_system().map(|c| c.constraints.len()));
                non_ascii_positions += 1;
            }
        }
    }
    cases += non_ascii_positions;
    println!("STATS {{\"systems\": {cases}, \"sqrt_depth\": {depth}, \"long_len\": {long}, \"non_ascii_positions\": {non_ascii_positions}, \"violations\": 0}}");
    println!("DEEP-OK");
}
