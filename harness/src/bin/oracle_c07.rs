//! C07 oracle on the real code: one final value per guess; values addressed by id; unsatisfied
//! strictly increasing and attempted; warning indices are caller positions of the concerned
//! requests; solved priority is a requested priority; failures report the true sizes.
//! Usage: oracle_c07 <seed> <n>
use ezpz_verif_harness::gen_sys::SHAPES;
use ezpz_verif_harness::oracle::*;
use ezpz_verif_harness::planted::*;
use ezpz_verif_harness::rng::Rng;
use kcl_ezpz::datatypes::AngleKind;
use kcl_ezpz::datatypes::inputs::*;
use kcl_ezpz::verif_hooks::{self as vh, TraceEvent};
use kcl_ezpz::*;

fn main() {
    let args: Vec<String> = std::env::args().collect();
    let seed: u64 = args[1].parse().unwrap();
    let n: usize = args[2].parse().unwrap();
    std::panic::set_hook(Box::new(|_| {}));
    let mut rng = Rng::new(seed);
    let mut out: Vec<Violation> = Vec::new();
    let (mut systems, mut oks, mut errs, mut warns, mut degen_warns, mut permuted, mut fallbacks, mut typed_lookups) =
        (0usize, 0usize, 0usize, 0usize, 0usize, 0usize, 0usize, 0usize);
    let mut lint_warns = 0usize;
    let mut large_systems = 0usize;
    for i in 0..n {
        // one system in twelve is LARGE (35 ... 90 requests over several priority levels, with
        // contradictions): orderings, index maps and buffers that only differ beyond a few dozen
        // requests (a sort that is stable only for short inputs, a table sized from a count)
        let large = i % 12 == 5;
        if large { large_systems += 1; }
        let mut sys = match if large { 4 } else { i % 4 } {
            4 => { let k = rng.range(35, 90); gen_planted(&mut rng, k, 1e-2, &SHAPES) }
            0 => gen_planted(&mut rng, 6, 1e-2, &SHAPES),
            1 => gen_linear(&mut rng, 4, 8),
            2 => {
                // collapsed geometry so that degeneracy warnings occur
                let mut s = gen_planted(&mut rng, 5, 0.0, &SHAPES);
                let v = s.scale * rng.sym();
                for g in s.guesses.iter_mut() {
                    if rng.chance(1, 2) {
                        g.1 = v;
                    }
                }
                s
            }
            _ => gen_planted(&mut rng, 4, 0.3, &SHAPES),
        };
        sys = with_priorities(&mut rng, sys);
        if rng.chance(1, 2) {
            sys = with_contradictions(&mut rng, sys);
        }
        if rng.chance(1, 10) {
            let nv = sys.guesses.len() as u32;
            sys.reqs.push(ConstraintRequest::new(Constraint::Fixed(nv + 2, 1.0), *rng.pick(&[0u32, 1, 7])));
        }
        if rng.chance(1, 10) {
            sys.max_iterations = *rng.pick(&[0, 1, 2]);
        }
        systems += 1;
        let mut bad = |what: String, sig: &str, s: &System| {
            out.push(Violation { property: "C07", what, signature: sig.into(), system: Some(s.clone()), extra: String::new() })
        };
        vh::trace_start();
        let res = solve(&sys.reqs, sys.guesses.clone(), sys.config());
        let ev = vh::trace_take();
        match &res {
            Ok(o) => {
                oks += 1;
                if o.final_values().len() != sys.guesses.len() {
                    bad(format!("{} final values for {} guesses", o.final_values().len(), sys.guesses.len()), "final-length", &sys);
                }
                let un = o.unsatisfied();
                if un.windows(2).any(|w| w[0] >= w[1]) {
                    bad(format!("unsatisfied list not strictly increasing: {un:?}"), "unsatisfied-order", &sys);
                }
                for &i in un {
                    if i >= sys.reqs.len() || sys.reqs[i].priority() > o.priority_solved() {
                        bad(format!("unsatisfied index {i} is not an attempted request"), "unsatisfied-index", &sys);
                    }
                }
                if !sys.reqs.is_empty() && !sys.reqs.iter().any(|r| r.priority() == o.priority_solved()) {
                    bad(format!("solved priority {} is not a requested priority", o.priority_solved()), "priority-not-requested", &sys);
                }
                let max_prio = sys.reqs.iter().map(|r| r.priority()).max().unwrap_or(0);
                if o.priority_solved() < max_prio {
                    fallbacks += 1;
                }
                // visited configurations of the returned level: the last SolveInnerStart whose
                // priorities max equals priority_solved
                let mut visited: Vec<Vec<f64>> = Vec::new();
                let mut cur: Vec<Vec<f64>> = Vec::new();
                let mut cur_ok = false;
                for e in &ev {
                    match e {
                        TraceEvent::SolveInnerStart { priorities, .. } => {
                            cur.clear();
                            cur_ok = priorities.iter().copied().max().unwrap_or(0) == o.priority_solved();
                        }
                        TraceEvent::Iter { x, .. } => cur.push(x.clone()),
                        TraceEvent::SolveInnerEnd { .. } => {
                            if cur_ok {
                                visited = cur.clone();
                            }
                        }
                        _ => {}
                    }
                }
                // accessor identities
                if o.is_satisfied() != o.unsatisfied().is_empty() || o.is_unsatisfied() == o.unsatisfied().is_empty() {
                    bad(format!("is_satisfied() = {}, is_unsatisfied() = {} but unsatisfied() = {:?}", o.is_satisfied(), o.is_unsatisfied(), o.unsatisfied()), "accessor-identity", &sys);
                }
                for w in o.warnings() {
                    warns += 1;
                    let Some(i) = w.about_constraint else {
                        bad("warning without a request index".into(), "warning-index", &sys);
                        continue;
                    };
                    if i >= sys.reqs.len() || sys.reqs[i].priority() > o.priority_solved() {
                        bad(format!("warning index {i} is not an attempted request"), "warning-index", &sys);
                        continue;
                    }
                    let c = sys.reqs[i].constraint();
                    match w.content {
                        WarningContent::Degenerate => {
                            degen_warns += 1;
                            let flagged = visited.iter().any(|x| vh::residual(c, x).1 || vh::jacobian_rows(c, x).1);
                            if !flagged {
                                bad(
                                    format!("Degenerate warning names request {i} ({}), whose evaluation never raised the flag at a visited configuration", c.constraint_kind()),
                                    "degenerate-warning-names-wrong-request",
                                    &sys,
                                );
                            }
                        }
                        WarningContent::ShouldBeParallel(_) | WarningContent::ShouldBePerpendicular(_) => {
                            if !matches!(c, Constraint::LinesAtAngle(_, _, AngleKind::Other(_))) {
                                bad(format!("angle lint names request {i}, which is {}", c.constraint_kind()), "lint-names-wrong-request", &sys);
                            } else if let Constraint::LinesAtAngle(_, _, AngleKind::Other(a)) = c {
                                // ... and that request's angle really is a multiple of 90 degrees
                                lint_warns += 1;
                                let (is_deg, v) = ezpz_verif_harness::codec::angle_parts(a);
                                let deg = if is_deg { v } else { v * 180.0 / std::f64::consts::PI };
                                let m = (deg / 90.0).round() * 90.0;
                                if (deg - m).abs() > 0.01 {
                                    bad(format!("angle lint names request {i}, whose angle is {deg} degrees"), "lint-names-wrong-request", &sys);
                                }
                            }
                        }
                    }
                }
                // typed lookups: entities over arbitrary (not consecutive, not ordered) variable ids
                let nvals = o.final_values().len();
                if nvals >= 1 {
                    let fv = o.final_values();
                    for _ in 0..4 {
                        let ids: Vec<u32> = (0..7).map(|_| rng.below(nvals) as u32).collect();
                        let at = |k: usize| fv[ids[k] as usize].to_bits();
                        typed_lookups += 1;
                        if o.final_value_distance(&DatumDistance::new(ids[6])).to_bits() != at(6) {
                            bad(format!("final_value_distance of id {} is not final_values()[{}]", ids[6], ids[6]), "typed-lookup", &sys);
                        }
                        let p = DatumPoint::new_xy(ids[0], ids[1]);
                        let pt = o.final_value_point(&p);
                        if pt.x.to_bits() != at(0) || pt.y.to_bits() != at(1) {
                            bad(format!("final_value_point does not return the values at the point's ids {:?}", &ids[0..2]), "typed-lookup", &sys);
                        }
                        let circ = DatumCircle { center: p, radius: DatumDistance::new(ids[2]) };
                        let cv = o.final_value_circle(&circ);
                        if cv.radius.to_bits() != at(2) || cv.center.x.to_bits() != at(0) || cv.center.y.to_bits() != at(1) {
                            bad(format!("final_value_circle does not return the values at the circle's ids {:?}", &ids[0..3]), "typed-lookup", &sys);
                        }
                        let arc = DatumCircularArc {
                            center: DatumPoint::new_xy(ids[0], ids[1]),
                            start: DatumPoint::new_xy(ids[2], ids[3]),
                            end: DatumPoint::new_xy(ids[4], ids[5]),
                        };
                        match std::panic::catch_unwind(std::panic::AssertUnwindSafe(|| o.final_value_arc(&arc))) {
                            Ok(av) => {
                                let got = [av.center.x, av.center.y, av.a.x, av.a.y, av.b.x, av.b.y];
                                if (0..6).any(|k| got[k].to_bits() != at(k)) {
                                    bad(format!("final_value_arc does not return the values at the arc's ids (center, start, end) {:?}", &ids[0..6]), "typed-lookup", &sys);
                                }
                            }
                            Err(_) => bad(format!("final_value_arc panics for the in-range ids (center, start, end) {:?}", &ids[0..6]), "typed-lookup", &sys),
                        }
                    }
                }
            }
            Err(f) => {
                errs += 1;
                if f.num_vars != sys.guesses.len() {
                    bad(format!("failure reports {} variables, there are {}", f.num_vars, sys.guesses.len()), "failure-sizes", &sys);
                }
                let p0 = sys.reqs.iter().map(|r| r.priority()).min().unwrap_or(0);
                let eqs: usize = sys.reqs.iter().filter(|r| r.priority() <= p0).map(|r| vh::residual_dim(r.constraint())).sum();
                if f.num_eqs != eqs {
                    bad(format!("failure reports {} equations, the attempted subset has {}", f.num_eqs, eqs), "failure-sizes", &sys);
                }
                for w in &f.warnings {
                    if let Some(i) = w.about_constraint {
                        if i >= sys.reqs.len() || sys.reqs[i].priority() > p0 {
                            bad(format!("warning index {i} in a failure is not an attempted request"), "warning-index", &sys);
                        }
                    }
                }
            }
        }
        // values by id: a permuted guess list must give every id the same value as the canonical list
        if sys.guesses.len() >= 2 && i % 3 == 0 {
            permuted += 1;
            let mut g = sys.guesses.clone();
            rng.shuffle(&mut g);
            let dense_in_order = g.iter().enumerate().all(|(k, (id, _))| *id as usize == k);
            if !dense_in_order {
                let perm_res = solve(&sys.reqs, g.clone(), sys.config());
                // known finding F5 predicts exactly ONE behaviour: the ids of the pairs are ignored, i.e.
                // the permuted list behaves like the list [(0, g[0].1), (1, g[1].1), ...].  Only a
                // difference that matches this prediction carries the known signature; anything else
                // (values mis-addressed in another way, success turning into failure) is a new violation.
                let by_position: Vec<(u32, f64)> = g.iter().enumerate().map(|(k, (_, v))| (k as u32, *v)).collect();
                let predicted = solve(&sys.reqs, by_position, sys.config());
                let same_as = |x: &Result<SolveOutcome, FailureOutcome>, y: &Result<SolveOutcome, FailureOutcome>| describe(x) == describe(y);
                let mut s2 = sys.clone();
                s2.guesses = g;
                match (&res, &perm_res) {
                    (Ok(a), Ok(b)) => {
                        // value reported for id v: the caller reads final_values()[v]
                        let same = a.final_values().iter().zip(b.final_values()).all(|(x, y)| x.to_bits() == y.to_bits());
                        if !same {
                            let sig = if same_as(&perm_res, &predicted) { "guess-ids-not-dense-in-order" } else { "guess-ids-mis-addressed-in-a-new-way" };
                            bad("a guess list whose ids are not 0..n in order gives different values per id than the same guesses listed in order".into(), sig, &s2);
                        }
                    }
                    (Ok(_), Err(_)) | (Err(_), Ok(_)) => {
                        let sig = if same_as(&perm_res, &predicted) { "guess-ids-not-dense-in-order" } else { "guess-ids-mis-addressed-in-a-new-way" };
                        bad(format!("listing the same (id, guess) pairs in another order turns {} into {}", describe(&res).chars().take(40).collect::<String>(), describe(&perm_res).chars().take(40).collect::<String>()), sig, &s2);
                    }
                    (Err(_), Err(_)) => {}
                }
            }
        }
    }
    ezpz_verif_harness::oracle::print_signature_counts(&out);
    let mut seen = std::collections::BTreeSet::new();
    for v in &out {
        if seen.insert(v.signature.clone()) {
            println!("VIOLATION {}", v.to_json());
        }
    }
    println!(
        "STATS {{\"systems\": {systems}, \"large_systems\": {large_systems}, \"ok\": {oks}, \"err\": {errs}, \"warnings_checked\": {warns}, \"degenerate_warnings\": {degen_warns}, \"lint_warnings\": {lint_warns}, \"fallback_outcomes\": {fallbacks}, \"permuted_guess_lists\": {permuted}, \"typed_lookup_rounds\": {typed_lookups}, \"violations\": {}}}",
        out.len()
    );
}
