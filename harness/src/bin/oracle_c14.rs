//! C14 oracle on the real code: iterations <= cap; a success under a cap is bit-identical under every
//! larger cap; DidNotConverge under a cap is DidNotConverge under every smaller cap; tightening the
//! convergence tolerance on a planted system started near its solution yields errors <= tolerance.
//! Usage: oracle_c14 <seed> <n-systems>
use ezpz_verif_harness::gen_sys::SHAPES;
use ezpz_verif_harness::oracle::*;
use ezpz_verif_harness::planted::*;
use ezpz_verif_harness::rng::Rng;
use ezpz_verif_harness::trace::err_class;
use kcl_ezpz::verif_hooks as vh;
use kcl_ezpz::*;

const CAPS: [usize; 14] = [0, 1, 2, 3, 4, 5, 6, 8, 10, 15, 35, 36, 100, 200];

fn level_fails_dnc(sys: &System, cap: usize) -> bool {
    let mut levels: Vec<u32> = sys.reqs.iter().map(|r| r.priority()).collect();
    levels.sort();
    levels.dedup();
    if levels.len() < 2 {
        return false;
    }
    for &p in &levels {
        let (sub, _) = subset(&sys.reqs, p);
        let flat: Vec<ConstraintRequest> =
            sub.iter().map(|r| ConstraintRequest::highest_priority(*r.constraint())).collect();
        let mut s = sys.clone();
        s.max_iterations = cap;
        match solve(&flat, sys.guesses.clone(), s.config()) {
            Err(f) if matches!(f.error, NonLinearSystemError::DidNotConverge) => return true,
            Ok(o) if o.is_unsatisfied() => return false,
            Err(_) => return false,
            _ => {}
        }
    }
    false
}

fn main() {
    let args: Vec<String> = std::env::args().collect();
    let seed: u64 = args[1].parse().unwrap();
    let n: usize = args[2].parse().unwrap();
    ezpz_verif_harness::oracle::arm_crash_reporter("C14");
    let mut rng = Rng::new(seed);
    let mut out: Vec<Violation> = Vec::new();
    let (mut systems, mut runs, mut ok_runs, mut dnc_runs, mut tol_checks, mut multi, mut traced_runs) = (0, 0, 0, 0, 0, 0, 0);
    let mut tol_excluded = 0usize;
    for i in 0..n {
        let mut sys = match i % 4 {
            0 => gen_planted(&mut rng, 6, 0.3, &SHAPES),
            1 => gen_planted(&mut rng, 8, 1e-2, &SHAPES),
            2 => {
                let b = gen_linear(&mut rng, 4, 6);
                with_contradictions(&mut rng, b)
            }
            _ => {
                let b = gen_planted(&mut rng, 5, 0.2, &SHAPES);
                with_priorities(&mut rng, b)
            }
        };
        if i % 8 == 7 {
            sys = with_contradictions(&mut rng, sys);
        }
        sys.convergence_tolerance = *rng.pick(&[1e-8, 1e-8, 1e-10, 1e-12, 1e-6, 1e-3]);
        sys.step_tolerance = *rng.pick(&[1e-12, 1e-12, 1e-15, 1e-9]);
        systems += 1;
        ezpz_verif_harness::oracle::note_current(&sys);
        let levels = {
            let mut l: Vec<u32> = sys.reqs.iter().map(|r| r.priority()).collect();
            l.sort();
            l.dedup();
            l.len()
        };
        if levels > 1 {
            multi += 1;
        }
        let results: Vec<Result<SolveOutcome, FailureOutcome>> = CAPS
            .iter()
            .map(|c| {
                let mut s = sys.clone();
                s.max_iterations = *c;
                runs += 1;
                solve(&s.reqs, s.guesses.clone(), s.config())
            })
            .collect();
        for (ci, r) in results.iter().enumerate() {
            match r {
                Ok(o) => {
                    ok_runs += 1;
                    if o.iterations() > CAPS[ci] {
                        out.push(Violation {
                            property: "C14",
                            what: format!("reports {} iterations under cap {}", o.iterations(), CAPS[ci]),
                            signature: "iterations-exceed-cap".into(),
                            system: Some(sys.clone()),
                            extra: String::new(),
                        });
                    }
                    for (cj, r2) in results.iter().enumerate().skip(ci + 1) {
                        let same = match r2 {
                            Ok(o2) => same_outcome_bits(o, o2),
                            Err(_) => false,
                        };
                        if !same {
                            let sig = if level_fails_dnc(&sys, CAPS[ci]) {
                                "multi-level-and-a-level-did-not-converge-at-the-smaller-cap"
                            } else {
                                "success-changes-under-larger-cap"
                            };
                            out.push(Violation {
                                property: "C14",
                                what: format!(
                                    "success under cap {} is not reproduced under cap {}: {} vs {}",
                                    CAPS[ci],
                                    CAPS[cj],
                                    describe(r),
                                    describe(r2)
                                ),
                                signature: sig.into(),
                                system: Some(sys.clone()),
                                extra: String::new(),
                            });
                            break;
                        }
                    }
                }
                Err(f) => {
                    if matches!(f.error, NonLinearSystemError::DidNotConverge) {
                        dnc_runs += 1;
                        for (cj, r2) in results.iter().enumerate().take(ci) {
                            let same = matches!(r2, Err(f2) if matches!(f2.error, NonLinearSystemError::DidNotConverge));
                            if !same {
                                // an Err is only ever returned for the FIRST level (later levels' errors are
                                // swallowed), so this direction holds for any number of levels (theorem
                                // solve_cap_monotone_err) and is never the multi-level finding F11
                                let _ = levels;
                                let sig = "did-not-converge-but-smaller-cap-differs";
                                out.push(Violation {
                                    property: "C14",
                                    what: format!(
                                        "DidNotConverge under cap {} but under the smaller cap {}: {}",
                                        CAPS[ci],
                                        CAPS[cj],
                                        describe(r2)
                                    ),
                                    signature: sig.into(),
                                    system: Some(sys.clone()),
                                    extra: err_class(&f.error),
                                });
                                break;
                            }
                        }
                    }
                }
            }
        }
        // rounds actually run (trace of the real code): no level may run more Newton rounds than the cap
        for cap in [0usize, 1, 2, 3, 4, 6, 10] {
            let mut s = sys.clone();
            s.max_iterations = cap;
            let (_res, events) = ezpz_verif_harness::trace::run_traced(&s, false);
            traced_runs += 1;
            let mut rounds = 0usize;
            let mut worst = 0usize;
            for e in &events {
                match e {
                    vh::TraceEvent::SolveInnerStart { .. } => rounds = 0,
                    vh::TraceEvent::Iter { .. } => {
                        rounds += 1;
                        worst = worst.max(rounds);
                    }
                    _ => {}
                }
            }
            if worst > cap {
                out.push(Violation {
                    property: "C14",
                    what: format!("a level ran {worst} Newton rounds under the iteration cap {cap}: {}", describe(&solve(&s.reqs, s.guesses.clone(), s.config()))),
                    signature: "rounds-exceed-cap".into(),
                    system: Some(s.clone()),
                    extra: String::new(),
                });
            }
        }
        // tolerance honoured: planted, close start, single level, tight tolerance
        // ("a solvable sketch started near its solution": plants inside a kind's documented guard band,
        // where the linearisation is switched off while the error measure is live, are not solvable in
        // that sense - the step is exactly zero there; decided by the independent geometric specification)
        let healthy_plant = sys.planted.as_ref().map(|xs| sys.reqs.iter().all(|r| {
            let inb = vh::nonzeroes(r.constraint()).iter().flatten().all(|id| (*id as usize) < xs.len());
            inb && !ezpz_verif_harness::geom::geom_err(r.constraint(), xs, sys.scale).degenerate && !ezpz_verif_harness::geom::in_guard_band(r.constraint(), xs)
        })).unwrap_or(false);
        if i % 4 == 1 && levels == 1 && healthy_plant {
            let mag = sys.planted.as_ref().map(|xs| xs.iter().fold(0.0f64, |a, v| a.max(v.abs()))).unwrap_or(0.0);
            for tol in [1e-6, 1e-8, 1e-10] {
                // (a tolerance below the rounding noise of the coordinates cannot be met: a sketch at
                // coordinates 1e6 resolves about 1e-10; the clause is about tolerances that make sense)
                // (error measures are built from differences of coordinates - rounding error eps*mag each -
                // multiplied by lengths of the order of the sketch's size)
                if tol < 64.0 * f64::EPSILON * mag.max(1.0) * sys.scale.max(1.0) {
                    continue;
                }
                let mut s = sys.clone();
                s.max_iterations = 200;
                s.convergence_tolerance = tol;
                s.step_tolerance = 0.0;
                let tight = solve(&s.reqs, s.guesses.clone(), s.config());
                match &tight {
                    Ok(o) if o.is_satisfied() => {}
                    other => {
                        // a solvable sketch started near its solution: with 200 rounds and a tolerance the
                        // coordinates can resolve, the tightened solve must still succeed and satisfy
                        // (unless the independent reference iteration cannot do it either)
                        let x0: Vec<f64> = s.guesses.iter().map(|g| g.1).collect();
                        if reference_gauss_newton(&s.reqs, &x0, tol.max(1e-10), 12).is_some() {
                            out.push(Violation {
                                property: "C14",
                                what: format!("tightening the convergence tolerance to {tol} (step test disabled, cap 200) makes a solvable sketch started near its solution fail or stay unsatisfied: {}", describe(other)),
                                signature: "tightened-tolerance-breaks-the-solve".into(),
                                system: Some(s.clone()),
                                extra: String::new(),
                            });
                        } else {
                            tol_excluded += 1;
                        }
                    }
                }
                if let Ok(o) = &tight {
                    tol_checks += 1;
                    if o.is_satisfied() {
                        for r in &s.reqs {
                            let (res, _) = vh::residual(r.constraint(), o.final_values());
                            let dim = vh::residual_dim(r.constraint());
                            for k in 0..dim {
                                if !(res[k].abs() <= tol) {
                                    out.push(Violation {
                                        property: "C14",
                                        what: format!("constraint error {} exceeds the convergence tolerance {} (step test disabled)", res[k], tol),
                                        signature: "tolerance-not-honoured".into(),
                                        system: Some(s.clone()),
                                        extra: String::new(),
                                    });
                                }
                            }
                        }
                    }
                }
            }
        }
    }
    // report at most one violation per signature to keep the output small
    ezpz_verif_harness::oracle::print_signature_counts(&out);
    let mut seen = std::collections::BTreeSet::new();
    for v in &out {
        if seen.insert(v.signature.clone()) || seen.len() < 1 {
            println!("VIOLATION {}", v.to_json());
        }
    }
    println!(
        "STATS {{\"systems\": {systems}, \"caps\": {}, \"runs\": {runs}, \"ok_runs\": {ok_runs}, \"did_not_converge_runs\": {dnc_runs}, \"multi_level_systems\": {multi}, \"tolerance_checks\": {tol_checks}, \"tolerance_cases_the_reference_cannot_solve_either\": {tol_excluded}, \"round_count_runs\": {traced_runs}, \"violations\": {}}}",
        CAPS.len(),
        out.len()
    );
}
