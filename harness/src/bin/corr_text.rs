//! corr-text: problem texts through the real `Problem::from_str` / `to_constraint_system` / solve,
//! written in the Lean driver's `T` format (cases + implementation answers); and the C08 / C09
//! oracles on the real code (constraints a user would build by hand; strictness; no silent drop).
//! Usage: corr_text <seed> <n-valid> <n-mutated> <out-dir>
use ezpz_verif_harness::codec::*;
use ezpz_verif_harness::oracle::{Violation, json_escape};
use ezpz_verif_harness::rng::Rng;
use ezpz_verif_harness::textgen::*;
use kcl_ezpz::textual::Problem;
use kcl_ezpz::{Config, TextualError};
use std::io::Write;
use std::panic::{AssertUnwindSafe, catch_unwind};
use std::str::FromStr;

fn hex(s: &str) -> String {
    s.bytes().map(|b| format!("{b:02x}")).collect()
}

fn fbits(v: f64) -> String {
    if v.is_nan() { "nan".into() } else { v.to_bits().to_string() }
}

/// `#<bits>` tokens with NaN normalised.
fn norm_dump(lines: &[String]) -> String {
    lines
        .iter()
        .map(|l| {
            l.split(' ')
                .map(|t| {
                    if let Some(b) = t.strip_prefix('#') {
                        let v = f64::from_bits(b.parse::<u64>().unwrap());
                        if v.is_nan() { "#nan".to_string() } else { t.to_string() }
                    } else {
                        t.to_string()
                    }
                })
                .collect::<Vec<_>>()
                .join(" ")
        })
        .collect::<Vec<_>>()
        .join("|")
}

fn enc_c(c: &kcl_ezpz::Constraint) -> String {
    // NaN-normalised constraint encoding
    enc_constraint(c)
        .split(' ')
        .map(|t| match t.parse::<u64>() {
            Ok(b) if b > (1u64 << 40) && f64::from_bits(b).is_nan() => "nan".to_string(),
            _ => t.to_string(),
        })
        .collect::<Vec<_>>()
        .join(" ")
}

struct Run {
    line: String,
    finals: Option<Vec<f64>>,
    parsed: bool,
    built: bool,
    n_constraints: usize,
    n_constraint_instrs: usize,
    build_err: Option<String>,
    constraints: Vec<String>,
    guesses: Vec<f64>,
    labelled: String,
    panicked: bool,
}

fn run_text(text: &str) -> Run {
    let mut r = Run { line: String::new(), finals: None, parsed: false, built: false, n_constraints: 0, n_constraint_instrs: 0, build_err: None, constraints: vec![], guesses: vec![], labelled: String::new(), panicked: false };
    let parsed = catch_unwind(AssertUnwindSafe(|| Problem::from_str(text)));
    let problem = match parsed {
        Err(_) => {
            r.line = "PARSE panic".into();
            r.panicked = true;
            return r;
        }
        Ok(Err(_)) => {
            r.line = "PARSE err".into();
            return r;
        }
        Ok(Ok(p)) => p,
    };
    r.parsed = true;
    let dump = problem.verif_dump();
    r.n_constraint_instrs = dump
        .iter()
        .filter(|l| {
            let k = l.split(' ').next().unwrap_or("");
            !matches!(k, "DeclarePoint" | "DeclareCircle" | "DeclareArc" | "Line" | "InnerPoint" | "InnerCircle" | "InnerArc" | "InnerLine" | "PointGuess" | "ScalarGuess")
        })
        .count();
    let mut line = format!("PARSE ok {}", norm_dump(&dump));
    let built = catch_unwind(AssertUnwindSafe(|| problem.to_constraint_system().map(|cs| {
        let cons: Vec<String> = cs.constraints.iter().map(|c| enc_c(c.constraint())).collect();
        let g = cs.verif_initial_guesses();
        // labelled outcome through the front-end's own solve
        let finals = cs.solve_no_metadata(Config::default()).ok().map(|o| o.final_values().to_vec());
        let labelled = cs.solve_with_config(Config::default()).ok().map(|o| {
            let mut parts: Vec<String> = Vec::new();
            for (l, p) in &o.points {
                parts.push(format!("P {} {} {}", l, fbits(p.x), fbits(p.y)));
            }
            for (l, c) in &o.circles {
                parts.push(format!("C {} {} {} {}", l, fbits(c.center.x), fbits(c.center.y), fbits(c.radius)));
            }
            for (l, a) in &o.arcs {
                parts.push(format!("A {} {} {} {} {} {} {}", l, fbits(a.center.x), fbits(a.center.y), fbits(a.a.x), fbits(a.a.y), fbits(a.b.x), fbits(a.b.y)));
            }
            parts.join(";")
        });
        (cons, g, finals, labelled)
    })));
    match built {
        Err(_) => {
            line.push_str(" BUILD panic");
            r.panicked = true;
        }
        Ok(Err(e)) => {
            let cls = match &e {
                TextualError::MissingGuess { label } => format!("MissingGuess:{label}"),
                TextualError::UndefinedPoint { label } => format!("UndefinedPoint:{label}"),
                TextualError::UnusedGuesses { labels } => {
                    let mut l = labels.clone();
                    l.sort();
                    format!("UnusedGuesses:{}", l.join(","))
                }
            };
            line.push_str(&format!(" BUILD err {cls}"));
            r.build_err = Some(cls);
        }
        Ok(Ok((cons, g, finals, labelled))) => {
            r.built = true;
            r.n_constraints = cons.len();
            line.push_str(&format!(
                " BUILD ok C {} G {} {}",
                cons.join(";"),
                g.len(),
                g.iter().map(|(id, v)| format!("{} {}", id, fbits(*v))).collect::<Vec<_>>().join(" ")
            ));
            r.constraints = cons;
            r.guesses = g.iter().map(|(_, v)| *v).collect();
            if let (Some(f), Some(l)) = (&finals, &labelled) {
                line.push_str(&format!(" LABEL {l}"));
                r.finals = Some(f.clone());
                r.labelled = l.clone();
            }
        }
    }
    r.line = line;
    r
}

fn main() {
    let args: Vec<String> = std::env::args().collect();
    let seed: u64 = args[1].parse().unwrap();
    let n_valid: usize = args[2].parse().unwrap();
    let n_mut: usize = args[3].parse().unwrap();
    let out_dir = &args[4];
    std::panic::set_hook(Box::new(|_| {}));
    let mut rng = Rng::new(seed);
    let f = |name: &str| std::io::BufWriter::new(std::fs::File::create(format!("{out_dir}/{name}")).unwrap());
    let (mut cases, mut imp, mut meta) = (f("text.cases"), f("text.impl"), f("text.meta"));
    let mut out: Vec<Violation> = Vec::new();
    let mut forms = std::collections::BTreeMap::new();
    let (mut accepted_mut, mut rejected_mut, mut mixed) = (0usize, 0usize, 0usize);
    let emit = |text: &str, kind: &str, r: &Run, cases: &mut dyn Write, imp: &mut dyn Write, meta: &mut dyn Write| {
        let mut c = format!("T {}", hex(text));
        if let Some(fv) = &r.finals {
            c.push_str(&format!(" F {} {}", fv.len(), fv.iter().map(|v| fbits(*v)).collect::<Vec<_>>().join(" ")));
        }
        writeln!(cases, "{c}").unwrap();
        writeln!(imp, "{}", r.line).unwrap();
        writeln!(meta, "{kind} {}", text.len()).unwrap();
    };
    // ---- valid stream: correspondence + C08 oracle
    for _ in 0..n_valid {
        let gp = gen_valid(&mut rng);
        let text = text_of(&gp, &mut rng);
        for (gi, _) in &gp.instrs {
            let name = format!("{gi:?}");
            *forms.entry(name.split('(').next().unwrap().to_string()).or_insert(0usize) += 1;
        }
        if !gp.circles.is_empty() && !gp.arcs.is_empty() {
            mixed += 1;
        }
        let r = run_text(&text);
        emit(&text, "valid", &r, &mut cases, &mut imp, &mut meta);
        let mut bad = |prop: &'static str, what: String, sig: &str| {
            out.push(Violation { property: prop, what, signature: sig.into(), system: None, extra: text.clone() })
        };
        if r.panicked {
            bad("C09", "panic on a valid text".into(), "panic");
            continue;
        }
        if !r.parsed || !r.built {
            bad("C08", format!("a well-formed text was rejected: {}", r.line.chars().take(200).collect::<String>()), "valid-text-rejected");
            continue;
        }
        let expect: Vec<String> = expected_constraints(&gp).iter().map(enc_c).collect();
        if expect != r.constraints {
            let first = expect.iter().zip(r.constraints.iter()).position(|(a, b)| a != b).unwrap_or(expect.len().min(r.constraints.len()));
            bad(
                "C08",
                format!(
                    "constraint #{first} differs from the one a user would build by hand: expected `{}`, built `{}` ({} vs {} constraints)",
                    expect.get(first).cloned().unwrap_or_default(),
                    r.constraints.get(first).cloned().unwrap_or_default(),
                    expect.len(),
                    r.constraints.len()
                ),
                "constraints-differ",
            );
        }
        if r.guesses.iter().map(|v| v.to_bits()).collect::<Vec<_>>() != gp.guess_values.iter().map(|v| v.to_bits()).collect::<Vec<_>>() {
            bad("C08", "initial guesses differ from the ones the text gives for the labelled entities".into(), "guesses-differ");
        }
        if r.n_constraints != r.n_constraint_instrs {
            bad("C09", format!("{} constraint instructions produced {} constraints", r.n_constraint_instrs, r.n_constraints), "silent-drop");
        }
        // labelled outcome = final values of exactly those entities
        if let Some(fv) = &r.finals {
            let mut parts: Vec<String> = Vec::new();
            let p2 = 2 * gp.points.len();
            let c3 = 3 * gp.circles.len();
            for (i, l) in gp.points.iter().enumerate() {
                parts.push(format!("P {} {} {}", l, fbits(fv[2 * i]), fbits(fv[2 * i + 1])));
            }
            for (j, l) in gp.circles.iter().enumerate() {
                parts.push(format!("C {} {} {} {}", l, fbits(fv[p2 + 3 * j]), fbits(fv[p2 + 3 * j + 1]), fbits(fv[p2 + 3 * j + 2])));
            }
            for (k, l) in gp.arcs.iter().enumerate() {
                let b = p2 + c3 + 6 * k;
                parts.push(format!("A {} {} {} {} {} {} {}", l, fbits(fv[b + 4]), fbits(fv[b + 5]), fbits(fv[b]), fbits(fv[b + 1]), fbits(fv[b + 2]), fbits(fv[b + 3])));
            }
            if parts.join(";") != r.labelled {
                bad("C08", "labelled outcome is not the final values of the labelled entities".into(), "labels-differ");
            }
        }
    }
    // ---- mutation stream: correspondence + C09 oracle
    let mut kinds = std::collections::BTreeMap::new();
    for _ in 0..n_mut {
        let gp = gen_valid(&mut rng);
        let (text, kind) = mutate(&mut rng, &gp);
        *kinds.entry(kind).or_insert(0usize) += 1;
        let r = run_text(&text);
        emit(&text, kind, &r, &mut cases, &mut imp, &mut meta);
        let mut bad = |what: String, sig: &str| {
            out.push(Violation { property: "C09", what, signature: sig.into(), system: None, extra: text.clone() })
        };
        if r.panicked {
            bad(format!("panic on a `{kind}` text"), "panic");
            continue;
        }
        if r.built {
            accepted_mut += 1;
            if r.n_constraints != r.n_constraint_instrs {
                bad(format!("accepted text: {} constraint instructions produced {} constraints (something the user wrote was silently ignored)", r.n_constraint_instrs, r.n_constraints), "silent-drop");
            }
            match kind {
                "extra-guess" => bad("a guess for an undeclared entity was accepted".into(), "extra-guess-accepted"),
                "missing-guess" => bad("a text that omits the guess of a declared entity was accepted".into(), "missing-guess-accepted"),
                "undeclared-reference" => bad("a reference to an undeclared label was accepted".into(), "undeclared-reference-accepted"),
                _ => {}
            }
        } else {
            rejected_mut += 1;
        }
    }
    let mut seen = std::collections::BTreeSet::new();
    for v in &out {
        if seen.insert((v.property, v.signature.clone())) {
            println!("VIOLATION {{\"property\": \"{}\", \"kind\": \"impl-violates-oracle\", \"what\": \"{}\", \"signature\": \"{}\", \"input\": {{\"text\": \"{}\"}}}}", v.property, json_escape(&v.what), v.signature, json_escape(&v.extra));
        }
    }
    println!(
        "STATS {{\"systems\": {}, \"valid_texts\": {n_valid}, \"mutated_texts\": {n_mut}, \"texts_with_circle_and_arc\": {mixed}, \"mutants_accepted\": {accepted_mut}, \"mutants_rejected\": {rejected_mut}, \"instruction_forms\": {:?}, \"mutation_kinds\": {:?}, \"violations\": {}}}",
        n_valid + n_mut,
        forms,
        kinds,
        out.len()
    );
}
