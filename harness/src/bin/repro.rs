//! Reproductions of the findings against the real crate (DESIGN.md §7).
//!   repro                → prints what each historical finding F1..F14 does on the current tree
//!   repro finding <id>   → REPRODUCED / NOT-REPRODUCED for one listed known finding
use kcl_ezpz::datatypes::inputs::*;
use kcl_ezpz::datatypes::{Angle, AngleKind};
use kcl_ezpz::textual::Problem;
use kcl_ezpz::verif_hooks as vh;
use kcl_ezpz::*;
use std::str::FromStr;

fn pt(i: u32) -> DatumPoint {
    DatumPoint::new_xy(2 * i, 2 * i + 1)
}
fn hp(c: Constraint) -> ConstraintRequest {
    ConstraintRequest::highest_priority(c)
}
fn guesses(v: &[f64]) -> Vec<(u32, f64)> {
    v.iter().enumerate().map(|(i, x)| (i as u32, *x)).collect()
}

fn fd(c: &Constraint, x: &[f64], row: usize, var: usize) -> f64 {
    let h = 1e-6;
    let mut xp = x.to_vec();
    xp[var] += h;
    let mut xm = x.to_vec();
    xm[var] -= h;
    (vh::residual(c, &xp).0[row] - vh::residual(c, &xm).0[row]) / (2.0 * h)
}

fn jac_entry(c: &Constraint, x: &[f64], row: usize, var: usize) -> f64 {
    vh::jacobian_rows(c, x).0[row]
        .iter()
        .filter(|(id, _)| *id as usize == var)
        .map(|(_, pd)| *pd)
        .sum()
}

/// F5: the id in each guess pair is ignored.
fn f5() -> bool {
    let r = solve(&[hp(Constraint::Fixed(0, 7.0))], vec![(1, 100.0), (0, 5.0)], Config::default());
    matches!(r, Ok(o) if o.final_values() == [7.0, 5.0])
}

fn circles() -> (DatumCircle, DatumCircle) {
    (
        DatumCircle { center: pt(0), radius: DatumDistance::new(4) },
        DatumCircle { center: DatumPoint::new_xy(2, 3), radius: DatumDistance::new(5) },
    )
}

/// F10: an analysis error at a non-first priority level changes which level is returned.
/// (Until the fix for F22 the shortest instance was a pair of concentric tangent circles, whose NaN
/// derivatives made the SVD fail; this one - a collapsed guess, five levels - makes faer's SVD fail to
/// converge at a later level: `solve` returns level 12, `solve_analysis` an earlier one.)
fn f10() -> bool {
    let reqs: Vec<ConstraintRequest> = [
        "20 PointArcCoincident 10 11 6 7 8 9 12 13",
        "4 VerticalPointLineDistance 0 1 0 1 4 5 0",
        "6 PointLineDistance 0 1 0 1 4 5 0",
        "14 LinesAtAngleDeg 14 15 12 13 10 11 16 17 13870825754706922195",
        "12 LinesAtAngleParallel 0 1 12 13 2 3 14 15",
    ]
    .iter()
    .filter_map(|r| {
        let (p, c) = r.split_once(' ')?;
        Some(ConstraintRequest::new(ezpz_verif_harness::codec::dec_constraint(c)?, p.parse().ok()?))
    })
    .collect();
    let bits: [u64; 18] = [
        4596371962284654208, 4596371962284654208, 4601779162305024139, 13830560512475089743, 4596371962284654208, 4596371962284654208,
        4600400251505121730, 4596371962284654208, 4605963336954590201, 4596371962284654208, 4596371962284654208, 4605180948532430960,
        4596371962284654208, 4596371962284654208, 13828522267008431538, 4596371962284654208, 4606204270617091733, 13828145726428611133,
    ];
    let g: Vec<(u32, f64)> = bits.iter().enumerate().map(|(i, b)| (i as u32, f64::from_bits(*b))).collect();
    if reqs.len() != 5 { return false; }
    let a = solve(&reqs, g.clone(), Config::default());
    let b = solve_analysis(&reqs, g, Config::default());
    match (a, b) {
        (Ok(a), Ok(b)) => b.outcome.priority_solved() < a.priority_solved(),
        _ => false,
    }
}

/// F11: a lower level that runs out of iterations under a small cap makes `solve` return the
/// previous level as a success; a larger cap lets it converge and changes the answer.
fn f11() -> bool {
    let reqs = [
        ConstraintRequest::new(Constraint::Fixed(0, 0.0), 0),
        ConstraintRequest::new(Constraint::Fixed(1, 0.0), 0),
        ConstraintRequest::new(Constraint::Distance(pt(0), pt(1), 5.0), 1),
        ConstraintRequest::new(Constraint::Arc(DatumCircularArc { center: pt(0), start: pt(1), end: pt(2) }), 1),
        ConstraintRequest::new(Constraint::Distance(pt(1), pt(2), 3.0), 1),
    ];
    let g = guesses(&[0.1, -0.2, 0.3, 0.2, -4.0, 9.0]);
    let run = |cap: usize| solve(&reqs, g.clone(), Config::default().with_max_iterations(cap));
    let mut small_p0 = None;
    for cap in 1..40 {
        match run(cap) {
            Ok(o) if o.priority_solved() == 0 => small_p0 = Some(cap),
            Ok(o) if o.priority_solved() == 1 => return small_p0.is_some(),
            _ => {}
        }
    }
    false
}

/// F12: a special-angle request outside the returned subset gets no lint warning.
fn f12() -> bool {
    let l0 = DatumLineSegment::new(pt(0), pt(1));
    let l1 = DatumLineSegment::new(pt(2), pt(3));
    let reqs = [
        ConstraintRequest::new(Constraint::Fixed(0, 1.0), 0),
        ConstraintRequest::new(Constraint::Fixed(0, 2.0), 0),
        ConstraintRequest::new(
            Constraint::LinesAtAngle(l0, l1, AngleKind::Other(Angle::from_degrees(90.0))),
            1,
        ),
    ];
    let r = solve(&reqs, guesses(&[0.0, 0.0, 1.0, 0.0, 0.0, 0.0, 0.0, 1.0]), Config::default());
    matches!(r, Ok(o) if o.warnings().is_empty() && o.unsatisfied() == [0, 1])
}

/// F14: point-on-arc reported satisfied for a point on the circle but outside the arc's sweep.
fn f14() -> bool {
    let arc = DatumCircularArc { center: pt(0), start: pt(1), end: pt(2) };
    let reqs = [hp(Constraint::PointArcCoincident(arc, pt(3)))];
    let r = solve(&reqs, guesses(&[0.0, 0.0, 1.0, 0.0, 0.0, 1.0, -1.0, 0.0]), Config::default());
    matches!(r, Ok(o) if o.unsatisfied().is_empty() && o.final_values()[6] == -1.0)
}

/// F15: an under-determined planted system lands farther from the guess than 1.5 x the distance
/// from the guess to the planted solution (here 2.4 x).
fn f15() -> bool {
    use ezpz_verif_harness::codec::dec_constraint;
    let reqs: Vec<ConstraintRequest> = [
        "Fixed 4 13849210317387347082",
        "Fixed 2 13857077051297942531",
        "Fixed 0 4627419486248578802",
        "Fixed 2 13857077051297942531",
        "PointLineDistance 0 1 4 5 2 3 4394577420534801298",
        "Midpoint 0 1 2 3 4 5",
    ]
    .iter()
    .map(|s| hp(dec_constraint(s).unwrap()))
    .collect();
    let g: Vec<f64> = [4627626384844681234u64, 4625777024798074250, 13856955095764575906, 13859887328329715780, 13849474766912888617, 13854144296573934991]
        .iter()
        .map(|b| f64::from_bits(*b))
        .collect();
    let r = solve(&reqs, guesses(&g), Config::default());
    match r {
        Ok(o) => {
            let d: f64 = o.final_values().iter().zip(&g).map(|(a, b)| (a - b) * (a - b)).sum::<f64>().sqrt();
            o.is_satisfied() && d > 3.0
        }
        Err(_) => false,
    }
}

/// F16: an inconsistent, rank-deficient linear system converges (step test) in one request order
/// and drifts forever (constant 1.4e-8 step along the null space) in the reversed order.
fn f16() -> bool {
    use ezpz_verif_harness::codec::dec_constraint;
    let reqs: Vec<ConstraintRequest> = [
        "Midpoint 2 3 0 1 2 3",
        "VerticalDistance 0 1 0 1 4615908143078047744",
        "HorizontalDistance 0 1 2 3 13840124604862955520",
        "HorizontalDistance 2 3 2 3 4616330355543113728",
        "ScalarEqual 1 0",
    ]
    .iter()
    .map(|s| hp(dec_constraint(s).unwrap()))
    .collect();
    let g = guesses(&[0.875, -3.625, 1.125, 3.5]);
    let fwd = solve(&reqs, g.clone(), Config::default());
    let rev: Vec<ConstraintRequest> = reqs.iter().rev().copied().collect();
    let bwd = solve(&rev, g, Config::default().with_max_iterations(200));
    fwd.is_ok() && matches!(bwd, Err(e) if matches!(e.error, NonLinearSystemError::DidNotConverge))
}

/// F17: a contradictory pair (its own variable) next to an independent perpendicularity request whose
/// guess is collapsed (a singular solution, reached slowly): each part solves alone, the union ends
/// in DidNotConverge.
fn f17() -> bool {
    let l0 = DatumLineSegment::new(pt(0), pt(1));
    let l1 = DatumLineSegment::new(pt(1), pt(2));
    let slow = vec![hp(Constraint::LinesAtAngle(l0, l1, kcl_ezpz::datatypes::AngleKind::Perpendicular))];
    let v = -0.03419615574031722;
    let gs = guesses(&[v, v, 0.04409868173165875, -0.02522146741854152, v, v, 0.0]);
    let contra = vec![hp(Constraint::Fixed(6, 0.0)), hp(Constraint::Fixed(6, 6.0))];
    let a = solve(&slow, gs.clone(), Config::default());
    let b = solve(&contra, gs.clone(), Config::default());
    let mut all = slow.clone();
    all.extend(contra.clone());
    let u = solve(&all, gs, Config::default());
    a.is_ok() && b.is_ok() && matches!(u, Err(e) if matches!(e.error, NonLinearSystemError::DidNotConverge))
}

/// F23: the recorded union (findings/F23-*.json): the whole list fails, a variable-connected part of
/// it fails on its own as well, and the list without the requests of the failing parts solves.
/// F18: `solve_analysis` fails in faer's SVD (`NoConvergence`) at the second level for ONE ordering of
/// the requests, the priority loop swallows that error (F10), and the solved priority differs from
/// the one every other ordering - and the plain `solve` of the same ordering - reports.
fn f18() -> bool {
    let reqs_txt = ["5 LinesAtAngleParallel 0 1 2 3 4 5 6 7", "4000000000 Fixed 3 4604438689310016836", "5 Fixed 7 4620813831573435678", "5 Fixed 6 13837744307058345975"];
    let bits: [u64; 8] = [13842346537742296317, 4620712671000142884, 13838968102328983573, 4603727228969395261, 13828653649527055823, 4612277843892759195, 13837715805750633827, 4620784345432367444];
    let reqs: Vec<ConstraintRequest> = reqs_txt
        .iter()
        .filter_map(|r| {
            let (p, c) = r.split_once(' ')?;
            Some(ConstraintRequest::new(ezpz_verif_harness::codec::dec_constraint(c)?, p.parse().ok()?))
        })
        .collect();
    if reqs.len() != 4 {
        return false;
    }
    let gs: Vec<(u32, f64)> = bits.iter().enumerate().map(|(i, b)| (i as u32, f64::from_bits(*b))).collect();
    let cfg = || Config::default();
    let Ok(base) = solve_analysis(&reqs, gs.clone(), cfg()) else { return false };
    let perm: Vec<ConstraintRequest> = [3usize, 1, 2, 0].iter().map(|k| reqs[*k]).collect();
    let Ok(other) = solve_analysis(&perm, gs.clone(), cfg()) else { return false };
    let Ok(plain) = solve(&perm, gs, cfg()) else { return false };
    println!("  listed order: solved priority {}; order [3,1,2,0]: solved priority {} with analysis, {} without", base.outcome.priority_solved(), other.outcome.priority_solved(), plain.priority_solved());
    base.outcome.priority_solved() != other.outcome.priority_solved() && plain.priority_solved() == base.outcome.priority_solved()
}

fn f23() -> bool {
    let path = concat!(env!("CARGO_MANIFEST_DIR"), "/../findings/F23-a-part-of-a-group-fails-alone.json");
    let Ok(text) = std::fs::read_to_string(path) else { return false };
    let grab = |key: &str| -> Vec<String> {
        let Some(i) = text.find(&format!("\"{key}\": [")) else { return vec![] };
        let rest = &text[i..];
        let end = rest.find(']').unwrap_or(rest.len());
        rest[..end].split('"').enumerate().filter(|(k, _)| k % 2 == 1).map(|(_, s)| s.to_string()).skip(1).collect()
    };
    let reqs: Vec<ConstraintRequest> = grab("requests")
        .iter()
        .filter_map(|r| {
            let (p, c) = r.split_once(' ')?;
            Some(ConstraintRequest::new(ezpz_verif_harness::codec::dec_constraint(c)?, p.parse().ok()?))
        })
        .collect();
    let mut gs: Vec<(u32, f64)> = Vec::new();
    if let Some(i) = text.find("\"guesses\": [") {
        let rest = &text[i + 12..];
        let toks: Vec<&str> = rest.split(|c: char| c == '[' || c == ']' || c == ',' || c.is_whitespace()).filter(|t| !t.is_empty()).collect();
        let mut k = 0;
        while k + 2 < toks.len() {
            let (Ok(id), Some(bits)) = (toks[k].parse::<u32>(), toks[k + 1].trim_matches('"').parse::<u64>().ok()) else { break };
            gs.push((id, f64::from_bits(bits)));
            k += 3;
        }
    }
    if reqs.is_empty() || gs.is_empty() { return false; }
    let n = gs.len();
    let whole_fails = solve(&reqs, gs.clone(), Config::default()).is_err();
    let mut parent: Vec<usize> = (0..n).collect();
    fn find(p: &mut Vec<usize>, i: usize) -> usize { if p[i] != i { let r = find(p, p[i]); p[i] = r; } p[i] }
    for r in &reqs {
        let ids: Vec<usize> = kcl_ezpz::verif_hooks::nonzeroes(r.constraint()).iter().flatten().map(|i| *i as usize).filter(|i| *i < n).collect();
        for w in ids.windows(2) { let (a, b) = (find(&mut parent, w[0]), find(&mut parent, w[1])); parent[a] = b; }
    }
    let root_of = |r: &ConstraintRequest, parent: &mut Vec<usize>| -> Option<usize> {
        kcl_ezpz::verif_hooks::nonzeroes(r.constraint()).iter().flatten().map(|i| *i as usize).find(|i| *i < n).map(|i| find(parent, i))
    };
    let mut roots: Vec<usize> = reqs.iter().filter_map(|r| root_of(r, &mut parent)).collect();
    roots.sort(); roots.dedup();
    let mut failing_roots = Vec::new();
    for root in &roots {
        let part: Vec<ConstraintRequest> = reqs.iter().filter(|r| root_of(r, &mut parent) == Some(*root)).copied().collect();
        if solve(&part, gs.clone(), Config::default()).is_err() { failing_roots.push(*root); }
    }
    let rest: Vec<ConstraintRequest> = reqs.iter().filter(|r| !failing_roots.contains(&root_of(r, &mut parent).unwrap_or(usize::MAX))).copied().collect();
    let rest_ok = solve(&rest, gs.clone(), Config::default()).is_ok();
    whole_fails && !failing_roots.is_empty() && rest_ok
}

fn main() {
    let args: Vec<String> = std::env::args().collect();
    std::panic::set_hook(Box::new(|_| {}));
    if args.len() >= 3 && args[1] == "replay" {
        // repro replay <replay.json>: re-run the recorded failing system on the real code and print
        // what happens round by round (largest error, step norm) and the outcome
        let text = std::fs::read_to_string(&args[2]).expect("cannot read the replay file");
        let grab = |key: &str| -> Vec<String> {
            // minimal JSON digging: the array of strings after "key": [
            let Some(i) = text.find(&format!("\"{key}\": [")) else { return vec![] };
            let rest = &text[i..];
            let end = rest.find(']').unwrap_or(rest.len());
            rest[..end].split('"').enumerate().filter(|(k, _)| k % 2 == 1).map(|(_, s)| s.to_string()).skip(1).collect()
        };
        let reqs: Vec<ConstraintRequest> = grab("requests")
            .iter()
            .filter_map(|r| {
                let (p, c) = r.split_once(' ')?;
                Some(ConstraintRequest::new(ezpz_verif_harness::codec::dec_constraint(c)?, p.parse().ok()?))
            })
            .collect();
        // guesses: [[id, "bits", value], ...]
        let mut guesses: Vec<(u32, f64)> = Vec::new();
        if let Some(i) = text.find("\"guesses\": [") {
            let rest = &text[i + 12..];
            let toks: Vec<&str> = rest.split(|c: char| c == '[' || c == ']' || c == ',' || c.is_whitespace()).filter(|t| !t.is_empty()).collect();
            let mut k = 0;
            while k + 2 < toks.len() {
                let (Ok(id), Some(bits)) = (toks[k].parse::<u32>(), toks[k + 1].trim_matches('"').parse::<u64>().ok()) else { break };
                guesses.push((id, f64::from_bits(bits)));
                k += 3;
            }
        }
        println!("{} requests, {} guesses", reqs.len(), guesses.len());
        kcl_ezpz::verif_hooks::trace_start();
        let r = solve(&reqs, guesses.clone(), Config::default());
        for e in kcl_ezpz::verif_hooks::trace_take() {
            match e {
                kcl_ezpz::verif_hooks::TraceEvent::Iter { iteration, r, x, .. } => {
                    println!("  round {iteration}: largest error {:.3e}", r.iter().fold(0.0f64, |a, v| a.max(v.abs())));
                    // which requests have a non-finite error or derivative at this configuration
                    for (idx, q) in reqs.iter().enumerate() {
                        let inb = kcl_ezpz::verif_hooks::nonzeroes(q.constraint()).iter().flatten().all(|i| (*i as usize) < x.len());
                        if !inb { continue; }
                        let (res, _) = kcl_ezpz::verif_hooks::residual(q.constraint(), &x);
                        let (rows, _) = kcl_ezpz::verif_hooks::jacobian_rows(q.constraint(), &x);
                        if res.iter().any(|v| !v.is_finite()) || rows.iter().flatten().any(|e| !e.1.is_finite()) {
                            println!("           request {idx} ({}) is not finite here: error {:?}, derivatives {:?}", q.constraint().constraint_kind(), res, rows);
                        }
                    }
                }
                kcl_ezpz::verif_hooks::TraceEvent::Step { d, .. } => {
                    let nf: Vec<usize> = d.iter().enumerate().filter(|(_, v)| !v.is_finite()).map(|(i, _)| i).collect();
                    if nf.is_empty() {
                        println!("           step norm {:.3e}", d.iter().fold(0.0f64, |a, v| a.max(v.abs())));
                    } else {
                        println!("           step has non-finite components for variables {:?}", nf);
                    }
                }
                _ => {}
            }
        }
        match r {
            Ok(o) => println!("Ok: iterations {} unsatisfied {:?} priority {} warnings {}", o.iterations(), o.unsatisfied(), o.priority_solved(), o.warnings().len()),
            Err(f) => println!("Err: {:?} (vars {}, eqs {}, warnings {})", f.error, f.num_vars, f.num_eqs, f.warnings.len()),
        }
        // non-finite entries of the Jacobian at the returned configuration (what the freedom analysis reads)
        if let Ok(o) = &solve(&reqs, guesses.clone(), Config::default()) {
            for (idx, r) in reqs.iter().enumerate() {
                let (rows, deg) = kcl_ezpz::verif_hooks::jacobian_rows(r.constraint(), o.final_values());
                if rows.iter().flatten().any(|e| !e.1.is_finite()) {
                    println!("  request {idx} ({}) has non-finite partial derivatives at the returned values (degenerate flag {deg})", r.constraint().constraint_kind());
                }
            }
            match solve_analysis(&reqs, guesses.clone(), Config::default()) {
                Ok(a) => println!("  solve_analysis: Ok, under-constrained {:?}", a.analysis.underconstrained()),
                Err(f) => println!("  solve_analysis: Err {:?}", f.error),
            }
        }
        // the variable-disjoint parts of the system, each solved on its own
        let n = guesses.len();
        let mut parent: Vec<usize> = (0..n).collect();
        fn find(p: &mut Vec<usize>, i: usize) -> usize { if p[i] != i { let r = find(p, p[i]); p[i] = r; } p[i] }
        for r in &reqs {
            let ids: Vec<usize> = kcl_ezpz::verif_hooks::nonzeroes(r.constraint()).iter().flatten().map(|i| *i as usize).filter(|i| *i < n).collect();
            for w in ids.windows(2) { let (a, b) = (find(&mut parent, w[0]), find(&mut parent, w[1])); parent[a] = b; }
        }
        let mut roots: Vec<usize> = (0..n).map(|i| find(&mut parent, i)).collect();
        roots.sort(); roots.dedup();
        if roots.len() > 1 && roots.len() <= 400 {
            for root in roots {
                let part: Vec<ConstraintRequest> = reqs.iter().filter(|r| kcl_ezpz::verif_hooks::nonzeroes(r.constraint()).iter().flatten().any(|i| (*i as usize) < n && find(&mut parent, *i as usize) == root)).copied().collect();
                if part.is_empty() { continue; }
                match solve(&part, guesses.clone(), Config::default()) {
                    Ok(o) => println!("  part rooted at variable {root} ({} requests) alone: Ok, iterations {}, unsatisfied {:?}", part.len(), o.iterations(), o.unsatisfied()),
                    Err(f) => println!("  part rooted at variable {root} ({} requests) alone: Err {:?}", part.len(), f.error),
                }
            }
        }
        return;
    }
    if args.len() >= 3 && args[1] == "finding" {
        let r = match args[2].as_str() {
            "F5-guess-ids-ignored" => f5(),
            "F10-analysis-error-changes-level" => f10(),
            "F11-cap-not-monotone-across-levels" => f11(),
            "F12-no-lint-outside-returned-subset" => f12(),
            "F14-point-on-arc-outside-sweep" => f14(),
            "F15-underdetermined-lands-farther-than-1.5x" => f15(),
            "F16-null-space-drift-on-inconsistent-rank-deficient" => f16(),
            "F17-union-exhausts-iterations-beside-an-inconsistent-part" => f17(),
            "F18-svd-no-convergence-depends-on-ordering" => f18(),
            "F23-a-part-of-a-group-fails-alone" => f23(),
            other => {
                println!("UNKNOWN-FINDING {other}");
                std::process::exit(2);
            }
        };
        println!("{}", if r { "REPRODUCED" } else { "NOT-REPRODUCED" });
        return;
    }
    // F1
    let c = Constraint::VerticalPointLineDistance(pt(0), DatumLineSegment::new(pt(1), pt(2)), 2.5);
    let x = [1.0, 5.0, 0.0, 0.5, 4.0, 1.5];
    for var in 0..6 {
        println!("F1 var{var} fd={:.6} jac={:.6}", fd(&c, &x, 0, var), jac_entry(&c, &x, 0, var));
    }
    // F2
    let arc = DatumCircularArc { center: pt(0), start: pt(1), end: pt(2) };
    let c = Constraint::PointArcCoincident(arc, pt(3));
    let x = [0.1, 0.2, 3.0, 0.3, 0.2, 3.1, 2.5, 2.6];
    for var in 0..8 {
        println!("F2 var{var} fd={:.6} jac={:.6}", fd(&c, &x, 0, var), jac_entry(&c, &x, 0, var));
    }
    // F3
    let (ca, cb) = circles();
    let reqs = [hp(Constraint::CircleTangentToCircle(ca, cb)), hp(Constraint::Fixed(6, 1.0))];
    let r = solve(&reqs, guesses(&[1.0, 1.0, 1.0, 1.0, 2.0, 1.0, 0.5]), Config::default());
    println!("F3 {:?}", r.map(|o| (o.final_values().to_vec(), o.iterations(), o.unsatisfied().to_vec())).map_err(|e| format!("{:?}", e.error)));
    // F4
    let reqs = [
        ConstraintRequest::new(Constraint::Fixed(0, 1.0), 1),
        ConstraintRequest::new(Constraint::Fixed(0, 2.0), 1),
        ConstraintRequest::new(
            Constraint::PointLineDistance(pt(0), DatumLineSegment::new(pt(1), pt(2)), 1.0),
            0,
        ),
    ];
    let r = solve(&reqs, guesses(&[0.0, 0.0, 1.0, 1.0, 1.0, 1.0]), Config::default());
    println!("F4 {:?}", r.map(|o| (o.warnings().to_vec(), o.priority_solved())).map_err(|e| format!("{:?}", e.error)));
    println!("F5 reproduced={}", f5());
    // F6
    let txt = "# constraints\npoint p\ncircle c\narc a\na.center.x = 5\n\n# guesses\np roughly (0, 0)\nc.center roughly (1, 1)\nc.radius roughly 2\na.center roughly (3, 3)\na.a roughly (4, 3)\na.b roughly (3, 4)\n";
    match Problem::from_str(txt) {
        Ok(p) => match p.to_constraint_system() {
            Ok(cs) => println!("F6 {:?}", cs.constraints.iter().map(|c| *c.constraint()).collect::<Vec<_>>()),
            Err(e) => println!("F6 build err {e}"),
        },
        Err(e) => println!("F6 parse err {e}"),
    }
    // F7
    let txt = "# constraints\npoint p\narc a\na.center = (5, 6)\nq.center = (1, 2)\n\n# guesses\np roughly (0, 0)\na.center roughly (3, 3)\na.a roughly (4, 3)\na.b roughly (3, 4)\n";
    match Problem::from_str(txt) {
        Ok(p) => match p.to_constraint_system() {
            Ok(cs) => println!("F7 accepted with {} constraints", cs.constraints.len()),
            Err(e) => println!("F7 build err {e}"),
        },
        Err(e) => println!("F7 parse err {e}"),
    }
    // F8
    if std::env::args().any(|a| a == "f8") {
        let depth = 200_000;
        let txt = format!(
            "# constraints\npoint p\npoint q\ndistance(p, q, {}16{})\n\n# guesses\np roughly (0, 0)\nq roughly (1, 1)\n",
            "sqrt(".repeat(depth),
            ")".repeat(depth)
        );
        println!("F8 {:?}", Problem::from_str(&txt).map(|_| "parsed").map_err(|e| e.len()));
    }
    // F9
    let r = solve_analysis(&[], guesses(&[1.0, 2.0]), Config::default());
    println!("F9 {:?}", r.map(|o| o.analysis.underconstrained().to_vec()).map_err(|e| format!("{:?}", e.error)));
    println!("F10 reproduced={}", f10());
    println!("F11 reproduced={}", f11());
    println!("F12 reproduced={}", f12());
    println!("F14 reproduced={}", f14());
    println!("F15 reproduced={}", f15());
    println!("F16 reproduced={}", f16());
}
