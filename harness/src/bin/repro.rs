//! Reproductions of the findings F1..F14 against the real crate (see DESIGN.md §7).
use kcl_ezpz::datatypes::inputs::*;
use kcl_ezpz::datatypes::{Angle, AngleKind};
use kcl_ezpz::textual::Problem;
use kcl_ezpz::verif_hooks as vh;
use kcl_ezpz::*;
use std::str::FromStr;

fn pt(i: u32) -> DatumPoint {
    DatumPoint::new_xy(2 * i, 2 * i + 1)
}
fn hp(c: Constraint) -> ConstraintRequest {
    ConstraintRequest::highest_priority(c)
}
fn guesses(v: &[f64]) -> Vec<(u32, f64)> {
    v.iter().enumerate().map(|(i, x)| (i as u32, *x)).collect()
}

fn fd(c: &Constraint, x: &[f64], row: usize, var: usize) -> f64 {
    let h = 1e-6;
    let mut xp = x.to_vec();
    xp[var] += h;
    let mut xm = x.to_vec();
    xm[var] -= h;
    (vh::residual(c, &xp).0[row] - vh::residual(c, &xm).0[row]) / (2.0 * h)
}

fn jac_entry(c: &Constraint, x: &[f64], row: usize, var: usize) -> f64 {
    vh::jacobian_rows(c, x).0[row]
        .iter()
        .filter(|(id, _)| *id as usize == var)
        .map(|(_, pd)| *pd)
        .sum()
}

fn main() {
    // F1
    let c = Constraint::VerticalPointLineDistance(pt(0), DatumLineSegment::new(pt(1), pt(2)), 2.5);
    let x = [1.0, 5.0, 0.0, 0.5, 4.0, 1.5];
    for var in 0..6 {
        println!("F1 var{var} fd={:.6} jac={:.6}", fd(&c, &x, 0, var), jac_entry(&c, &x, 0, var));
    }
    // F2
    let arc = DatumCircularArc { center: pt(0), start: pt(1), end: pt(2) };
    let c = Constraint::PointArcCoincident(arc, pt(3));
    let x = [0.1, 0.2, 3.0, 0.3, 0.2, 3.1, 2.5, 2.6];
    for var in 0..8 {
        println!("F2 var{var} fd={:.6} jac={:.6}", fd(&c, &x, 0, var), jac_entry(&c, &x, 0, var));
    }
    // F3
    let ca = DatumCircle { center: pt(0), radius: DatumDistance::new(4) };
    let cb = DatumCircle { center: DatumPoint::new_xy(2, 3), radius: DatumDistance::new(5) };
    let reqs = [hp(Constraint::CircleTangentToCircle(ca, cb)), hp(Constraint::Fixed(6, 1.0))];
    let r = solve(&reqs, guesses(&[1.0, 1.0, 1.0, 1.0, 2.0, 1.0, 0.5]), Config::default());
    println!("F3 {:?}", r.map(|o| (o.final_values().to_vec(), o.iterations(), o.unsatisfied().to_vec())).map_err(|e| format!("{:?}", e.error)));
    // F4
    let reqs = [
        ConstraintRequest::new(Constraint::Fixed(0, 1.0), 1),
        ConstraintRequest::new(Constraint::Fixed(0, 2.0), 1),
        ConstraintRequest::new(
            Constraint::PointLineDistance(pt(0), DatumLineSegment::new(pt(1), pt(2)), 1.0),
            0,
        ),
    ];
    let r = solve(&reqs, guesses(&[0.0, 0.0, 1.0, 1.0, 1.0, 1.0]), Config::default());
    println!("F4 {:?}", r.map(|o| (o.warnings().to_vec(), o.priority_solved())).map_err(|e| format!("{:?}", e.error)));
    // F5
    let r = solve(&[hp(Constraint::Fixed(0, 7.0))], vec![(1, 100.0), (0, 5.0)], Config::default());
    println!("F5 {:?}", r.map(|o| o.final_values().to_vec()).map_err(|e| format!("{:?}", e.error)));
    // F6
    let txt = "# constraints\npoint p\ncircle c\narc a\na.center.x = 5\n\n# guesses\np roughly (0, 0)\nc.center roughly (1, 1)\nc.radius roughly 2\na.center roughly (3, 3)\na.a roughly (4, 3)\na.b roughly (3, 4)\n";
    match Problem::from_str(txt) {
        Ok(p) => match p.to_constraint_system() {
            Ok(cs) => println!("F6 {:?}", cs.constraints.iter().map(|c| *c.constraint()).collect::<Vec<_>>()),
            Err(e) => println!("F6 build err {e}"),
        },
        Err(e) => println!("F6 parse err {e}"),
    }
    // F7
    let txt = "# constraints\npoint p\narc a\na.center = (5, 6)\nq.center = (1, 2)\n\n# guesses\np roughly (0, 0)\na.center roughly (3, 3)\na.a roughly (4, 3)\na.b roughly (3, 4)\n";
    match Problem::from_str(txt) {
        Ok(p) => match p.to_constraint_system() {
            Ok(cs) => println!("F7 accepted with {} constraints", cs.constraints.len()),
            Err(e) => println!("F7 build err {e}"),
        },
        Err(e) => println!("F7 parse err {e}"),
    }
    // F8
    if std::env::args().any(|a| a == "f8") {
        let depth = 200_000;
        let txt = format!(
            "# constraints\npoint p\npoint q\ndistance(p, q, {}16{})\n\n# guesses\np roughly (0, 0)\nq roughly (1, 1)\n",
            "sqrt(".repeat(depth),
            ")".repeat(depth)
        );
        println!("F8 {:?}", Problem::from_str(&txt).map(|_| "parsed").map_err(|e| e.len()));
        let txt = "# constraints\npoint p\npoint q\ndistance(p, q, sqrt(sqrt(16)))\n\n# guesses\np roughly (0, 0)\nq roughly (1, 1)\n";
        println!("F8b {:?}", Problem::from_str(txt).map(|p| p.verif_dump()));
        let txt = "# constraints\npoint p\npoint q\ndistance(p, q, sqrt(sqrt(16))\n\n# guesses\np roughly (0, 0)\nq roughly (1, 1)\n";
        println!("F8c {:?}", Problem::from_str(txt).map(|p| p.verif_dump()));
    }
    // F9
    let r = solve_analysis(&[], guesses(&[1.0, 2.0]), Config::default());
    println!("F9 {:?}", r.map(|o| o.analysis.underconstrained().to_vec()).map_err(|e| format!("{:?}", e.error)));
    // F10
    let reqs = [
        ConstraintRequest::new(Constraint::Fixed(6, 1.0), 0),
        ConstraintRequest::new(Constraint::CircleTangentToCircle(ca, cb), 1),
    ];
    let g = guesses(&[1.0, 1.0, 1.0, 1.0, 2.0, 2.0, 1.0]);
    let a = solve(&reqs, g.clone(), Config::default());
    let b = solve_analysis(&reqs, g, Config::default());
    println!(
        "F10 solve={:?} analysis={:?}",
        a.map(|o| (o.priority_solved(), o.final_values().to_vec())).map_err(|e| format!("{:?}", e.error)),
        b.map(|o| (o.outcome.priority_solved(), o.outcome.final_values().to_vec())).map_err(|e| format!("{:?}", e.error))
    );
    // F12
    let l0 = DatumLineSegment::new(pt(0), pt(1));
    let l1 = DatumLineSegment::new(pt(2), pt(3));
    let reqs = [
        ConstraintRequest::new(Constraint::Fixed(0, 1.0), 0),
        ConstraintRequest::new(Constraint::Fixed(0, 2.0), 0),
        ConstraintRequest::new(Constraint::LinesAtAngle(l0, l1, AngleKind::Other(Angle::from_degrees(90.0))), 1),
    ];
    let r = solve(&reqs, guesses(&[0.0, 0.0, 1.0, 0.0, 0.0, 0.0, 0.0, 1.0]), Config::default());
    println!("F12 {:?}", r.map(|o| (o.warnings().to_vec(), o.unsatisfied().to_vec())).map_err(|e| format!("{:?}", e.error)));
    // F14
    let arc = DatumCircularArc { center: pt(0), start: pt(1), end: pt(2) };
    let reqs = [hp(Constraint::PointArcCoincident(arc, pt(3)))];
    let r = solve(&reqs, guesses(&[0.0, 0.0, 1.0, 0.0, 0.0, 1.0, -1.0, 0.0]), Config::default());
    println!("F14 {:?}", r.map(|o| (o.unsatisfied().to_vec(), o.iterations(), o.final_values().to_vec())).map_err(|e| format!("{:?}", e.error)));
}
