//! Correspondence for the composite constraint constructors (`constraints/composite.rs`): for random
//! (also aliased) ids and parameters, the list of basic constraints the real constructor returns is
//! compared exactly with the model's (`Ezpz/Model/Composite.lean`, driver command `X`).
//! Every third case is a typed lookup of `solve_outcome.rs` (`final_value_distance/point/circle/arc`) on
//! an outcome with arbitrary final values and arbitrary (unordered, repeated, now and then out-of-range)
//! ids, compared exactly with `Ezpz/Model/Outcome.lean`.
//! Usage: corr_composite <seed> <n> <out-dir>
use ezpz_verif_harness::codec::enc_constraint;
use ezpz_verif_harness::rng::Rng;
use kcl_ezpz::datatypes::inputs::*;
use kcl_ezpz::{Config, Constraint, SolveOutcome};
use std::io::Write;

fn main() {
    let args: Vec<String> = std::env::args().collect();
    let seed: u64 = args[1].parse().unwrap();
    let n: usize = args[2].parse().unwrap();
    let dir = &args[3];
    std::fs::create_dir_all(dir).unwrap();
    let mut cases = std::io::BufWriter::new(std::fs::File::create(format!("{dir}/composite.cases")).unwrap());
    let mut imp = std::io::BufWriter::new(std::fs::File::create(format!("{dir}/composite.impl")).unwrap());
    let mut rng = Rng::new(seed);
    // typed lookups (solve_outcome.rs): an outcome with arbitrary final values is obtained from the
    // no-constraint solve, which returns the guesses as they are
    let outcome_of = |vals: &[f64]| -> SolveOutcome {
        kcl_ezpz::solve(&[], vals.iter().enumerate().map(|(k, v)| (k as u32, *v)).collect(), Config::default()).expect("no-constraint solve")
    };
    std::panic::set_hook(Box::new(|_| {}));
    for i in 0..n {
        if i % 3 == 2 {
            let nv = 1 + rng.below(14);
            let vals: Vec<f64> = (0..nv).map(|_| 100.0 * rng.sym()).collect();
            // ids mostly in range (unordered, repeated), now and then one just outside
            let ids: Vec<u32> = (0..6).map(|_| if rng.chance(1, 40) { (nv + rng.below(2)) as u32 } else { rng.below(nv) as u32 }).collect();
            let o = outcome_of(&vals);
            let enc = |xs: &[f64]| xs.iter().map(|v| v.to_bits().to_string()).collect::<Vec<_>>().join(" ");
            let (kind, used, res): (&str, usize, Result<String, _>) = match (i / 3) % 4 {
                0 => ("lookup_distance", 1, std::panic::catch_unwind(std::panic::AssertUnwindSafe(|| enc(&[o.final_value_distance(&DatumDistance::new(ids[0]))])))),
                1 => ("lookup_point", 2, std::panic::catch_unwind(std::panic::AssertUnwindSafe(|| {
                    let p = o.final_value_point(&DatumPoint::new_xy(ids[0], ids[1]));
                    enc(&[p.x, p.y])
                }))),
                2 => ("lookup_circle", 3, std::panic::catch_unwind(std::panic::AssertUnwindSafe(|| {
                    let c = o.final_value_circle(&DatumCircle { center: DatumPoint::new_xy(ids[0], ids[1]), radius: DatumDistance::new(ids[2]) });
                    enc(&[c.center.x, c.center.y, c.radius])
                }))),
                _ => ("lookup_arc", 6, std::panic::catch_unwind(std::panic::AssertUnwindSafe(|| {
                    let a = o.final_value_arc(&DatumCircularArc {
                        center: DatumPoint::new_xy(ids[0], ids[1]),
                        start: DatumPoint::new_xy(ids[2], ids[3]),
                        end: DatumPoint::new_xy(ids[4], ids[5]),
                    });
                    enc(&[a.a.x, a.a.y, a.b.x, a.b.y, a.center.x, a.center.y])
                }))),
            };
            writeln!(cases, "X {kind} {} {} {}", ids[..used].iter().map(|v| v.to_string()).collect::<Vec<_>>().join(" "), nv, enc(&vals)).unwrap();
            writeln!(imp, "{}", res.unwrap_or_else(|_| "PANIC".to_owned())).unwrap();
            continue;
        }
        let pool = if rng.chance(1, 3) { 4 } else { 40 };
        let mut id = || rng.below(pool) as u32;
        let ids: Vec<u32> = (0..9).map(|_| id()).collect();
        let pt = |k: usize| DatumPoint::new_xy(ids[k], ids[k + 1]);
        let seg = |k: usize| DatumLineSegment::new(pt(k), pt(k + 2));
        let d = f64::from_bits(0x3ff0000000000000u64.wrapping_add((i as u64).wrapping_mul(0x9e3779b97f4a7c15) >> 12));
        let (name, used, out): (&str, usize, Vec<Constraint>) = match i % 5 {
            0 => ("lines_parallel", 8, vec![Constraint::lines_parallel([seg(0), seg(4)])]),
            1 => ("lines_perpendicular", 8, vec![Constraint::lines_perpendicular([seg(0), seg(4)])]),
            2 => {
                let arc = DatumCircularArc { center: pt(0), start: pt(2), end: pt(4) };
                ("point_bisects_arc", 8, Constraint::point_bisects_arc(arc, pt(6)).to_vec())
            }
            3 => ("parallel_lines_distance", 8, Constraint::parallel_lines_distance([seg(0), seg(4)], d).to_vec()),
            _ => {
                let circle = DatumCircle { center: pt(0), radius: DatumDistance::new(ids[2]) };
                let arc = DatumCircularArc { center: pt(3), start: pt(5), end: pt(7) };
                ("circle_arc_coincident", 9, Constraint::circle_arc_coincident(circle, arc).to_vec())
            }
        };
        writeln!(cases, "X {name} {} {}", ids[..used].iter().map(|v| v.to_string()).collect::<Vec<_>>().join(" "), d.to_bits()).unwrap();
        writeln!(imp, "{}", out.iter().map(enc_constraint).collect::<Vec<_>>().join(";")).unwrap();
    }
}
