//! C16 helper: writes problem texts (valid, unsolvable, contradictory, malformed) to files and, for
//! each, what the library computes for the same text as a `C` record for the Lean driver (which
//! renders the standard output the CLI must print).  Usage: dump_c16 <seed> <n> <out-dir> <repo>
use ezpz_verif_harness::rng::Rng;
use ezpz_verif_harness::textgen::*;
use kcl_ezpz::textual::Problem;
use kcl_ezpz::{Warning, WarningContent};
use std::io::Write;
use std::str::FromStr;

fn hex(s: &str) -> String {
    s.bytes().map(|b| format!("{b:02x}")).collect()
}
fn kinds(ws: &[Warning]) -> String {
    if ws.is_empty() {
        return "-".into();
    }
    ws.iter()
        .map(|w| match w.content {
            WarningContent::Degenerate => "degenerate",
            WarningContent::ShouldBeParallel(_) => "Parallel",
            WarningContent::ShouldBePerpendicular(_) => "Perpendicular",
        })
        .collect::<Vec<_>>()
        .join(",")
}

fn main() {
    let args: Vec<String> = std::env::args().collect();
    let seed: u64 = args[1].parse().unwrap();
    let n: usize = args[2].parse().unwrap();
    let out_dir = &args[3];
    let repo = &args[4];
    std::panic::set_hook(Box::new(|_| {}));
    let mut rng = Rng::new(seed);
    let mut texts: Vec<(String, &'static str)> = Vec::new();
    // the repository's own problem files (solvable sketches)
    if let Ok(rd) = std::fs::read_dir(format!("{repo}/test_cases")) {
        let mut dirs: Vec<_> = rd.filter_map(|e| e.ok()).map(|e| e.path()).collect();
        dirs.sort();
        for d in dirs {
            if let Ok(t) = std::fs::read_to_string(d.join("problem.md")) {
                texts.push((t, "repo-case"));
            }
        }
    }
    // hand-made: no constraints at all (very fast solve), circle + arc together
    texts.push(("# constraints\npoint p\n\n# guesses\np roughly (1, 2)\n".into(), "no-constraints"));
    texts.push(("# constraints\npoint p\ncircle c\narc a\np.x = 1\nradius(c, 2)\nis_arc(a)\n\n# guesses\np roughly (0, 0)\nc.center roughly (1, 1)\nc.radius roughly 1.5\na.center roughly (0, 0)\na.a roughly (1, 0)\na.b roughly (0, 1.5)\n".into(), "circle-and-arc"));
    // LARGE texts (about 150 KB and 600 KB): every point pinned, so the solve is one cheap round;
    // what is exercised is the reading of the text - a bounded read, a fixed buffer, a truncated
    // standard input shows up only beyond some size, and only on one of the two input routes
    for npts in [2500usize, 10000] {
        let mut t = String::from("# constraints\n");
        for i in 0..npts {
            t += &format!("point q{i}\n");
        }
        for i in 0..npts {
            t += &format!("q{i}.x = {i}\nq{i}.y = {}\n", i % 7);
        }
        t += "\n# guesses\n";
        for i in 0..npts {
            t += &format!("q{i} roughly ({i}.5, 1)\n");
        }
        texts.push((t, "large-text"));
    }
    for i in 0..n {
        let gp = gen_valid(&mut rng);
        if i % 3 == 2 {
            let (t, _k) = mutate(&mut rng, &gp);
            texts.push((t, "mutated"));
        } else {
            texts.push((text_of(&gp, &mut rng), "generated"));
        }
    }
    let mut cfile = std::io::BufWriter::new(std::fs::File::create(format!("{out_dir}/cli.cases")).unwrap());
    let mut meta = std::io::BufWriter::new(std::fs::File::create(format!("{out_dir}/cli.meta")).unwrap());
    for (i, (text, kind)) in texts.iter().enumerate() {
        std::fs::write(format!("{out_dir}/case_{i}.txt"), text).unwrap();
        let status = match Problem::from_str(text) {
            Err(_) => ("0".to_string(), "parse".to_string()),
            Ok(p) => match p.to_constraint_system() {
                Err(_) => ("0".to_string(), "build".to_string()),
                Ok(cs) => {
                    let nc = cs.constraints.len();
                    // what the library itself would print for each request / warning (Debug of the
                    // constraint, Display of the warning content): the CLI's sentences are compared with these
                    let mut side = String::new();
                    for (k, r) in cs.constraints.iter().enumerate() {
                        side += &format!("C {k} {:?}\n", r.constraint());
                    }
                    match cs.solve() {
                        Ok(o) => for w in &o.warnings { side += &format!("W {}\n", w.content); },
                        Err(f) => for w in &f.warnings { side += &format!("W {}\n", w.content); },
                    }
                    std::fs::write(format!("{out_dir}/case_{i}.side"), side).unwrap();
                    let finals = cs.solve_no_metadata(Default::default()).ok().map(|o| o.final_values().to_vec());
                    match cs.solve() {
                        Err(f) => (nc.to_string(), format!("serr {} {} W {}", f.num_vars, f.num_eqs, kinds(&f.warnings))),
                        Ok(o) => {
                            let fv = finals.unwrap_or_default();
                            (
                                nc.to_string(),
                                format!(
                                    "ok {} {} {} {} U {} W {} F {} {}",
                                    o.num_vars,
                                    o.num_eqs,
                                    o.iterations,
                                    o.priority_solved,
                                    if o.unsatisfied.is_empty() { "-".to_string() } else { o.unsatisfied.iter().map(|u| u.to_string()).collect::<Vec<_>>().join(",") },
                                    kinds(&o.warnings),
                                    fv.len(),
                                    fv.iter().map(|v| if v.is_nan() { "nan".to_string() } else { v.to_bits().to_string() }).collect::<Vec<_>>().join(" ")
                                ),
                            )
                        }
                    }
                }
            },
        };
        for showp in [0, 1] {
            writeln!(cfile, "C {showp} {} {} {}", status.0, hex(text), status.1).unwrap();
        }
        writeln!(meta, "{kind} {}", status.1.split(' ').next().unwrap()).unwrap();
    }
    println!("{}", texts.len());
}
