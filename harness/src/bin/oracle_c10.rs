//! C10 oracle on the real code: repeated calls are bit-identical; solve and solve_analysis agree
//! whenever both succeed, and when solve fails solve_analysis fails; prints a digest of every
//! result so that two processes can be compared.
//! Usage: oracle_c10 <seed> <n>
use ezpz_verif_harness::gen_sys::SHAPES;
use ezpz_verif_harness::oracle::*;
use ezpz_verif_harness::planted::*;
use ezpz_verif_harness::rng::Rng;
use ezpz_verif_harness::trace::{RunResult, run_plain};
use kcl_ezpz::datatypes::inputs::*;
use kcl_ezpz::*;

fn fnv(h: &mut u64, s: &str) {
    for b in s.bytes() {
        *h ^= b as u64;
        *h = h.wrapping_mul(0x100000001b3);
    }
}

fn analysis_fails_at_some_level(sys: &System) -> bool {
    let mut levels: Vec<u32> = sys.reqs.iter().map(|r| r.priority()).collect();
    levels.sort();
    levels.dedup();
    for &p in levels.iter().skip(1) {
        let (sub, _) = subset(&sys.reqs, p);
        let flat: Vec<ConstraintRequest> =
            sub.iter().map(|r| ConstraintRequest::highest_priority(*r.constraint())).collect();
        let plain = solve(&flat, sys.guesses.clone(), sys.config());
        let ana = solve_analysis(&flat, sys.guesses.clone(), sys.config());
        if plain.is_ok() && ana.is_err() {
            return true;
        }
    }
    false
}

fn main() {
    let args: Vec<String> = std::env::args().collect();
    let seed: u64 = args[1].parse().unwrap();
    let n: usize = args[2].parse().unwrap();
    std::panic::set_hook(Box::new(|_| {}));
    let mut rng = Rng::new(seed);
    let mut out: Vec<Violation> = Vec::new();
    let mut digest: u64 = 0xcbf29ce484222325;
    let (mut systems, mut both_ok, mut plain_err, mut analysis_only_err, mut repeats) = (0usize, 0usize, 0usize, 0usize, 0usize);
    for i in 0..n {
        let mut sys = match i % 6 {
            0 => gen_planted(&mut rng, 8, 1e-2, &SHAPES),
            1 => gen_planted(&mut rng, 5, 0.4, &SHAPES),
            2 => {
                let b = gen_linear(&mut rng, 5, 8);
                with_contradictions(&mut rng, b)
            }
            3 => {
                let b = gen_planted(&mut rng, 5, 1e-2, &SHAPES);
                with_priorities(&mut rng, b)
            }
            4 => {
                // several requests degenerate at once: the warnings list (order and multiplicity)
                // is part of the result that must be reproduced
                let b = gen_planted(&mut rng, 10, 1e-2, &SHAPES);
                with_collapsed_guess(&mut rng, b)
            }
            _ => {
                // level 0 pinned, level 1 coincident tangent circles already satisfied (F10 shape)
                let ca = DatumCircle { center: DatumPoint::new_xy(0, 1), radius: DatumDistance::new(4) };
                let cb = DatumCircle { center: DatumPoint::new_xy(2, 3), radius: DatumDistance::new(5) };
                let (x, y, r) = (rng.sym(), rng.sym(), 0.5 + rng.unit());
                System::default_cfg(
                    vec![
                        ConstraintRequest::new(Constraint::Fixed(6, 1.0), 0),
                        ConstraintRequest::new(Constraint::CircleTangentToCircle(ca, cb), 1),
                    ],
                    vec![(0, x), (1, y), (2, x), (3, y), (4, r), (5, r), (6, 1.0)],
                    "f10-shape",
                )
            }
        };
        if i % 7 == 6 {
            sys = with_priorities(&mut rng, sys);
        }
        systems += 1;
        let a1 = run_plain(&sys, false);
        let a2 = run_plain(&sys, false);
        let b1 = run_plain(&sys, true);
        let b2 = run_plain(&sys, true);
        repeats += 2;
        fnv(&mut digest, &a1.line());
        fnv(&mut digest, &b1.line());
        let mut bad = |what: String, sig: &str| {
            out.push(Violation { property: "C10", what, signature: sig.into(), system: Some(sys.clone()), extra: String::new() })
        };
        if a1.line() != a2.line() {
            bad(format!("two calls of solve differ: {} vs {}", a1.line(), a2.line()), "not-deterministic");
        }
        if b1.line() != b2.line() {
            bad(format!("two calls of solve_analysis differ: {} vs {}", b1.line(), b2.line()), "not-deterministic");
        }
        match (&a1, &b1) {
            (RunResult::Ok(a, _), RunResult::Ok(b, _)) => {
                both_ok += 1;
                if !same_outcome_bits(a, b) {
                    let sig = if b.priority_solved() < a.priority_solved() && analysis_fails_at_some_level(&sys) {
                        "analysis-error-at-non-first-level"
                    } else {
                        "analysis-changes-result"
                    };
                    bad(
                        format!(
                            "solve and solve_analysis both succeed but differ: {} vs {}",
                            ezpz_verif_harness::trace::show_ok(a, None),
                            ezpz_verif_harness::trace::show_ok(b, None)
                        ),
                        sig,
                    );
                }
            }
            (RunResult::Err(_), RunResult::Ok(..)) => {
                bad("solve fails but solve_analysis succeeds".into(), "plain-fails-analysis-succeeds");
            }
            (RunResult::Err(a), RunResult::Err(b)) => {
                plain_err += 1;
                if ezpz_verif_harness::trace::show_err(a) != ezpz_verif_harness::trace::show_err(b) {
                    bad("solve and solve_analysis fail differently".into(), "failures-differ");
                }
            }
            (RunResult::Ok(..), RunResult::Err(f)) => {
                analysis_only_err += 1;
                if !matches!(f.error, NonLinearSystemError::FaerSvd(_) | NonLinearSystemError::EmptySystemNotAllowed) {
                    bad(format!("solve succeeds, solve_analysis fails with a non-analysis error {:?}", f.error), "analysis-adds-non-analysis-failure");
                }
            }
            _ => {}
        }
    }
    let mut seen = std::collections::BTreeSet::new();
    for v in &out {
        if seen.insert(v.signature.clone()) {
            println!("VIOLATION {}", v.to_json());
        }
    }
    println!("DIGEST {digest:016x}");
    println!(
        "STATS {{\"systems\": {systems}, \"both_ok\": {both_ok}, \"both_err\": {plain_err}, \"analysis_only_err\": {analysis_only_err}, \"repeated_calls\": {repeats}, \"digest\": \"{digest:016x}\", \"violations\": {}}}",
        out.len()
    );
}
