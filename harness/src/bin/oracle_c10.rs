//! C10 oracle on the real code: repeated calls are bit-identical; solve and solve_analysis agree
//! whenever both succeed, and when solve fails solve_analysis fails; prints a digest of every
//! result so that two processes can be compared.
//! Usage: oracle_c10 <seed> <n>
use ezpz_verif_harness::gen_sys::SHAPES;
use ezpz_verif_harness::oracle::*;
use ezpz_verif_harness::planted::*;
use ezpz_verif_harness::rng::Rng;
use ezpz_verif_harness::trace::{RunResult, run_plain};
use kcl_ezpz::datatypes::inputs::*;
use kcl_ezpz::*;

fn fnv(h: &mut u64, s: &str) {
    for b in s.bytes() {
        *h ^= b as u64;
        *h = h.wrapping_mul(0x100000001b3);
    }
}

/// Renumber every variable id of a constraint through `pi`.
fn renumber(c: &Constraint, pi: &[u32]) -> Constraint {
    use ezpz_verif_harness::codec::{dec_constraint, enc_constraint};
    let enc = enc_constraint(c);
    let t: Vec<&str> = enc.split(' ').collect();
    let (ni, _) = ezpz_verif_harness::gen_sys::shape_arity(t[0]);
    let mut out = vec![t[0].to_string()];
    for (k, tok) in t.iter().enumerate().skip(1) {
        if k <= ni {
            out.push(pi[tok.parse::<usize>().unwrap()].to_string());
        } else {
            out.push(tok.to_string());
        }
    }
    dec_constraint(&out.join(" ")).unwrap()
}

fn analysis_fails_at_some_level(sys: &System) -> bool {
    let mut levels: Vec<u32> = sys.reqs.iter().map(|r| r.priority()).collect();
    levels.sort();
    levels.dedup();
    for &p in levels.iter().skip(1) {
        let (sub, _) = subset(&sys.reqs, p);
        let flat: Vec<ConstraintRequest> =
            sub.iter().map(|r| ConstraintRequest::highest_priority(*r.constraint())).collect();
        let plain = solve(&flat, sys.guesses.clone(), sys.config());
        let ana = solve_analysis(&flat, sys.guesses.clone(), sys.config());
        if plain.is_ok() && ana.is_err() {
            return true;
        }
    }
    false
}

fn main() {
    let args: Vec<String> = std::env::args().collect();
    let seed: u64 = args[1].parse().unwrap();
    let n: usize = args[2].parse().unwrap();
    ezpz_verif_harness::oracle::arm_crash_reporter("C10");
    let mut rng = Rng::new(seed);
    let mut out: Vec<Violation> = Vec::new();
    let mut digest: u64 = 0xcbf29ce484222325;
    let (mut systems, mut both_ok, mut plain_err, mut analysis_only_err, mut repeats) = (0usize, 0usize, 0usize, 0usize, 0usize);
    // the systems are generated first, so that the same list can be solved in the listed order or in
    // reverse (second process): a result that depends on what was solved before (a cache keyed too
    // coarsely, state left in a thread-local, ...) then shows up as a different per-system fingerprint
    let reverse = args.get(3).map(|a| a == "rev").unwrap_or(false);
    let mut all: Vec<System> = Vec::new();
    for i in 0..n {
        let sys = match i % 6 {
            0 => gen_planted(&mut rng, 8, 1e-2, &SHAPES),
            1 => gen_planted(&mut rng, 5, 0.4, &SHAPES),
            2 => {
                let b = gen_linear(&mut rng, 5, 8);
                with_contradictions(&mut rng, b)
            }
            3 => {
                let b = gen_planted(&mut rng, 5, 1e-2, &SHAPES);
                with_priorities(&mut rng, b)
            }
            4 => {
                // several requests degenerate at once: the warnings list (order and multiplicity)
                // is part of the result that must be reproduced
                let b = gen_planted(&mut rng, 10, 1e-2, &SHAPES);
                with_collapsed_guess(&mut rng, b)
            }
            _ => {
                // level 0 pinned, level 1 coincident tangent circles already satisfied (F10 shape)
                let ca = DatumCircle { center: DatumPoint::new_xy(0, 1), radius: DatumDistance::new(4) };
                let cb = DatumCircle { center: DatumPoint::new_xy(2, 3), radius: DatumDistance::new(5) };
                let (x, y, r) = (rng.sym(), rng.sym(), 0.5 + rng.unit());
                System::default_cfg(
                    vec![
                        ConstraintRequest::new(Constraint::Fixed(6, 1.0), 0),
                        ConstraintRequest::new(Constraint::CircleTangentToCircle(ca, cb), 1),
                    ],
                    vec![(0, x), (1, y), (2, x), (3, y), (4, r), (5, r), (6, 1.0)],
                    "f10-shape",
                )
            }
        };
        let mut sys = maybe_large(&mut rng, i, sys);
        if i % 7 == 6 {
            sys = with_priorities(&mut rng, sys);
        }
        all.push(sys);
    }
    let order: Vec<usize> = if reverse { (0..all.len()).rev().collect() } else { (0..all.len()).collect() };
    let mut history_free = 0usize;
    for idx in order {
        let sys = all[idx].clone();
        systems += 1;
        ezpz_verif_harness::oracle::note_current(&sys);
        let a1 = run_plain(&sys, false);
        let a2 = run_plain(&sys, false);
        let b1 = run_plain(&sys, true);
        let b2 = run_plain(&sys, true);
        repeats += 2;
        // order-independent digest: sum of per-system hashes
        let mut h: u64 = 0xcbf29ce484222325;
        fnv(&mut h, &idx.to_string());
        fnv(&mut h, &a1.line());
        fnv(&mut h, &b1.line());
        digest = digest.wrapping_add(h);
        // a structurally similar system solved right after this one (two variables exchanged: same
        // sizes, same number of entries per column, different incidence) must give the same bits as
        // when it is solved on a fresh thread with no history
        if idx % 2 == 0 && sys.guesses.len() >= 2 && sys.guesses.iter().enumerate().all(|(k, g)| g.0 as usize == k) {
            let nv = sys.guesses.len();
            for _ in 0..3 {
                let (a, b) = (rng.below(nv), rng.below(nv));
                if a == b { continue; }
                let mut pi: Vec<u32> = (0..nv as u32).collect();
                pi.swap(a, b);
                let mut t = sys.clone();
                t.reqs = sys.reqs.iter().map(|r| ConstraintRequest::new(renumber(r.constraint(), &pi), r.priority())).collect();
                t.guesses.swap(a, b);
                for (k, g) in t.guesses.iter_mut().enumerate() { g.0 = k as u32; }
                let _ = run_plain(&sys, false);
                let after = run_plain(&t, false).line();
                let t2 = t.clone();
                if let Ok(fresh) = std::thread::spawn(move || run_plain(&t2, false).line()).join() {
                    history_free += 1;
                    if fresh != after {
                        out.push(Violation { property: "C10", what: format!("the result depends on what was solved before: {after} right after a structurally similar system, {fresh} on a fresh thread"), signature: "depends-on-call-history".into(), system: Some(t.clone()), extra: format!("previous system: the same with variables {a} and {b} exchanged") });
                        break;
                    }
                }
            }
        }
        // the same solve on a fresh thread (no call history at all) must give the same bits
        if idx % 4 == 0 {
            let s2 = sys.clone();
            let fresh = std::thread::spawn(move || (run_plain(&s2, false).line(), run_plain(&s2, true).line())).join();
            if let Ok((fa, fb)) = fresh {
                history_free += 1;
                if fa != a1.line() || fb != b1.line() {
                    out.push(Violation { property: "C10", what: format!("the result depends on what was solved before: in sequence {} / {} but on a fresh thread {} / {}", a1.line(), b1.line(), fa, fb), signature: "depends-on-call-history".into(), system: Some(sys.clone()), extra: String::new() });
                }
            }
        }
        let mut bad = |what: String, sig: &str| {
            out.push(Violation { property: "C10", what, signature: sig.into(), system: Some(sys.clone()), extra: String::new() })
        };
        if a1.line() != a2.line() {
            bad(format!("two calls of solve differ: {} vs {}", a1.line(), a2.line()), "not-deterministic");
        }
        if b1.line() != b2.line() {
            bad(format!("two calls of solve_analysis differ: {} vs {}", b1.line(), b2.line()), "not-deterministic");
        }
        match (&a1, &b1) {
            (RunResult::Ok(a, _), RunResult::Ok(b, _)) => {
                both_ok += 1;
                if !same_outcome_bits(a, b) {
                    // the known finding F10 says: an analysis error at a later level makes solve_analysis
                    // return an EARLIER level's result.  That result must then be exactly what the plain
                    // solve of the requests up to that level returns; anything else is a new violation.
                    let earlier_is_right = || -> bool {
                        let sub: Vec<ConstraintRequest> = sys.reqs.iter().filter(|r| r.priority() <= b.priority_solved()).copied().collect();
                        // positions of the kept requests in the caller's list
                        let pos: Vec<usize> = sys.reqs.iter().enumerate().filter(|(_, r)| r.priority() <= b.priority_solved()).map(|(k, _)| k).collect();
                        match solve(&sub, sys.guesses.clone(), sys.config()) {
                            Ok(p) => {
                                p.final_values().iter().zip(b.final_values()).all(|(x, y)| x.to_bits() == y.to_bits())
                                    && p.iterations() == b.iterations()
                                    && p.priority_solved() == b.priority_solved()
                                    && p.unsatisfied().iter().map(|k| pos[*k]).collect::<Vec<_>>() == b.unsatisfied()
                            }
                            Err(_) => false,
                        }
                    };
                    let sig = if b.priority_solved() < a.priority_solved() && analysis_fails_at_some_level(&sys) && earlier_is_right() {
                        "analysis-error-at-non-first-level"
                    } else {
                        "analysis-changes-result"
                    };
                    bad(
                        format!(
                            "solve and solve_analysis both succeed but differ: {} vs {}",
                            ezpz_verif_harness::trace::show_ok(a, None),
                            ezpz_verif_harness::trace::show_ok(b, None)
                        ),
                        sig,
                    );
                }
            }
            (RunResult::Err(_), RunResult::Ok(..)) => {
                bad("solve fails but solve_analysis succeeds".into(), "plain-fails-analysis-succeeds");
            }
            (RunResult::Err(a), RunResult::Err(b)) => {
                plain_err += 1;
                if ezpz_verif_harness::trace::show_err(a) != ezpz_verif_harness::trace::show_err(b) {
                    bad("solve and solve_analysis fail differently".into(), "failures-differ");
                }
            }
            (RunResult::Ok(..), RunResult::Err(f)) => {
                analysis_only_err += 1;
                if !matches!(f.error, NonLinearSystemError::FaerSvd(_) | NonLinearSystemError::EmptySystemNotAllowed) {
                    bad(format!("solve succeeds, solve_analysis fails with a non-analysis error {:?}", f.error), "analysis-adds-non-analysis-failure");
                }
            }
            _ => {}
        }
    }
    // --- the text front-end's entry points: solve_no_metadata / solve / solve_with_config /
    // solve_with_config_analysis / direct library calls on the same constraints and guesses
    let mut texts = 0usize;
    let (mut config_runs, mut config_errs) = (0usize, 0usize);
    for _ in 0..(n / 4).max(20) {
        let gp = ezpz_verif_harness::textgen::gen_valid(&mut rng);
        let text = ezpz_verif_harness::textgen::text_of(&gp, &mut rng);
        let Ok(problem) = <kcl_ezpz::textual::Problem as std::str::FromStr>::from_str(&text) else { continue };
        let Ok(cs) = problem.to_constraint_system() else { continue };
        texts += 1;
        let fp_outcome = |o: &kcl_ezpz::textual::Outcome| -> String {
            let bits = |v: f64| v.to_bits().to_string();
            let mut s = format!("U{:?} I{} P{} NV{} NE{} W{}", o.unsatisfied, o.iterations, o.priority_solved, o.num_vars, o.num_eqs,
                ezpz_verif_harness::codec::enc_warnings(&o.warnings));
            for (l, p) in &o.points { s += &format!(" {l}=({},{})", bits(p.x), bits(p.y)); }
            for (l, c) in &o.circles { s += &format!(" {l}=({},{},{})", bits(c.center.x), bits(c.center.y), bits(c.radius)); }
            for (l, a) in &o.arcs { s += &format!(" {l}=({},{},{},{},{},{})", bits(a.center.x), bits(a.center.y), bits(a.a.x), bits(a.a.y), bits(a.b.x), bits(a.b.y)); }
            s
        };
        let show = |r: &Result<kcl_ezpz::textual::Outcome, FailureOutcome>| match r {
            Ok(o) => fp_outcome(o),
            Err(f) => format!("ERR {}", ezpz_verif_harness::trace::show_err(f)),
        };
        let a = show(&cs.solve());
        let a2 = show(&cs.solve());
        let b = show(&cs.solve_with_config(Config::default()));
        let c = match cs.solve_with_config_analysis(Config::default()) { Ok(oa) => fp_outcome(&oa.outcome), Err(f) => format!("ERR {}", ezpz_verif_harness::trace::show_err(&f)) };
        let lib = solve(&cs.constraints, cs.verif_initial_guesses(), Config::default());
        let nm = cs.solve_no_metadata(Config::default());
        fnv(&mut digest, &a);
        let mut bad = |what: String, sig: &str| {
            out.push(Violation { property: "C10", what: format!("{what}; text: {text:?}"), signature: sig.into(), system: None, extra: String::new() })
        };
        if a != a2 { bad(format!("two calls of the text front-end's solve differ: {a} vs {a2}"), "not-deterministic"); }
        if a != b { bad(format!("solve() and solve_with_config(default) differ: {a} vs {b}"), "text-entry-points-differ"); }
        // with analysis: the same outcome unless the analysis itself failed (F10 shape excluded: one level here)
        if a != c && !(c.starts_with("ERR") && !a.starts_with("ERR")) {
            bad(format!("solve() and solve_with_config_analysis() differ: {a} vs {c}"), "text-entry-points-differ");
        }
        if describe(&lib) != describe(&nm) { bad("solve_no_metadata differs from the library's solve on the same constraints and guesses".into(), "text-entry-points-differ"); }
        // non-default configurations (caps too small to converge, tight / loose tolerances): every entry
        // point must honour the caller's configuration — all succeed with the same numbers or all fail
        for cfg in [
            Config::default().with_max_iterations(0),
            Config::default().with_max_iterations(1),
            Config::default().with_max_iterations(2),
            Config::default().with_convergence_tolerance(1e-13).with_max_iterations(3),
            Config::default().with_convergence_tolerance(1e-2),
            Config::default().with_step_tolerance(1e-3),
        ] {
            config_runs += 1;
            let wc = show(&cs.solve_with_config(cfg));
            let wa = match cs.solve_with_config_analysis(cfg) { Ok(oa) => fp_outcome(&oa.outcome), Err(f) => format!("ERR {}", ezpz_verif_harness::trace::show_err(&f)) };
            let lib_c = solve(&cs.constraints, cs.verif_initial_guesses(), cfg);
            let nm_c = cs.solve_no_metadata(cfg);
            if wc.starts_with("ERR") { config_errs += 1; }
            if wc != wa && !(wa.starts_with("ERR") && !wc.starts_with("ERR")) {
                bad(format!("under a non-default configuration solve_with_config and solve_with_config_analysis differ: {wc} vs {wa}"), "text-entry-points-differ-under-config");
            }
            if describe(&lib_c) != describe(&nm_c) {
                bad(format!("under a non-default configuration solve_no_metadata differs from the library's solve: {} vs {}", describe(&nm_c), describe(&lib_c)), "text-entry-points-differ-under-config");
            }
            match (&cs.solve_with_config(cfg), &lib_c) {
                (Ok(o), Ok(l)) => {
                    if o.iterations != l.iterations() || o.unsatisfied != l.unsatisfied() || o.priority_solved != l.priority_solved() {
                        bad("under a non-default configuration the text front-end's outcome disagrees with the library's on iterations / unsatisfied / priority".into(), "text-entry-points-differ-under-config");
                    }
                }
                (Err(_), Err(_)) => {}
                _ => bad(format!("under a non-default configuration the text front-end's solve_with_config and the library's solve disagree on success: {wc} vs {}", describe(&lib_c)), "text-entry-points-differ-under-config"),
            }
        }
        // the labelled outcome carries the library's numbers
        if let (Ok(o), Ok(l)) = (&cs.solve(), &lib) {
            if o.iterations != l.iterations() || o.unsatisfied != l.unsatisfied() || o.priority_solved != l.priority_solved() {
                bad("text front-end's outcome disagrees with the library's outcome on iterations / unsatisfied / priority".into(), "text-entry-points-differ");
            }
        }
    }
    ezpz_verif_harness::oracle::print_signature_counts(&out);
    let mut seen = std::collections::BTreeSet::new();
    for v in &out {
        if seen.insert(v.signature.clone()) {
            println!("VIOLATION {}", v.to_json());
        }
    }
    println!("DIGEST {digest:016x}");
    let large_systems = large_count();
    println!(
        "STATS {{\"systems\": {systems}, \"large_systems\": {large_systems}, \"both_ok\": {both_ok}, \"both_err\": {plain_err}, \"analysis_only_err\": {analysis_only_err}, \"repeated_calls\": {repeats}, \"texts\": {texts}, \"text_runs_under_other_configs\": {config_runs}, \"of_which_fail\": {config_errs}, \"fresh_thread_solves\": {history_free}, \"order\": \"{}\", \"digest\": \"{digest:016x}\", \"violations\": {}}}",
        if reverse { "reversed" } else { "listed" },
        out.len()
    );
}
