//! C02 oracle on the real code: planted-solution systems (1..15 constraints of any kinds sharing
//! entities, anchored or free-floating), guesses within 1e-2*scale of the planted solution: the solve
//! succeeds, everything is satisfied, few iterations (<= 8), and the result is no farther from the
//! guess than 1.5 x the distance guess-solution.  Plants that are degenerate, ill-conditioned or have
//! a branch switch inside the ball are excluded by the oracle and counted.
//! Usage: oracle_c02 <seed> <n>
use ezpz_verif_harness::gen_sys::SHAPES;
use ezpz_verif_harness::oracle::*;
use ezpz_verif_harness::planted::*;
use ezpz_verif_harness::rng::Rng;
use kcl_ezpz::verif_hooks::{self as vh, TraceEvent};
use kcl_ezpz::*;

/// Discrete signature of the linearisation of every request at x: degenerate flags and which ids
/// each row reports with a non-zero-able entry.
fn signature(sys: &System, x: &[f64]) -> String {
    let mut s = String::new();
    for r in &sys.reqs {
        // only legitimate branch choices enter the signature (which tangency a pair of circles is
        // nearer to); the implementation's own degenerate flags and row shapes do NOT: a request
        // wrongly treated as degenerate near a healthy plant must not be excluded as a "branch switch"
        let (res, _d1) = vh::residual(r.constraint(), x);
        let (rows, _d2) = vh::jacobian_rows(r.constraint(), x);
        s.push('|');
        // sign pattern of the radius partials of tangent constraints (branch choice)
        if let Constraint::CircleTangentToCircle(..) = r.constraint() {
            for e in &rows[0] {
                if e.1.abs() == 1.0 {
                    s.push(if e.1 > 0.0 { '+' } else { '-' });
                }
            }
        }
        if res.iter().any(|v| !v.is_finite()) {
            s.push('!');
        }
    }
    s
}

fn main() {
    let args: Vec<String> = std::env::args().collect();
    let seed: u64 = args[1].parse().unwrap();
    let n: usize = args[2].parse().unwrap();
    ezpz_verif_harness::oracle::arm_crash_reporter("C02");
    let mut rng = Rng::new(seed);
    let mut out: Vec<Violation> = Vec::new();
    let (mut systems, mut checked, mut excl_degenerate, mut excl_illcond, mut excl_branch, mut excl_not_exact) = (0usize, 0usize, 0usize, 0usize, 0usize, 0usize);
    let mut iter_hist = [0usize; 10];
    let mut short_features = 0usize;
    let (mut fully_pinned, mut full_rank) = (0usize, 0usize);
    let mut analysis_failed = 0usize;
    for i in 0..n {
        let pert = *rng.pick(&[1e-4, 1e-3, 1e-2]);
        // (now and then a sketch several times larger: size-dependent paths)
        let max_cons = if rng.chance(1, 40) { 90 } else { *rng.pick(&[1usize, 2, 4, 8, 15]) };
        let large = rng.chance(1, 60);
        let sys = if large { gen_large_one_off(&mut rng) } else { gen_planted(&mut rng, max_cons, pert, &SHAPES) };
        // (now and then with a short, fully determined feature: guards that are wider than documented)
        let short = rng.chance(1, 10);
        // one plant in four is fully pinned (every coordinate also fixed at its planted value): certainly
        // full rank, so every clause of the property applies at full strength
        let sys = if rng.chance(1, 4) && !short && !large {
            let mut s2 = sys;
            if let Some(p) = s2.planted.clone() {
                for (id, v) in p.iter().enumerate() {
                    let at = rng.below(s2.reqs.len() + 1);
                    s2.reqs.insert(at, ConstraintRequest::highest_priority(Constraint::Fixed(id as u32, *v)));
                }
                fully_pinned += 1;
            }
            s2
        } else { sys };
        let base_len = sys.guesses.len();
        let sys = if short { short_features += 1; with_short_feature(&mut rng, sys) } else { sys };
        let _ = i;
        systems += 1;
        ezpz_verif_harness::oracle::note_current(&sys);
        let xs = sys.planted.clone().unwrap();
        let x0: Vec<f64> = sys.guesses.iter().map(|g| g.1).collect();
        // exclusions (decided by the oracle from the planted geometry, not by the solver's thresholds)
        // 1. the plant must be an exact solution
        // (judged by the independent geometric specification, not by the implementation's residual)
        let exact = sys.reqs.iter().all(|r| {
            let g = ezpz_verif_harness::geom::geom_err(r.constraint(), &xs, sys.scale);
            g.degenerate || g.errs.iter().all(|e| (e * g.k).abs() <= 1e-9 * sys.scale.max(1.0) * sys.scale.max(1.0))
        });
        if !exact {
            excl_not_exact += 1;
            continue;
        }
        // 2. no degenerate flag / branch switch between the plant, the guess and points of the ball
        let s0 = signature(&sys, &xs);
        // (no exclusion on the implementation's own degenerate flags: a request wrongly flagged
        // degenerate at a healthy plant must not hide; the independent guard-band test below decides)
        let mut same = signature(&sys, &x0) == s0;
        let guard_at = |y: &[f64]| sys.reqs.iter().any(|r| {
            let g = ezpz_verif_harness::geom::geom_err(r.constraint(), y, sys.scale);
            g.degenerate || ezpz_verif_harness::geom::in_guard_band(r.constraint(), y)
        });
        same &= !guard_at(&x0);
        for _ in 0..6 {
            // (the coordinates of a short feature are sampled within its own ball, 0.3 x its size)
            let feat = if xs.len() > base_len + 3 { (xs[base_len] - xs[base_len + 2]).hypot(xs[base_len + 1] - xs[base_len + 3]) } else { 0.0 };
            let y: Vec<f64> = xs.iter().enumerate().map(|(j, v)| v + if j >= base_len { (0.3 * feat).min(0.009 * sys.scale) } else { 2.0 * pert * sys.scale } * rng.sym()).collect();
            same &= signature(&sys, &y) == s0 && !guard_at(&y);
        }
        // point-on-arc plants must be comfortably inside the sweep, and geometry not tiny
        for r in &sys.reqs {
            let g = ezpz_verif_harness::geom::geom_err(r.constraint(), &xs, sys.scale);
            if g.degenerate || ezpz_verif_harness::geom::in_guard_band(r.constraint(), &xs) {
                same = false;
            }
            if let Some(false) = ezpz_verif_harness::geom::point_in_arc_sweep(r.constraint(), &xs, -0.15) {
                same = false;
            }
        }
        if !same {
            excl_branch += 1;
            continue;
        }
        // 3. conditioning of the linearisation at the plant: ratio of the smallest non-zero to the
        // largest singular value.  Computed independently of the solver (finite-difference Jacobian of
        // the error measures, own Jacobi eigenvalue routine) for all but the largest systems, where the
        // solver's own SVD hook is used (and a failure of that analysis is a violation, not an excuse).
        let sigma: Vec<f64> = if xs.len() <= 64 {
            fd_singular_values(&sys.reqs, &xs)
        } else {
            let mut at_plant = sys.clone();
            at_plant.guesses = xs.iter().enumerate().map(|(i, v)| (i as u32, *v)).collect();
            vh::trace_start();
            let ra = solve_analysis(&at_plant.reqs, at_plant.guesses.clone(), at_plant.config());
            let ev = vh::trace_take();
            if ra.is_err() {
                // (a failure of the freedom analysis itself - faer's SVD not converging, known finding F18 -
                // is not C02's business; the system is then judged without a conditioning estimate)
                analysis_failed += 1;
            }
            ev.iter().rev().find_map(|e| if let TraceEvent::Dof { sigma, .. } = e { Some(sigma.clone()) } else { None }).unwrap_or_default()
        };
        let smax = sigma.iter().cloned().fold(0.0f64, f64::max);
        let smin_nz = sigma.iter().cloned().filter(|s| *s > 1e-9 * smax).fold(f64::INFINITY, f64::min);
        if (sigma.is_empty() && xs.len() <= 64) || (!sigma.is_empty() && (smax == 0.0 || smin_nz / smax < 1e-4)) {
            excl_illcond += 1;
            continue;
        }
        checked += 1;
        if sigma.iter().filter(|s| **s > 1e-9 * smax).count() >= xs.len() {
            full_rank += 1;
        }
        let d0: f64 = x0.iter().zip(&xs).map(|(a, b)| (a - b) * (a - b)).sum::<f64>().sqrt();
        let mut bad = |what: String, sig: String| {
            out.push(Violation { property: "C02", what, signature: sig, system: Some(sys.clone()), extra: format!("pert {pert} scale {} sigma_ratio {:.2e}", sys.scale, smin_nz / smax) })
        };
        let kinds: Vec<&str> = {
            let mut k: Vec<&str> = sys.reqs.iter().map(|r| r.constraint().constraint_kind()).collect();
            k.sort();
            k.dedup();
            k
        };
        // weakly determined plants (sigma_min/sigma_max below what Newton-Kantorovich needs for a ball of
        // this size): no clause of the property is guaranteed even in exact arithmetic; violations there
        // get their own signature suffix (reported under known finding F15)
        let weak_all = smin_nz / smax < (3.0 * d0 / sys.scale.max(1e-9)).max(0.05);
        // ... unless an independent reference iteration (dense damped Gauss-Newton with a finite-
        // difference Jacobian, no code shared with the solver's derivative / sparse / stopping logic)
        // does solve the same system from the same guess in a handful of rounds and stays within the
        // 1.5x bound: then conditioning is no excuse
        let reference_ok = || -> bool {
            if xs.len() > 260 { return false; }
            match reference_gauss_newton(&sys.reqs, &x0, sys.convergence_tolerance.max(1e-10), 8) {
                Some((_, xr)) => {
                    let d1: f64 = xr.iter().zip(&x0).map(|(a, b)| (a - b) * (a - b)).sum::<f64>().sqrt();
                    d1 <= 1.5 * d0 + 1e-9 * sys.scale.max(1.0)
                }
                None => false,
            }
        };
        let wk = if weak_all && !reference_ok() { "-ill-conditioned" } else { "" };
        // a plant at which the independent reference iteration is slow or fails as well is degenerate in
        // the sense that matters here (singular solution: linear, not Newton-type, convergence)
        let reference_fast = || reference_gauss_newton(&sys.reqs, &x0, sys.convergence_tolerance.max(1e-10), 8).is_some();
        // a singular solution: the equations' linearisation loses rank exactly at the plant (equations
        // that are redundant only there, e.g. a point-line distance beside a perpendicular and a
        // length), while nearby points have the generic, higher rank.  Newton-type convergence is not
        // available at such a solution in exact arithmetic either; it is degenerate in the property's
        // sense.  Decided from finite differences of the error measures (not the solver's Jacobian or
        // SVD), and only consulted when a violation is about to be reported.
        let singular_solution = || -> bool {
            if xs.len() > 260 { return false; }
            let at_plant = fd_rank(&sys.reqs, &xs, 1e-5);
            let near = fd_rank(&sys.reqs, &x0, 1e-5);
            at_plant < near
        };
        match solve(&sys.reqs, sys.guesses.clone(), sys.config()) {
            Err(_) if wk.is_empty() && singular_solution() => excl_degenerate += 1,
            Ok(o) if wk.is_empty() && (o.is_unsatisfied() || o.iterations() > 8) && singular_solution() => excl_degenerate += 1,
            Err(e) => bad(format!("solve fails ({:?}) although every guess is within {pert}*scale of an exact solution", e.error), format!("fails-near-solution{wk}:{}", kinds.join("+"))),
            Ok(o) => {
                iter_hist[o.iterations().min(9)] += 1;
                if o.is_unsatisfied() {
                    bad(format!("unsatisfied {:?} although started within {pert}*scale of an exact solution", o.unsatisfied()), format!("unsatisfied-near-solution{wk}:{}", kinds.join("+")));
                } else if o.iterations() > 8 && xs.len() <= 260 && !reference_fast() {
                    excl_illcond += 1;
                } else if o.iterations() > 8 {
                    bad(format!("{} iterations from within {pert}*scale of an exact solution", o.iterations()), format!("slow-near-solution{wk}:{}", kinds.join("+")));
                } else {
                    let d1: f64 = o.final_values().iter().zip(&x0).map(|(a, b)| (a - b) * (a - b)).sum::<f64>().sqrt();
                    if d1 > 1.5 * d0 + 1e-9 * sys.scale.max(1.0) {
                        // under-determined: fewer non-negligible singular values than variables
                        let rank = sigma.iter().filter(|s| **s > 1e-9 * smax).count();
                        let under = rank < xs.len();
                        // weakly determined: full rank, but sigma_min/sigma_max below what Newton-Kantorovich
                        // needs for a 1e-2 ball (about 2*pert*sqrt(n)): the nearby solution's basin is smaller
                        // than the ball, in exact arithmetic too; the iterates slide along the weak direction
                        let weak = smin_nz / smax < (3.0 * d0 / sys.scale.max(1e-9)).max(0.05);
                        // the known finding F15 is about sliding along the solution set "always still within
                        // the sketch scale": a result farther than ten times the sketch's size from the guess is
                        // something else
                        let bucket = if d1 > 10.0 * sys.scale.max(1e-9) { "beyond-the-sketch" } else if under { "under-determined" } else if weak && wk != "" { "ill-conditioned" } else { "fully-determined" };
                        bad(format!("result is {d1:.3e} from the guess, more than 1.5 x the distance {d0:.3e} from the guess to the planted solution (kinds: {})", kinds.join("+")), format!("jumps-away-{bucket}"));
                    }
                }
            }
        }
    }
    ezpz_verif_harness::oracle::print_signature_counts(&out);
    let mut seen = std::collections::BTreeSet::new();
    for v in &out {
        if seen.insert(v.signature.clone()) {
            println!("VIOLATION {}", v.to_json());
        }
    }
    println!(
        "STATS {{\"systems\": {systems}, \"checked\": {checked}, \"excluded_not_exact\": {excl_not_exact}, \"excluded_degenerate\": {excl_degenerate}, \"excluded_branch_switch\": {excl_branch}, \"excluded_ill_conditioned\": {excl_illcond}, \"with_short_feature\": {short_features}, \"fully_pinned\": {fully_pinned}, \"full_rank\": {full_rank}, \"large_systems_whose_analysis_failed\": {analysis_failed}, \"iterations_hist\": {:?}, \"violations\": {}}}",
        iter_hist,
        out.len()
    );
}
