//! corr-trace: records real solves (both entry points) and writes the `S` records for the Lean
//! driver together with the implementation's results.
//! Usage: corr_trace <seed> <n-systems> <out-dir> [classes=planted,linear,prio,contra,malformed]
use ezpz_verif_harness::gen_sys::SHAPES;
use ezpz_verif_harness::planted::*;
use ezpz_verif_harness::rng::Rng;
use ezpz_verif_harness::trace::*;
use std::io::Write;

pub fn gen_system(rng: &mut Rng, class: &str) -> System {
    match class {
        "planted" => {
            let pert = *rng.pick(&[0.0, 1e-3, 1e-2, 1e-2, 0.3]);
            // now and then a sketch several times larger than the usual one (size-dependent paths)
            let max_cons = if rng.chance(1, 25) { 60 } else { 8 };
            gen_planted(rng, max_cons, pert, &SHAPES)
        }
        "linear" => if rng.chance(1, 25) { gen_linear(rng, 40, 70) } else { gen_linear(rng, 6, 10) },
        "prio" => {
            let base = if rng.chance(1, 2) {
                gen_planted(rng, 6, 1e-2, &SHAPES)
            } else {
                gen_linear(rng, 4, 8)
            };
            let s = with_priorities(rng, base);
            if rng.chance(1, 2) { with_contradictions(rng, s) } else { s }
        }
        "contra" => {
            let base = if rng.chance(1, 2) {
                gen_planted(rng, 5, 1e-2, &SHAPES)
            } else {
                gen_linear(rng, 4, 6)
            };
            with_contradictions(rng, base)
        }
        "malformed" => gen_malformed(rng),
        "pinned" => gen_pinned_degenerate(rng),
        "large" => gen_large_one_off(rng),
        "collapsed" => {
            let b = gen_planted(rng, 10, 1e-2, &SHAPES);
            let b = if rng.chance(1, 3) { with_priorities(rng, b) } else { b };
            with_collapsed_guess(rng, b)
        }
        "disparity" => gen_disparity(rng),
        "resolve" => {
            // re-solve from a previous result: contradictory, conflicting, prioritised or plain systems
            let b = match rng.below(4) {
                0 => { let b = gen_linear(rng, 4, 6); with_contradictions(rng, b) }
                1 => { let b = gen_planted(rng, 8, 1e-2, &SHAPES); with_mild_conflicts(rng, b) }
                2 => { let b = gen_planted(rng, 6, 1e-2, &SHAPES); let b = with_priorities(rng, b); with_contradictions(rng, b) }
                _ => gen_planted(rng, 6, 0.1, &SHAPES),
            };
            with_resolve(b)
        }
        "conflict" => {
            let b = gen_planted(rng, 8, 1e-2, &SHAPES);
            with_mild_conflicts(rng, b)
        }
        "caps" => {
            let mut s = gen_planted(rng, 6, 0.2, &SHAPES);
            s.max_iterations = *rng.pick(&[0, 1, 2, 3, 4, 6, 10, 35, 200]);
            s.convergence_tolerance = *rng.pick(&[1e-3, 1e-6, 1e-8, 1e-10, 1e-12]);
            s.step_tolerance = *rng.pick(&[1e-12, 1e-9, 1e-15]);
            if rng.chance(1, 3) { with_priorities(rng, s) } else { s }
        }
        _ => panic!("unknown class {class}"),
    }
}

fn main() {
    let args: Vec<String> = std::env::args().collect();
    let seed: u64 = args[1].parse().unwrap();
    let n: usize = args[2].parse().unwrap();
    let out_dir = &args[3];
    let classes: Vec<String> = args
        .get(4)
        .map(|s| s.split(',').map(|x| x.to_owned()).collect())
        .unwrap_or_else(|| {
            ["planted", "linear", "prio", "contra", "malformed", "caps", "conflict", "disparity", "collapsed", "pinned", "resolve", "large"]
                .iter()
                .map(|s| s.to_string())
                .collect()
        });
    std::panic::set_hook(Box::new(|_| {}));
    let mut rng = Rng::new(seed);
    let f = |name: &str| std::io::BufWriter::new(std::fs::File::create(format!("{out_dir}/{name}")).unwrap());
    let (mut cases, mut imp, mut iters, mut meta) = (f("trace.cases"), f("trace.impl"), f("trace.iters"), f("trace.meta"));
    for i in 0..n {
        let class = &classes[i % classes.len()];
        let sys = gen_system(&mut rng, class);
        for analysis in [false, true] {
            let (res, events) = run_traced(&sys, analysis);
            let (t, dump) = enc_trace(&events, analysis);
            writeln!(cases, "{} {}", enc_system_head(&sys, analysis), t).unwrap();
            writeln!(imp, "{}", res.line()).unwrap();
            writeln!(iters, "{}", dump).unwrap();
            writeln!(meta, "{} {} {} {}", class, sys.reqs.len(), sys.guesses.len(), analysis as u8).unwrap();
        }
    }
}
