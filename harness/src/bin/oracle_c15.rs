//! C15 oracle on the real code.  Angle lints: a LinesAtAngle(Other) request whose angle is 0/180/360
//! degrees (resp. +-90) in either unit gets a 'use Parallel' (resp. 'use Perpendicular') warning
//! naming it, also when the solve fails; angles more than 0.01 degrees from every multiple of 90,
//! and other kinds, never get one; the two are never confused.  Degeneracy notices: exactly the
//! requests whose evaluation raised the flag at a visited configuration; at least one, naming the
//! right request, when the initial guess collapses that request's geometry; none when starting near
//! a non-degenerate solution.
//! Usage: oracle_c15 <seed> <n>
use ezpz_verif_harness::gen_sys::SHAPES;
use ezpz_verif_harness::oracle::*;
use ezpz_verif_harness::planted::*;
use ezpz_verif_harness::rng::Rng;
use kcl_ezpz::datatypes::inputs::*;
use kcl_ezpz::datatypes::{Angle, AngleKind};
use kcl_ezpz::verif_hooks::{self as vh, TraceEvent};
use kcl_ezpz::*;
use std::f64::consts::PI;

fn main() {
    let args: Vec<String> = std::env::args().collect();
    let seed: u64 = args[1].parse().unwrap();
    let n: usize = args[2].parse().unwrap();
    ezpz_verif_harness::oracle::arm_crash_reporter("C15");
    let mut rng = Rng::new(seed);
    let mut out: Vec<Violation> = Vec::new();
    let (mut systems, mut angle_reqs, mut special, mut lints, mut degen_checked, mut collapsed, mut clean_starts, mut healthy_audits) = (0usize, 0usize, 0usize, 0usize, 0usize, 0usize, 0usize, 0usize);
    for i in 0..n {
        // a system with angle requests drawn from a dense set around the special values, both units
        let sys = match i % 3 {
            0 => gen_planted(&mut rng, 6, 1e-2, &SHAPES),
            1 => gen_linear(&mut rng, 4, 5),
            _ => gen_planted(&mut rng, 4, 0.2, &SHAPES),
        };
        let mut sys = maybe_large(&mut rng, i, sys);
        if i % 3 == 0 && rng.chance(1, 6) {
            sys = with_short_feature(&mut rng, sys);
        }
        let nvars = sys.guesses.len();
        if nvars >= 8 {
            let k = rng.range(1, 3);
            for _ in 0..k {
                let base = *rng.pick(&[0.0, 90.0, -90.0, 180.0, 360.0, 270.0, -180.0, 45.0, 450.0]);
                let off = *rng.pick(&[0.0, 0.0, 5e-5, -5e-5, 9e-5, -9e-5, 0.011, -0.011, 0.02, 0.5, 1e-3, 3e-4]);
                let deg = base + off;
                let ang = if rng.chance(1, 2) { Angle::from_degrees(deg) } else { Angle::from_radians(deg * PI / 180.0) };
                let ids: Vec<u32> = (0..8).map(|_| rng.below(nvars) as u32).collect();
                let l0 = DatumLineSegment::new(DatumPoint::new_xy(ids[0], ids[1]), DatumPoint::new_xy(ids[2], ids[3]));
                let l1 = DatumLineSegment::new(DatumPoint::new_xy(ids[4], ids[5]), DatumPoint::new_xy(ids[6], ids[7]));
                let prio = *rng.pick(&[0u32, 0, 0, 1]);
                sys.reqs.push(ConstraintRequest::new(Constraint::LinesAtAngle(l0, l1, AngleKind::Other(ang)), prio));
            }
        }
        // sometimes make the solve fail
        if rng.chance(1, 6) {
            sys.max_iterations = *rng.pick(&[0, 1]);
        }
        if rng.chance(1, 10) {
            sys.reqs.push(ConstraintRequest::new(Constraint::Fixed(nvars as u32 + 1, 0.0), 0));
        }
        // sometimes collapse geometry in the guess
        let collapse = rng.chance(1, 3);
        if collapse {
            let v = sys.scale * rng.sym();
            for g in sys.guesses.iter_mut() {
                if rng.chance(1, 2) { g.1 = v; }
            }
        }
        systems += 1;
        ezpz_verif_harness::oracle::note_current(&sys);
        vh::trace_start();
        let res = solve(&sys.reqs, sys.guesses.clone(), sys.config());
        let ev = vh::trace_take();
        let (warnings, attempted_max): (Vec<Warning>, u32) = match &res {
            Ok(o) => (o.warnings().to_vec(), o.priority_solved()),
            Err(f) => (f.warnings.clone(), sys.reqs.iter().map(|r| r.priority()).min().unwrap_or(0)),
        };
        let mut bad = |what: String, sig: &str| out.push(Violation { property: "C15", what, signature: sig.into(), system: Some(sys.clone()), extra: describe(&match &res { Ok(_) => Err(FailureOutcome { error: NonLinearSystemError::DidNotConverge, warnings: vec![], num_vars: 0, num_eqs: 0 }), Err(_) => Err(FailureOutcome { error: NonLinearSystemError::DidNotConverge, warnings: vec![], num_vars: 0, num_eqs: 0 }) }) });
        // --- angle lints
        for (idx, r) in sys.reqs.iter().enumerate() {
            let lint_par = warnings.iter().any(|w| w.about_constraint == Some(idx) && matches!(w.content, WarningContent::ShouldBeParallel(_)));
            let lint_perp = warnings.iter().any(|w| w.about_constraint == Some(idx) && matches!(w.content, WarningContent::ShouldBePerpendicular(_)));
            if lint_par && lint_perp {
                bad(format!("request {idx} gets both angle lints"), "lint-confused");
            }
            match r.constraint() {
                Constraint::LinesAtAngle(_, _, AngleKind::Other(a)) => {
                    angle_reqs += 1;
                    // the requested angle in degrees, computed here from the raw value and unit (not by
                    // the implementation's own conversion)
                    let deg = { let (is_deg, v) = ezpz_verif_harness::codec::angle_parts(a); if is_deg { v } else { v * 180.0 / PI } };
                    let near = |t: f64| (deg - t).abs() < 1e-9 * (1.0 + t.abs());
                    let is_par = near(0.0) || near(180.0) || near(360.0);
                    let is_perp = near(90.0) || near(-90.0);
                    let far_from_multiples = {
                        let m = (deg / 90.0).round() * 90.0;
                        (deg - m).abs() > 0.01
                    };
                    let attempted = r.priority() <= attempted_max;
                    if is_par || is_perp { special += 1; }
                    if lint_par || lint_perp { lints += 1; }
                    if is_par && !lint_par {
                        bad(format!("request {idx} ({deg} degrees) gets no 'use Parallel' warning ({})", if res.is_ok() { "solve ok" } else { "solve failed" }), if attempted { "lint-missing" } else { "special-angle-request-outside-returned-subset" });
                    }
                    if is_perp && !lint_perp {
                        bad(format!("request {idx} ({deg} degrees) gets no 'use Perpendicular' warning"), if attempted { "lint-missing" } else { "special-angle-request-outside-returned-subset" });
                    }
                    if is_par && lint_perp || is_perp && lint_par {
                        bad(format!("request {idx} ({deg} degrees) gets the wrong lint"), "lint-confused");
                    }
                    if far_from_multiples && (lint_par || lint_perp) {
                        bad(format!("request {idx} ({deg} degrees, more than 0.01 from every multiple of 90) gets an angle lint"), "lint-spurious");
                    }
                }
                _ => {
                    if lint_par || lint_perp {
                        bad(format!("request {idx} ({}) gets an angle lint", r.constraint().constraint_kind()), "lint-wrong-kind");
                    }
                }
            }
        }
        // --- degeneracy notices against the flags at visited configurations of the returned level
        let returned_level = match &res { Ok(o) => Some(o.priority_solved()), Err(_) => sys.reqs.iter().map(|r| r.priority()).min() };
        let mut visited: Vec<Vec<f64>> = Vec::new();
        {
            let mut cur: Vec<Vec<f64>> = Vec::new();
            let mut cur_level = None;
            for e in &ev {
                match e {
                    TraceEvent::SolveInnerStart { priorities, .. } => {
                        if cur_level == returned_level && !cur.is_empty() { visited = cur.clone(); }
                        cur.clear();
                        cur_level = priorities.iter().copied().max();
                    }
                    TraceEvent::Iter { x, .. } => cur.push(x.clone()),
                    _ => {}
                }
            }
            if cur_level == returned_level && !cur.is_empty() { visited = cur; }
        }
        if let Some(level) = returned_level {
            if !visited.is_empty() {
                degen_checked += 1;
                for (idx, r) in sys.reqs.iter().enumerate() {
                    let warned = warnings.iter().any(|w| w.about_constraint == Some(idx) && matches!(w.content, WarningContent::Degenerate));
                    let flagged = r.priority() <= level && visited.iter().any(|x| {
                        let inb = vh::nonzeroes(r.constraint()).iter().flatten().all(|id| (*id as usize) < x.len());
                        inb && (vh::residual(r.constraint(), x).1 || vh::jacobian_rows(r.constraint(), x).1)
                    });
                    // independent of the implementation's flags: by the geometric specification the request
                    // was healthy (not degenerate, outside every documented guard band, not collapsed) at
                    // every configuration this level visited, yet a Degenerate warning names it
                    let healthy_throughout = r.priority() <= level && visited.iter().all(|x| {
                        let inb = vh::nonzeroes(r.constraint()).iter().flatten().all(|id| (*id as usize) < x.len());
                        inb && x.iter().all(|v| v.is_finite())
                            && !ezpz_verif_harness::geom::geom_err(r.constraint(), x, sys.scale).degenerate
                            && !ezpz_verif_harness::geom::in_guard_band(r.constraint(), x)
                            && !ezpz_verif_harness::geom::collapsed(r.constraint(), x)
                    });
                    if healthy_throughout { healthy_audits += 1; }
                    if warned && healthy_throughout {
                        bad(format!("Degenerate warning names request {idx} ({}), whose geometry was healthy by the independent specification at every visited configuration", r.constraint().constraint_kind()), "degenerate-warning-on-healthy-geometry");
                    }
                    if warned && !flagged {
                        bad(format!("Degenerate warning names request {idx} ({}), whose geometry was never degenerate at a visited configuration", r.constraint().constraint_kind()), "degenerate-warning-spurious");
                    }
                    if flagged && !warned {
                        bad(format!("request {idx} ({}) was degenerate at a visited configuration but no warning names it", r.constraint().constraint_kind()), "degenerate-warning-missing");
                    }
                }
            }
        }
        // --- independent of the implementation's flags: a request of the returned level whose geometry
        // is exactly collapsed in the initial guess must be named by a Degenerate warning (Ok or Err)
        if let Some(level) = returned_level {
            if sys.max_iterations >= 1 {
                let x0: Vec<f64> = sys.guesses.iter().map(|g| g.1).collect();
                let dense = sys.guesses.iter().enumerate().all(|(k, g)| g.0 as usize == k);
                let all_in_range = sys.reqs.iter().filter(|r| r.priority() <= level).all(|r| vh::nonzeroes(r.constraint()).iter().flatten().all(|id| (*id as usize) < x0.len()));
                if dense && all_in_range && x0.iter().all(|v| v.is_finite()) {
                    for (idx, r) in sys.reqs.iter().enumerate() {
                        if r.priority() <= level && ezpz_verif_harness::geom::collapsed(r.constraint(), &x0) {
                            let warned = warnings.iter().any(|w| w.about_constraint == Some(idx) && matches!(w.content, WarningContent::Degenerate));
                            if !warned {
                                bad(format!("request {idx} ({}) is exactly collapsed in the initial guess (zero-length line / coincident defining points / zero arc radius) but no Degenerate warning names it", r.constraint().constraint_kind()), "collapse-at-guess-not-reported");
                            }
                        }
                    }
                }
            }
        }
        if collapse { collapsed += 1; }
        // --- none when starting near a non-degenerate solution
        if i % 3 == 0 && !collapse && sys.max_iterations > 1 {
            if let (Some(xs), Ok(o)) = (&sys.planted, &res) {
                let nondeg = sys.reqs.iter().all(|r| {
                    vh::nonzeroes(r.constraint()).iter().flatten().all(|id| (*id as usize) < xs.len())
                        && !ezpz_verif_harness::geom::geom_err(r.constraint(), xs, sys.scale).degenerate
                        && !ezpz_verif_harness::geom::in_guard_band(r.constraint(), xs)
                });
                let only_planted = sys.reqs.iter().all(|r| !matches!(r.constraint(), Constraint::LinesAtAngle(_, _, AngleKind::Other(_))) || true);
                if nondeg && only_planted && o.is_satisfied() && o.iterations() <= 8 {
                    clean_starts += 1;
                    if o.warnings().iter().any(|w| matches!(w.content, WarningContent::Degenerate)) && sys.reqs.len() == sys.reqs.iter().filter(|r| r.priority() == 0).count() {
                        // (only reported when the flags above also say nothing was degenerate: covered by
                        // degenerate-warning-spurious; a warning with a genuinely flagged iterate is truthful)
                    }
                }
            }
        }
    }
    ezpz_verif_harness::oracle::print_signature_counts(&out);
    let mut seen = std::collections::BTreeSet::new();
    for v in &out {
        if seen.insert(v.signature.clone()) {
            println!("VIOLATION {}", v.to_json());
        }
    }
    let large_systems = large_count();
    println!("STATS {{\"systems\": {systems}, \"large_systems\": {large_systems}, \"angle_requests\": {angle_reqs}, \"special_angles\": {special}, \"lints_seen\": {lints}, \"degeneracy_audits\": {degen_checked}, \"healthy_request_audits\": {healthy_audits}, \"collapsed_guess_systems\": {collapsed}, \"clean_starts\": {clean_starts}, \"violations\": {}}}", out.len());
}
