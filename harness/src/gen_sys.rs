//! Generators: single constraints (all kinds, all aliasing patterns), value vectors, and whole
//! systems (planted-solution, linear, contradictory, prioritised).
use crate::rng::Rng;
use kcl_ezpz::datatypes::inputs::*;
use kcl_ezpz::datatypes::{Angle, AngleKind};
use kcl_ezpz::Constraint;

/// The 27 constraint shapes (23 kinds, with the angle kinds split by unit).
pub const SHAPES: [&str; 27] = [
    "LineTangentToCircle",
    "CircleTangentToCircle",
    "Distance",
    "VerticalDistance",
    "HorizontalDistance",
    "Vertical",
    "Horizontal",
    "LinesAtAngleParallel",
    "LinesAtAnglePerpendicular",
    "LinesAtAngleDeg",
    "LinesAtAngleRad",
    "Fixed",
    "ScalarEqual",
    "PointsCoincident",
    "CircleRadius",
    "LinesEqualLength",
    "ArcRadius",
    "Arc",
    "Midpoint",
    "PointLineDistance",
    "VerticalPointLineDistance",
    "HorizontalPointLineDistance",
    "Symmetric",
    "PointArcCoincident",
    "ArcLength",
    "ArcAngleDeg",
    "ArcAngleRad",
];

/// Number of id slots and of numeric parameters of each shape.
pub fn shape_arity(shape: &str) -> (usize, usize) {
    match shape {
        "LineTangentToCircle" => (7, 0),
        "CircleTangentToCircle" => (6, 0),
        "Distance" | "VerticalDistance" | "HorizontalDistance" => (4, 1),
        "Vertical" | "Horizontal" | "PointsCoincident" => (4, 0),
        "LinesAtAngleParallel" | "LinesAtAnglePerpendicular" | "LinesEqualLength" | "Symmetric"
        | "PointArcCoincident" => (8, 0),
        "LinesAtAngleDeg" | "LinesAtAngleRad" => (8, 1),
        "Fixed" => (1, 1),
        "ScalarEqual" => (2, 0),
        "CircleRadius" => (3, 1),
        "ArcRadius" | "ArcLength" | "ArcAngleDeg" | "ArcAngleRad" | "PointLineDistance"
        | "VerticalPointLineDistance" | "HorizontalPointLineDistance" => (6, 1),
        "Arc" | "Midpoint" => (6, 0),
        _ => panic!("unknown shape {shape}"),
    }
}

fn pt(ids: &[u32], i: usize) -> DatumPoint {
    DatumPoint::new_xy(ids[i], ids[i + 1])
}
fn seg(ids: &[u32], i: usize) -> DatumLineSegment {
    DatumLineSegment::new(pt(ids, i), pt(ids, i + 2))
}
fn circ(ids: &[u32], i: usize) -> DatumCircle {
    DatumCircle {
        center: pt(ids, i),
        radius: DatumDistance::new(ids[i + 2]),
    }
}
/// Slots: center, start, end.
fn arc(ids: &[u32], i: usize) -> DatumCircularArc {
    DatumCircularArc {
        center: pt(ids, i),
        start: pt(ids, i + 2),
        end: pt(ids, i + 4),
    }
}

/// Build a constraint of the given shape from slot ids and parameters (same slot order as the codec).
pub fn build(shape: &str, ids: &[u32], params: &[f64]) -> Constraint {
    let (ni, np) = shape_arity(shape);
    assert!(ids.len() == ni && params.len() == np);
    match shape {
        "LineTangentToCircle" => Constraint::LineTangentToCircle(seg(ids, 0), circ(ids, 4)),
        "CircleTangentToCircle" => Constraint::CircleTangentToCircle(circ(ids, 0), circ(ids, 3)),
        "Distance" => Constraint::Distance(pt(ids, 0), pt(ids, 2), params[0]),
        "VerticalDistance" => Constraint::VerticalDistance(pt(ids, 0), pt(ids, 2), params[0]),
        "HorizontalDistance" => Constraint::HorizontalDistance(pt(ids, 0), pt(ids, 2), params[0]),
        "Vertical" => Constraint::Vertical(seg(ids, 0)),
        "Horizontal" => Constraint::Horizontal(seg(ids, 0)),
        "LinesAtAngleParallel" => {
            Constraint::LinesAtAngle(seg(ids, 0), seg(ids, 4), AngleKind::Parallel)
        }
        "LinesAtAnglePerpendicular" => {
            Constraint::LinesAtAngle(seg(ids, 0), seg(ids, 4), AngleKind::Perpendicular)
        }
        "LinesAtAngleDeg" => Constraint::LinesAtAngle(
            seg(ids, 0),
            seg(ids, 4),
            AngleKind::Other(Angle::from_degrees(params[0])),
        ),
        "LinesAtAngleRad" => Constraint::LinesAtAngle(
            seg(ids, 0),
            seg(ids, 4),
            AngleKind::Other(Angle::from_radians(params[0])),
        ),
        "Fixed" => Constraint::Fixed(ids[0], params[0]),
        "ScalarEqual" => Constraint::ScalarEqual(ids[0], ids[1]),
        "PointsCoincident" => Constraint::PointsCoincident(pt(ids, 0), pt(ids, 2)),
        "CircleRadius" => Constraint::CircleRadius(circ(ids, 0), params[0]),
        "LinesEqualLength" => Constraint::LinesEqualLength(seg(ids, 0), seg(ids, 4)),
        "ArcRadius" => Constraint::ArcRadius(arc(ids, 0), params[0]),
        "Arc" => Constraint::Arc(arc(ids, 0)),
        "Midpoint" => Constraint::Midpoint(seg(ids, 0), pt(ids, 4)),
        "PointLineDistance" => Constraint::PointLineDistance(pt(ids, 0), seg(ids, 2), params[0]),
        "VerticalPointLineDistance" => {
            Constraint::VerticalPointLineDistance(pt(ids, 0), seg(ids, 2), params[0])
        }
        "HorizontalPointLineDistance" => {
            Constraint::HorizontalPointLineDistance(pt(ids, 0), seg(ids, 2), params[0])
        }
        "Symmetric" => Constraint::Symmetric(seg(ids, 0), pt(ids, 4), pt(ids, 6)),
        "PointArcCoincident" => Constraint::PointArcCoincident(arc(ids, 0), pt(ids, 6)),
        "ArcLength" => Constraint::ArcLength(arc(ids, 0), params[0]),
        "ArcAngleDeg" => Constraint::ArcAngle(arc(ids, 0), Angle::from_degrees(params[0])),
        "ArcAngleRad" => Constraint::ArcAngle(arc(ids, 0), Angle::from_radians(params[0])),
        _ => unreachable!(),
    }
}

/// Canonical label of the aliasing pattern of a slot→id map (restricted growth string).
pub fn aliasing_pattern(ids: &[u32]) -> String {
    let mut seen: Vec<u32> = Vec::new();
    let mut out = String::new();
    for id in ids {
        let k = match seen.iter().position(|s| s == id) {
            Some(k) => k,
            None => {
                seen.push(*id);
                seen.len() - 1
            }
        };
        out.push(char::from_digit(k as u32, 36).unwrap_or('z'));
    }
    out
}

pub const SCALES: [f64; 6] = [1e-2, 1e-1, 1.0, 10.0, 100.0, 1e3];

/// A "nice" finite value at the given scale.
pub fn value(rng: &mut Rng, scale: f64) -> f64 {
    scale * rng.sym()
}

/// A special float: NaN, infinities, huge, subnormal, zeros.
pub fn special(rng: &mut Rng) -> f64 {
    *rng.pick(&[
        f64::NAN,
        f64::INFINITY,
        f64::NEG_INFINITY,
        1e300,
        -1e300,
        5e-324,
        -2.2e-308,
        0.0,
        -0.0,
        1e-160,
    ])
}

/// Parameter for a shape: a plausible distance / angle at the given scale.
pub fn param(rng: &mut Rng, shape: &str, scale: f64) -> f64 {
    match shape {
        "LinesAtAngleDeg" | "ArcAngleDeg" => {
            if rng.chance(1, 4) {
                *rng.pick(&[0.0, 90.0, -90.0, 180.0, 360.0, 45.0, 720.0, -270.0])
            } else {
                400.0 * rng.sym()
            }
        }
        "LinesAtAngleRad" | "ArcAngleRad" => {
            if rng.chance(1, 4) {
                *rng.pick(&[
                    0.0,
                    std::f64::consts::FRAC_PI_2,
                    -std::f64::consts::FRAC_PI_2,
                    std::f64::consts::PI,
                    2.0 * std::f64::consts::PI,
                    1.0,
                ])
            } else {
                7.0 * rng.sym()
            }
        }
        "Distance" | "CircleRadius" | "ArcRadius" | "ArcLength" => scale * rng.unit() * 2.0,
        _ => scale * rng.sym() * 2.0,
    }
}

/// One kernel case: a constraint of the given shape and an assignment vector.
pub struct KernelCase {
    pub shape: &'static str,
    pub ids: Vec<u32>,
    pub params: Vec<f64>,
    pub values: Vec<f64>,
    /// "regular", "aliased", "degenerate", "special", "oob"
    pub class: &'static str,
}

impl KernelCase {
    pub fn constraint(&self) -> Constraint {
        build(self.shape, &self.ids, &self.params)
    }
}

pub fn gen_kernel_case(rng: &mut Rng, shape: &'static str) -> KernelCase {
    let (ni, np) = shape_arity(shape);
    let scale = *rng.pick(&SCALES);
    let roll = rng.below(100);
    // Id assignment.
    let (ids, nvals, mut class): (Vec<u32>, usize, &'static str) = if roll < 45 {
        // distinct ids, shuffled positions in a slightly larger vector
        let n = ni + rng.below(3);
        let mut pool: Vec<u32> = (0..n as u32).collect();
        rng.shuffle(&mut pool);
        (pool[..ni].to_vec(), n, "regular")
    } else if roll < 85 {
        // small pool ⇒ aliasing
        let k = rng.range(1, ni.max(2) - 1).max(1);
        let ids: Vec<u32> = (0..ni).map(|_| rng.below(k) as u32).collect();
        (ids, k + rng.below(2), "aliased")
    } else if roll < 93 {
        // some id out of range
        let n = rng.range(0, ni);
        let ids: Vec<u32> = (0..ni).map(|_| rng.below(ni + 2) as u32).collect();
        (ids, n, "oob")
    } else {
        let n = ni;
        ((0..n as u32).collect(), n, "regular")
    };
    let mut values: Vec<f64> = (0..nvals).map(|_| value(rng, scale)).collect();
    let mut params: Vec<f64> = (0..np).map(|_| param(rng, shape, scale)).collect();
    let roll2 = rng.below(100);
    if roll2 < 12 && nvals > 0 {
        // degenerate geometry: copy values so that points coincide / radii vanish
        let reps = rng.range(1, 3);
        for _ in 0..reps {
            let i = rng.below(nvals);
            let j = rng.below(nvals);
            values[i] = if rng.chance(1, 3) { 0.0 } else { values[j] };
            if i + 1 < nvals && j + 1 < nvals && rng.chance(2, 3) {
                values[i + 1] = values[j + 1];
            }
        }
        if class == "regular" {
            class = "degenerate";
        }
    } else if roll2 < 20 {
        // special floats
        if nvals > 0 {
            let reps = rng.range(1, 2);
            for _ in 0..reps {
                let i = rng.below(nvals);
                values[i] = special(rng);
            }
        }
        if np > 0 && rng.chance(1, 3) {
            params[0] = special(rng);
        }
        class = if class == "oob" { "oob" } else { "special" };
    }
    KernelCase {
        shape,
        ids,
        params,
        values,
        class,
    }
}
