//! Planted-solution systems: geometry `X*` is built constructively so that every generated
//! constraint holds exactly (up to rounding) at `X*`; entities are shared between constraints.
use crate::rng::Rng;
use kcl_ezpz::datatypes::inputs::*;
use kcl_ezpz::datatypes::{Angle, AngleKind};
use kcl_ezpz::{Config, Constraint, ConstraintRequest};
use std::f64::consts::PI;

#[derive(Clone)]
pub struct System {
    pub reqs: Vec<ConstraintRequest>,
    pub guesses: Vec<(u32, f64)>,
    pub max_iterations: usize,
    pub convergence_tolerance: f64,
    pub step_tolerance: f64,
    /// The planted solution, when there is one.
    pub planted: Option<Vec<f64>>,
    pub class: &'static str,
    pub scale: f64,
}

impl System {
    /// The configuration, built through the public builder methods in one of their six possible
    /// orders (chosen from the system's sizes, so every suite exercises every order): each setter
    /// must leave the other settings alone.
    pub fn config(&self) -> Config {
        let (m, c, s) = (self.max_iterations, self.convergence_tolerance, self.step_tolerance);
        let d = Config::default();
        match (self.reqs.len() + self.guesses.len() + m) % 6 {
            0 => d.with_max_iterations(m).with_convergence_tolerance(c).with_step_tolerance(s),
            1 => d.with_max_iterations(m).with_step_tolerance(s).with_convergence_tolerance(c),
            2 => d.with_convergence_tolerance(c).with_max_iterations(m).with_step_tolerance(s),
            3 => d.with_convergence_tolerance(c).with_step_tolerance(s).with_max_iterations(m),
            4 => d.with_step_tolerance(s).with_max_iterations(m).with_convergence_tolerance(c),
            _ => d.with_step_tolerance(s).with_convergence_tolerance(c).with_max_iterations(m),
        }
    }
    pub fn default_cfg(reqs: Vec<ConstraintRequest>, guesses: Vec<(u32, f64)>, class: &'static str) -> Self {
        System {
            reqs,
            guesses,
            max_iterations: 35,
            convergence_tolerance: 1e-8,
            step_tolerance: 1e-12,
            planted: None,
            class,
            scale: 1.0,
        }
    }
}

#[derive(Clone, Default)]
pub struct Planted {
    pub xs: Vec<f64>,
    pub points: Vec<DatumPoint>,
    pub circles: Vec<DatumCircle>,
    pub arcs: Vec<DatumCircularArc>,
    /// arcs that sweep more than a half turn (used by the kinds whose meaning does not depend on the
    /// minor sector: radius, is-arc, length, angle)
    pub reflex_arcs: Vec<DatumCircularArc>,
    pub cons: Vec<Constraint>,
    pub scale: f64,
    /// Where the sketch lives: every generated position is `origin + scale * (..)`.
    pub origin: (f64, f64),
}

impl Planted {
    pub fn new(scale: f64) -> Self {
        Planted {
            scale,
            ..Default::default()
        }
    }
    fn scalar(&mut self, v: f64) -> u32 {
        self.xs.push(v);
        (self.xs.len() - 1) as u32
    }
    pub fn point(&mut self, x: f64, y: f64) -> DatumPoint {
        let p = DatumPoint::new_xy(self.scalar(x), self.scalar(y));
        self.points.push(p);
        p
    }
    /// A point that belongs to a circle or arc (not added to the pool of free points).
    fn inner_point(&mut self, x: f64, y: f64) -> DatumPoint {
        DatumPoint::new_xy(self.scalar(x), self.scalar(y))
    }
    pub fn circle(&mut self, cx: f64, cy: f64, r: f64) -> DatumCircle {
        let center = self.inner_point(cx, cy);
        let c = DatumCircle {
            center,
            radius: DatumDistance::new(self.scalar(r)),
        };
        self.circles.push(c);
        c
    }
    pub fn arc(&mut self, cx: f64, cy: f64, r: f64, a0: f64, a1: f64) -> DatumCircularArc {
        let start = self.inner_point(cx + r * a0.cos(), cy + r * a0.sin());
        let end = self.inner_point(cx + r * a1.cos(), cy + r * a1.sin());
        let center = self.inner_point(cx, cy);
        let a = DatumCircularArc { center, start, end };
        self.arcs.push(a);
        a
    }
    pub fn xy(&self, p: &DatumPoint) -> (f64, f64) {
        (self.xs[p.x_id as usize], self.xs[p.y_id as usize])
    }
    fn rand_xy(&self, rng: &mut Rng) -> (f64, f64) {
        (self.origin.0 + self.scale * rng.sym(), self.origin.1 + self.scale * rng.sym())
    }
    /// Any point-like datum: free points, circle centres, arc points.
    fn any_point(&mut self, rng: &mut Rng) -> DatumPoint {
        let mut pool: Vec<DatumPoint> = self.points.clone();
        for c in &self.circles {
            pool.push(c.center);
        }
        for a in &self.arcs {
            pool.push(a.center);
            pool.push(a.start);
            pool.push(a.end);
        }
        if pool.is_empty() || rng.chance(1, 5) {
            let (x, y) = self.rand_xy(rng);
            self.point(x, y)
        } else {
            *rng.pick(&pool)
        }
    }
    /// Two point-like data at a healthy distance from each other.
    fn two_points(&mut self, rng: &mut Rng) -> (DatumPoint, DatumPoint) {
        let p = self.any_point(rng);
        for _ in 0..8 {
            let q = self.any_point(rng);
            let (px, py) = self.xy(&p);
            let (qx, qy) = self.xy(&q);
            if (px - qx).hypot(py - qy) > 0.2 * self.scale
                && (px - qx).abs() > 0.1 * self.scale
                && (py - qy).abs() > 0.1 * self.scale
            {
                return (p, q);
            }
        }
        let (px, py) = self.xy(&p);
        let s = self.scale;
        let q = self.point(px + s * (0.3 + 0.7 * rng.unit()), py + s * (0.3 + 0.7 * rng.unit()));
        (p, q)
    }
    /// An axis-aligned segment (the commonest thing in a sketch): a point and a fresh point exactly
    /// above it (`vertical`) or exactly to its right.
    fn axis_segment(&mut self, rng: &mut Rng, vertical: bool) -> (DatumPoint, DatumPoint) {
        let p = self.any_point(rng);
        let (px, py) = self.xy(&p);
        let len = self.scale * (0.3 + 0.7 * rng.unit()) * if rng.chance(1, 2) { 1.0 } else { -1.0 };
        let q = if vertical { self.point(px, py + len) } else { self.point(px + len, py) };
        (p, q)
    }
    fn any_circle(&mut self, rng: &mut Rng) -> DatumCircle {
        if self.circles.is_empty() || rng.chance(1, 3) {
            let (x, y) = self.rand_xy(rng);
            let r = self.scale * (0.2 + rng.unit());
            self.circle(x, y, r)
        } else {
            *rng.pick(&self.circles)
        }
    }
    /// Like `any_arc`, but one time in five an arc of 200..330 degrees (start to end, counter-clockwise).
    fn any_arc_or_reflex(&mut self, rng: &mut Rng) -> DatumCircularArc {
        if !rng.chance(1, 5) {
            return self.any_arc(rng);
        }
        if self.reflex_arcs.is_empty() || rng.chance(1, 2) {
            let (x, y) = self.rand_xy(rng);
            let r = self.scale * (0.3 + rng.unit());
            let a0 = 2.0 * PI * rng.unit();
            let a1 = a0 + (200.0 + 130.0 * rng.unit()).to_radians();
            let start = self.inner_point(x + r * a0.cos(), y + r * a0.sin());
            let end = self.inner_point(x + r * a1.cos(), y + r * a1.sin());
            let center = self.inner_point(x, y);
            let a = DatumCircularArc { center, start, end };
            self.reflex_arcs.push(a);
            a
        } else {
            *rng.pick(&self.reflex_arcs)
        }
    }
    fn any_arc(&mut self, rng: &mut Rng) -> DatumCircularArc {
        if self.arcs.is_empty() || rng.chance(1, 3) {
            let (x, y) = self.rand_xy(rng);
            let r = self.scale * (0.3 + rng.unit());
            let a0 = 2.0 * PI * rng.unit();
            // sweep between 20 and 160 degrees, so that the arc is a proper minor arc
            let a1 = a0 + (0.35 + 2.4 * rng.unit());
            self.arc(x, y, r, a0, a1)
        } else {
            *rng.pick(&self.arcs)
        }
    }

    /// Add one constraint of the given planted shape; `X*` satisfies it by construction.
    pub fn add(&mut self, rng: &mut Rng, shape: &str) {
        let s = self.scale;
        match shape {
            "Distance" => {
                let (p, q) = self.two_points(rng);
                let (px, py) = self.xy(&p);
                let (qx, qy) = self.xy(&q);
                self.cons.push(Constraint::Distance(p, q, (px - qx).hypot(py - qy)));
            }
            "VerticalDistance" => {
                let (p, q) = self.two_points(rng);
                let d = self.xy(&p).1 - self.xy(&q).1;
                self.cons.push(Constraint::VerticalDistance(p, q, d));
            }
            "HorizontalDistance" => {
                let (p, q) = self.two_points(rng);
                let d = self.xy(&p).0 - self.xy(&q).0;
                self.cons.push(Constraint::HorizontalDistance(p, q, d));
            }
            "Vertical" => {
                let p = self.any_point(rng);
                let (px, py) = self.xy(&p);
                let q = self.point(px, py + s * (0.3 + rng.unit()) * if rng.chance(1, 2) { 1.0 } else { -1.0 });
                self.cons.push(Constraint::Vertical(DatumLineSegment::new(p, q)));
            }
            "Horizontal" => {
                let p = self.any_point(rng);
                let (px, py) = self.xy(&p);
                let q = self.point(px + s * (0.3 + rng.unit()) * if rng.chance(1, 2) { 1.0 } else { -1.0 }, py);
                self.cons.push(Constraint::Horizontal(DatumLineSegment::new(p, q)));
            }
            "LinesAtAngleParallel" | "LinesAtAnglePerpendicular" => {
                let (p, q) = self.two_points(rng);
                let (px, py) = self.xy(&p);
                let (qx, qy) = self.xy(&q);
                let r = self.any_point(rng);
                let (rx, ry) = self.xy(&r);
                let t = (0.4 + rng.unit()) * if rng.chance(1, 2) { 1.0 } else { -1.0 };
                let (dx, dy) = if shape == "LinesAtAngleParallel" {
                    (qx - px, qy - py)
                } else {
                    (-(qy - py), qx - px)
                };
                let sp = self.point(rx + t * dx, ry + t * dy);
                let kind = if shape == "LinesAtAngleParallel" {
                    AngleKind::Parallel
                } else {
                    AngleKind::Perpendicular
                };
                self.cons.push(Constraint::LinesAtAngle(
                    DatumLineSegment::new(p, q),
                    DatumLineSegment::new(r, sp),
                    kind,
                ));
            }
            "LinesAtAngleDeg" | "LinesAtAngleRad" => {
                let (p, q) = self.two_points(rng);
                let (r, t) = self.two_points(rng);
                let (px, py) = self.xy(&p);
                let (qx, qy) = self.xy(&q);
                let (rx, ry) = self.xy(&r);
                let (tx, ty) = self.xy(&t);
                let (v0x, v0y, v1x, v1y) = (qx - px, qy - py, tx - rx, ty - ry);
                let theta = (v0x * v1y - v0y * v1x).atan2(v0x * v1x + v0y * v1y)
                    + 2.0 * PI * (rng.below(3) as f64 - 1.0);
                let ang = if shape == "LinesAtAngleDeg" {
                    Angle::from_degrees(theta.to_degrees())
                } else {
                    Angle::from_radians(theta)
                };
                self.cons.push(Constraint::LinesAtAngle(
                    DatumLineSegment::new(p, q),
                    DatumLineSegment::new(r, t),
                    AngleKind::Other(ang),
                ));
            }
            "Fixed" => {
                if self.xs.is_empty() {
                    let (x, y) = self.rand_xy(rng);
                    self.point(x, y);
                }
                let id = rng.below(self.xs.len()) as u32;
                self.cons.push(Constraint::Fixed(id, self.xs[id as usize]));
            }
            "ScalarEqual" => {
                let c0 = self.any_circle(rng);
                let r = self.xs[c0.radius.id as usize];
                let (x, y) = self.rand_xy(rng);
                let c1 = self.circle(x, y, r);
                self.cons.push(Constraint::ScalarEqual(c0.radius.id, c1.radius.id));
            }
            "PointsCoincident" => {
                let p = self.any_point(rng);
                let (px, py) = self.xy(&p);
                let q = self.point(px, py);
                self.cons.push(Constraint::PointsCoincident(p, q));
            }
            "CircleRadius" => {
                let c = self.any_circle(rng);
                self.cons.push(Constraint::CircleRadius(c, self.xs[c.radius.id as usize]));
            }
            "LinesEqualLength" => {
                let (p, q) = self.two_points(rng);
                let (px, py) = self.xy(&p);
                let (qx, qy) = self.xy(&q);
                let len = (px - qx).hypot(py - qy);
                let r = self.any_point(rng);
                let (rx, ry) = self.xy(&r);
                let a = 2.0 * PI * rng.unit();
                let t = self.point(rx + len * a.cos(), ry + len * a.sin());
                self.cons.push(Constraint::LinesEqualLength(
                    DatumLineSegment::new(p, q),
                    DatumLineSegment::new(r, t),
                ));
            }
            "ArcRadius" => {
                let a = self.any_arc_or_reflex(rng);
                let (cx, cy) = self.xy(&a.center);
                let (sx, sy) = self.xy(&a.start);
                self.cons.push(Constraint::ArcRadius(a, (cx - sx).hypot(cy - sy)));
            }
            "Arc" => {
                let a = self.any_arc_or_reflex(rng);
                self.cons.push(Constraint::Arc(a));
            }
            "Midpoint" => {
                let (p, q) = self.two_points(rng);
                let (px, py) = self.xy(&p);
                let (qx, qy) = self.xy(&q);
                let m = self.point((px + qx) / 2.0, (py + qy) / 2.0);
                self.cons.push(Constraint::Midpoint(DatumLineSegment::new(p, q), m));
            }
            "PointLineDistance" => {
                let (p, q) = if rng.chance(1, 4) { let v = rng.chance(1, 2); self.axis_segment(rng, v) } else { self.two_points(rng) };
                let a = self.any_point(rng);
                let (px, py) = self.xy(&p);
                let (qx, qy) = self.xy(&q);
                let (ax, ay) = self.xy(&a);
                // signed: positive when the point is to the left of the directed line p -> q
                let d = ((qx - px) * (ay - py) - (qy - py) * (ax - px)) / (qx - px).hypot(qy - py);
                self.cons.push(Constraint::PointLineDistance(a, DatumLineSegment::new(p, q), d));
            }
            "VerticalPointLineDistance" => {
                // height above a line: the line may be exactly horizontal (well-posed), never vertical
                let (p, q) = if rng.chance(1, 3) { self.axis_segment(rng, false) } else { self.two_points(rng) };
                let a = self.any_point(rng);
                let (px, py) = self.xy(&p);
                let (qx, qy) = self.xy(&q);
                let (ax, ay) = self.xy(&a);
                // the point's height above the line, measured at the point's x
                let d = ay - (py + (qy - py) * (ax - px) / (qx - px));
                self.cons.push(Constraint::VerticalPointLineDistance(
                    a,
                    DatumLineSegment::new(p, q),
                    d,
                ));
            }
            "HorizontalPointLineDistance" => {
                // offset from a line: the line may be exactly vertical (well-posed), never horizontal
                let (p, q) = if rng.chance(1, 3) { self.axis_segment(rng, true) } else { self.two_points(rng) };
                let a = self.any_point(rng);
                let (px, py) = self.xy(&p);
                let (qx, qy) = self.xy(&q);
                let (ax, ay) = self.xy(&a);
                let d = ax - (px + (qx - px) * (ay - py) / (qy - py));
                self.cons.push(Constraint::HorizontalPointLineDistance(
                    a,
                    DatumLineSegment::new(p, q),
                    d,
                ));
            }
            "Symmetric" => {
                let (p, q) = self.two_points(rng);
                let a = self.any_point(rng);
                let (px, py) = self.xy(&p);
                let (qx, qy) = self.xy(&q);
                let (ax, ay) = self.xy(&a);
                let (dx, dy) = (qx - px, qy - py);
                let t = ((ax - px) * dx + (ay - py) * dy) / (dx * dx + dy * dy);
                let (fx, fy) = (px + t * dx, py + t * dy);
                let b = self.point(2.0 * fx - ax, 2.0 * fy - ay);
                self.cons.push(Constraint::Symmetric(DatumLineSegment::new(p, q), a, b));
            }
            "LineTangentToCircle" => {
                let c = self.any_circle(rng);
                let (cx, cy) = self.xy(&c.center);
                let r = self.xs[c.radius.id as usize];
                let a = 2.0 * PI * rng.unit();
                let (ux, uy) = (a.cos(), a.sin());
                // the centre lies at signed distance r to the left of the directed line
                let (nx, ny) = (-uy, ux);
                let (mx, my) = (cx - r * nx, cy - r * ny);
                let t0 = s * (0.3 + rng.unit());
                let t1 = s * (0.3 + rng.unit());
                let p0 = self.point(mx - t0 * ux, my - t0 * uy);
                let p1 = self.point(mx + t1 * ux, my + t1 * uy);
                self.cons.push(Constraint::LineTangentToCircle(DatumLineSegment::new(p0, p1), c));
            }
            "CircleTangentToCircle" => {
                let c0 = self.any_circle(rng);
                let (cx, cy) = self.xy(&c0.center);
                let r0 = self.xs[c0.radius.id as usize];
                let a = 2.0 * PI * rng.unit();
                let r1 = r0 * (0.3 + 0.4 * rng.unit());
                let d = if rng.chance(1, 2) { r0 + r1 } else { r0 - r1 };
                if rng.chance(1, 6) {
                    // two circles of one shared radius variable (equal circles), externally tangent
                    let center = self.inner_point(cx + 2.0 * r0 * a.cos(), cy + 2.0 * r0 * a.sin());
                    let c1 = DatumCircle { center, radius: c0.radius };
                    self.circles.push(c1);
                    if rng.chance(1, 2) {
                        self.cons.push(Constraint::CircleTangentToCircle(c0, c1));
                    } else {
                        self.cons.push(Constraint::CircleTangentToCircle(c1, c0));
                    }
                    return;
                }
                let c1 = self.circle(cx + d * a.cos(), cy + d * a.sin(), r1);
                // either circle may be listed first (the larger one is not always the first argument)
                if rng.chance(1, 2) {
                    self.cons.push(Constraint::CircleTangentToCircle(c0, c1));
                } else {
                    self.cons.push(Constraint::CircleTangentToCircle(c1, c0));
                }
            }
            "PointArcCoincident" => {
                let a = self.any_arc(rng);
                let (cx, cy) = self.xy(&a.center);
                let (sx, sy) = self.xy(&a.start);
                let (ex, ey) = self.xy(&a.end);
                let r = (sx - cx).hypot(sy - cy);
                let a0 = (sy - cy).atan2(sx - cx);
                let mut sweep = (ey - cy).atan2(ex - cx) - a0;
                while sweep <= -PI {
                    sweep += 2.0 * PI;
                }
                while sweep > PI {
                    sweep -= 2.0 * PI;
                }
                let t = a0 + sweep * (0.2 + 0.6 * rng.unit());
                let p = self.point(cx + r * t.cos(), cy + r * t.sin());
                self.cons.push(Constraint::PointArcCoincident(a, p));
            }
            "ArcLength" => {
                let a = self.any_arc_or_reflex(rng);
                let (cx, cy) = self.xy(&a.center);
                let (sx, sy) = self.xy(&a.start);
                let (ex, ey) = self.xy(&a.end);
                let r = (sx - cx).hypot(sy - cy);
                let (ux, uy, vx, vy) = (sx - cx, sy - cy, ex - cx, ey - cy);
                let mut theta = (ux * vy - uy * vx).atan2(ux * vx + uy * vy);
                if theta < 0.0 {
                    theta += 2.0 * PI;
                }
                self.cons.push(Constraint::ArcLength(a, r * theta));
            }
            "ArcAngleDeg" | "ArcAngleRad" => {
                // now and then a half turn exactly (start opposite the end): a natural request whose
                // requested angle sits on the branch cut of atan2
                let a = if rng.chance(1, 6) {
                    let (x, y) = self.rand_xy(rng);
                    let r = self.scale * (0.3 + rng.unit());
                    let a0 = 2.0 * PI * rng.unit();
                    let start = self.inner_point(x + r * a0.cos(), y + r * a0.sin());
                    let end = self.inner_point(x - r * a0.cos(), y - r * a0.sin());
                    let center = self.inner_point(x, y);
                    let arc = DatumCircularArc { center, start, end };
                    self.arcs.push(arc);
                    let half = if shape == "ArcAngleDeg" { Angle::from_degrees(180.0) } else { Angle::from_radians(PI) };
                    self.cons.push(Constraint::ArcAngle(arc, half));
                    return;
                } else {
                    self.any_arc_or_reflex(rng)
                };
                let (cx, cy) = self.xy(&a.center);
                let (sx, sy) = self.xy(&a.start);
                let (ex, ey) = self.xy(&a.end);
                let (ux, uy, vx, vy) = (sx - cx, sy - cy, ex - cx, ey - cy);
                let theta = (ux * vy - uy * vx).atan2(ux * vx + uy * vy);
                let ang = if shape == "ArcAngleDeg" {
                    Angle::from_degrees(theta.to_degrees())
                } else {
                    Angle::from_radians(theta)
                };
                self.cons.push(Constraint::ArcAngle(a, ang));
            }
            _ => panic!("unknown planted shape {shape}"),
        }
    }
}

pub const PLANTED_SHAPES: [&str; 27] = crate::gen_sys::SHAPES;

/// A planted system: 1..=max_cons constraints of random kinds sharing entities; guess = X* + δ.
pub fn gen_planted(rng: &mut Rng, max_cons: usize, pert: f64, shapes: &[&str]) -> System {
    let scale = *rng.pick(&[0.1, 1.0, 1.0, 10.0, 100.0]);
    let mut pl = Planted::new(scale);
    // now and then a sketch that does not live around the origin (a part drawn at (5000, 3000), a site
    // plan in millimetres): sizes stay `scale`, coordinates are large; anything relative to the
    // coordinate magnitude (step test, clipping, relative tolerances) behaves differently there
    if rng.chance(1, 8) {
        pl.origin = *rng.pick(&[(5000.0, 3000.0), (-2.0e4, 7.0e4), (4.0e5, -9.0e5), (1.5e6, 2.5e6)]);
    }
    let n = rng.range(1, max_cons);
    for _ in 0..n {
        let shape = *rng.pick(shapes);
        pl.add(rng, shape);
    }
    // unmentioned extra variables, sometimes
    if rng.chance(1, 4) {
        let (x, y) = (pl.origin.0 + scale * rng.sym(), pl.origin.1 + scale * rng.sym());
        pl.point(x, y);
    }
    let anchored = rng.chance(1, 2);
    let mut cons = pl.cons.clone();
    if anchored {
        // pin a few coordinates at their planted values
        let k = rng.range(1, 4.min(pl.xs.len()));
        for _ in 0..k {
            let id = rng.below(pl.xs.len()) as u32;
            cons.push(Constraint::Fixed(id, pl.xs[id as usize]));
        }
    }
    // explicit angles are understood modulo a full turn and in either unit: now and then a planted
    // angle is written with whole turns added or removed (270deg for -90deg, 450deg, -5.5rad ...)
    if rng.chance(1, 5) {
        for c in cons.iter_mut() {
            let re = |rng: &mut Rng, a: &Angle| -> Angle {
                let (deg, v) = crate::codec::angle_parts(a);
                let turns = *rng.pick(&[-2.0, -1.0, 1.0, 1.0, 2.0]);
                if deg { Angle::from_degrees(v + 360.0 * turns) } else { Angle::from_radians(v + 2.0 * PI * turns) }
            };
            match c {
                Constraint::LinesAtAngle(a, b, AngleKind::Other(ang)) => *c = Constraint::LinesAtAngle(*a, *b, AngleKind::Other(re(rng, ang))),
                Constraint::ArcAngle(a, ang) => *c = Constraint::ArcAngle(*a, re(rng, ang)),
                _ => {}
            }
        }
    }
    rng.shuffle(&mut cons);
    let guesses: Vec<(u32, f64)> = pl
        .xs
        .iter()
        .enumerate()
        .map(|(i, v)| (i as u32, v + pert * scale * rng.sym()))
        .collect();
    let reqs = cons.into_iter().map(ConstraintRequest::highest_priority).collect();
    let mut sys = System::default_cfg(reqs, guesses, "planted");
    sys.planted = Some(pl.xs.clone());
    sys.scale = scale;
    sys
}

pub const LINEAR_SHAPES: [&str; 9] = [
    "Fixed",
    "Horizontal",
    "Vertical",
    "PointsCoincident",
    "Midpoint",
    "ScalarEqual",
    "HorizontalDistance",
    "VerticalDistance",
    "CircleRadius",
];

fn dyadic(rng: &mut Rng) -> f64 {
    (rng.below(129) as f64 - 64.0) / 8.0
}

/// Multiply every parameter of a linear system by `2^kp` and every guess by `2^kg` (exact in f64):
/// large sketches, and guesses millions of units away from the solution.
pub fn with_magnitudes(mut sys: System, kp: i32, kg: i32) -> System {
    let (fp, fg) = (2f64.powi(kp), 2f64.powi(kg));
    for r in sys.reqs.iter_mut() {
        let c = match *r.constraint() {
            Constraint::Fixed(id, v) => Constraint::Fixed(id, v * fp),
            Constraint::HorizontalDistance(p, q, d) => Constraint::HorizontalDistance(p, q, d * fp),
            Constraint::VerticalDistance(p, q, d) => Constraint::VerticalDistance(p, q, d * fp),
            Constraint::CircleRadius(c, d) => Constraint::CircleRadius(c, d * fp),
            c => c,
        };
        *r = ConstraintRequest::new(c, r.priority());
    }
    for g in sys.guesses.iter_mut() {
        g.1 *= fg;
    }
    sys.scale *= fp.max(fg);
    sys
}

/// A linear system over up to `max_points` points (and sometimes a circle) with dyadic-rational
/// parameters and guesses: consistent, redundant, contradictory or rank-deficient by chance.
pub fn gen_linear(rng: &mut Rng, max_points: usize, max_cons: usize) -> System {
    let np = rng.range(1, max_points);
    let ncirc = if rng.chance(1, 4) { rng.range(1, 2) } else { 0 };
    let nvars = 2 * np + 3 * ncirc;
    let pts: Vec<DatumPoint> = (0..np).map(|i| DatumPoint::new_xy(2 * i as u32, 2 * i as u32 + 1)).collect();
    let circs: Vec<DatumCircle> = (0..ncirc)
        .map(|i| {
            let b = (2 * np + 3 * i) as u32;
            DatumCircle {
                center: DatumPoint::new_xy(b, b + 1),
                radius: DatumDistance::new(b + 2),
            }
        })
        .collect();
    let mut all_pts = pts.clone();
    for c in &circs {
        all_pts.push(c.center);
    }
    let n = rng.range(0, max_cons);
    let mut cons = Vec::new();
    for _ in 0..n {
        let shape = *rng.pick(&LINEAR_SHAPES);
        let p = *rng.pick(&all_pts);
        let q = *rng.pick(&all_pts);
        let m = *rng.pick(&all_pts);
        let c = match shape {
            "Fixed" => Constraint::Fixed(rng.below(nvars) as u32, dyadic(rng)),
            "Horizontal" => Constraint::Horizontal(DatumLineSegment::new(p, q)),
            "Vertical" => Constraint::Vertical(DatumLineSegment::new(p, q)),
            "PointsCoincident" => Constraint::PointsCoincident(p, q),
            "Midpoint" => Constraint::Midpoint(DatumLineSegment::new(p, q), m),
            "ScalarEqual" => Constraint::ScalarEqual(rng.below(nvars) as u32, rng.below(nvars) as u32),
            "HorizontalDistance" => Constraint::HorizontalDistance(p, q, dyadic(rng)),
            "VerticalDistance" => Constraint::VerticalDistance(p, q, dyadic(rng)),
            "CircleRadius" => {
                if circs.is_empty() {
                    Constraint::Fixed(rng.below(nvars) as u32, dyadic(rng))
                } else {
                    Constraint::CircleRadius(*rng.pick(&circs), dyadic(rng).abs())
                }
            }
            _ => unreachable!(),
        };
        cons.push(c);
    }
    let guesses: Vec<(u32, f64)> = (0..nvars).map(|i| (i as u32, dyadic(rng))).collect();
    let reqs = cons.into_iter().map(ConstraintRequest::highest_priority).collect();
    let mut s = System::default_cfg(reqs, guesses, "linear");
    s.scale = 8.0;
    s
}

/// Re-assign priorities from a small set (with gaps and duplicates), keeping the request order.
pub fn with_priorities(rng: &mut Rng, mut sys: System) -> System {
    let sets: [&[u32]; 8] = [&[0, 1], &[0, 1, 2], &[0, 5, 4_000_000_000], &[3, 7], &[1, 1, 2],
        // many levels, gaps, the extreme values of the type
        &[0, 1, 2, 3, 4, 5, 6, 7], &[2, 4, 6, 8, 10, 12, 14, 16, 18, 20], &[u32::MAX, 0, 7, u32::MAX - 1]];
    let set = *rng.pick(&sets);
    sys.reqs = sys
        .reqs
        .iter()
        .map(|r| ConstraintRequest::new(*r.constraint(), *rng.pick(set)))
        .collect();
    sys
}

/// Add requests that contradict existing ones (second `Fixed` on the same id, a wrong distance, …).
/// A system whose geometry is pinned exactly where several requests are *degenerate at the
/// solution*: all geometry variables take values from a tiny pool (so coincident points, vertical,
/// horizontal and zero-length lines, zero radii are frequent) and are pinned by `Fixed`; random
/// requests of every shape are added when, at that configuration, they are either degenerate (their
/// evaluation returns early and contributes nothing) or already satisfied; contradictory `Fixed`
/// pairs on separate scalars are interleaved at random positions, so unsatisfied requests sit right
/// next to degenerate ones in the request order.  The solve moves only the contradictory scalars.
pub fn gen_pinned_degenerate(rng: &mut Rng) -> System {
    use crate::gen_sys::{build, param, shape_arity, SHAPES};
    let scale = *rng.pick(&[1.0, 1.0, 10.0]);
    let nv = rng.range(8, 14);
    let pool = [0.0, scale, scale, -scale, 2.0 * scale, 0.5 * scale];
    let xs: Vec<f64> = (0..nv).map(|_| *rng.pick(&pool)).collect();
    let mut cons: Vec<Constraint> = (0..nv).map(|i| Constraint::Fixed(i as u32, xs[i])).collect();
    let want = rng.range(2, 7);
    let mut tries = 0;
    let mut extra = 0;
    while extra < want && tries < 400 {
        tries += 1;
        let shape = *rng.pick(&SHAPES);
        let (ni, np) = shape_arity(shape);
        let ids: Vec<u32> = (0..ni).map(|_| rng.below(nv) as u32).collect();
        let params: Vec<f64> = (0..np).map(|_| param(rng, shape, scale)).collect();
        let c = build(shape, &ids, &params);
        // the real kernels are asked whether the request is quiet / degenerate at `xs`; should they
        // panic on this (finite, in-range) input, that is a failing input of the real code in its own
        // right: it is printed as a VIOLATION line and the request is left out
        let evald = std::panic::catch_unwind(std::panic::AssertUnwindSafe(|| {
            (kcl_ezpz::verif_hooks::residual(&c, &xs), kcl_ezpz::verif_hooks::jacobian_rows(&c, &xs))
        }));
        let Ok(((r, deg), (_, jdeg))) = evald else {
            static REPORTS: std::sync::atomic::AtomicUsize = std::sync::atomic::AtomicUsize::new(0);
            if REPORTS.fetch_add(1, std::sync::atomic::Ordering::Relaxed) >= 3 {
                continue;
            }
            println!(
                "VIOLATION {{\"property\": \"C06\", \"kind\": \"impl-violates-oracle\", \"what\": \"evaluating the error measure / derivative of one request at a finite configuration with in-range ids panics\", \"signature\": \"kernel-evaluation-panics\", \"system\": null, \"extra\": \"{} at {:?}\"}}",
                crate::codec::enc_constraint(&c),
                xs
            );
            continue;
        };
        let quiet = r.iter().all(|v| v.abs() < 1e-9);
        if (deg || jdeg) && quiet || (quiet && rng.chance(1, 3)) {
            cons.push(c);
            extra += 1;
        }
    }
    let mut guesses: Vec<(u32, f64)> = xs.iter().enumerate().map(|(i, v)| (i as u32, *v)).collect();
    // contradictory pairs on their own scalars
    let pairs = rng.range(1, 3);
    let mut contra: Vec<Constraint> = Vec::new();
    for k in 0..pairs {
        let id = (nv + k) as u32;
        let v = scale * rng.sym();
        guesses.push((id, v));
        contra.push(Constraint::Fixed(id, v));
        contra.push(Constraint::Fixed(id, v + scale * (0.5 + rng.unit())));
    }
    rng.shuffle(&mut cons);
    for c in contra {
        let at = rng.below(cons.len() + 1);
        cons.insert(at, c);
    }
    let reqs = cons.into_iter().map(ConstraintRequest::highest_priority).collect();
    let mut sys = System::default_cfg(reqs, guesses, "pinned");
    sys.scale = scale;
    sys
}

/// A large planted sketch (dozens of requests, 60+ equations) that is already exact everywhere
/// except for the variables of ONE request, which sits first or last in the list: exercises
/// size-dependent paths (chunked loops, buffers sized from a count) whose mistakes only concern a few
/// rows at the beginning or the end.
static LARGE_COUNT: std::sync::atomic::AtomicUsize = std::sync::atomic::AtomicUsize::new(0);

/// Every oracle needs its large class (DESIGN 11.6, lessons 4 and 10): one system in sixteen is
/// replaced by a planted sketch of 35 ... 90 requests (60+ equations, dozens of variables), so that
/// sorts, tables, buffers and index maps that only differ beyond a few dozen entries are exercised by
/// every property's oracle, not only by the ones where such a defect was seen before.
pub fn maybe_large(rng: &mut Rng, i: usize, sys: System) -> System {
    if i % 16 != 9 {
        return sys;
    }
    LARGE_COUNT.fetch_add(1, std::sync::atomic::Ordering::Relaxed);
    let k = rng.range(35, 90);
    let mut big = gen_planted(rng, k, 1e-2, &crate::gen_sys::SHAPES);
    big.class = "large-planted";
    big
}

/// How many systems `maybe_large` has replaced so far (for the STATS line and its coverage floor).
pub fn large_count() -> usize {
    LARGE_COUNT.load(std::sync::atomic::Ordering::Relaxed)
}

/// An arc pinned at its centre and start whose end must sweep an EXACT half turn (`ArcAngle` of 180
/// degrees or pi radians), started with a sweep of only 10 ... 60 degrees (either way round): the
/// requested angle sits on the branch cut of `atan2`, and a start that far away tells a residual that
/// measures the half turn from one that merely measures "the radii are parallel" (which is also zero
/// for a sweep of 0).
pub fn gen_half_turn_far_guess(rng: &mut Rng) -> System {
    let scale = *rng.pick(&[0.1, 1.0, 1.0, 10.0, 100.0]);
    let (x, y) = (scale * rng.sym(), scale * rng.sym());
    let r = scale * (0.3 + rng.unit());
    let a0 = 2.0 * PI * rng.unit();
    let center = DatumPoint::new_xy(0, 1);
    let start = DatumPoint::new_xy(2, 3);
    let end = DatumPoint::new_xy(4, 5);
    let arc = DatumCircularArc { center, start, end };
    let (sx, sy) = (x + r * a0.cos(), y + r * a0.sin());
    let (ex, ey) = (x - r * a0.cos(), y - r * a0.sin());
    let half = if rng.chance(1, 2) { Angle::from_degrees(180.0) } else { Angle::from_radians(PI) };
    let cons = vec![
        Constraint::Fixed(0, x),
        Constraint::Fixed(1, y),
        Constraint::Fixed(2, sx),
        Constraint::Fixed(3, sy),
        Constraint::Arc(arc),
        Constraint::ArcAngle(arc, half),
    ];
    let th = (10.0 + 50.0 * rng.unit()).to_radians() * if rng.chance(1, 2) { 1.0 } else { -1.0 };
    let guesses = vec![(0, x), (1, y), (2, sx), (3, sy), (4, x + r * (a0 + th).cos()), (5, y + r * (a0 + th).sin())];
    let mut sys = System::default_cfg(cons.into_iter().map(ConstraintRequest::highest_priority).collect(), guesses, "half-turn-far");
    sys.planted = Some(vec![x, y, sx, sy, ex, ey]);
    sys.scale = scale;
    sys
}

pub fn gen_large_one_off(rng: &mut Rng) -> System {
    let max_cons = rng.range(40, 110);
    let mut sys = gen_planted(rng, max_cons, 0.0, &crate::gen_sys::SHAPES);
    let Some(xs) = sys.planted.clone() else { return sys };
    if sys.reqs.is_empty() {
        return sys;
    }
    // choose the request that is off, move it to one end of the list
    let k = rng.below(sys.reqs.len());
    let r = sys.reqs.remove(k);
    let ids: Vec<u32> = kcl_ezpz::verif_hooks::nonzeroes(r.constraint()).into_iter().flatten().collect();
    if rng.chance(1, 2) { sys.reqs.push(r); } else { sys.reqs.insert(0, r); }
    for g in sys.guesses.iter_mut() {
        g.1 = xs[g.0 as usize];
    }
    let pert = *rng.pick(&[1e-3, 1e-2]);
    for id in ids {
        if let Some(g) = sys.guesses.iter_mut().find(|g| g.0 == id) {
            g.1 += pert * sys.scale * rng.sym();
        }
    }
    sys.class = "large";
    sys
}

/// Start from where a previous solve ended: the guesses become the final values of solving the
/// system once (a user re-solving an already solved sketch).  For a contradictory system this is
/// the least-squares compromise, where the step test fires in the very first round.
pub fn with_resolve(sys: System) -> System {
    let mut sys = sys;
    if let Ok(o) = kcl_ezpz::solve(&sys.reqs, sys.guesses.clone(), sys.config()) {
        let fv = o.final_values().to_vec();
        if fv.len() == sys.guesses.len() && fv.iter().all(|v| v.is_finite()) {
            for (g, v) in sys.guesses.iter_mut().zip(fv) {
                g.1 = v;
            }
        }
    }
    sys
}

/// Add a short but clearly non-degenerate feature to a planted system: an edge of length 1.5e-3..9e-3
/// (or an arc of that radius) whose guess is off by up to 30% of the feature's own size (below 1% of the sketch scale).  One end /
/// the centre is pinned and one more coordinate is fixed, so the feature is fully determined and
/// well conditioned; its length is ten times and more above the documented guard of 1e-4.
pub fn with_short_feature(rng: &mut Rng, mut sys: System) -> System {
    let Some(mut xs) = sys.planted.clone() else { return sys };
    let d = 1.5e-3 + 7.5e-3 * rng.unit();
    let (px, py) = (sys.scale * rng.sym(), sys.scale * rng.sym());
    let base = xs.len() as u32;
    let ang = |rng: &mut Rng| (50.0 + 80.0 * rng.unit()).to_radians() * if rng.chance(1, 2) { 1.0 } else { -1.0 };
    let mut new_vals: Vec<f64> = Vec::new();
    let mut cons: Vec<Constraint> = Vec::new();
    let p = DatumPoint::new_xy(base, base + 1);
    new_vals.extend([px, py]);
    cons.push(Constraint::Fixed(base, px));
    cons.push(Constraint::Fixed(base + 1, py));
    let variant = rng.below(3);
    if variant == 0 {
        let t = ang(rng);
        let q = DatumPoint::new_xy(base + 2, base + 3);
        new_vals.extend([px + d * t.cos(), py + d * t.sin()]);
        cons.push(Constraint::Distance(p, q, d));
        cons.push(Constraint::Fixed(base + 2, px + d * t.cos()));
    } else if variant == 1 {
        // a short segment p-q at an explicit angle to a long, pinned reference segment a-b: q is
        // determined by its distance from p and the angle (millimetre features in a metre sketch)
        let t = ang(rng);
        let q = DatumPoint::new_xy(base + 2, base + 3);
        let (ax, ay) = (px + sys.scale * (0.5 + rng.unit()), py + sys.scale * rng.sym());
        let tr = rng.unit() * 2.0 * PI;
        let len = sys.scale * (0.5 + rng.unit());
        let (bx, by) = (ax + len * tr.cos(), ay + len * tr.sin());
        let a = DatumPoint::new_xy(base + 4, base + 5);
        let b = DatumPoint::new_xy(base + 6, base + 7);
        new_vals.extend([px + d * t.cos(), py + d * t.sin(), ax, ay, bx, by]);
        // directed angle from a->b to p->q
        let mut th = t - tr;
        while th > PI { th -= 2.0 * PI; }
        while th <= -PI { th += 2.0 * PI; }
        let angle = if rng.chance(1, 2) { Angle::from_radians(th) } else { Angle::from_degrees(th.to_degrees()) };
        cons.push(Constraint::Distance(p, q, d));
        cons.push(Constraint::LinesAtAngle(DatumLineSegment::new(a, b), DatumLineSegment::new(p, q), AngleKind::Other(angle)));
        for (k, v) in [(4u32, ax), (5, ay), (6, bx), (7, by)] {
            cons.push(Constraint::Fixed(base + k, v));
        }
    } else {
        let (t0, t1) = (ang(rng), ang(rng));
        let start = DatumPoint::new_xy(base + 2, base + 3);
        let end = DatumPoint::new_xy(base + 4, base + 5);
        new_vals.extend([px + d * t0.cos(), py + d * t0.sin(), px + d * t1.cos(), py + d * t1.sin()]);
        cons.push(Constraint::ArcRadius(DatumCircularArc { center: p, start, end }, d));
        cons.push(Constraint::Fixed(base + 2, px + d * t0.cos()));
        cons.push(Constraint::Fixed(base + 4, px + d * t1.cos()));
    }
    for (k, v) in new_vals.iter().enumerate() {
        // the pinned point starts exactly in place
        // (off by up to 30% of the feature's size, never more than 0.9% of the sketch scale: the error
        // is then above the solver's own "satisfied" threshold of 1e-4 for most features)
        let amp = (0.3 * d).min(0.009 * sys.scale);
        let pinned_ref = variant == 1 && k >= 4;
        let off = if k < 2 || pinned_ref { 0.0 } else { amp * (0.4 + 0.6 * rng.unit()) * if rng.chance(1, 2) { 1.0 } else { -1.0 } };
        sys.guesses.push((base + k as u32, v + off));
        xs.push(*v);
    }
    for c in cons {
        let at = rng.below(sys.reqs.len() + 1);
        sys.reqs.insert(at, ConstraintRequest::highest_priority(c));
    }
    sys.planted = Some(xs);
    sys
}

/// Collapse part of the geometry in the guess: about half of the variables get one common value, so
/// lines of zero length, coincident points and zero-radius arcs occur and several different requests
/// raise their degeneracy flag in the same run.
pub fn with_collapsed_guess(rng: &mut Rng, mut sys: System) -> System {
    let v = sys.scale * rng.sym();
    for g in sys.guesses.iter_mut() {
        if rng.chance(1, 2) {
            g.1 = v;
        }
    }
    sys
}

pub fn with_contradictions(rng: &mut Rng, mut sys: System) -> System {
    let n = sys.guesses.len();
    if n == 0 {
        return sys;
    }
    let k = rng.range(1, 3);
    for _ in 0..k {
        let id = rng.below(n) as u32;
        let base = sys.guesses[id as usize].1;
        let prio = if rng.chance(1, 2) { 0 } else { rng.below(3) as u32 };
        sys.reqs.push(ConstraintRequest::new(Constraint::Fixed(id, base + 1.0), prio));
        sys.reqs.push(ConstraintRequest::new(Constraint::Fixed(id, base - 2.0), prio));
    }
    let mut reqs = sys.reqs.clone();
    rng.shuffle(&mut reqs);
    sys.reqs = reqs;
    sys.planted = None;
    sys.class = "contradictory";
    sys
}

/// Mild conflicts between levels: a planted system with priorities in which some pinned values are
/// off by a small amount, so that the least-squares compromise of a later level pulls earlier
/// levels slightly out of satisfaction (mixed satisfied / unsatisfied patterns across levels).
pub fn with_mild_conflicts(rng: &mut Rng, sys: System) -> System {
    let mut sys = with_priorities(rng, sys);
    let n = sys.guesses.len();
    if n == 0 {
        return sys;
    }
    let k = rng.range(2, 8);
    let xs = sys.planted.clone().unwrap_or_else(|| sys.guesses.iter().map(|g| g.1).collect());
    for _ in 0..k {
        let id = rng.below(n) as u32;
        let off = sys.scale * *rng.pick(&[3e-5, 2e-4, 1e-3, 1e-2, 5e-2]) * if rng.chance(1, 2) { 1.0 } else { -1.0 };
        let prio = *rng.pick(&[0u32, 0, 1, 2]);
        sys.reqs.push(ConstraintRequest::new(Constraint::Fixed(id, xs[id as usize] + off), prio));
    }
    let mut reqs = sys.reqs.clone();
    rng.shuffle(&mut reqs);
    sys.reqs = reqs;
    sys.planted = None;
    sys.class = "conflict";
    sys
}

/// Scale disparity across levels: every coordinate pinned by a `Fixed` at the highest priority (a
/// few of them slightly off), and at lower priorities constraints whose error measure scales with the
/// size of the geometry (long lines, large radii).  The least-squares compromise of the lower level
/// then satisfies the large-gradient constraints and leaves the pinned values off by more than the
/// satisfaction tolerance: verdicts differ between levels of one attempted subset.
pub fn gen_disparity(rng: &mut Rng) -> System {
    let scale = *rng.pick(&[100.0, 300.0, 1000.0]);
    let mut pl = Planted::new(scale);
    let shapes = ["LinesAtAngleParallel", "LinesAtAnglePerpendicular", "Arc", "VerticalPointLineDistance", "LinesEqualLength", "Distance", "Midpoint"];
    let n = rng.range(1, 3);
    for _ in 0..n {
        let shape = *rng.pick(&shapes);
        pl.add(rng, shape);
    }
    let mut reqs: Vec<ConstraintRequest> = Vec::new();
    let nbad = rng.range(1, 3);
    let bad: Vec<usize> = (0..nbad).map(|_| rng.below(pl.xs.len())).collect();
    for (id, v) in pl.xs.iter().enumerate() {
        let off = if bad.contains(&id) {
            *rng.pick(&[1e-3, 5e-3, 2e-2, 5e-2]) * if rng.chance(1, 2) { 1.0 } else { -1.0 }
        } else {
            0.0
        };
        reqs.push(ConstraintRequest::new(Constraint::Fixed(id as u32, v + off), 0));
    }
    for c in &pl.cons {
        reqs.push(ConstraintRequest::new(*c, *rng.pick(&[1u32, 1, 2])));
    }
    rng.shuffle(&mut reqs);
    let guesses: Vec<(u32, f64)> = pl.xs.iter().enumerate().map(|(i, v)| (i as u32, v + 1e-3 * rng.sym())).collect();
    let mut s = System::default_cfg(reqs, guesses, "disparity");
    s.scale = scale;
    s
}

/// Arbitrary well-typed input: random kinds, aliased / out-of-range ids, special floats, odd configs.
pub fn gen_malformed(rng: &mut Rng) -> System {
    use crate::gen_sys::*;
    // one malformed system in eight is LARGE (40 ... 300 variables): validation code with a
    // size-dependent fast path (a lookup table above some count) only runs there, and the malformed
    // guess lists (missing, permuted, duplicate, sparse ids) are then more frequent
    let big = rng.chance(1, 8);
    let nvars = if big { *rng.pick(&[40usize, 70, 130, 300]) } else { rng.range(0, 10) };
    let ncons = if big { rng.range(0, 12) } else { rng.range(0, 6) };
    let scale = *rng.pick(&SCALES);
    let mut reqs: Vec<ConstraintRequest> = Vec::new();
    for _ in 0..ncons {
        let shape = *rng.pick(&SHAPES);
        let (ni, np) = shape_arity(shape);
        let hi = if rng.chance(1, 6) { nvars + 3 } else { nvars.max(1) };
        let ids: Vec<u32> = (0..ni).map(|_| rng.below(hi) as u32).collect();
        let params: Vec<f64> = (0..np)
            .map(|_| if rng.chance(1, 8) { special(rng) } else { param(rng, shape, scale) })
            .collect();
        let prio = if rng.chance(2, 3) { 0 } else { rng.below(3) as u32 };
        reqs.push(ConstraintRequest::new(build(shape, &ids, &params), prio));
    }
    let mut guesses: Vec<(u32, f64)> = (0..nvars)
        .map(|i| {
            (
                i as u32,
                if rng.chance(1, 12) {
                    special(rng)
                } else if rng.chance(1, 6) {
                    0.0
                } else {
                    value(rng, scale)
                },
            )
        })
        .collect();
    let roll = if big { rng.below(8) } else { rng.below(20) };
    if roll == 5 && !guesses.is_empty() {
        // a stale / sparse id in the guess list that NO request mentions (accepted by the original:
        // only requests are validated against the guess ids)
        let k = rng.below(guesses.len());
        guesses[k].0 = (nvars + 5 + rng.below(2000)) as u32;
    } else if roll == 0 && !guesses.is_empty() {
        guesses.pop(); // missing guess
    } else if roll == 1 && guesses.len() >= 2 {
        guesses.swap(0, 1); // permuted ids
    } else if roll == 2 && !guesses.is_empty() {
        let g = guesses[0];
        guesses.push(g); // duplicate id
    } else if roll == 3 && !guesses.is_empty() {
        // sparse guess ids: a label far beyond the number of guesses, and a request that uses it
        // (passes the guess validation, fails the column-range check of the sparsity pattern)
        let last = guesses.len() - 1;
        let big = (nvars + 5 + rng.below(20)) as u32;
        guesses[last].0 = big;
        reqs.push(ConstraintRequest::new(Constraint::Fixed(big, value(rng, scale)), 0));
    } else if roll == 4 && nvars >= 6 {
        // an id that is missing only from the *third* row of a three-row request
        let n = nvars as u32;
        let arc = DatumCircularArc { center: DatumPoint::new_xy(0, 1), start: DatumPoint::new_xy(2, 3), end: DatumPoint::new_xy(n + 1, n + 2) };
        reqs.insert(0, ConstraintRequest::new(Constraint::PointArcCoincident(arc, DatumPoint::new_xy(4, 5)), 0));
    }
    let mut s = System::default_cfg(reqs, guesses, if big { "malformed-large" } else { "malformed" });
    s.max_iterations = *rng.pick(&[0, 1, 2, 5, 35, 35, 35, 200]);
    s.convergence_tolerance = *rng.pick(&[1e-8, 1e-8, 1e-12, 1e-3, 0.0, 0.5]);
    s.step_tolerance = *rng.pick(&[1e-12, 1e-12, 1e-9, 0.0, 1e-3]);
    s.scale = scale;
    s
}
