//! Harness library: PRNG, constraint codec (line protocol shared with the Lean driver),
//! generators and oracles used by the correspondence suites and the failing-input searches.
pub mod codec;
pub mod gen_sys;
pub mod geom;
pub mod oracle;
pub mod planted;
pub mod trace;
pub mod rng;
pub mod textgen;

pub use kcl_ezpz;
