//! Text codec for constraints and floats; the Lean driver (`lean/Driver/Codec.lean`) parses the same format.
use kcl_ezpz::datatypes::inputs::*;
use kcl_ezpz::datatypes::{Angle, AngleKind};
use kcl_ezpz::{Constraint, Warning, WarningContent};

pub fn bits(v: f64) -> String {
    v.to_bits().to_string()
}

pub fn angle_parts(a: &Angle) -> (bool, f64) {
    // `Angle`'s fields are private: its Display ends in the unit and the accessor for the stored
    // unit returns the stored value unchanged.
    let deg = a.to_string().ends_with("deg");
    (deg, if deg { a.to_degrees() } else { a.to_radians() })
}

fn p(pt: &DatumPoint) -> String {
    format!("{} {}", pt.x_id, pt.y_id)
}
fn l(s: &DatumLineSegment) -> String {
    format!("{} {}", p(&s.p0), p(&s.p1))
}
fn c(c: &DatumCircle) -> String {
    format!("{} {}", p(&c.center), c.radius.id)
}
fn a(a: &DatumCircularArc) -> String {
    format!("{} {} {}", p(&a.center), p(&a.start), p(&a.end))
}

/// `<KindName> ids… paramBits…`
pub fn enc_constraint(k: &Constraint) -> String {
    match k {
        Constraint::LineTangentToCircle(line, circle) => {
            format!("LineTangentToCircle {} {}", l(line), c(circle))
        }
        Constraint::CircleTangentToCircle(c0, c1) => {
            format!("CircleTangentToCircle {} {}", c(c0), c(c1))
        }
        Constraint::Distance(p0, p1, d) => format!("Distance {} {} {}", p(p0), p(p1), bits(*d)),
        Constraint::VerticalDistance(p0, p1, d) => {
            format!("VerticalDistance {} {} {}", p(p0), p(p1), bits(*d))
        }
        Constraint::HorizontalDistance(p0, p1, d) => {
            format!("HorizontalDistance {} {} {}", p(p0), p(p1), bits(*d))
        }
        Constraint::Vertical(line) => format!("Vertical {}", l(line)),
        Constraint::Horizontal(line) => format!("Horizontal {}", l(line)),
        Constraint::LinesAtAngle(l0, l1, kind) => match kind {
            AngleKind::Parallel => format!("LinesAtAngleParallel {} {}", l(l0), l(l1)),
            AngleKind::Perpendicular => format!("LinesAtAnglePerpendicular {} {}", l(l0), l(l1)),
            AngleKind::Other(ang) => {
                let (deg, v) = angle_parts(ang);
                format!(
                    "LinesAtAngle{} {} {} {}",
                    if deg { "Deg" } else { "Rad" },
                    l(l0),
                    l(l1),
                    bits(v)
                )
            }
        },
        Constraint::Fixed(id, v) => format!("Fixed {} {}", id, bits(*v)),
        Constraint::ScalarEqual(x, y) => format!("ScalarEqual {} {}", x, y),
        Constraint::PointsCoincident(p0, p1) => format!("PointsCoincident {} {}", p(p0), p(p1)),
        Constraint::CircleRadius(circ, r) => format!("CircleRadius {} {}", c(circ), bits(*r)),
        Constraint::LinesEqualLength(l0, l1) => format!("LinesEqualLength {} {}", l(l0), l(l1)),
        Constraint::ArcRadius(arc, r) => format!("ArcRadius {} {}", a(arc), bits(*r)),
        Constraint::Arc(arc) => format!("Arc {}", a(arc)),
        Constraint::Midpoint(line, pt) => format!("Midpoint {} {}", l(line), p(pt)),
        Constraint::PointLineDistance(pt, line, d) => {
            format!("PointLineDistance {} {} {}", p(pt), l(line), bits(*d))
        }
        Constraint::VerticalPointLineDistance(pt, line, d) => {
            format!("VerticalPointLineDistance {} {} {}", p(pt), l(line), bits(*d))
        }
        Constraint::HorizontalPointLineDistance(pt, line, d) => {
            format!("HorizontalPointLineDistance {} {} {}", p(pt), l(line), bits(*d))
        }
        Constraint::Symmetric(line, p0, p1) => format!("Symmetric {} {} {}", l(line), p(p0), p(p1)),
        Constraint::PointArcCoincident(arc, pt) => {
            format!("PointArcCoincident {} {}", a(arc), p(pt))
        }
        Constraint::ArcLength(arc, d) => format!("ArcLength {} {}", a(arc), bits(*d)),
        Constraint::ArcAngle(arc, ang) => {
            let (deg, v) = angle_parts(ang);
            format!(
                "ArcAngle{} {} {}",
                if deg { "Deg" } else { "Rad" },
                a(arc),
                bits(v)
            )
        }
    }
}

pub fn enc_floats(xs: &[f64]) -> String {
    xs.iter().map(|v| bits(*v)).collect::<Vec<_>>().join(",")
}

pub fn enc_ids<T: std::fmt::Display>(xs: &[T]) -> String {
    xs.iter().map(|v| v.to_string()).collect::<Vec<_>>().join(",")
}

/// `idx:kind[:unit:bits]`, `-` for no index.
pub fn enc_warning(w: &Warning) -> String {
    let idx = w
        .about_constraint
        .map(|i| i.to_string())
        .unwrap_or_else(|| "-".to_owned());
    match &w.content {
        WarningContent::Degenerate => format!("{idx}:degenerate"),
        WarningContent::ShouldBeParallel(a) => {
            let (deg, v) = angle_parts(a);
            format!("{idx}:parallel:{}:{}", if deg { "deg" } else { "rad" }, bits(v))
        }
        WarningContent::ShouldBePerpendicular(a) => {
            let (deg, v) = angle_parts(a);
            format!("{idx}:perpendicular:{}:{}", if deg { "deg" } else { "rad" }, bits(v))
        }
    }
}

pub fn enc_warnings(ws: &[Warning]) -> String {
    ws.iter().map(enc_warning).collect::<Vec<_>>().join(",")
}

/// Inverse of `enc_constraint`.
pub fn dec_constraint(s: &str) -> Option<Constraint> {
    let t: Vec<&str> = s.split(' ').filter(|x| !x.is_empty()).collect();
    let shape = crate::gen_sys::SHAPES.iter().find(|n| **n == t[0])?;
    let (ni, np) = crate::gen_sys::shape_arity(shape);
    if t.len() != 1 + ni + np {
        return None;
    }
    let ids: Vec<u32> = t[1..1 + ni].iter().map(|x| x.parse().ok()).collect::<Option<Vec<_>>>()?;
    let params: Vec<f64> = t[1 + ni..].iter().map(|x| x.parse::<u64>().ok().map(f64::from_bits)).collect::<Option<Vec<_>>>()?;
    Some(crate::gen_sys::build(shape, &ids, &params))
}
