//! One PRNG (splitmix64) from which every random choice is derived, so that a seed replays exactly.
#[derive(Clone)]
pub struct Rng(pub u64);

impl Rng {
    pub fn new(seed: u64) -> Self {
        Rng(seed ^ 0x9E37_79B9_7F4A_7C15)
    }
    pub fn next_u64(&mut self) -> u64 {
        self.0 = self.0.wrapping_add(0x9E37_79B9_7F4A_7C15);
        let mut z = self.0;
        z = (z ^ (z >> 30)).wrapping_mul(0xBF58_476D_1CE4_E5B9);
        z = (z ^ (z >> 27)).wrapping_mul(0x94D0_49BB_1331_11EB);
        z ^ (z >> 31)
    }
    /// Uniform in `0..n` (n > 0).
    pub fn below(&mut self, n: usize) -> usize {
        (self.next_u64() % (n as u64)) as usize
    }
    pub fn range(&mut self, lo: usize, hi_incl: usize) -> usize {
        lo + self.below(hi_incl - lo + 1)
    }
    pub fn chance(&mut self, num: u64, den: u64) -> bool {
        self.next_u64() % den < num
    }
    /// Uniform in [0,1).
    pub fn unit(&mut self) -> f64 {
        (self.next_u64() >> 11) as f64 / (1u64 << 53) as f64
    }
    /// Uniform in [-1,1).
    pub fn sym(&mut self) -> f64 {
        2.0 * self.unit() - 1.0
    }
    pub fn pick<'a, T>(&mut self, xs: &'a [T]) -> &'a T {
        &xs[self.below(xs.len())]
    }
    pub fn fork(&mut self) -> Rng {
        Rng(self.next_u64())
    }
    pub fn shuffle<T>(&mut self, xs: &mut [T]) {
        for i in (1..xs.len()).rev() {
            let j = self.below(i + 1);
            xs.swap(i, j);
        }
    }
}
