//! Independent geometric specification of what each constraint means (written from the documented
//! meaning, not from the solver's kernels): for a constraint and coordinates, the geometric error
//! components and the scale factor `k` such that |solver error measure| ≈ k·|geometric error|.
use kcl_ezpz::datatypes::inputs::*;
use kcl_ezpz::datatypes::{Angle, AngleKind};
use kcl_ezpz::Constraint;
use std::f64::consts::PI;

#[derive(Clone, Copy)]
struct P(f64, f64);
impl P {
    fn sub(self, o: P) -> P { P(self.0 - o.0, self.1 - o.1) }
    fn add(self, o: P) -> P { P(self.0 + o.0, self.1 + o.1) }
    fn scale(self, s: f64) -> P { P(self.0 * s, self.1 * s) }
    fn len(self) -> f64 { self.0.hypot(self.1) }
    fn dot(self, o: P) -> f64 { self.0 * o.0 + self.1 * o.1 }
    fn cross(self, o: P) -> f64 { self.0 * o.1 - self.1 * o.0 }
}

fn pt(x: &[f64], p: &DatumPoint) -> P { P(x[p.x_id as usize], x[p.y_id as usize]) }

pub fn angle_radians(a: &Angle) -> f64 {
    let (deg, v) = crate::codec::angle_parts(a);
    if deg { v * PI / 180.0 } else { v }
}

/// Distance on the circle between two angles (in [0, π]).
pub fn angular_distance(a: f64, b: f64) -> f64 {
    let mut d = (a - b) % (2.0 * PI);
    if d > PI { d -= 2.0 * PI; }
    if d < -PI { d += 2.0 * PI; }
    d.abs()
}

/// Signed distance of `p` from the directed line `a -> b` (positive on the left).
fn signed_line_distance(p: P, a: P, b: P) -> f64 {
    let d = b.sub(a);
    d.cross(p.sub(a)) / d.len()
}

pub struct GeomErr {
    /// geometric error components (lengths or radians)
    pub errs: Vec<f64>,
    /// |solver measure| ≈ k·|geometric error|
    pub k: f64,
    /// geometry is degenerate for this constraint (the verdict is exempt)
    pub degenerate: bool,
}

pub fn geom_err(c: &Constraint, x: &[f64], scale: f64) -> GeomErr {
    let tiny = 1e-3 * scale.max(1e-9);
    let mut k = 1.0;
    let mut degenerate = false;
    let errs: Vec<f64> = match c {
        Constraint::Distance(p, q, d) => vec![pt(x, p).sub(pt(x, q)).len() - d],
        Constraint::VerticalDistance(p, q, d) => vec![(pt(x, p).1 - pt(x, q).1) - d],
        Constraint::HorizontalDistance(p, q, d) => vec![(pt(x, p).0 - pt(x, q).0) - d],
        // a vertical line: both ends have the same x; a horizontal line: the same y
        Constraint::Vertical(l) => vec![pt(x, &l.p0).0 - pt(x, &l.p1).0],
        Constraint::Horizontal(l) => vec![pt(x, &l.p0).1 - pt(x, &l.p1).1],
        Constraint::LinesAtAngle(l0, l1, kind) => {
            let v0 = pt(x, &l0.p1).sub(pt(x, &l0.p0));
            let v1 = pt(x, &l1.p1).sub(pt(x, &l1.p0));
            if v0.len() < tiny || v1.len() < tiny { degenerate = true; }
            match kind {
                AngleKind::Parallel => { k = v0.len() * v1.len(); vec![v0.cross(v1) / (v0.len() * v1.len())] }
                AngleKind::Perpendicular => { k = v0.len() * v1.len(); vec![v0.dot(v1) / (v0.len() * v1.len())] }
                AngleKind::Other(a) => {
                    let cur = v0.cross(v1).atan2(v0.dot(v1));
                    vec![angular_distance(cur, angle_radians(a))]
                }
            }
        }
        Constraint::Fixed(id, v) => vec![x[*id as usize] - v],
        Constraint::ScalarEqual(a, b) => vec![x[*a as usize] - x[*b as usize]],
        Constraint::PointsCoincident(p, q) => { let d = pt(x, p).sub(pt(x, q)); vec![d.0, d.1] }
        Constraint::CircleRadius(c, r) => vec![x[c.radius.id as usize] - r],
        Constraint::LinesEqualLength(l0, l1) => {
            vec![pt(x, &l0.p0).sub(pt(x, &l0.p1)).len() - pt(x, &l1.p0).sub(pt(x, &l1.p1)).len()]
        }
        Constraint::ArcRadius(a, r) => {
            let c = pt(x, &a.center);
            vec![c.sub(pt(x, &a.start)).len() - r, c.sub(pt(x, &a.end)).len() - r]
        }
        Constraint::Arc(a) => {
            let c = pt(x, &a.center);
            let (ds, de) = (c.sub(pt(x, &a.start)).len(), c.sub(pt(x, &a.end)).len());
            k = ds + de;
            vec![ds - de]
        }
        Constraint::Midpoint(l, m) => {
            let mid = pt(x, &l.p0).add(pt(x, &l.p1)).scale(0.5);
            let d = pt(x, m).sub(mid);
            vec![d.0, d.1]
        }
        Constraint::PointLineDistance(p, l, d) => {
            let (a, b) = (pt(x, &l.p0), pt(x, &l.p1));
            if b.sub(a).len() < tiny { degenerate = true; }
            vec![signed_line_distance(pt(x, p), a, b) - d]
        }
        Constraint::VerticalPointLineDistance(p, l, d) => {
            let (a, b, q) = (pt(x, &l.p0), pt(x, &l.p1), pt(x, p));
            let dx = b.0 - a.0;
            if dx.abs() < tiny { degenerate = true; }
            k = dx.abs();
            // height of the point above the line, measured at the point's x
            let y_on_line = a.1 + (b.1 - a.1) * (q.0 - a.0) / dx;
            vec![(q.1 - y_on_line) - d]
        }
        Constraint::HorizontalPointLineDistance(p, l, d) => {
            let (a, b, q) = (pt(x, &l.p0), pt(x, &l.p1), pt(x, p));
            let dy = b.1 - a.1;
            if dy.abs() < tiny { degenerate = true; }
            let x_on_line = a.0 + (b.0 - a.0) * (q.1 - a.1) / dy;
            vec![(q.0 - x_on_line) - d]
        }
        Constraint::Symmetric(l, a, b) => {
            let (p, q) = (pt(x, &l.p0), pt(x, &l.p1));
            let d = q.sub(p);
            if d.len() < 0.35 * scale.max(1e-9).min(1.0) || d.len() < tiny { degenerate = true; }
            let a = pt(x, a);
            let t = a.sub(p).dot(d) / d.dot(d);
            let foot = p.add(d.scale(t));
            let mirror = foot.scale(2.0).sub(a);
            let e = mirror.sub(pt(x, b));
            vec![e.0, e.1]
        }
        Constraint::LineTangentToCircle(l, c) => {
            let (a, b) = (pt(x, &l.p0), pt(x, &l.p1));
            if b.sub(a).len() < tiny.max(0.011) { degenerate = true; }
            // directional: the centre lies at distance r on the left of the directed line
            vec![signed_line_distance(pt(x, &c.center), a, b) - x[c.radius.id as usize]]
        }
        Constraint::CircleTangentToCircle(c0, c1) => {
            let d = pt(x, &c0.center).sub(pt(x, &c1.center)).len();
            let (r0, r1) = (x[c0.radius.id as usize], x[c1.radius.id as usize]);
            if d < tiny { degenerate = true; }
            vec![(d - (r0 + r1)).abs().min((d - (r0 - r1).abs()).abs())]
        }
        Constraint::PointArcCoincident(a, p) => {
            let c = pt(x, &a.center);
            let r = c.sub(pt(x, &a.start)).len();
            if r < tiny { degenerate = true; }
            vec![pt(x, p).sub(c).len() - r]
        }
        Constraint::ArcLength(a, d) => {
            let c = pt(x, &a.center);
            let (u, v) = (pt(x, &a.start).sub(c), pt(x, &a.end).sub(c));
            let r = u.len();
            if r < tiny.max(0.011) { degenerate = true; }
            let rho = v.len() / r;
            let theta = u.cross(v).atan2(u.dot(v));
            let alpha = d / r;
            vec![rho * theta.cos() - alpha.cos(), rho * theta.sin() - alpha.sin()]
        }
        Constraint::ArcAngle(a, ang) => {
            let c = pt(x, &a.center);
            let (u, v) = (pt(x, &a.start).sub(c), pt(x, &a.end).sub(c));
            if u.len() < tiny || v.len() < tiny { degenerate = true; }
            vec![angular_distance(u.cross(v).atan2(u.dot(v)), angle_radians(ang))]
        }
    };
    GeomErr { errs, k, degenerate }
}

/// Is the point of a `PointArcCoincident` within the arc's sweep (the minor sector between start
/// and end), with an angular margin?  `None` when the arc is degenerate.
pub fn point_in_arc_sweep(c: &Constraint, x: &[f64], margin: f64) -> Option<bool> {
    let Constraint::PointArcCoincident(a, p) = c else { return None };
    let ctr = pt(x, &a.center);
    let (u, v, w) = (pt(x, &a.start).sub(ctr), pt(x, &a.end).sub(ctr), pt(x, p).sub(ctr));
    if u.len() < 1e-9 || v.len() < 1e-9 || w.len() < 1e-9 { return None; }
    let sweep = u.cross(v).atan2(u.dot(v));
    let t = u.cross(w).atan2(u.dot(w));
    if sweep.abs() < 1e-6 { return None; }
    let (lo, hi) = if sweep >= 0.0 { (0.0, sweep) } else { (sweep, 0.0) };
    Some(t >= lo - margin && t <= hi + margin)
}

/// Is the geometry of this constraint inside (or within a factor ~2 of) one of the coarse absolute
/// guard bands of the solver, where the linearisation is switched off while the error measure is
/// still live (documented degeneracies)?  Thresholds are absolute because the guards are.
/// The request's geometry has collapsed exactly (zero-length line, coincident defining points, zero
/// arc radius) for the kinds whose error measure or linearisation is undefined there.  Written from
/// the documented meaning of the kinds; the polynomial kinds (Parallel, Perpendicular, Vertical,
/// Horizontal, Midpoint, Fixed, ...) and the circle kinds have no such collapse.
pub fn collapsed(c: &Constraint, x: &[f64]) -> bool {
    let z = |a: &DatumPoint, b: &DatumPoint| pt(x, a).sub(pt(x, b)).len() == 0.0;
    match c {
        Constraint::Distance(p, q, _) => z(p, q),
        Constraint::LinesEqualLength(l0, l1) => z(&l0.p0, &l0.p1) || z(&l1.p0, &l1.p1),
        Constraint::LinesAtAngle(l0, l1, AngleKind::Other(_)) => z(&l0.p0, &l0.p1) || z(&l1.p0, &l1.p1),
        Constraint::ArcAngle(a, _) => z(&a.center, &a.start) || z(&a.center, &a.end),
        Constraint::ArcRadius(a, _) => z(&a.center, &a.start) || z(&a.center, &a.end),
        Constraint::ArcLength(a, _) => z(&a.center, &a.start),
        Constraint::LineTangentToCircle(l, _) => z(&l.p0, &l.p1),
        Constraint::PointLineDistance(_, l, _) => z(&l.p0, &l.p1),
        Constraint::VerticalPointLineDistance(_, l, _) => z(&l.p0, &l.p1),
        Constraint::HorizontalPointLineDistance(_, l, _) => z(&l.p0, &l.p1),
        Constraint::Symmetric(l, _, _) => z(&l.p0, &l.p1),
        Constraint::PointArcCoincident(a, p) => z(&a.center, &a.start) || z(&a.center, p),
        _ => false,
    }
}

pub fn in_guard_band(c: &Constraint, x: &[f64]) -> bool {
    let len = |a: &DatumPoint, b: &DatumPoint| pt(x, a).sub(pt(x, b)).len();
    match c {
        Constraint::Symmetric(l, _, _) => len(&l.p0, &l.p1) < 0.2,
        Constraint::LineTangentToCircle(l, _) => len(&l.p0, &l.p1) < 0.03,
        Constraint::ArcLength(a, _) => len(&a.center, &a.start) < 0.03,
        Constraint::VerticalPointLineDistance(_, l, _) => (pt(x, &l.p1).0 - pt(x, &l.p0).0).abs() < 1e-3 || len(&l.p0, &l.p1) < 0.03,
        Constraint::HorizontalPointLineDistance(_, l, _) => (pt(x, &l.p1).1 - pt(x, &l.p0).1).abs() < 1e-3 || len(&l.p0, &l.p1) < 0.03,
        Constraint::Distance(p, q, _) => len(p, q) < 1e-3,
        Constraint::LinesEqualLength(l0, l1) => len(&l0.p0, &l0.p1) < 1e-3 || len(&l1.p0, &l1.p1) < 1e-3,
        Constraint::LinesAtAngle(l0, l1, AngleKind::Other(_)) => len(&l0.p0, &l0.p1) < 1e-3 || len(&l1.p0, &l1.p1) < 1e-3,
        Constraint::ArcAngle(a, _) => len(&a.center, &a.start) < 1e-3 || len(&a.center, &a.end) < 1e-3,
        Constraint::ArcRadius(a, _) => len(&a.center, &a.start) < 1e-3 || len(&a.center, &a.end) < 1e-3,
        // (an arc whose start and end coincide has no sweep: the angular range test is degenerate)
        Constraint::PointArcCoincident(a, p) => {
            // (the angular rows are one-sided penalties, zero inside the sweep: they have a kink where the
            // point's direction from the centre coincides with the start's or the end's)
            let c = pt(x, &a.center);
            let (u, s, e) = (pt(x, p).sub(c), pt(x, &a.start).sub(c), pt(x, &a.end).sub(c));
            let ang = |v: P, w: P| v.cross(w).atan2(v.dot(w)).abs();
            len(&a.center, &a.start) < 1e-3 || len(&a.center, p) < 1e-3 || len(&a.start, &a.end) < 1e-3 || len(&a.center, &a.end) < 1e-3
                || ang(u, s) < 1e-3 || ang(u, e) < 1e-3
        }
        Constraint::PointLineDistance(_, l, _) => len(&l.p0, &l.p1) < 1e-3,
        // (a radius of zero is a degenerate circle: the nearer-tangency choice has a kink there)
        Constraint::CircleTangentToCircle(c0, c1) => {
            let (ra, rb) = (x[c0.radius.id as usize], x[c1.radius.id as usize]);
            let d = len(&c0.center, &c1.center);
            // internal tangency is the nearer one and the radii are (nearly) equal: the measure
            // |ra - rb| - d has a kink there (two equal circles can only be internally tangent by coinciding)
            let internal_nearer = (d - (ra - rb).abs()).abs() < (ra + rb - d).abs();
            d < 1e-3 || ra.abs() < 1e-3 || rb.abs() < 1e-3 || (internal_nearer && (ra - rb).abs() < 1e-3)
        }
        _ => false,
    }
}
