//! Shared helpers for the per-property oracles run against the real code.
use crate::codec::*;
use crate::planted::System;
use kcl_ezpz::{ConstraintRequest, FailureOutcome, SolveOutcome};

/// A violation found on the real code, with everything needed to replay it.
pub struct Violation {
    pub property: &'static str,
    pub what: String,
    /// signature used to match known findings
    pub signature: String,
    pub system: Option<System>,
    pub extra: String,
}

/// One line `SIGCOUNT {"<signature>": <count>, …}`: how many violations of each signature the run
/// found (the VIOLATION lines themselves are printed once per signature).  `./check` uses it to
/// enforce the frequency ceiling of each known finding: a change that makes a listed defect far
/// more frequent than it is on the unchanged tree is a different violation of the same property.
pub fn print_signature_counts(out: &[Violation]) {
    let mut m: std::collections::BTreeMap<&str, usize> = std::collections::BTreeMap::new();
    for v in out {
        *m.entry(v.signature.as_str()).or_insert(0) += 1;
    }
    let body: Vec<String> = m.iter().map(|(k, n)| format!("\"{}\": {}", json_escape(k), n)).collect();
    println!("SIGCOUNT {{{}}}", body.join(", "));
}

thread_local! {
    static CURRENT_SYSTEM: std::cell::RefCell<Option<String>> = const { std::cell::RefCell::new(None) };
}

/// Remember the system the oracle is working on (see `arm_crash_reporter`).
pub fn note_current(sys: &System) {
    CURRENT_SYSTEM.with(|c| *c.borrow_mut() = Some(enc_system_json(sys)));
}

/// Panic hook for oracles that call the real code directly: a panic of the real code on a generated
/// system kills the oracle process before it can print its STATS line; the hook prints that system
/// as a VIOLATION line first, so the check has a concrete failing input instead of a bare crash.
pub fn arm_crash_reporter(property: &'static str) {
    std::panic::set_hook(Box::new(move |info| {
        // at most three reports per process (a caught panic may repeat thousands of times)
        static REPORTS: std::sync::atomic::AtomicUsize = std::sync::atomic::AtomicUsize::new(0);
        if REPORTS.fetch_add(1, std::sync::atomic::Ordering::Relaxed) >= 3 {
            return;
        }
        let sys = CURRENT_SYSTEM.with(|c| c.borrow().clone()).unwrap_or_else(|| "null".to_owned());
        let msg = json_escape(&info.to_string());
        println!(
            "VIOLATION {{\"property\": \"{property}\", \"kind\": \"impl-violates-oracle\", \"what\": \"the real code panicked while the oracle was working on this system (a variant of it - reordered, renumbered, re-solved, a sub-list - may be the direct cause): {msg}\", \"signature\": \"uncaught-panic-in-oracle\", \"system\": {sys}, \"extra\": \"\"}}"
        );
    }));
}

pub fn enc_system_json(sys: &System) -> String {
    let reqs: Vec<String> = sys
        .reqs
        .iter()
        .map(|r| format!("\"{} {}\"", r.priority(), enc_constraint(r.constraint())))
        .collect();
    let guesses: Vec<String> = sys
        .guesses
        .iter()
        .map(|(id, v)| format!("[{}, \"{}\", {}]", id, bits(*v), json_num(*v)))
        .collect();
    format!(
        "{{\"requests\": [{}], \"guesses\": [{}], \"max_iterations\": {}, \"convergence_tolerance_bits\": \"{}\", \"step_tolerance_bits\": \"{}\", \"class\": \"{}\"}}",
        reqs.join(", "),
        guesses.join(", "),
        sys.max_iterations,
        bits(sys.convergence_tolerance),
        bits(sys.step_tolerance),
        sys.class
    )
}

pub fn json_num(v: f64) -> String {
    if v.is_finite() { format!("{v:e}") } else { format!("\"{v}\"") }
}

pub fn json_escape(s: &str) -> String {
    s.replace('\\', "\\\\").replace('"', "\\\"").replace('\n', "\\n")
}

impl Violation {
    pub fn to_json(&self) -> String {
        format!(
            "{{\"property\": \"{}\", \"kind\": \"impl-violates-oracle\", \"what\": \"{}\", \"signature\": \"{}\", \"system\": {}, \"extra\": \"{}\"}}",
            self.property,
            json_escape(&self.what),
            json_escape(&self.signature),
            self.system.as_ref().map(enc_system_json).unwrap_or_else(|| "null".to_owned()),
            json_escape(&self.extra)
        )
    }
}

pub fn same_outcome_bits(a: &SolveOutcome, b: &SolveOutcome) -> bool {
    a.final_values().len() == b.final_values().len()
        && a.final_values().iter().zip(b.final_values()).all(|(x, y)| x.to_bits() == y.to_bits())
        && a.unsatisfied() == b.unsatisfied()
        && a.iterations() == b.iterations()
        && a.priority_solved() == b.priority_solved()
        && enc_warnings(a.warnings()) == enc_warnings(b.warnings())
}

pub fn describe(r: &Result<SolveOutcome, FailureOutcome>) -> String {
    match r {
        Ok(o) => crate::trace::show_ok(o, None),
        Err(f) => crate::trace::show_err(f),
    }
}

/// The requests of priority `<= p`, with their caller positions.
pub fn subset(reqs: &[ConstraintRequest], p: u32) -> (Vec<ConstraintRequest>, Vec<usize>) {
    let mut out = Vec::new();
    let mut pos = Vec::new();
    for (i, r) in reqs.iter().enumerate() {
        if r.priority() <= p {
            out.push(*r);
            pos.push(i);
        }
    }
    (out, pos)
}

/// An independent reference iteration: dense damped Gauss-Newton on the real error measures with a
/// central-difference Jacobian (no use of the implementation's derivative code, sparsity pattern,
/// LU or stopping rules).  Returns `(rounds, values)` when the largest error drops to `tol` within
/// `max_rounds`.
pub fn reference_gauss_newton(reqs: &[ConstraintRequest], x0: &[f64], tol: f64, max_rounds: usize) -> Option<(usize, Vec<f64>)> {
    use kcl_ezpz::verif_hooks as vh;
    let n = x0.len();
    let residual = |x: &[f64]| -> Vec<f64> {
        let mut r = Vec::new();
        for q in reqs {
            let (res, _) = vh::residual(q.constraint(), x);
            for k in 0..vh::residual_dim(q.constraint()) {
                r.push(res[k]);
            }
        }
        r
    };
    let mut x = x0.to_vec();
    for round in 0..=max_rounds {
        let r = residual(&x);
        if r.iter().any(|v| !v.is_finite()) {
            return None;
        }
        if r.iter().fold(0.0f64, |a, v| a.max(v.abs())) <= tol {
            return Some((round, x));
        }
        if round == max_rounds {
            return None;
        }
        let m = r.len();
        // central-difference Jacobian, only over the variables the requests mention
        let mut jac = vec![vec![0.0f64; n]; m];
        let mut used = vec![false; n];
        for q in reqs {
            for id in vh::nonzeroes(q.constraint()).into_iter().flatten() {
                if (id as usize) < n {
                    used[id as usize] = true;
                }
            }
        }
        for j in 0..n {
            if !used[j] {
                continue;
            }
            let h = 1e-6 * x[j].abs().max(1.0);
            let mut xp = x.clone();
            xp[j] += h;
            let mut xm = x.clone();
            xm[j] -= h;
            let (rp, rm) = (residual(&xp), residual(&xm));
            for i in 0..m {
                jac[i][j] = (rp[i] - rm[i]) / (2.0 * h);
            }
        }
        // normal equations (J^T J + 1e-9 I) d = -J^T r, Gaussian elimination with partial pivoting
        let mut a = vec![vec![0.0f64; n + 1]; n];
        for p in 0..n {
            for q in 0..n {
                let mut s = 0.0;
                for i in 0..m {
                    s += jac[i][p] * jac[i][q];
                }
                a[p][q] = s;
            }
            a[p][p] += 1e-9;
            let mut s = 0.0;
            for i in 0..m {
                s += jac[i][p] * r[i];
            }
            a[p][n] = -s;
        }
        for c in 0..n {
            let piv = (c..n).max_by(|&u, &v| a[u][c].abs().partial_cmp(&a[v][c].abs()).unwrap_or(std::cmp::Ordering::Equal))?;
            if a[piv][c].abs() < 1e-300 {
                return None;
            }
            a.swap(c, piv);
            for rr in c + 1..n {
                let f = a[rr][c] / a[c][c];
                if f != 0.0 {
                    for cc in c..=n {
                        a[rr][cc] -= f * a[c][cc];
                    }
                }
            }
        }
        let mut d = vec![0.0f64; n];
        for c in (0..n).rev() {
            let mut s = a[c][n];
            for cc in c + 1..n {
                s -= a[c][cc] * d[cc];
            }
            d[c] = s / a[c][c];
        }
        for j in 0..n {
            x[j] += d[j];
        }
    }
    None
}

/// Singular values of the central-difference Jacobian of the real error measures at `x` (no use of
/// the implementation's derivative code or its SVD): square roots of the eigenvalues of `J Jᵀ`,
/// cyclic Jacobi rotations, descending.
pub fn fd_singular_values(reqs: &[ConstraintRequest], x: &[f64]) -> Vec<f64> {
    use kcl_ezpz::verif_hooks as vh;
    let n = x.len();
    let residual = |x: &[f64]| -> Vec<f64> {
        let mut r = Vec::new();
        for q in reqs {
            let (res, _) = vh::residual(q.constraint(), x);
            for k in 0..vh::residual_dim(q.constraint()) {
                r.push(res[k]);
            }
        }
        r
    };
    let m = residual(x).len();
    let mut jac = vec![vec![0.0f64; n]; m];
    let mut used = vec![false; n];
    for q in reqs {
        for id in vh::nonzeroes(q.constraint()).into_iter().flatten() {
            if (id as usize) < n {
                used[id as usize] = true;
            }
        }
    }
    for j in 0..n {
        if !used[j] {
            continue;
        }
        let h = 1e-6 * x[j].abs().max(1.0);
        let (mut xp, mut xm) = (x.to_vec(), x.to_vec());
        xp[j] += h;
        xm[j] -= h;
        let (rp, rm) = (residual(&xp), residual(&xm));
        for i in 0..m {
            jac[i][j] = (rp[i] - rm[i]) / (2.0 * h);
        }
    }
    let mut a = vec![vec![0.0f64; m]; m];
    for p in 0..m {
        for q in 0..m {
            a[p][q] = (0..n).map(|j| jac[p][j] * jac[q][j]).sum();
        }
    }
    for _sweep in 0..60 {
        let off: f64 = (0..m).map(|p| (0..m).filter(|q| *q != p).map(|q| a[p][q] * a[p][q]).sum::<f64>()).sum();
        let diag: f64 = (0..m).map(|p| a[p][p] * a[p][p]).sum();
        if off <= 1e-28 * diag.max(1e-300) {
            break;
        }
        for p in 0..m {
            for q in p + 1..m {
                if a[p][q].abs() < 1e-300 {
                    continue;
                }
                let theta = (a[q][q] - a[p][p]) / (2.0 * a[p][q]);
                let t = theta.signum() / (theta.abs() + (theta * theta + 1.0).sqrt());
                let t = if theta == 0.0 { 1.0 } else { t };
                let c = 1.0 / (t * t + 1.0).sqrt();
                let s = t * c;
                for k in 0..m {
                    let (akp, akq) = (a[k][p], a[k][q]);
                    a[k][p] = c * akp - s * akq;
                    a[k][q] = s * akp + c * akq;
                }
                for k in 0..m {
                    let (apk, aqk) = (a[p][k], a[q][k]);
                    a[p][k] = c * apk - s * aqk;
                    a[q][k] = s * apk + c * aqk;
                }
            }
        }
    }
    let mut sv: Vec<f64> = (0..m).map(|p| a[p][p].max(0.0).sqrt()).collect();
    sv.sort_by(|x, y| y.partial_cmp(x).unwrap_or(std::cmp::Ordering::Equal));
    sv
}

/// Numerical rank of [`fd_singular_values`]: singular values above `rel * sigma_max`.
pub fn fd_rank(reqs: &[ConstraintRequest], x: &[f64], rel: f64) -> usize {
    let sv = fd_singular_values(reqs, x);
    let smax = sv.first().copied().unwrap_or(0.0);
    sv.iter().filter(|s| **s > rel * smax && **s > 0.0).count()
}
