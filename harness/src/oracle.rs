//! Shared helpers for the per-property oracles run against the real code.
use crate::codec::*;
use crate::planted::System;
use kcl_ezpz::{ConstraintRequest, FailureOutcome, SolveOutcome};

/// A violation found on the real code, with everything needed to replay it.
pub struct Violation {
    pub property: &'static str,
    pub what: String,
    /// signature used to match known findings
    pub signature: String,
    pub system: Option<System>,
    pub extra: String,
}

pub fn enc_system_json(sys: &System) -> String {
    let reqs: Vec<String> = sys
        .reqs
        .iter()
        .map(|r| format!("\"{} {}\"", r.priority(), enc_constraint(r.constraint())))
        .collect();
    let guesses: Vec<String> = sys
        .guesses
        .iter()
        .map(|(id, v)| format!("[{}, \"{}\", {}]", id, bits(*v), json_num(*v)))
        .collect();
    format!(
        "{{\"requests\": [{}], \"guesses\": [{}], \"max_iterations\": {}, \"convergence_tolerance_bits\": \"{}\", \"step_tolerance_bits\": \"{}\", \"class\": \"{}\"}}",
        reqs.join(", "),
        guesses.join(", "),
        sys.max_iterations,
        bits(sys.convergence_tolerance),
        bits(sys.step_tolerance),
        sys.class
    )
}

pub fn json_num(v: f64) -> String {
    if v.is_finite() { format!("{v:e}") } else { format!("\"{v}\"") }
}

pub fn json_escape(s: &str) -> String {
    s.replace('\\', "\\\\").replace('"', "\\\"").replace('\n', "\\n")
}

impl Violation {
    pub fn to_json(&self) -> String {
        format!(
            "{{\"property\": \"{}\", \"kind\": \"impl-violates-oracle\", \"what\": \"{}\", \"signature\": \"{}\", \"system\": {}, \"extra\": \"{}\"}}",
            self.property,
            json_escape(&self.what),
            json_escape(&self.signature),
            self.system.as_ref().map(enc_system_json).unwrap_or_else(|| "null".to_owned()),
            json_escape(&self.extra)
        )
    }
}

pub fn same_outcome_bits(a: &SolveOutcome, b: &SolveOutcome) -> bool {
    a.final_values().len() == b.final_values().len()
        && a.final_values().iter().zip(b.final_values()).all(|(x, y)| x.to_bits() == y.to_bits())
        && a.unsatisfied() == b.unsatisfied()
        && a.iterations() == b.iterations()
        && a.priority_solved() == b.priority_solved()
        && enc_warnings(a.warnings()) == enc_warnings(b.warnings())
}

pub fn describe(r: &Result<SolveOutcome, FailureOutcome>) -> String {
    match r {
        Ok(o) => crate::trace::show_ok(o, None),
        Err(f) => crate::trace::show_err(f),
    }
}

/// The requests of priority `<= p`, with their caller positions.
pub fn subset(reqs: &[ConstraintRequest], p: u32) -> (Vec<ConstraintRequest>, Vec<usize>) {
    let mut out = Vec::new();
    let mut pos = Vec::new();
    for (i, r) in reqs.iter().enumerate() {
        if r.priority() <= p {
            out.push(*r);
            pos.push(i);
        }
    }
    (out, pos)
}
