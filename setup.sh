#!/bin/sh
# Builds the framework offline from files on disk: the Lean model, theorems and driver, and the Rust
# harness (against /repo's working tree, feature verif-hooks).
set -e
cd "$(dirname "$0")"
export CARGO_NET_OFFLINE=true
python3 tools/extract.py
(cd lean && lake build Ezpz Ezpz.Properties.Index ezpz-driver)
(cd harness && cargo build --offline --bins)
echo "setup done"
