import Ezpz.Model.Kernels
import Ezpz.Model.Solve
