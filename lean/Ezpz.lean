import Ezpz.Model.Kernels
import Ezpz.Model.Solve
import Ezpz.Proofs.Newton
import Ezpz.Proofs.Priority
import Ezpz.Proofs.SolveInner
import Ezpz.Proofs.Report
import Ezpz.Properties.C03
