/-
Line protocol shared by all driver commands: constraints, floats (as IEEE bits) and lists.
-/
import Ezpz.Model.Solve
namespace Ezpz.Driver
open Ezpz

def bitsToFloat (s : String) : Option Float := s.toNat?.map (fun n => Float.ofBits (UInt64.ofNat n))
def floatToBits (f : Float) : String := toString f.toBits.toNat

abbrev Toks := List String

def takeNats (n : Nat) (ts : Toks) : Option (List Nat × Toks) :=
  match n, ts with
  | 0, ts => some ([], ts)
  | n + 1, t :: ts => do
    let v ← t.toNat?
    let (vs, rest) ← takeNats n ts
    pure (v :: vs, rest)
  | _, [] => none

def takeFloats (n : Nat) (ts : Toks) : Option (List Float × Toks) :=
  match n, ts with
  | 0, ts => some ([], ts)
  | n + 1, t :: ts => do
    let v ← bitsToFloat t
    let (vs, rest) ← takeFloats n ts
    pure (v :: vs, rest)
  | _, [] => none

def pt (a b : Nat) : Pt := ⟨a, b⟩

/-- `<KindName> ids… paramBits…` with the arity fixed by the kind. -/
def parseConstraint (ts : Toks) : Option (Constraint Float × Toks) :=
  match ts with
  | [] => none
  | kind :: ts =>
    let ids (n : Nat) := takeNats n ts
    match kind with
    | "LineTangentToCircle" => do
      let ([a, b, c, d, e, f, g], r) ← ids 7 | none
      pure (.lineTangentToCircle ⟨pt a b, pt c d⟩ ⟨pt e f, g⟩, r)
    | "CircleTangentToCircle" => do
      let ([a, b, c, d, e, f], r) ← ids 6 | none
      pure (.circleTangentToCircle ⟨pt a b, c⟩ ⟨pt d e, f⟩, r)
    | "Distance" => do
      let ([a, b, c, d], r) ← ids 4 | none
      let ([x], r) ← takeFloats 1 r | none
      pure (.distance (pt a b) (pt c d) x, r)
    | "VerticalDistance" => do
      let ([a, b, c, d], r) ← ids 4 | none
      let ([x], r) ← takeFloats 1 r | none
      pure (.verticalDistance (pt a b) (pt c d) x, r)
    | "HorizontalDistance" => do
      let ([a, b, c, d], r) ← ids 4 | none
      let ([x], r) ← takeFloats 1 r | none
      pure (.horizontalDistance (pt a b) (pt c d) x, r)
    | "Vertical" => do
      let ([a, b, c, d], r) ← ids 4 | none
      pure (.vertical ⟨pt a b, pt c d⟩, r)
    | "Horizontal" => do
      let ([a, b, c, d], r) ← ids 4 | none
      pure (.horizontal ⟨pt a b, pt c d⟩, r)
    | "LinesAtAngleParallel" => do
      let ([a, b, c, d, e, f, g, h], r) ← ids 8 | none
      pure (.linesAtAngle ⟨pt a b, pt c d⟩ ⟨pt e f, pt g h⟩ .parallel, r)
    | "LinesAtAnglePerpendicular" => do
      let ([a, b, c, d, e, f, g, h], r) ← ids 8 | none
      pure (.linesAtAngle ⟨pt a b, pt c d⟩ ⟨pt e f, pt g h⟩ .perpendicular, r)
    | "LinesAtAngleDeg" => do
      let ([a, b, c, d, e, f, g, h], r) ← ids 8 | none
      let ([x], r) ← takeFloats 1 r | none
      pure (.linesAtAngle ⟨pt a b, pt c d⟩ ⟨pt e f, pt g h⟩ (.other ⟨x, true⟩), r)
    | "LinesAtAngleRad" => do
      let ([a, b, c, d, e, f, g, h], r) ← ids 8 | none
      let ([x], r) ← takeFloats 1 r | none
      pure (.linesAtAngle ⟨pt a b, pt c d⟩ ⟨pt e f, pt g h⟩ (.other ⟨x, false⟩), r)
    | "Fixed" => do
      let ([a], r) ← ids 1 | none
      let ([x], r) ← takeFloats 1 r | none
      pure (.fixed a x, r)
    | "ScalarEqual" => do
      let ([a, b], r) ← ids 2 | none
      pure (.scalarEqual a b, r)
    | "PointsCoincident" => do
      let ([a, b, c, d], r) ← ids 4 | none
      pure (.pointsCoincident (pt a b) (pt c d), r)
    | "CircleRadius" => do
      let ([a, b, c], r) ← ids 3 | none
      let ([x], r) ← takeFloats 1 r | none
      pure (.circleRadius ⟨pt a b, c⟩ x, r)
    | "LinesEqualLength" => do
      let ([a, b, c, d, e, f, g, h], r) ← ids 8 | none
      pure (.linesEqualLength ⟨pt a b, pt c d⟩ ⟨pt e f, pt g h⟩, r)
    | "ArcRadius" => do
      let ([a, b, c, d, e, f], r) ← ids 6 | none
      let ([x], r) ← takeFloats 1 r | none
      pure (.arcRadius ⟨pt a b, pt c d, pt e f⟩ x, r)
    | "Arc" => do
      let ([a, b, c, d, e, f], r) ← ids 6 | none
      pure (.isArc ⟨pt a b, pt c d, pt e f⟩, r)
    | "Midpoint" => do
      let ([a, b, c, d, e, f], r) ← ids 6 | none
      pure (.midpoint ⟨pt a b, pt c d⟩ (pt e f), r)
    | "PointLineDistance" => do
      let ([a, b, c, d, e, f], r) ← ids 6 | none
      let ([x], r) ← takeFloats 1 r | none
      pure (.pointLineDistance (pt a b) ⟨pt c d, pt e f⟩ x, r)
    | "VerticalPointLineDistance" => do
      let ([a, b, c, d, e, f], r) ← ids 6 | none
      let ([x], r) ← takeFloats 1 r | none
      pure (.verticalPointLineDistance (pt a b) ⟨pt c d, pt e f⟩ x, r)
    | "HorizontalPointLineDistance" => do
      let ([a, b, c, d, e, f], r) ← ids 6 | none
      let ([x], r) ← takeFloats 1 r | none
      pure (.horizontalPointLineDistance (pt a b) ⟨pt c d, pt e f⟩ x, r)
    | "Symmetric" => do
      let ([a, b, c, d, e, f, g, h], r) ← ids 8 | none
      pure (.symmetric ⟨pt a b, pt c d⟩ (pt e f) (pt g h), r)
    | "PointArcCoincident" => do
      let ([a, b, c, d, e, f, g, h], r) ← ids 8 | none
      pure (.pointArcCoincident ⟨pt a b, pt c d, pt e f⟩ (pt g h), r)
    | "ArcLength" => do
      let ([a, b, c, d, e, f], r) ← ids 6 | none
      let ([x], r) ← takeFloats 1 r | none
      pure (.arcLength ⟨pt a b, pt c d, pt e f⟩ x, r)
    | "ArcAngleDeg" => do
      let ([a, b, c, d, e, f], r) ← ids 6 | none
      let ([x], r) ← takeFloats 1 r | none
      pure (.arcAngle ⟨pt a b, pt c d, pt e f⟩ ⟨x, true⟩, r)
    | "ArcAngleRad" => do
      let ([a, b, c, d, e, f], r) ← ids 6 | none
      let ([x], r) ← takeFloats 1 r | none
      pure (.arcAngle ⟨pt a b, pt c d, pt e f⟩ ⟨x, false⟩, r)
    | _ => none

def joinWith (sep : String) (xs : List String) : String := String.intercalate sep xs

def showIds (xs : List Nat) : String := joinWith "," (xs.map toString)
def showFloats (xs : List Float) : String := joinWith "," (xs.map floatToBits)
def showJRow (xs : List (JVar Float)) : String :=
  joinWith "," (xs.map (fun j => s!"{j.id}:{floatToBits j.pd}"))
def showBool (b : Bool) : String := if b then "1" else "0"

end Ezpz.Driver
