/-
`S` command: replay one recorded solve through the model.  The LU solve and the SVD are oracles
answering with what the Rust run recorded (`LinSolve` / `Svd` parameters of the model).
-/
import Driver.Codec
namespace Ezpz.Driver
open Ezpz

/-- What the Rust run recorded for one `solve_inner` call. -/
structure CallRec where
  nIters : Nat
  steps : Array (Except SolveError (List Float))
  svd : Option (Except SolveError (List Float × List (List Float)))

structure SolveCase where
  analysis : Bool
  cfg : Config Float
  guesses : List (Nat × Float)
  reqs : List (Constraint Float × Nat)
  calls : Array CallRec

def parseErr (s : String) : SolveError :=
  match s with
  | "Faer" => .faer
  | "FaerSolve" => .faerSolve
  | "FaerSvd" => .faerSvd
  | "FaerMatrix" => .faerMatrix
  | "DidNotConverge" => .didNotConverge
  | "EmptySystemNotAllowed" => .emptySystemNotAllowed
  | other => .panic other

def showErr : SolveError → String
  | .wrongNumberGuesses a b => s!"WrongNumberGuesses:{a}:{b}"
  | .missingGuess c v => s!"MissingGuess:{c}:{v}"
  | .faerMatrix => "FaerMatrix"
  | .faer => "Faer"
  | .faerSolve => "FaerSolve"
  | .faerSvd => "FaerSvd"
  | .didNotConverge => "DidNotConverge"
  | .emptySystemNotAllowed => "EmptySystemNotAllowed"
  | .panic s => "Panic:" ++ (s.replace " " "_")

def parseGuesses (n : Nat) (ts : Toks) : Option (List (Nat × Float) × Toks) :=
  match n, ts with
  | 0, ts => some ([], ts)
  | n + 1, a :: b :: ts => do
    let id ← a.toNat?
    let v ← bitsToFloat b
    let (gs, rest) ← parseGuesses n ts
    pure ((id, v) :: gs, rest)
  | _, _ => none

partial def parseReqs (n : Nat) (ts : Toks) : Option (List (Constraint Float × Nat) × Toks) :=
  match n, ts with
  | 0, ts => some ([], ts)
  | n + 1, p :: ts => do
    let prio ← p.toNat?
    let (c, rest) ← parseConstraint ts
    let (rs, rest) ← parseReqs n rest
    pure ((c, prio) :: rs, rest)
  | _, _ => none

def chunk (w : Nat) (xs : List Float) : List (List Float) :=
  if w = 0 then [] else
  let rec go (fuel : Nat) (xs : List Float) (acc : List (List Float)) : List (List Float) :=
    match fuel with
    | 0 => acc.reverse
    | fuel + 1 => if xs.isEmpty then acc.reverse else go fuel (xs.drop w) (xs.take w :: acc)
  go (xs.length + 1) xs []

partial def parseSteps (n : Nat) (ts : Toks) (acc : Array (Except SolveError (List Float))) :
    Option (Array (Except SolveError (List Float)) × Toks) :=
  match n, ts with
  | 0, ts => some (acc, ts)
  | n + 1, "STEP" :: k :: ts => do
    let k ← k.toNat?
    let (d, rest) ← takeFloats k ts
    parseSteps n rest (acc.push (.ok d))
  | n + 1, "SERR" :: e :: ts => parseSteps n ts (acc.push (.error (parseErr e)))
  | _, _ => none

partial def parseCalls (n : Nat) (ts : Toks) (acc : Array CallRec) : Option (Array CallRec × Toks) :=
  match n, ts with
  | 0, ts => some (acc, ts)
  | n + 1, "CALL" :: ni :: ns :: ts => do
    let ni ← ni.toNat?
    let ns ← ns.toNat?
    let (steps, rest) ← parseSteps ns ts #[]
    match rest with
    | "NOSVD" :: rest => parseCalls n rest (acc.push ⟨ni, steps, none⟩)
    | "SVDERR" :: rest => parseCalls n rest (acc.push ⟨ni, steps, some (.error .faerSvd)⟩)
    | "SVD" :: k :: rest => do
      let k ← k.toNat?
      let (sigma, rest) ← takeFloats k rest
      match rest with
      | nr :: nc :: rest => do
        let nr ← nr.toNat?
        let nc ← nc.toNat?
        let (vs, rest) ← takeFloats (nr * nc) rest
        parseCalls n rest (acc.push ⟨ni, steps, some (.ok (sigma, chunk nc vs))⟩)
      | _ => none
    | _ => none
  | _, _ => none

def parseSolveCase (ts : Toks) : Option SolveCase :=
  match ts with
  | a :: "CFG" :: mi :: ct :: st :: "G" :: n :: rest => do
    let analysis := a == "A1"
    let mi ← mi.toNat?
    let ct ← bitsToFloat ct
    let st ← bitsToFloat st
    let n ← n.toNat?
    let (gs, rest) ← parseGuesses n rest
    match rest with
    | "R" :: m :: rest => do
      let m ← m.toNat?
      let (rs, rest) ← parseReqs m rest
      match rest with
      | "T" :: nc :: rest => do
        let nc ← nc.toNat?
        let (calls, rest) ← parseCalls nc rest #[]
        if rest.isEmpty then pure ⟨analysis, ⟨mi, ct, st⟩, gs, rs, calls⟩ else none
      | _ => none
    | _ => none
  | _ => none

def showWarning (w : Warning Float) : String :=
  let idx := match w.about with | some i => toString i | none => "-"
  match w.content with
  | .degenerate => s!"{idx}:degenerate"
  | .shouldBeParallel a => s!"{idx}:parallel:{if a.degrees then "deg" else "rad"}:{floatToBits a.val}"
  | .shouldBePerpendicular a =>
    s!"{idx}:perpendicular:{if a.degrees then "deg" else "rad"}:{floatToBits a.val}"

def showWarnings (ws : List (Warning Float)) : String := joinWith "," (ws.map showWarning)

def showResult (r : Except (Failure Float) (Outcome Float)) : String :=
  match r with
  | .ok o =>
    let uc := match o.underconstrained with | none => "none" | some us => "[" ++ showIds us ++ "]"
    s!"OK F {showFloats o.finalValues} IT {o.iterations} UN {showIds o.unsatisfied} PR {o.prioritySolved} W {showWarnings o.warnings} UC {uc}"
  | .error f =>
    s!"ERR {showErr f.error} NV {f.numVars} NE {f.numEqs} W {showWarnings f.warnings}"

/-- The oracle standing in for faer's LU: what Rust recorded for (call, iteration). -/
def oracleSolve (calls : Array CallRec) : LinSolve Float := fun call k _ _ =>
  match calls[call]? with
  | none => .error (.panic "oracle: no such call")
  | some c =>
    match c.steps[k]? with
    | none => .error (.panic "oracle: no recorded step")
    | some r => r

def oracleSvd (calls : Array CallRec) : Svd Float := fun call _ =>
  match calls[call]? with
  | none => .error (.panic "oracle: no such call")
  | some c =>
    match c.svd with
    | none => .error (.panic "oracle: no recorded svd")
    | some r => r

/-- Sum of the contributions at each pattern cell, cells sorted column-major (faer's order). -/
def accumulate (pat : List (Nat × Nat)) (trips : List (Triplet Float)) : List (Nat × Nat × Float) :=
  let cells := (pat.toArray.qsort (fun a b => a.2 < b.2 || (a.2 == b.2 && a.1 < b.1))).toList.eraseDups
  cells.map fun (r, c) =>
    (r, c, trips.foldl (fun acc (r', c', v) => if r' == r && c' == c then acc + v else acc) 0.0)

def showJac (cells : List (Nat × Nat × Float)) : String :=
  joinWith "," (cells.map fun (r, c, v) => s!"{r}.{c}.{floatToBits v}")

/-- Model residual / Jacobian at every iterate the Rust run visited (iterates are rebuilt from the
recorded steps: `x_{k+1} = x_k + d_k`). -/
def iterDump (sc : SolveCase) : String :=
  let es := enumerate sc.reqs
  let lvls := levels es
  let x0 := sc.guesses.map (·.2)
  let parts := (List.range sc.calls.size).flatMap fun ci =>
    match sc.calls[ci]?, lvls[ci]? with
    | some call, some p =>
      let subset := es.filter (fun e => e.priority ≤ p)
      let pat := pattern subset
      let rec go (fuel k : Nat) (x : List Float) (acc : List String) : List String :=
        match fuel with
        | 0 => acc.reverse
        | fuel + 1 =>
          if k ≥ call.nIters then acc.reverse else
          let arr := x.toArray
          let lk : Nat → Option Float := fun i => arr[i]?
          let r := match residualAll subset lk with
            | .ok (r, _) => showFloats r
            | .error _ => "panic"
          let j := match jacobianFrom pat subset lk 0 with
            | .ok (t, _) => showJac (accumulate pat t)
            | .error _ => "panic"
          let acc := s!"{ci}:{k}:{r}:{j}" :: acc
          match call.steps[k]? with
          | some (.ok d) => go fuel (k + 1) (List.zipWith (· + ·) x d) acc
          | _ => acc.reverse
      go (call.nIters + 1) 0 x0 []
    | _, _ => []
  joinWith ";" parts

/-- Smallest relative distance of any stopping / satisfaction decision from its threshold, so the
comparison can tell a genuine disagreement from a last-ulp difference exactly at a threshold. -/
def decisionMargin (sc : SolveCase) : Float :=
  let es := enumerate sc.reqs
  let lvls := levels es
  let x0 := sc.guesses.map (·.2)
  let rel (a t : Float) : Float :=
    if a.isNaN || t.isNaN then 1.0 else (a - t).abs / (max t.abs 1e-300)
  -- a threshold may be 0 (tolerance 0 in the malformed stream): then the decision is "is it exactly
  -- zero", which a last-ulp difference in a coordinate of magnitude `xinf` can flip
  let relAt (a t xinf : Float) : Float :=
    if a.isNaN || t.isNaN then 1.0 else (a - t).abs / (max t.abs (1e-6 * max 1.0 xinf))
  (List.range sc.calls.size).foldl (init := 1.0) fun m ci =>
    match sc.calls[ci]?, lvls[ci]? with
    | some call, some p =>
      let subset := es.filter (fun e => e.priority ≤ p)
      let rec go (fuel k : Nat) (x : List Float) (m : Float) : Float × List Float :=
        match fuel with
        | 0 => (m, x)
        | fuel + 1 =>
          if k ≥ call.nIters then (m, x) else
          let arr := x.toArray
          let lk : Nat → Option Float := fun i => arr[i]?
          let m := match residualAll subset lk with
            | .ok (r, _) => match maxAbs? r with
              | some l => min m (relAt l sc.cfg.convergenceTolerance (maxAbs0 x))
              | none => m
            | .error _ => m
          match call.steps[k]? with
          | some (.ok d) =>
            let curInf := maxAbs0 x
            let stepInf := (maxAbs? d).getD 0.0
            let thr := sc.cfg.stepTolerance * (curInf + sc.cfg.stepTolerance)
            go fuel (k + 1) (List.zipWith (· + ·) x d) (min m (relAt stepInf thr (1e-3 * curInf)))
          | _ => (m, x)
      let (m, xf) := go (call.nIters + 1) 0 x0 m
      -- satisfaction sweep at the final values of this call
      let arr := xf.toArray
      let lk : Nat → Option Float := fun i => arr[i]?
      subset.foldl (init := m) fun m e =>
        match e.c.residual lk with
        | some r =>
          let eps : Float := EPS
          let rs := takeRows e.c.residualDim r.r0 r.r1 r.r2
          -- (the error measure of a request at coordinates of magnitude `xinf` carries rounding noise
          -- of a few ulp(xinf); relative to EPS that is what decides whether a verdict is near its threshold)
          rs.foldl (fun m v => min m (relAt v.abs eps (maxAbs0 xf))) m
        | none => m
    | _, _ => m

def runSolve (ts : Toks) : String :=
  match parseSolveCase ts with
  | none => "bad-op"
  | some sc =>
    let svd := if sc.analysis then some (oracleSvd sc.calls) else none
    let r := solveWithPriority sc.reqs sc.guesses sc.cfg (oracleSolve sc.calls) svd
    s!"{showResult r} MARGIN {floatToBits (decisionMargin sc)} ITERS {iterDump sc}"

end Ezpz.Driver
