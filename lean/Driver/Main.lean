import Driver.Codec
import Driver.Solve
import Driver.Text
import Driver.Cli
import Driver.Composite
open Ezpz Ezpz.Driver

/-- Discrete signature and float payload of one kernel evaluation (for the stability probe). -/
def kernelSig (c : Constraint Float) (vals : Array Float) : String × List Float :=
  let x : Nat → Option Float := fun i => vals[i]?
  let (s1, f1) := match c.residual x with
    | none => ("p", [])
    | some r => (showBool r.degenerate, [r.r0, r.r1, r.r2])
  let (s2, f2) := match c.jacobianRows x with
    | none => ("p", [])
    | some j => (s!"{showBool j.degenerate}{showIds (j.r0.map (·.id))}|{showIds (j.r1.map (·.id))}|{showIds (j.r2.map (·.id))}",
                 (j.r0 ++ j.r1 ++ j.r2).map (·.pd))
  (s1 ++ "/" ++ s2, f1 ++ f2)

def closeRel (a b : Float) : Bool :=
  if a.isNaN || b.isNaN then a.isNaN && b.isNaN
  else if a == b then true
  else (a - b).abs ≤ 1e-6 * (max a.abs b.abs) + 1e-9

/-- Is the evaluation insensitive to a 1e-9 relative perturbation of the inputs?  Cases that are
not (within rounding distance of a guard or a branch switch) are skipped by the comparison. -/
def kernelStable (c : Constraint Float) (vals : Array Float) : Bool :=
  let base := kernelSig c vals
  [1, 2, 3, 4].all fun pat =>
    let vals' := vals.mapIdx fun i v =>
      let sgn : Float := if ((i + 1) * pat * 2654435761 / 65536) % 2 == 0 then 1.0 else -1.0
      v * (1.0 + 1e-9 * sgn) + 1e-13 * sgn
    let s := kernelSig c vals'
    s.1 == base.1 && s.2.length == base.2.length &&
      (List.zip s.2 base.2).all (fun (a, b) => closeRel a b)

/-- `K <constraint> V <n> <bits>*`: nonzeroes, dimension, residual and Jacobian of one constraint. -/
def runKernel (ts : Toks) : String :=
  match parseConstraint ts with
  | none => "bad-op"
  | some (c, rest) =>
    match rest with
    | "V" :: n :: rest =>
      match n.toNat? with
      | none => "bad-op"
      | some n =>
        match takeFloats n rest with
        | some (vals, []) =>
          let arr := vals.toArray
          let x : Nat → Option Float := fun i => arr[i]?
          let nz := c.nonzeroes
          let res := match c.residual x with
            | none => "panic"
            | some r => s!"ok {floatToBits r.r0} {floatToBits r.r1} {floatToBits r.r2} {showBool r.degenerate}"
          let jac := match c.jacobianRows x with
            | none => "panic"
            | some j => s!"ok {showJRow j.r0}|{showJRow j.r1}|{showJRow j.r2} {showBool j.degenerate}"
          s!"NZ {showIds nz.r0}|{showIds nz.r1}|{showIds nz.r2} DIM {c.residualDim} RES {res} JAC {jac} STABLE {showBool (kernelStable c arr)}"
        | _ => "bad-op"
    | _ => "bad-op"

def step (line : String) : String :=
  match line.trimAscii.toString.splitOn " " with
  | "K" :: ts => runKernel ts
  | "S" :: ts => runSolve ts
  | ["T"] => runText [""]   -- the empty text: its (empty) hex token is trimmed away with the line end
  | "T" :: ts => runText ts
  | "C" :: ts => runCli ts
  | "X" :: ts => runComposite ts
  | _ => "bad-op"

partial def loop (h : IO.FS.Stream) (out : IO.FS.Stream) : IO Unit := do
  let line ← h.getLine
  if line.isEmpty then return ()
  out.putStrLn (step line)
  loop h out

def main : IO Unit := do
  let out ← IO.getStdout
  loop (← IO.getStdin) out
