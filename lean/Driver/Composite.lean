/-
`X <name> <ids…> <bits>`: the basic constraints a composite constructor returns
(`constraints/composite.rs` ↔ `Ezpz/Model/Composite.lean`), in the harness's text codec.
-/
import Driver.Text
import Ezpz.Model.Composite
namespace Ezpz.Driver
open Ezpz

def runComposite (ts : Toks) : String :=
  match ts with
  | name :: rest =>
    match rest.mapM (·.toNat?) with
    | none => "bad-op"
    | some ns =>
      let pt (k : Nat) : Pt := ⟨ns.getD k 0, ns.getD (k + 1) 0⟩
      let seg (k : Nat) : Seg := ⟨pt k, pt (k + 2)⟩
      let d : Float := Float.ofBits (UInt64.ofNat (ns.getLast?.getD 0))
      let out : Option (List (Constraint Float)) :=
        match name, ns.length with
        | "lines_parallel", 9 => some [Constraint.linesParallel (seg 0) (seg 4)]
        | "lines_perpendicular", 9 => some [Constraint.linesPerpendicular (seg 0) (seg 4)]
        | "point_bisects_arc", 9 => some (Constraint.pointBisectsArc ⟨pt 0, pt 2, pt 4⟩ (pt 6))
        | "parallel_lines_distance", 9 => some (Constraint.parallelLinesDistance (seg 0) (seg 4) d)
        | "circle_arc_coincident", 10 =>
          some (Constraint.circleArcCoincident ⟨pt 0, ns.getD 2 0⟩ ⟨pt 3, pt 5, pt 7⟩)
        | _, _ => none
      match out with
      | none => "bad-op"
      | some cs => joinWith ";" (cs.map showConstraint)
  | _ => "bad-op"

end Ezpz.Driver
