/-
`X <name> <ids…> <bits>`: the basic constraints a composite constructor returns
(`constraints/composite.rs` ↔ `Ezpz/Model/Composite.lean`), in the harness's text codec.
-/
import Driver.Text
import Ezpz.Model.Composite
import Ezpz.Model.Outcome
namespace Ezpz.Driver
open Ezpz

/-- `X lookup_<kind> <ids…> <n> <n value bits>`: the typed lookups of `solve_outcome.rs` on an outcome
whose final values are the given ones (`Ezpz/Model/Outcome.lean`); `PANIC` where the real code
indexes out of bounds. -/
def runLookup (kind : String) (ns : List Nat) : String :=
  let nid := match kind with
    | "lookup_distance" => 1 | "lookup_point" => 2 | "lookup_circle" => 3 | "lookup_arc" => 6 | _ => 0
  if nid = 0 ∨ ns.length < nid + 1 then "bad-op" else
  let ids := ns.take nid
  let n := ns.getD nid 0
  let vals : List Float := ((ns.drop (nid + 1)).take n).map (fun b => Float.ofBits (UInt64.ofNat b))
  if vals.length ≠ n ∨ ns.length ≠ nid + 1 + n then "bad-op" else
  let o : Outcome Float := ⟨[], vals, 0, [], 0, none⟩
  let id (k : Nat) := ids.getD k 0
  let pt (k : Nat) : Pt := ⟨id k, id (k + 1)⟩
  let sh (xs : List Float) : String := joinWith " " (xs.map (fun v => toString v.toBits.toNat))
  match kind with
  | "lookup_distance" =>
    match o.finalValueDistance (id 0) with | some v => sh [v] | none => "PANIC"
  | "lookup_point" =>
    match o.finalValuePoint (pt 0) with | some (x, y) => sh [x, y] | none => "PANIC"
  | "lookup_circle" =>
    match o.finalValueCircle ⟨pt 0, id 2⟩ with | some ((x, y), r) => sh [x, y, r] | none => "PANIC"
  | _ =>
    match o.finalValueArc ⟨pt 0, pt 2, pt 4⟩ with
    | some ((ax, ay), (bx, bY), (cx, cy)) => sh [ax, ay, bx, bY, cx, cy]
    | none => "PANIC"

def runComposite (ts : Toks) : String :=
  match ts with
  | name :: rest =>
    if name.startsWith "lookup_" then
      match rest.mapM (·.toNat?) with
      | none => "bad-op"
      | some ns => runLookup name ns
    else
    match rest.mapM (·.toNat?) with
    | none => "bad-op"
    | some ns =>
      let pt (k : Nat) : Pt := ⟨ns.getD k 0, ns.getD (k + 1) 0⟩
      let seg (k : Nat) : Seg := ⟨pt k, pt (k + 2)⟩
      let d : Float := Float.ofBits (UInt64.ofNat (ns.getLast?.getD 0))
      let out : Option (List (Constraint Float)) :=
        match name, ns.length with
        | "lines_parallel", 9 => some [Constraint.linesParallel (seg 0) (seg 4)]
        | "lines_perpendicular", 9 => some [Constraint.linesPerpendicular (seg 0) (seg 4)]
        | "point_bisects_arc", 9 => some (Constraint.pointBisectsArc ⟨pt 0, pt 2, pt 4⟩ (pt 6))
        | "parallel_lines_distance", 9 => some (Constraint.parallelLinesDistance (seg 0) (seg 4) d)
        | "circle_arc_coincident", 10 =>
          some (Constraint.circleArcCoincident ⟨pt 0, ns.getD 2 0⟩ ⟨pt 3, pt 5, pt 7⟩)
        | _, _ => none
      match out with
      | none => "bad-op"
      | some cs => joinWith ";" (cs.map showConstraint)
  | _ => "bad-op"

end Ezpz.Driver
