/-
`C` command: the standard output the CLI must print for a text, given what the library computed.
-/
import Driver.Text
import Ezpz.Model.Cli
import Ezpz.Model.CliMain
import Ezpz.Model.Fmt
namespace Ezpz.Driver
open Ezpz Ezpz.Text Ezpz.Cli

/-- Rust's `{:.2}` for f64: exact value rounded to two decimals, ties to even.  The integer core is
in the model (`Ezpz/Model/Fmt.lean`) and proved correctly rounded in `Ezpz/Proofs/FmtCorrect.lean`. -/
def fmt2 (x : Float) : String := Ezpz.Cli.fmt2Bits x.toBits.toNat

/-- `C <show:0|1> <nconstraints> <hex text> <status …>` where status is one of
`read | parse | build | serr <nv> <ne> W <kinds,> | ok <nv> <ne> <iters> <prio> U <idx,> W <kinds,> F n bits…` -/
def runCli (ts : Toks) : String :=
  match ts with
  | showp :: nc :: hex :: rest =>
    match nc.toNat?, unhex hex with
    | some nc, some text =>
      let kinds (s : String) : List String := if s == "-" then [] else s.splitOn ","
      let run? : Option (Run Float) :=
        match rest with
        | ["read"] => some .readError
        | ["parse"] => some .parseError
        | ["build"] => some .buildError
        | ["serr", nv, ne, "W", w] => do
          pure (.solveError (kinds w) (← nv.toNat?) (← ne.toNat?))
        | "ok" :: nv :: ne :: it :: pr :: "U" :: u :: "W" :: w :: "F" :: n :: fs => do
          let n ← n.toNat?
          let (vals, _) ← takeFloats n fs
          let p ← parseProblem text
          let l ← labelOutcome p vals
          let us ← (kinds u).mapM (·.toNat?)
          pure (.solved (kinds w) us (← nv.toNat?) (← ne.toNat?) (← it.toNat?) (← pr.toNat?) l)
        | _ => none
      -- the stages of `Cli.classify` (CliMain.lean) recomputed by the model from the text alone
      -- must agree with what the real library reported: parse / build status and the sizes
      let stage : String :=
        match parseProblem text with
        | none => "parse"
        | some p =>
          match toConstraintSystem p with
          | .error _ => "build"
          | .ok cs => s!"built {Cli.numVars cs} {Cli.numEqs cs} {cs.constraints.length}"
      let reported : String :=
        match rest with
        | ["read"] => stage
        | ["parse"] => "parse"
        | ["build"] => "build"
        | ["serr", nv, ne, "W", _] => s!"built {nv} {ne} {nc}"
        | "ok" :: nv :: ne :: _ => s!"built {nv} {ne} {nc}"
        | _ => "?"
      if stage != reported then s!"STAGE-MISMATCH model={stage} library={reported}" else
      match run? with
      | none => "bad-op"
      | some r =>
        match Cli.run fmt2 (showp == "1") nc r with
        | none => "PANIC"
        | some o => s!"EXIT {o.exit} OUT {joinWith "\\n" o.stdout}"
    | _, _ => "bad-op"
  | _ => "bad-op"

end Ezpz.Driver
