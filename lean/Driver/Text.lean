/-
`T` command: parse a problem text, build the constraint system, label given final values.
-/
import Driver.Codec
import Ezpz.Model.Text.Parser
import Ezpz.Model.Text.Executor
namespace Ezpz.Driver
open Ezpz Ezpz.Text

def num (v : Float) : String := if v.isNaN then "#nan" else "#" ++ floatToBits v
def fb (v : Float) : String := if v.isNaN then "nan" else floatToBits v
def comp (c : Component) : String := match c with | .x => "x" | .y => "y"

def dumpInstr : Instr Float → String
  | .declarePoint l => s!"DeclarePoint {l}"
  | .declareCircle l => s!"DeclareCircle {l}"
  | .declareArc l => s!"DeclareArc {l}"
  | .fixPointComponent p c v => s!"FixPointComponent {p} {comp c} {num v}"
  | .vertical a b => s!"Vertical {a} {b}"
  | .horizontal a b => s!"Horizontal {a} {b}"
  | .distance a b d => s!"Distance {a} {b} {num d}"
  | .parallel a b c d => s!"Parallel {a} {b} {c} {d}"
  | .perpendicular a b c d => s!"Perpendicular {a} {b} {c} {d}"
  | .angleLine a b c d ang => s!"AngleLine {a} {b} {c} {d} {if ang.degrees then "deg" else "rad"} {num ang.val}"
  | .pointsCoincident a b => s!"PointsCoincident {a} {b}"
  | .pointArcCoincident p a => s!"PointArcCoincident {p} {a}"
  | .midpoint a b m => s!"Midpoint {a} {b} {m}"
  | .symmetric lp lq a b => s!"Symmetric {lp} {lq} {a} {b}"
  | .circleRadius c r => s!"CircleRadius {c} {num r}"
  | .tangent p0 p1 c => s!"Tangent {p0} {p1} {c}"
  | .arcRadius a r => s!"ArcRadius {a} {num r}"
  | .fixCenterPointComponent o c v => s!"FixCenterPointComponent {o} {comp c} {num v}"
  | .linesEqualLength a b c d => s!"LinesEqualLength {a} {b} {c} {d}"
  | .isArc a => s!"IsArc {a}"
  | .pointLineDistance p l0 l1 d => s!"PointLineDistance {p} {l0} {l1} {num d}"
  | .line a b => s!"Line {a} {b}"
  | .arcLength a d => s!"ArcLength {a} {num d}"

def dumpProblem (p : Problem Float) : List String :=
  p.instructions.map dumpInstr ++ p.innerPoints.map (s!"InnerPoint {·}") ++
  p.innerCircles.map (s!"InnerCircle {·}") ++ p.innerArcs.map (s!"InnerArc {·}") ++
  p.innerLines.map (fun (a, b) => s!"InnerLine {a} {b}") ++
  p.pointGuesses.map (fun (l, x, y) => s!"PointGuess {l} {num x} {num y}") ++
  p.scalarGuesses.map (fun (l, v) => s!"ScalarGuess {l} {num v}")

def sp (p : Pt) : String := s!"{p.x} {p.y}"
def sl (l : Seg) : String := s!"{sp l.p0} {sp l.p1}"
def sc (c : Circ) : String := s!"{sp c.center} {c.radius}"
def sa (a : ArcD) : String := s!"{sp a.center} {sp a.start} {sp a.stop}"

/-- Same text codec as `harness/src/codec.rs::enc_constraint`. -/
def showConstraint : Constraint Float → String
  | .lineTangentToCircle l c => s!"LineTangentToCircle {sl l} {sc c}"
  | .circleTangentToCircle a b => s!"CircleTangentToCircle {sc a} {sc b}"
  | .distance p q d => s!"Distance {sp p} {sp q} {fb d}"
  | .verticalDistance p q d => s!"VerticalDistance {sp p} {sp q} {fb d}"
  | .horizontalDistance p q d => s!"HorizontalDistance {sp p} {sp q} {fb d}"
  | .vertical l => s!"Vertical {sl l}"
  | .horizontal l => s!"Horizontal {sl l}"
  | .linesAtAngle l0 l1 .parallel => s!"LinesAtAngleParallel {sl l0} {sl l1}"
  | .linesAtAngle l0 l1 .perpendicular => s!"LinesAtAnglePerpendicular {sl l0} {sl l1}"
  | .linesAtAngle l0 l1 (.other a) =>
    s!"LinesAtAngle{if a.degrees then "Deg" else "Rad"} {sl l0} {sl l1} {fb a.val}"
  | .fixed id v => s!"Fixed {id} {fb v}"
  | .scalarEqual x y => s!"ScalarEqual {x} {y}"
  | .pointsCoincident p q => s!"PointsCoincident {sp p} {sp q}"
  | .circleRadius c r => s!"CircleRadius {sc c} {fb r}"
  | .linesEqualLength l0 l1 => s!"LinesEqualLength {sl l0} {sl l1}"
  | .arcRadius a r => s!"ArcRadius {sa a} {fb r}"
  | .isArc a => s!"Arc {sa a}"
  | .midpoint l p => s!"Midpoint {sl l} {sp p}"
  | .pointLineDistance p l d => s!"PointLineDistance {sp p} {sl l} {fb d}"
  | .verticalPointLineDistance p l d => s!"VerticalPointLineDistance {sp p} {sl l} {fb d}"
  | .horizontalPointLineDistance p l d => s!"HorizontalPointLineDistance {sp p} {sl l} {fb d}"
  | .symmetric l a b => s!"Symmetric {sl l} {sp a} {sp b}"
  | .pointArcCoincident a p => s!"PointArcCoincident {sa a} {sp p}"
  | .arcLength a d => s!"ArcLength {sa a} {fb d}"
  | .arcAngle a ang => s!"ArcAngle{if ang.degrees then "Deg" else "Rad"} {sa a} {fb ang.val}"

def hexVal (c : Char) : Option Nat :=
  if '0' ≤ c && c ≤ '9' then some (c.toNat - '0'.toNat)
  else if 'a' ≤ c && c ≤ 'f' then some (c.toNat - 'a'.toNat + 10) else none

def unhex (s : String) : Option String :=
  let rec go (cs : List Char) (acc : ByteArray) : Option ByteArray :=
    match cs with
    | [] => some acc
    | a :: b :: rest => do
      let x ← hexVal a
      let y ← hexVal b
      go rest (acc.push (UInt8.ofNat (16 * x + y)))
    | _ => none
  (go s.toList ByteArray.empty).bind String.fromUTF8?

def sortStrings (xs : List String) : List String := (xs.toArray.qsort (· < ·)).toList

def showLabelled (l : Labelled Float) : String :=
  let ps := l.points.map fun (n, x, y) => s!"P {n} {fb x} {fb y}"
  let cs := l.circles.map fun (n, (cx, cy), r) => s!"C {n} {fb cx} {fb cy} {fb r}"
  let as := l.arcs.map fun (n, (cx, cy), (ax, ay), (bx, bY)) =>
    s!"A {n} {fb cx} {fb cy} {fb ax} {fb ay} {fb bx} {fb bY}"
  joinWith ";" (ps ++ cs ++ as)

/-- `T <hex-utf8-text> [F n bits…]` -/
def runText (ts : Toks) : String :=
  match ts with
  | hex :: rest =>
    match unhex hex with
    | none => "bad-op"
    | some text =>
      match parseProblem text with
      | none => "PARSE err"
      | some p =>
        let dump := joinWith "|" (dumpProblem p)
        let build := match toConstraintSystem p with
          | .error .panic => "BUILD panic"
          | .error (.text (.missingGuess l)) => s!"BUILD err MissingGuess:{l}"
          | .error (.text (.undefinedPoint l)) => s!"BUILD err UndefinedPoint:{l}"
          | .error (.text (.unusedGuesses ls)) => s!"BUILD err UnusedGuesses:{joinWith "," (sortStrings ls)}"
          | .ok cs =>
            let g := joinWith " " (cs.vars.variables.map fun (e : Nat × Float) => s!"{e.1} {fb e.2}")
            s!"BUILD ok C {joinWith ";" (cs.constraints.map showConstraint)} G {cs.vars.variables.length} {g}"
        let label := match rest with
          | "F" :: n :: fs =>
            match n.toNat? with
            | some n =>
              match takeFloats n fs with
              | some (vals, _) =>
                match labelOutcome p vals with
                | some l => " LABEL " ++ showLabelled l
                | none => " LABEL panic"
              | none => " LABEL bad"
            | none => " LABEL bad"
          | _ => ""
        s!"PARSE ok {dump} {build}{label}"
  | _ => "bad-op"

end Ezpz.Driver
