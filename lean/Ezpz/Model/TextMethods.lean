/-
The four public solve methods of the text front-end's `ConstraintSystem`
(`kcl-ezpz/src/textual/executor.rs`, `impl ConstraintSystem<'_>`):

  solve_no_metadata(config)            = crate::solve(&constraints, guesses, config)
  solve()                              = solve_with_config(Default::default())
  solve_with_config(config)            = solve_with_config_inner::<NoAnalysis>(config), analysis dropped
  solve_with_config_analysis(config)   = solve_with_config_inner::<FreedomAnalysis>(config)
  solve_with_config_inner::<A>(config) = solve_no_metadata_inner::<A>(config)?  then the labelling
  solve_no_metadata_inner::<A>(config) = crate::solve_with_priority_inner(&constraints, guesses, config)

A result `none` is a Rust panic: a panic inside the solver (`SolveError.panic _`) or
`final_values[..]` out of bounds while labelling.  `ConstraintSystem<'_>` borrows the problem's label
lists; here the problem `p` is passed alongside the built system `cs`.

Tie to the source: `tools/extract.py` regenerates on every run the call structure
(`Gen.TEXT_METHODS`), the bodies themselves with whitespace and comments removed
(`Gen.TEXT_METHOD_BODIES`, the long labelling function as a SHA-256) and the priority
`to_constraint_system` assigns (`Gen.TEXT_PRIORITY`); `Proofs/TextMethods.lean` pins all three
(`text_methods_shape`, `text_method_bodies`, `text_priority_zero`).  The agreement of the real methods
on f64 is checked by `oracle_c10`.

SCOPE: `cs.constraints` is a list of constraints, every one solved at priority 0 (`requests`).  The
Rust field `pub constraints: Vec<ConstraintRequest>` is public: a caller who pushes a request with
another priority into a built system leaves this model (that is the library's multi-priority solve).
-/
import Ezpz.Model.CliMain
namespace Ezpz.Text
open Ezpz Ezpz.Cli

variable {α : Type} [Add α] [Sub α] [Mul α] [Div α] [Neg α] [OfScientific α]
  [LT α] [DecidableLT α] [LE α] [DecidableLE α] [Transc α]

/-- `textual::Outcome` (executor.rs:609-632). -/
structure TextOutcome (α : Type) where
  unsatisfied : List Nat
  iterations : Nat
  warnings : List (Warning α)
  labelled : Labelled α
  lines : List (String × String)
  numVars : Nat
  numEqs : Nat
  prioritySolved : Nat

/-- What a method call yields: `none` is a panic, otherwise `Err(FailureOutcome)` or `Ok`. -/
abbrev MethodResult (α β : Type) := Option (Except (Failure α) β)

/-- A library result seen by the caller: a panic inside the solver unwinds through the method. -/
def liftLib {β : Type} (r : Except (Failure α) β) : MethodResult α β :=
  match r with
  | .error f => if f.error.isPanic then none else some (.error f)
  | .ok o => some (.ok o)

/-- `solve_no_metadata_inner::<A>` (executor.rs:482-491); `svd = none` is `NoAnalysis`. -/
def solveNoMetadataInner (cs : ConstraintSystem α) (cfg : Config α) (solve : LinSolve α)
    (svd : Option (Svd α)) : MethodResult α (Outcome α) :=
  liftLib (solveWithPriority (requests cs) cs.vars.variables cfg solve svd)

/-- `solve_no_metadata` (executor.rs:478-480): the library's `solve`. -/
def solveNoMetadata (cs : ConstraintSystem α) (cfg : Config α) (solve : LinSolve α) :
    MethodResult α (Outcome α) :=
  liftLib (solveWithPriority (requests cs) cs.vars.variables cfg solve none)

/-- The `Outcome { .. }` literal of `solve_with_config_inner` (executor.rs:577-591). -/
def textOutcome (p : Problem α) (cs : ConstraintSystem α) (o : Outcome α) (l : Labelled α) :
    TextOutcome α :=
  ⟨o.unsatisfied, o.iterations, o.warnings, l, p.innerLines, numVars cs, numEqs cs, o.prioritySolved⟩

/-- `solve_with_config_inner::<A>` (executor.rs:513-592): the analysis part and the labelled
outcome. -/
def solveWithConfigInner (p : Problem α) (cs : ConstraintSystem α) (cfg : Config α)
    (solve : LinSolve α) (svd : Option (Svd α)) :
    MethodResult α (Option (List Nat) × TextOutcome α) :=
  match solveNoMetadataInner cs cfg solve svd with
  | none => none
  | some (.error f) => some (.error f)
  | some (.ok o) =>
    match labelOutcome p o.finalValues with
    | none => none
    | some l => some (.ok (o.underconstrained, textOutcome p cs o l))

/-- `solve_with_config` (executor.rs:508-511). -/
def solveWithConfig (p : Problem α) (cs : ConstraintSystem α) (cfg : Config α)
    (solve : LinSolve α) : MethodResult α (TextOutcome α) :=
  (solveWithConfigInner p cs cfg solve none).map (fun r => r.map (·.2))

/-- `solve_with_config_analysis` (executor.rs:499-505). -/
def solveWithConfigAnalysis (p : Problem α) (cs : ConstraintSystem α) (cfg : Config α)
    (solve : LinSolve α) (svd : Svd α) : MethodResult α (Option (List Nat) × TextOutcome α) :=
  solveWithConfigInner p cs cfg solve (some svd)

/-- `solve` (executor.rs:494-496). -/
def solveDefault (p : Problem α) (cs : ConstraintSystem α) (solve : LinSolve α) :
    MethodResult α (TextOutcome α) :=
  solveWithConfig p cs Config.default solve

end Ezpz.Text
