/-
L1: per-kind kernels.  Mirrors `kcl-ezpz/src/constraints.rs`
(`nonzeroes`, `residual_dim`, `residual`, `jacobian_rows`) and `vector.rs`.

The numeric kernels (`residualV`, `jacobianV`) take a *total* lookup `v : Nat → α`.  Which slots of
the assignment slice the Rust code indexes is modelled separately (`residualReads`,
`jacobianReads`); `residual` / `jacobianRows` return `none` exactly when one of those reads is out
of range, which is where the Rust code panics.
-/
import Ezpz.Model.Datum
import Ezpz.Generated.Constants
namespace Ezpz
open Transc

variable {α : Type} [Add α] [Sub α] [Mul α] [Div α] [Neg α] [OfScientific α]
  [LT α] [DecidableLT α] [LE α] [DecidableLE α] [Transc α]

/-- Up to three rows of per-row data. -/
structure Rows (β : Type) where
  r0 : List β := []
  r1 : List β := []
  r2 : List β := []

def Rows.all {β : Type} (r : Rows β) : List β := r.r0 ++ r.r1 ++ r.r2

/-- `Constraint::nonzeroes`: which variables each Jacobian row declares. -/
def Constraint.nonzeroes : Constraint α → Rows Nat
  | .lineTangentToCircle l c => { r0 := l.vars ++ c.vars }
  | .circleTangentToCircle a b => { r0 := a.vars ++ b.vars }
  | .distance p0 p1 _ => { r0 := p0.vars ++ p1.vars }
  | .verticalDistance p0 p1 _ => { r0 := [p0.y, p1.y] }
  | .horizontalDistance p0 p1 _ => { r0 := [p0.x, p1.x] }
  | .vertical l => { r0 := [l.p0.x, l.p1.x] }
  | .horizontal l => { r0 := [l.p0.y, l.p1.y] }
  | .linesAtAngle l0 l1 _ => { r0 := l0.vars ++ l1.vars }
  | .fixed id _ => { r0 := [id] }
  | .scalarEqual x y => { r0 := [x, y] }
  | .pointsCoincident p0 p1 => { r0 := [p0.x, p1.x], r1 := [p0.y, p1.y] }
  | .circleRadius c _ => { r0 := [c.radius] }
  | .linesEqualLength l0 l1 => { r0 := l0.vars ++ l1.vars }
  | .arcRadius a _ =>
    { r0 := a.center.vars ++ a.start.vars, r1 := a.center.vars ++ a.stop.vars }
  | .isArc a => { r0 := a.vars }
  | .midpoint l p => { r0 := [l.p0.x, l.p1.x, p.x], r1 := [l.p0.y, l.p1.y, p.y] }
  | .pointLineDistance p l _ => { r0 := p.vars ++ l.vars }
  | .verticalPointLineDistance p l _ => { r0 := l.vars ++ p.vars }
  | .horizontalPointLineDistance p l _ => { r0 := l.vars ++ p.vars }
  | .symmetric l a b =>
    { r0 := l.vars ++ a.vars ++ b.vars, r1 := l.vars ++ a.vars ++ b.vars }
  | .pointArcCoincident arc p =>
    { r0 := arc.center.vars ++ p.vars ++ arc.start.vars
      r1 := arc.center.vars ++ arc.start.vars ++ p.vars
      r2 := arc.center.vars ++ arc.stop.vars ++ p.vars }
  | .arcLength a _ => { r0 := a.vars, r1 := a.vars }
  | .arcAngle a _ =>
    { r0 := (Seg.mk a.center a.start).vars ++ (Seg.mk a.center a.stop).vars }

/-- `Constraint::residual_dim`. -/
def Constraint.residualDim : Constraint α → Nat
  | .lineTangentToCircle .. => 1
  | .circleTangentToCircle .. => 1
  | .distance .. => 1
  | .verticalDistance .. => 1
  | .horizontalDistance .. => 1
  | .vertical .. => 1
  | .horizontal .. => 1
  | .linesAtAngle .. => 1
  | .fixed .. => 1
  | .scalarEqual .. => 1
  | .pointsCoincident .. => 2
  | .circleRadius .. => 1
  | .linesEqualLength .. => 1
  | .arcRadius .. => 2
  | .isArc .. => 1
  | .midpoint .. => 2
  | .pointLineDistance .. => 1
  | .verticalPointLineDistance .. => 1
  | .horizontalPointLineDistance .. => 1
  | .symmetric .. => 2
  | .pointArcCoincident .. => 3
  | .arcLength .. => 2
  | .arcAngle .. => 1

/-- The variant name, as in the Rust enum (used to tie `residualDim` to the extracted table). -/
def Constraint.kindName : Constraint α → String
  | .lineTangentToCircle .. => "LineTangentToCircle"
  | .circleTangentToCircle .. => "CircleTangentToCircle"
  | .distance .. => "Distance"
  | .verticalDistance .. => "VerticalDistance"
  | .horizontalDistance .. => "HorizontalDistance"
  | .vertical .. => "Vertical"
  | .horizontal .. => "Horizontal"
  | .linesAtAngle .. => "LinesAtAngle"
  | .fixed .. => "Fixed"
  | .scalarEqual .. => "ScalarEqual"
  | .pointsCoincident .. => "PointsCoincident"
  | .circleRadius .. => "CircleRadius"
  | .linesEqualLength .. => "LinesEqualLength"
  | .arcRadius .. => "ArcRadius"
  | .isArc .. => "Arc"
  | .midpoint .. => "Midpoint"
  | .pointLineDistance .. => "PointLineDistance"
  | .verticalPointLineDistance .. => "VerticalPointLineDistance"
  | .horizontalPointLineDistance .. => "HorizontalPointLineDistance"
  | .symmetric .. => "Symmetric"
  | .pointArcCoincident .. => "PointArcCoincident"
  | .arcLength .. => "ArcLength"
  | .arcAngle .. => "ArcAngle"

/-! ### Scalar helpers -/

/-- `x.powi(2)`. -/
@[inline] def sqr (x : α) : α := x * x
/-- `x.powi(3)`. -/
@[inline] def cube (x : α) : α := x * x * x
/-- `x.recip()`. -/
@[inline] def recip (x : α) : α := 1.0 / x

/-- `EPSILON` of `lib.rs` (value extracted from the source). -/
@[inline] def EPS : α := Gen.EPSILON

/-- `f64::to_radians` / `Angle::to_radians`. -/
def Angle.toRadians (a : Angle α) : α :=
  if a.degrees then a.val * (pi / 180.0) else a.val

/-- `f64::to_degrees` / `Angle::to_degrees`. -/
def Angle.toDegrees (a : Angle α) : α :=
  if a.degrees then a.val else a.val * (180.0 / pi)

/-- `wrap_angle_delta`. -/
def wrapAngleDelta (delta : α) : α :=
  if -pi < delta ∧ delta ≤ pi then delta else atan2 (sin delta) (cos delta)

/-- Result of one residual evaluation: three slots (unused ones stay `0.0`) and the flag. -/
structure Res (α : Type) where
  r0 : α
  r1 : α
  r2 : α
  degenerate : Bool

@[inline] def Res.mk1 (r0 : α) : Res α := ⟨r0, 0.0, 0.0, false⟩
@[inline] def Res.mk2 (r0 r1 : α) : Res α := ⟨r0, r1, 0.0, false⟩
@[inline] def Res.degen : Res α := ⟨0.0, 0.0, 0.0, true⟩

/-- Residual of `Distance(p0, p1, d)`: `hypot(p0 - p1) - d`. -/
@[inline] def distResidual (v : Nat → α) (p0 p1 : Pt) (d : α) : α :=
  hypot (v p0.x - v p1.x) (v p0.y - v p1.y) - d

/-- Residual of `LinesAtAngle(l0, l1, kind)`. -/
def linesAtAngleResidual (v : Nat → α) (l0 l1 : Seg) (k : AngleKind α) : Res α :=
  let v0x := v l0.p1.x - v l0.p0.x
  let v0y := v l0.p1.y - v l0.p0.y
  let v1x := v l1.p1.x - v l1.p0.x
  let v1y := v l1.p1.y - v l1.p0.y
  match k with
  | .parallel => Res.mk1 (v0x * v1y - v0y * v1x)
  | .perpendicular => Res.mk1 (v0x * v1x + v0y * v1y)
  | .other ang =>
    let mag0 := hypot (v l0.p0.x - v l0.p1.x) (v l0.p0.y - v l0.p1.y)
    let mag1 := hypot (v l1.p0.x - v l1.p1.x) (v l1.p0.y - v l1.p1.y)
    if mag0 < EPS ∨ mag1 < EPS then Res.degen
    else
      let cross := v0x * v1y - v0y * v1x
      let dot := v0x * v1x + v0y * v1y
      let cur := atan2 cross dot
      Res.mk1 (wrapAngleDelta (cur - ang.toRadians))

/-- `ANGULAR_DISTANCE_TOLERANCE` of `constraints.rs`. -/
@[inline] def ANG_TOL : α := Gen.ANGULAR_DISTANCE_TOLERANCE

/-- `Constraint::residual` on a total assignment. -/
def Constraint.residualV (c : Constraint α) (v : Nat → α) : Res α :=
  match c with
  | .lineTangentToCircle l c =>
    let p0x := v l.p0.x; let p0y := v l.p0.y
    let p1x := v l.p1.x; let p1y := v l.p1.y
    let cx := v c.center.x; let cy := v c.center.y
    let radius := v c.radius
    let vx := p1x - p0x; let vy := p1y - p0y
    let magV := hypot vx vy
    if magV < EPS then Res.degen
    else
      let wx := cx - p1x; let wy := cy - p1y
      let cross := vx * wy - vy * wx
      Res.mk1 (cross / magV - radius)
  | .circleTangentToCircle a b =>
    let ax := v a.center.x; let ay := v a.center.y; let ar := v a.radius
    let bx := v b.center.x; let bY := v b.center.y; let br := v b.radius
    let dist := sqrt (sqr (ax - bx) + sqr (ay - bY))
    let resInternal := -dist + abs (ar - br)
    let resExternal := ar + br - dist
    let isInternal := abs (dist - abs (ar - br)) < abs (ar + br - dist)
    Res.mk1 (if isInternal then resInternal else resExternal)
  | .distance p0 p1 d => Res.mk1 (distResidual v p0 p1 d)
  | .verticalDistance p0 p1 d => Res.mk1 ((v p0.y - v p1.y) - d)
  | .horizontalDistance p0 p1 d => Res.mk1 ((v p0.x - v p1.x) - d)
  | .vertical l => Res.mk1 (v l.p0.x - v l.p1.x)
  | .horizontal l => Res.mk1 (v l.p0.y - v l.p1.y)
  | .fixed id e => Res.mk1 (v id - e)
  | .scalarEqual x y => Res.mk1 (v x - v y)
  | .linesAtAngle l0 l1 k => linesAtAngleResidual v l0 l1 k
  | .pointsCoincident p0 p1 => Res.mk2 (v p0.x - v p1.x) (v p0.y - v p1.y)
  | .circleRadius c r => Res.mk1 (v c.radius - r)
  | .linesEqualLength l0 l1 =>
    let len0 := hypot (v l0.p0.x - v l0.p1.x) (v l0.p0.y - v l0.p1.y)
    let len1 := hypot (v l1.p0.x - v l1.p1.x) (v l1.p0.y - v l1.p1.y)
    Res.mk1 (len0 - len1)
  | .arcRadius a r =>
    Res.mk2 (distResidual v a.center a.start r) (distResidual v a.center a.stop r)
  | .isArc a =>
    let sx := v a.start.x; let sy := v a.start.y
    let ex := v a.stop.x; let ey := v a.stop.y
    let cx := v a.center.x; let cy := v a.center.y
    let d0 := sqr (sx - cx) + sqr (sy - cy)
    let d1 := sqr (ex - cx) + sqr (ey - cy)
    Res.mk1 (d0 - d1)
  | .midpoint l p =>
    let px := v l.p0.x; let py := v l.p0.y
    let qx := v l.p1.x; let qy := v l.p1.y
    let ax := v p.x; let ay := v p.y
    Res.mk2 (ax - px / 2.0 - qx / 2.0) (ay - py / 2.0 - qy / 2.0)
  | .pointLineDistance p l d =>
    let px := v p.x; let py := v p.y
    let lpx := v l.p0.x; let lpy := v l.p0.y
    let lqx := v l.p1.x; let lqy := v l.p1.y
    let a := lpy - lqy
    let b := lqx - lpx
    let denom := hypot a b
    if denom < EPS then Res.degen
    -- numerator written relative to the line's first point (the code after fix 7c5f1bc; the
    -- earlier `a*px + b*py + c` with `c = lpx*lqy - lqx*lpy` cancelled badly far from the origin)
    else Res.mk1 ((a * (px - lpx) + b * (py - lpy)) / denom - d)
  | .verticalPointLineDistance p l d =>
    let ax := v p.x; let ay := v p.y
    let px := v l.p0.x; let py := v l.p0.y
    let qx := v l.p1.x; let qy := v l.p1.y
    let dx := qx - px; let dy := qy - py
    if abs dx < EPS ∨ (dx * dx + dy * dy) < EPS then Res.degen
    else Res.mk1 ((ay - py - d) * dx - dy * (ax - px))
  | .horizontalPointLineDistance p l d =>
    let ax := v p.x; let ay := v p.y
    let px := v l.p0.x; let py := v l.p0.y
    let qx := v l.p1.x; let qy := v l.p1.y
    let dx := qx - px; let dy := qy - py
    if abs dy < EPS ∨ (dx * dx + dy * dy) < EPS then Res.degen
    else Res.mk1 (ax - d - px - (ay - py) * (-px + qx) * recip (-py + qy))
  | .symmetric l a b =>
    let ax := v a.x; let ay := v a.y
    let bx := v b.x; let bY := v b.y
    let px := v l.p0.x; let py := v l.p0.y
    let qx := v l.p1.x; let qy := v l.p1.y
    -- (a - p).reflect(q - p) - b + p
    let sx := ax - px; let sy := ay - py
    let dx := qx - px; let dy := qy - py
    let k := (sx * dx + sy * dy) / (dx * dx + dy * dy)
    let projx := dx * k; let projy := dy * k
    let rejx := sx - projx; let rejy := sy - projy
    let reflx := sx - rejx * 2.0; let refly := sy - rejy * 2.0
    Res.mk2 (reflx - bx + px) (refly - bY + py)
  | .pointArcCoincident arc p =>
    let cx := v arc.center.x; let cy := v arc.center.y
    let ax := v arc.start.x; let ay := v arc.start.y
    let bx := v arc.stop.x; let bY := v arc.stop.y
    let px := v p.x; let py := v p.y
    let arcRadius := hypot (cx - ax) (cy - ay)
    let r0 := hypot (cx - px) (cy - py) - arcRadius
    if abs r0 ≤ ANG_TOL then ⟨r0, 0.0, 0.0, false⟩
    else
      let dir : α := if 0.0 ≤ (ax - cx) * (bY - cy) - (ay - cy) * (bx - cx) then 1.0 else -1.0
      let startCrossRaw := (ax - cx) * (cy - py) - (ay - cy) * (cx - px)
      let endCrossRaw := (bx - cx) * (cy - py) - (bY - cy) * (cx - px)
      let startCross := startCrossRaw * dir
      let endCross := endCrossRaw * dir
      let r1 := if startCross ≤ 0.0 then 0.0 else -startCross
      let r2 := if 0.0 ≤ endCross then 0.0 else endCross
      ⟨r0, r1, r2, false⟩
  | .arcLength arc d =>
    let cx := v arc.center.x; let cy := v arc.center.y
    let ax := v arc.start.x; let ay := v arc.start.y
    let bx := v arc.stop.x; let bY := v arc.stop.y
    let dx := ax - cx; let dy := ay - cy
    let r2 := dx * dx + dy * dy
    if r2 < EPS then Res.degen
    else
      let n := sqr (ax - cx) + sqr (ay - cy)
      let res0 := ((ax - cx) * (bx - cx) + (ay - cy) * (bY - cy)) * recip n
        - cos (d * recip (sqrt n))
      let res1 := ((ax - cx) * (bY - cy) - (ay - cy) * (bx - cx)) * recip n
        - sin (d * recip (sqrt n))
      Res.mk2 res0 res1
  | .arcAngle arc ang =>
    linesAtAngleResidual v ⟨arc.center, arc.start⟩ ⟨arc.center, arc.stop⟩ (.other ang)

/-- One Jacobian entry: `JacobianVar { id, partial_derivative }`. -/
structure JVar (α : Type) where
  id : Nat
  pd : α

/-- Result of one `jacobian_rows` call. -/
structure Jac (α : Type) where
  r0 : List (JVar α) := []
  r1 : List (JVar α) := []
  r2 : List (JVar α) := []
  degenerate : Bool := false

/-- Row of `Distance(p0, p1, _)`: `none` when `dist < EPSILON` (degenerate, row left empty). -/
def distJacRow (v : Nat → α) (p0 p1 : Pt) : Option (List (JVar α)) :=
  let x0 := v p0.x; let y0 := v p0.y
  let x1 := v p1.x; let y1 := v p1.y
  let dist := hypot (x0 - x1) (y0 - y1)
  if dist < EPS then none
  else some [⟨p0.x, (x0 - x1) / dist⟩, ⟨p0.y, (y0 - y1) / dist⟩,
             ⟨p1.x, (-x0 + x1) / dist⟩, ⟨p1.y, (-y0 + y1) / dist⟩]

/-- `PartialDerivatives4Points::jvars`. -/
@[inline] def jvars4 (l0 l1 : Seg) (x0 y0 x1 y1 x2 y2 x3 y3 : α) : List (JVar α) :=
  [⟨l0.p0.x, x0⟩, ⟨l0.p0.y, y0⟩, ⟨l0.p1.x, x1⟩, ⟨l0.p1.y, y1⟩,
   ⟨l1.p0.x, x2⟩, ⟨l1.p0.y, y2⟩, ⟨l1.p1.x, x3⟩, ⟨l1.p1.y, y3⟩]

/-- Jacobian of `LinesAtAngle(l0, l1, kind)`. -/
def linesAtAngleJac (v : Nat → α) (l0 l1 : Seg) (k : AngleKind α) : Jac α :=
  let x0 := v l0.p0.x; let y0 := v l0.p0.y
  let x1 := v l0.p1.x; let y1 := v l0.p1.y
  let x2 := v l1.p0.x; let y2 := v l1.p0.y
  let x3 := v l1.p1.x; let y3 := v l1.p1.y
  match k with
  | .parallel =>
    { r0 := jvars4 l0 l1 (y2 - y3) (-x2 + x3) (-y2 + y3) (x2 - x3)
                         (-y0 + y1) (x0 - x1) (y0 - y1) (-x0 + x1) }
  | .perpendicular =>
    { r0 := jvars4 l0 l1 (x2 - x3) (y2 - y3) (-x2 + x3) (-y2 + y3)
                         (x0 - x1) (y0 - y1) (-x0 + x1) (-y0 + y1) }
  | .other _ =>
    let mag0 := hypot (x0 - x1) (y0 - y1)
    let mag1 := hypot (x2 - x3) (y2 - y3)
    if mag0 < EPS ∨ mag1 < EPS then { degenerate := true }
    else
      let m0 := sqr mag0
      let m1 := sqr mag1
      { r0 := jvars4 l0 l1 ((y0 - y1) / m0) ((-x0 + x1) / m0) ((-y0 + y1) / m0) ((x0 - x1) / m0)
                           ((-y2 + y3) / m1) ((x2 - x3) / m1) ((y2 - y3) / m1) ((-x2 + x3) / m1) }

/-- `Constraint::jacobian_rows` on a total assignment. -/
def Constraint.jacobianV (c : Constraint α) (v : Nat → α) : Jac α :=
  match c with
  | .lineTangentToCircle l c =>
    let x0 := v l.p0.x; let y0 := v l.p0.y
    let x1 := v l.p1.x; let y1 := v l.p1.y
    let xc := v c.center.x; let yc := v c.center.y
    let dx := x0 - x1; let dy := y0 - y1
    let magV := hypot dx dy
    let magVSq := sqr dx + sqr dy
    let magVCubed := cube magV
    if magVSq < EPS then { degenerate := true }
    else
      let crossTerm := dx * (y0 - yc) - (x0 - xc) * dy
      let drdx0 := (-dx * crossTerm + (y1 - yc) * magVSq) / magVCubed
      let drdy0 := ((-x1 + xc) * magVSq - dy * crossTerm) / magVCubed
      let drdx1 := (dx * crossTerm + (-y0 + yc) * magVSq) / magVCubed
      let drdy1 := ((x0 - xc) * magVSq + dy * crossTerm) / magVCubed
      let drdxc := (y0 - y1) / magV
      let drdyc := (-x0 + x1) / magV
      { r0 := [⟨l.p0.x, drdx0⟩, ⟨l.p0.y, drdy0⟩, ⟨l.p1.x, drdx1⟩, ⟨l.p1.y, drdy1⟩,
               ⟨c.center.x, drdxc⟩, ⟨c.center.y, drdyc⟩, ⟨c.radius, -1.0⟩] }
  | .circleTangentToCircle a b =>
    let ax := v a.center.x; let ay := v a.center.y; let ar := v a.radius
    let bx := v b.center.x; let bY := v b.center.y; let br := v b.radius
    let dist := sqrt (sqr (ax - bx) + sqr (ay - bY))
    -- coincident centres: no row, degenerate (guard added by fix for finding F22, as for `distance`)
    if dist < EPS then { degenerate := true } else
    let isInternal := abs (dist - abs (ar - br)) < abs (ar + br - dist)
    let pdax := (-ax + bx) * recip dist
    let pday := (-ay + bY) * recip dist
    let pdbx := -(-ax + bx) * recip dist
    let pdby := -(-ay + bY) * recip dist
    let pdar : α := if isInternal then (if br < ar then 1.0 else -1.0) else 1.0
    let pdbr : α := if isInternal then (if br < ar then -1.0 else 1.0) else 1.0
    { r0 := [⟨a.center.x, pdax⟩, ⟨a.center.y, pday⟩, ⟨a.radius, pdar⟩,
             ⟨b.center.x, pdbx⟩, ⟨b.center.y, pdby⟩, ⟨b.radius, pdbr⟩] }
  | .distance p0 p1 _ =>
    match distJacRow v p0 p1 with
    | none => { degenerate := true }
    | some row => { r0 := row }
  | .verticalDistance p0 p1 _ => { r0 := [⟨p0.y, 1.0⟩, ⟨p1.y, -1.0⟩] }
  | .horizontalDistance p0 p1 _ => { r0 := [⟨p0.x, 1.0⟩, ⟨p1.x, -1.0⟩] }
  | .vertical l => { r0 := [⟨l.p0.x, 1.0⟩, ⟨l.p1.x, -1.0⟩] }
  | .horizontal l => { r0 := [⟨l.p0.y, 1.0⟩, ⟨l.p1.y, -1.0⟩] }
  | .fixed id _ => { r0 := [⟨id, 1.0⟩] }
  | .scalarEqual x y => { r0 := [⟨x, 1.0⟩, ⟨y, -1.0⟩] }
  | .linesAtAngle l0 l1 k => linesAtAngleJac v l0 l1 k
  | .linesEqualLength l0 l1 =>
    let x0 := v l0.p0.x; let y0 := v l0.p0.y
    let x1 := v l0.p1.x; let y1 := v l0.p1.y
    let x2 := v l1.p0.x; let y2 := v l1.p0.y
    let x3 := v l1.p1.x; let y3 := v l1.p1.y
    let len0 := hypot (x0 - x1) (y0 - y1)
    let len1 := hypot (x2 - x3) (y2 - y3)
    if len0 < EPS ∨ len1 < EPS then { degenerate := true }
    else
      { r0 := jvars4 l0 l1 ((x0 - x1) / len0) ((y0 - y1) / len0) ((-x0 + x1) / len0)
          ((-y0 + y1) / len0) ((-x2 + x3) / len1) ((-y2 + y3) / len1) ((x2 - x3) / len1)
          ((y2 - y3) / len1) }
  | .pointsCoincident p0 p1 =>
    { r0 := [⟨p0.x, 1.0⟩, ⟨p1.x, -1.0⟩], r1 := [⟨p0.y, 1.0⟩, ⟨p1.y, -1.0⟩] }
  | .circleRadius c _ => { r0 := [⟨c.radius, 1.0⟩] }
  | .arcRadius a _ =>
    let ra := distJacRow v a.center a.start
    let rb := distJacRow v a.center a.stop
    { r0 := ra.getD [], r1 := rb.getD [], degenerate := ra.isNone || rb.isNone }
  | .isArc a =>
    let sx := v a.start.x; let sy := v a.start.y
    let ex := v a.stop.x; let ey := v a.stop.y
    let cx := v a.center.x; let cy := v a.center.y
    { r0 := [⟨a.start.x, (sx - cx) * 2.0⟩, ⟨a.start.y, (sy - cy) * 2.0⟩,
             ⟨a.stop.x, (ex - cx) * -2.0⟩, ⟨a.stop.y, (ey - cy) * -2.0⟩,
             ⟨a.center.x, (ex - sx) * 2.0⟩, ⟨a.center.y, (ey - sy) * 2.0⟩] }
  | .midpoint l p =>
    { r0 := [⟨p.x, 1.0⟩, ⟨l.p0.x, -0.5⟩, ⟨l.p1.x, -0.5⟩]
      r1 := [⟨p.y, 1.0⟩, ⟨l.p0.y, -0.5⟩, ⟨l.p1.y, -0.5⟩] }
  | .pointLineDistance p l _ =>
    let px := v p.x; let py := v p.y
    let p0x := v l.p0.x; let p0y := v l.p0.y
    let p1x := v l.p1.x; let p1y := v l.p1.y
    let euclid := hypot (-p0x + p1x) (p0y - p1y)
    let dpx := (p0y - p1y) / euclid
    let dpy := (-p0x + p1x) / euclid
    let denom := powf (sqr (-p0x + p1x) + sqr (p0y - p1y)) 1.5
    let num := p0x * p1y - p0y * p1x + px * (p0y - p1y) + py * (-p0x + p1x)
    let dp0x := ((-p0x + p1x) * num) / denom + (p1y - py) / euclid
    let dp0y := ((-p0y + p1y) * num) / denom + (-p1x + px) / euclid
    let dp1x := ((p0x - p1x) * num) / denom + (-p0y + py) / euclid
    let dp1y := ((p0y - p1y) * num) / denom + (p0x - px) / euclid
    { r0 := [⟨p.x, dpx⟩, ⟨p.y, dpy⟩, ⟨l.p0.x, dp0x⟩, ⟨l.p0.y, dp0y⟩,
             ⟨l.p1.x, dp1x⟩, ⟨l.p1.y, dp1y⟩] }
  | .verticalPointLineDistance p l d =>
    let ax := v p.x; let ay := v p.y
    let px := v l.p0.x; let py := v l.p0.y
    let qx := v l.p1.x; let qy := v l.p1.y
    let dx := qx - px; let dy := qy - py
    if abs dx < EPS ∨ (dx * dx + dy * dy) < EPS then { degenerate := true }
    else
      { r0 := [⟨p.x, -dy⟩, ⟨p.y, dx⟩, ⟨l.p0.x, qy - ay + d⟩, ⟨l.p0.y, ax - qx⟩,
               ⟨l.p1.x, ay - py - d⟩, ⟨l.p1.y, -(ax - px)⟩] }
  | .horizontalPointLineDistance p l _ =>
    let ay := v p.y
    let px := v l.p0.x; let py := v l.p0.y
    let qx := v l.p1.x; let qy := v l.p1.y
    let dx := qx - px; let dy := qy - py
    if abs dy < EPS ∨ (dx * dx + dy * dy) < EPS then { degenerate := true }
    else
      let dpx := (-ay + qy) * recip (py - qy)
      let dpy := (ay - qy) * (px - qx) * recip (sqr (py - qy))
      let dqx := (ay - py) * recip (py - qy)
      let dqy := -(ay - py) * (px - qx) * recip (sqr (py - qy))
      let day := (-px + qx) * recip (py - qy)
      { r0 := [⟨p.x, 1.0⟩, ⟨p.y, day⟩, ⟨l.p0.x, dpx⟩, ⟨l.p0.y, dpy⟩,
               ⟨l.p1.x, dqx⟩, ⟨l.p1.y, dqy⟩] }
  | .symmetric l a b =>
    let px := v l.p0.x; let py := v l.p0.y
    let qx := v l.p1.x; let qy := v l.p1.y
    let ax := v a.x; let ay := v a.y
    let dx := px - qx; let dy := py - qy
    let dx2 := dx * dx; let dy2 := dy * dy
    let r := dx2 + dy2
    let r2 := sqr r
    if r2 < EPS then { degenerate := true }
    else
      let sx := ax - px; let sy := ay - py
      let dot := sx * dx + sy * dy
      let dpx0 := (-4.0 * dx2 * dot + 2.0 * r2
        + 2.0 * r * (sx * dx + sy * dy + dx * (ax - 2.0 * px + qx))) / r2
      let dpx1 := dy * (-4.0 * dx * dot + 2.0 * r * (ax - 2.0 * px + qx)) / r2
      let dpy0 := dx * (-4.0 * dy * dot + 2.0 * r * (ay - 2.0 * py + qy)) / r2
      let dpy1 := (-4.0 * dy2 * dot + 2.0 * r2
        + 2.0 * r * (sx * dx + sy * dy + dy * (ay - 2.0 * py + qy))) / r2
      let dqx0 := (4.0 * dx2 * dot - (4.0 * sx * dx + 2.0 * sy * dy) * r) / r2
      let dqx1 := dy * (-2.0 * sx * r + 4.0 * dx * dot) / r2
      let dqy0 := dx * (-2.0 * sy * r + 4.0 * dy * dot) / r2
      let dqy1 := (4.0 * dy2 * dot - (2.0 * sx * dx + 4.0 * sy * dy) * r) / r2
      let dax0 := 1.0 * (dx2 - dy2) / r
      let dax1 := 2.0 * dx * dy / r
      let day0 := 2.0 * dx * dy / r
      let day1 := 1.0 * (-dx2 + dy2) / r
      { r0 := [⟨l.p0.x, dpx0⟩, ⟨l.p0.y, dpy0⟩, ⟨l.p1.x, dqx0⟩, ⟨l.p1.y, dqy0⟩,
               ⟨a.x, dax0⟩, ⟨a.y, day0⟩, ⟨b.x, -1.0⟩, ⟨b.y, 0.0⟩]
        r1 := [⟨l.p0.x, dpx1⟩, ⟨l.p0.y, dpy1⟩, ⟨l.p1.x, dqx1⟩, ⟨l.p1.y, dqy1⟩,
               ⟨a.x, dax1⟩, ⟨a.y, day1⟩, ⟨b.x, 0.0⟩, ⟨b.y, -1.0⟩] }
  | .pointArcCoincident arc p =>
    let cx := v arc.center.x; let cy := v arc.center.y
    let ax := v arc.start.x; let ay := v arc.start.y
    let bx := v arc.stop.x; let bY := v arc.stop.y
    let px := v p.x; let py := v p.y
    let arcRadius := hypot (cx - ax) (cy - ay)
    let rowD := distJacRow v arc.center p
    let radOk : Bool := decide (EPS ≤ arcRadius)
    let rowR : List (JVar α) :=
      if radOk then
        let drdax := -(ax - cx) / arcRadius
        let drday := -(ay - cy) / arcRadius
        [⟨arc.start.x, drdax⟩, ⟨arc.start.y, drday⟩, ⟨arc.center.x, -drdax⟩, ⟨arc.center.y, -drday⟩]
      else []
    let row0 := rowD.getD [] ++ rowR
    let degen := rowD.isNone || !radOk
    let distance := hypot (cx - px) (cy - py)
    if abs (distance - arcRadius) ≤ ANG_TOL then { r0 := row0, degenerate := degen }
    else
      let dir : α := if 0.0 ≤ (ax - cx) * (bY - cy) - (ay - cy) * (bx - cx) then 1.0 else -1.0
      let startCrossRaw := (ax - cx) * (cy - py) - (ay - cy) * (cx - px)
      let endCrossRaw := (bx - cx) * (cy - py) - (bY - cy) * (cx - px)
      let startCross := startCrossRaw * dir
      let sw : α := if 0.0 < startCross then 1.0
        else if startCross ≤ 0.0 ∧ 0.0 ≤ startCross then 0.5 else 0.0
      let row1 : List (JVar α) :=
        [⟨arc.center.x, (ay - py) * sw * dir⟩, ⟨arc.center.y, -(ax - px) * sw * dir⟩,
         ⟨arc.start.x, -(cy - py) * sw * dir⟩, ⟨arc.start.y, (cx - px) * sw * dir⟩,
         ⟨p.x, -(ay - cy) * sw * dir⟩, ⟨p.y, (ax - cx) * sw * dir⟩]
      let endCross := endCrossRaw * dir
      let ew : α := if 0.0 < endCross then 0.0
        else if endCross ≤ 0.0 ∧ 0.0 ≤ endCross then 0.5 else 1.0
      let row2 : List (JVar α) :=
        [⟨arc.center.x, -(bY - py) * ew * dir⟩, ⟨arc.center.y, (bx - px) * ew * dir⟩,
         ⟨arc.stop.x, (cy - py) * ew * dir⟩, ⟨arc.stop.y, -(cx - px) * ew * dir⟩,
         ⟨p.x, (bY - cy) * ew * dir⟩, ⟨p.y, -(bx - cx) * ew * dir⟩]
      { r0 := row0, r1 := row1, r2 := row2, degenerate := degen }
  | .arcLength arc d =>
    let cx := v arc.center.x; let cy := v arc.center.y
    let ax := v arc.start.x; let ay := v arc.start.y
    let bx := v arc.stop.x; let bY := v arc.stop.y
    let dx := ax - cx; let dy := ay - cy
    let r2 := dx * dx + dy * dy
    if r2 < EPS then { degenerate := true }
    else
      let n := sqr (ax - cx) + sqr (ay - cy)
      let n72 := powf n (7.0 / 2.0)
      let n52 := powf n (5.0 / 2.0)
      let n92 := powf n (9.0 / 2.0)
      let n3 := cube n
      let sn := sin (d * recip (sqrt n))
      let cs := cos (d * recip (sqrt n))
      let dotab := (ax - cx) * (bx - cx) + (ay - cy) * (bY - cy)
      let crossab := (ax - cx) * (bY - cy) - (ay - cy) * (bx - cx)
      let r0dax := ((bx - cx) * n72 - 2.0 * (ax - cx) * dotab * n52 - d * (ax - cx) * n3 * sn) / n92
      let r0day := ((bY - cy) * n72 - 2.0 * (ay - cy) * dotab * n52 - d * (ay - cy) * n3 * sn) / n92
      let r0dbx := (ax - cx) * recip n
      let r0dby := (ay - cy) * recip n
      let r0dcx := (n72 * (-ax - bx + 2.0 * cx) + 2.0 * (ax - cx) * dotab * n52
        + d * (ax - cx) * n3 * sn) / n92
      let r0dcy := (n72 * (-ay - bY + 2.0 * cy) + 2.0 * (ay - cy) * dotab * n52
        + d * (ay - cy) * n3 * sn) / n92
      let r1dax := ((bY - cy) * n72 - 2.0 * (ax - cx) * crossab * n52 + d * (ax - cx) * n3 * cs) / n92
      let r1day := ((-bx + cx) * n72 - 2.0 * (ay - cy) * crossab * n52 + d * (ay - cy) * n3 * cs) / n92
      let r1dbx := (-ay + cy) * recip n
      let r1dby := (ax - cx) * recip n
      let r1dcx := ((ay - bY) * n72 + 2.0 * (ax - cx) * crossab * n52 - d * (ax - cx) * n3 * cs) / n92
      let r1dcy := ((-ax + bx) * n72 + 2.0 * (ay - cy) * crossab * n52 - d * (ay - cy) * n3 * cs) / n92
      { r0 := [⟨arc.start.x, r0dax⟩, ⟨arc.start.y, r0day⟩, ⟨arc.stop.x, r0dbx⟩,
               ⟨arc.stop.y, r0dby⟩, ⟨arc.center.x, r0dcx⟩, ⟨arc.center.y, r0dcy⟩]
        r1 := [⟨arc.start.x, r1dax⟩, ⟨arc.start.y, r1day⟩, ⟨arc.stop.x, r1dbx⟩,
               ⟨arc.stop.y, r1dby⟩, ⟨arc.center.x, r1dcx⟩, ⟨arc.center.y, r1dcy⟩] }
  | .arcAngle arc ang =>
    linesAtAngleJac v ⟨arc.center, arc.start⟩ ⟨arc.center, arc.stop⟩ (.other ang)

/-! ### Which slots of the assignment slice are indexed -/

/-- The ids whose value `Constraint::residual` reads (`current_assignments[layout.index_of(id)]`). -/
def Constraint.residualReads : Constraint α → List Nat
  | .lineTangentToCircle l c => l.vars ++ c.vars
  | .circleTangentToCircle a b => a.vars ++ b.vars
  | .distance p0 p1 _ => p0.vars ++ p1.vars
  | .verticalDistance p0 p1 _ => [p0.y, p1.y]
  | .horizontalDistance p0 p1 _ => [p0.x, p1.x]
  | .vertical l => [l.p0.x, l.p1.x]
  | .horizontal l => [l.p0.y, l.p1.y]
  | .linesAtAngle l0 l1 _ => l0.vars ++ l1.vars
  | .fixed id _ => [id]
  | .scalarEqual x y => [x, y]
  | .pointsCoincident p0 p1 => p0.vars ++ p1.vars
  | .circleRadius c _ => [c.radius]
  | .linesEqualLength l0 l1 => l0.vars ++ l1.vars
  | .arcRadius a _ => a.center.vars ++ a.start.vars ++ a.center.vars ++ a.stop.vars
  | .isArc a => a.vars
  | .midpoint l p => l.vars ++ p.vars
  | .pointLineDistance p l _ => p.vars ++ l.vars
  | .verticalPointLineDistance p l _ => p.vars ++ l.vars
  | .horizontalPointLineDistance p l _ => p.vars ++ l.vars
  | .symmetric l a b => a.vars ++ b.vars ++ l.vars
  | .pointArcCoincident arc p => arc.center.vars ++ arc.start.vars ++ arc.stop.vars ++ p.vars
  | .arcLength a _ => a.center.vars ++ a.start.vars ++ a.stop.vars
  | .arcAngle a _ => (Seg.mk a.center a.start).vars ++ (Seg.mk a.center a.stop).vars

/-- The ids whose value `Constraint::jacobian_rows` reads. -/
def Constraint.jacobianReads : Constraint α → List Nat
  | .lineTangentToCircle l c => l.vars ++ c.center.vars
  | .circleTangentToCircle a b => a.vars ++ b.vars
  | .distance p0 p1 _ => p0.vars ++ p1.vars
  | .verticalDistance .. => []
  | .horizontalDistance .. => []
  | .vertical _ => []
  | .horizontal _ => []
  | .linesAtAngle l0 l1 _ => l0.vars ++ l1.vars
  | .fixed .. => []
  | .scalarEqual .. => []
  | .pointsCoincident .. => []
  | .circleRadius .. => []
  | .linesEqualLength l0 l1 => l0.vars ++ l1.vars
  | .arcRadius a _ => a.center.vars ++ a.start.vars ++ a.center.vars ++ a.stop.vars
  | .isArc a => a.vars
  | .midpoint .. => []
  | .pointLineDistance p l _ => p.vars ++ l.vars
  | .verticalPointLineDistance p l _ => p.vars ++ l.vars
  | .horizontalPointLineDistance p l _ => [p.y] ++ l.vars
  | .symmetric l a _ => l.vars ++ a.vars
  | .pointArcCoincident arc p => arc.center.vars ++ arc.start.vars ++ arc.stop.vars ++ p.vars
  | .arcLength a _ => a.center.vars ++ a.start.vars ++ a.stop.vars
  | .arcAngle a _ => (Seg.mk a.center a.start).vars ++ (Seg.mk a.center a.stop).vars

/-- `Constraint::residual` over a partial assignment: `none` is the Rust index-out-of-bounds panic. -/
def Constraint.residual (c : Constraint α) (x : Nat → Option α) : Option (Res α) :=
  if c.residualReads.all (fun i => (x i).isSome) then
    some (c.residualV (fun i => (x i).getD 0.0))
  else none

/-- `Constraint::jacobian_rows` over a partial assignment. -/
def Constraint.jacobianRows (c : Constraint α) (x : Nat → Option α) : Option (Jac α) :=
  if c.jacobianReads.all (fun i => (x i).isSome) then
    some (c.jacobianV (fun i => (x i).getD 0.0))
  else none

end Ezpz
