/-
Typed lookups of a successful result (`kcl-ezpz/src/solve_outcome.rs:52-86`): each reads
`final_values` at the ids stored in the datum.  `none` stands for the index-out-of-bounds panic of the
real code (an id that is not a position of `final_values`).
-/
import Ezpz.Model.Solve
namespace Ezpz

variable {α : Type}

/-- `SolveOutcome::final_value_scalar` / `final_value_distance`: `self.final_values[id]`. -/
def Outcome.finalValueDistance (o : Outcome α) (id : Nat) : Option α := o.finalValues[id]?

/-- `SolveOutcome::final_value_point`: the values at the point's own two ids. -/
def Outcome.finalValuePoint (o : Outcome α) (p : Pt) : Option (α × α) :=
  match o.finalValues[p.x]?, o.finalValues[p.y]? with
  | some x, some y => some (x, y)
  | _, _ => none

/-- `SolveOutcome::final_value_circle`: centre, then radius. -/
def Outcome.finalValueCircle (o : Outcome α) (c : Circ) : Option ((α × α) × α) :=
  match o.finalValuePoint c.center, o.finalValueDistance c.radius with
  | some ctr, some r => some (ctr, r)
  | _, _ => none

/-- `SolveOutcome::final_value_arc`: `(a, b, center)` = (start, end, centre), each looked up by its
own ids. -/
def Outcome.finalValueArc (o : Outcome α) (a : ArcD) : Option ((α × α) × (α × α) × (α × α)) :=
  match o.finalValuePoint a.start, o.finalValuePoint a.stop, o.finalValuePoint a.center with
  | some s, some e, some c => some (s, e, c)
  | _, _, _ => none

end Ezpz
