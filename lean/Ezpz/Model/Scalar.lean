/-
Scalar interface of the model.

Every numeric definition of the model is generic in the scalar type `α`.  The operations the Rust
code takes from `libm` / `std` are collected in `Transc`.  The model is run at `α := Float`
(correspondence with the Rust code) and reasoned about at `α := ℝ` (analytic theorems) and for
every `α` (logic theorems).  This file imports nothing outside core Lean.
-/
namespace Ezpz

/-- Operations the Rust code takes from `libm` / `std::f64`. -/
class Transc (α : Type) where
  sqrt : α → α
  sin : α → α
  cos : α → α
  abs : α → α
  atan2 : α → α → α
  hypot : α → α → α
  powf : α → α → α
  pi : α
  /-- `libm::fmax`: the larger argument, ignoring a NaN argument. -/
  fmax : α → α → α
  /-- `f64::is_finite`. -/
  isFinite : α → Bool

/-- `libm::fmax` on `Float`: NaN arguments are ignored. -/
def floatFmax (a b : Float) : Float :=
  if a.isNaN then b else if b.isNaN then a else if a < b then b else a

instance : Transc Float where
  sqrt := Float.sqrt
  sin := Float.sin
  cos := Float.cos
  abs := Float.abs
  atan2 := Float.atan2
  hypot x y := Float.sqrt (x * x + y * y)
  powf := Float.pow
  pi := 3.14159265358979323846264338327950288
  fmax := floatFmax
  isFinite := Float.isFinite

end Ezpz
