/-
L7 (continued): what `main` / `main_inner` of `ezpz-cli/src/main.rs` compute from the problem text.

`Ezpz/Model/Cli.lean` models the printing and the exit status as a function of a `Run` (what the
library did).  This file models how the `Run` is obtained: read, parse, build
(`Problem::to_constraint_system`), solve (`ConstraintSystem::solve` =
`solve_with_config_inner::<NoAnalysis>` in `kcl-ezpz/src/textual/executor.rs`), label.

A result `none` is a Rust panic (exit status 101).  The panic sites on this path are
* an out-of-bounds index inside `to_constraint_system` (`ExecError.panic`),
* a panic inside the solver (`SolveError.panic _`),
* `final_values[..]` out of bounds while labelling (`labelOutcome = none`),
* `.unwrap()` of a failed re-solve in the benchmark loop (`benchmarkResults`),
* `constraints[*constraint_index]` in `print_unsatisfied` (`run … = none`).

The parser of the model is `parseProblem : String → Option (Problem Float)`; the composition is
generic in the scalar type and takes the parser as a parameter (`…With`), and is instantiated with
`parseProblem` at `Float` (`classify`, `mainModel`).
-/
import Ezpz.Model.Cli
import Ezpz.Model.Solve
import Ezpz.Model.Text.Parser
namespace Ezpz.Cli
open Ezpz Ezpz.Text

variable {α : Type} [Add α] [Sub α] [Mul α] [Div α] [Neg α] [OfScientific α]
  [LT α] [DecidableLT α] [LE α] [DecidableLE α] [Transc α]

/-- `NUM_ITERS_BENCHMARK` (main.rs:18). -/
def NUM_ITERS_BENCHMARK : Nat := 100

/-- The requests `ConstraintSystem` hands to the solver: `to_constraint_system` wraps every
constraint in `ConstraintRequest::new(c, 0)` (executor.rs:440-446). -/
def requests (cs : ConstraintSystem α) : List (Constraint α × Nat) :=
  cs.constraints.map (fun c => (c, 0))

/-- `num_vars = self.initial_guesses.len()` (executor.rs:513). -/
def numVars (cs : ConstraintSystem α) : Nat := cs.vars.variables.length

/-- `num_eqs = Σ residual_dim` over *all* constraints (executor.rs:514-518). -/
def numEqs (cs : ConstraintSystem α) : Nat := (cs.constraints.map (fun c => c.residualDim)).sum

/-- The library call `crate::solve_with_priority_inner::<NoAnalysis>(&constraints,
initial_guesses.variables(), config)` (executor.rs:478-487, 530). -/
def librarySolve (cs : ConstraintSystem α) (cfg : Config α) (solve : LinSolve α) :
    Except (Failure α) (Outcome α) :=
  solveWithPriority (requests cs) cs.vars.variables cfg solve none

/-- The benchmark loop (main.rs:95-98): the text is built again and the same system is solved
`NUM_ITERS_BENCHMARK` more times with the same configuration; each result is `.unwrap()`ed.  The
model is a function, so every element is the same value. -/
def benchmarkResults (cs : ConstraintSystem α) (cfg : Config α) (solve : LinSolve α) :
    List (Except (Failure α) (Outcome α)) :=
  List.replicate NUM_ITERS_BENCHMARK (librarySolve cs cfg solve)

/-- `constraint_system.solve()` and what `main_inner` / `main` make of it (main.rs:88-92, 101-102;
executor.rs:509-592).  The second component is `constraints.len()`, the length of the list
`print_unsatisfied` indexes. -/
def classifyBuilt (p : Problem α) (cs : ConstraintSystem α) (cfg : Config α) (solve : LinSolve α)
    (warningKind : Warning α → String) : Option (Run α × Nat) :=
  match librarySolve cs cfg solve with
  | .error f =>
    -- a panic inside the solver is a panic of the process
    if f.error.isPanic then none
    -- `Err(e) => return Ok(Err(e))` (main.rs:91), then `print_failure_output` (main.rs:58-61)
    else some (.solveError (f.warnings.map warningKind) f.numVars f.numEqs, cs.constraints.length)
  | .ok o =>
    -- executor.rs:531-576: the labelled points / circles / arcs read from `final_values`
    match labelOutcome p o.finalValues with
    | none => none
    -- executor.rs:577-591 (`Outcome { .. }`), main.rs:102
    | some l =>
      some (.solved (o.warnings.map warningKind) o.unsatisfied (numVars cs) (numEqs cs)
        o.iterations o.prioritySolved l, cs.constraints.length)

/-- `parsed.to_constraint_system().map_err(|e| e.to_string())?` (main.rs:87). -/
def classifyParsed (p : Problem α) (cfg : Config α) (solve : LinSolve α)
    (warningKind : Warning α → String) : Option (Run α × Nat) :=
  match toConstraintSystem p with
  | .error .panic => none
  | .error (.text _) => some (.buildError, 0)
  | .ok cs => classifyBuilt p cs cfg solve warningKind

/-- What `main_inner` computes from the text: parse, build, solve (all requests at the priority the
executor assigns), label.  `text = none` is a read error (`read_problem(cli)?`, main.rs:82);
`parse t = none` is `Problem::from_str(..)?` failing (main.rs:83).  `none` is a panic. -/
def classifyWith (parse : String → Option (Problem α)) (text : Option String) (cfg : Config α)
    (solve : LinSolve α) (warningKind : Warning α → String) : Option (Run α × Nat) :=
  match text with
  | none => some (.readError, 0)
  | some t =>
    match parse t with
    | none => some (.parseError, 0)
    | some p => classifyParsed p cfg solve warningKind

/-- The whole program (`main`, main.rs:47-67, without `--image-path`): classify, then print and
exit as `run` says. -/
def mainModelWith (parse : String → Option (Problem α)) (fmt2 : α → String) (showPoints : Bool)
    (text : Option String) (cfg : Config α) (solve : LinSolve α)
    (warningKind : Warning α → String) : Option Output :=
  match classifyWith parse text cfg solve warningKind with
  | none => none
  | some (r, n) => run fmt2 showPoints n r

/-- `classifyWith` with the model of the real parser (scalars are `f64`). -/
def classify (text : Option String) (cfg : Config Float) (solve : LinSolve Float)
    (warningKind : Warning Float → String) : Option (Run Float × Nat) :=
  classifyWith parseProblem text cfg solve warningKind

/-- `mainModelWith` with the model of the real parser (scalars are `f64`).  The CLI passes
`Config::default()` (`ConstraintSystem::solve`, executor.rs:490-492). -/
def mainModel (fmt2 : Float → String) (showPoints : Bool) (text : Option String)
    (cfg : Config Float) (solve : LinSolve Float) (warningKind : Warning Float → String) :
    Option Output :=
  mainModelWith parseProblem fmt2 showPoints text cfg solve warningKind

end Ezpz.Cli
