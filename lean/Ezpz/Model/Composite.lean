/-
Composite constraint constructors.  Mirrors `kcl-ezpz/src/constraints/composite.rs`
(`impl Constraint { lines_parallel, lines_perpendicular, point_bisects_arc,
parallel_lines_distance, circle_arc_coincident }`).

Each Rust function only *builds* one or two basic `Constraint`s; nothing is computed.  The Rust
functions returning `Self` are modelled as a single `Constraint α`, those returning `[Self; 2]` as a
two-element `List (Constraint α)` in the order of the Rust array.  A Rust array argument
`[l0, l1]: [DatumLineSegment; 2]` is modelled by the two arguments `l0 l1` in that order.
-/
import Ezpz.Model.Kernels
namespace Ezpz

variable {α : Type} [Add α] [Sub α] [Mul α] [Div α] [Neg α] [OfScientific α]
  [LT α] [DecidableLT α] [LE α] [DecidableLE α] [Transc α]

/-- `Constraint::lines_parallel([l0, l1]) -> Self` (composite.rs:10–14):
`Self::LinesAtAngle(l0, l1, AngleKind::Parallel)`. -/
def Constraint.linesParallel (l0 l1 : Seg) : Constraint α :=
  .linesAtAngle l0 l1 .parallel

/-- `Constraint::lines_perpendicular([l0, l1]) -> Self` (composite.rs:17–19):
`Self::LinesAtAngle(l0, l1, AngleKind::Perpendicular)`. -/
def Constraint.linesPerpendicular (l0 l1 : Seg) : Constraint α :=
  .linesAtAngle l0 l1 .perpendicular

/-- `Constraint::point_bisects_arc(arc, point) -> [Self; 2]` (composite.rs:22–36):
with `center_to_point = DatumLineSegment { p0: arc.center, p1: point }`,
`[PointArcCoincident(arc, point), Symmetric(center_to_point, arc.start, arc.end)]`. -/
def Constraint.pointBisectsArc (arc : ArcD) (point : Pt) : List (Constraint α) :=
  let centerToPoint : Seg := { p0 := arc.center, p1 := point }
  [.pointArcCoincident arc point, .symmetric centerToPoint arc.start arc.stop]

/-- `Constraint::parallel_lines_distance(lines, distance) -> [Self; 2]` (composite.rs:39–44), with
`lines = [l0, l1]`:
`[Constraint::lines_parallel(lines), PointLineDistance(lines[0].p0, lines[1], distance)]`. -/
def Constraint.parallelLinesDistance (l0 l1 : Seg) (distance : α) : List (Constraint α) :=
  [Constraint.linesParallel l0 l1, .pointLineDistance l0.p0 l1 distance]

/-- `Constraint::circle_arc_coincident(circle, arc) -> [Self; 2]` (composite.rs:47–61):
`[PointsCoincident(circle.center, arc.center),
  LinesEqualLength({p0: arc.center, p1: arc.start}, {p0: arc.center, p1: arc.end})]`.
The circle's radius variable `circle.radius` does not occur. -/
def Constraint.circleArcCoincident (circle : Circ) (arc : ArcD) : List (Constraint α) :=
  [.pointsCoincident circle.center arc.center,
   .linesEqualLength { p0 := arc.center, p1 := arc.start } { p0 := arc.center, p1 := arc.stop }]

end Ezpz
