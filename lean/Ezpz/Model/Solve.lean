/-
L2–L5: assembly, Newton loop, `solve_inner`, the priority loop and the freedom analysis.
Mirrors `solver.rs`, `solver/newton.rs`, `lib.rs`, `warnings.rs`, `solver/find_dof.rs`.

External numeric kernels are *parameters*: the sparse LU solve (`LinSolve`) and the dense SVD
(`Svd`).  Every Rust panic site on the solve path is an explicit `SolveError.panic`.
-/
import Ezpz.Model.Kernels
namespace Ezpz
open Transc

variable {α : Type} [Add α] [Sub α] [Mul α] [Div α] [Neg α] [OfScientific α]
  [LT α] [DecidableLT α] [LE α] [DecidableLE α] [Transc α]

/-- `ConstraintEntry`: a request with its position in the caller's list. -/
structure Entry (α : Type) where
  c : Constraint α
  id : Nat
  priority : Nat

/-- `Config`. -/
structure Config (α : Type) where
  maxIterations : Nat
  convergenceTolerance : α
  stepTolerance : α

/-- `Config::default()` (values extracted from the source). -/
def Config.default : Config α :=
  ⟨Gen.DEFAULT_MAX_ITERATIONS, Gen.DEFAULT_CONVERGENCE_TOLERANCE, Gen.DEFAULT_STEP_TOLERANCE⟩

inductive WarningContent (α : Type) where
  | degenerate
  | shouldBeParallel (a : Angle α)
  | shouldBePerpendicular (a : Angle α)

structure Warning (α : Type) where
  about : Option Nat
  content : WarningContent α

/-- `NonLinearSystemError`, plus `panic` for a Rust panic site. -/
inductive SolveError where
  | wrongNumberGuesses (labels guesses : Nat)
  | missingGuess (constraintId var : Nat)
  | faerMatrix
  | faer
  | faerSolve
  | faerSvd
  | didNotConverge
  | emptySystemNotAllowed
  | panic (site : String)
deriving Repr, DecidableEq

def SolveError.isPanic : SolveError → Bool
  | .panic _ => true
  | _ => false

/-- One Jacobian contribution `(row, col, value)`; cell values are sums of contributions. -/
abbrev Triplet (α : Type) := Nat × Nat × α

/-- The sparse LU solve of `(JᵀJ + λI) d = -Jᵀr`, indexed by (priority-level call, iteration). -/
abbrev LinSolve (α : Type) :=
  Nat → Nat → List (Triplet α) → List α → Except SolveError (List α)

/-- The dense SVD: singular values and `V` (row-major, `V[j][k]`), indexed by priority-level call. -/
abbrev Svd (α : Type) :=
  Nat → List (Triplet α) → Except SolveError (List α × List (List α))

/-! ### warnings.rs -/

def nearlyEq (a b : α) : Bool := decide (abs (a - b) < EPS)

/-- `warnings::lint` for one entry. -/
def lintOne (e : Entry α) : Option (Warning α) :=
  match e.c with
  | .linesAtAngle _ _ (.other θ) =>
    if nearlyEq θ.toDegrees 0.0 || nearlyEq θ.toDegrees 360.0 || nearlyEq θ.toDegrees 180.0 then
      some ⟨some e.id, .shouldBeParallel θ⟩
    else if nearlyEq θ.toDegrees 90.0 || nearlyEq θ.toDegrees (-90.0) then
      some ⟨some e.id, .shouldBePerpendicular θ⟩
    else none
  | _ => none

/-- `warnings::lint`. -/
def lint (es : List (Entry α)) : List (Warning α) := es.filterMap lintOne

/-! ### solver.rs: validation, pattern, assembly -/

/-- First declared id (rows 0,1,2 in order) that is not among the guess ids. -/
def firstMissing (vars : List Nat) (rows : Rows Nat) : Option Nat :=
  (rows.r0 ++ rows.r1 ++ rows.r2).find? (fun v => !vars.contains v)

/-- `validate_variables` (the two lists have equal length by construction in `solve_inner`). -/
def validateVariables (es : List (Entry α)) (vars : List Nat) : Except SolveError Unit :=
  match es with
  | [] => .ok ()
  | e :: rest =>
    match firstMissing vars e.c.nonzeroes with
    | some v => .error (.missingGuess e.id v)
    | none => validateVariables rest vars

/-- The first `dim` of up to three rows. -/
def takeRows {β : Type} (dim : Nat) (r0 r1 r2 : β) : List β := [r0, r1, r2].take dim

/-- Pattern cells `(row, col)` in construction order, starting at row `row0`. -/
def patternFrom (es : List (Entry α)) (row0 : Nat) : List (Nat × Nat) :=
  match es with
  | [] => []
  | e :: rest =>
    let nz := e.c.nonzeroes
    let rows := takeRows e.c.residualDim nz.r0 nz.r1 nz.r2
    let cells := (rows.zipIdx).flatMap (fun (ids, k) => ids.map (fun id => (row0 + k, id)))
    cells ++ patternFrom rest (row0 + e.c.residualDim)

def pattern (es : List (Entry α)) : List (Nat × Nat) := patternFrom es 0

/-- Total number of residual rows. -/
def numRows (es : List (Entry α)) : Nat := (es.map (fun e => e.c.residualDim)).sum

/-- `Model::new`: validation, then pattern creation (fails on a column index `≥ n`). -/
def modelNew (es : List (Entry α)) (vars : List Nat) : Except SolveError Unit :=
  match validateVariables es vars with
  | .error e => .error e
  | .ok () =>
    if (pattern es).all (fun (_, col) => col < vars.length) then .ok () else .error .faerMatrix

def degenerateWarning (e : Entry α) : Warning α := ⟨some e.id, .degenerate⟩

/-- `Model::residual`: global residual and degeneracy warnings. -/
def residualAll (es : List (Entry α)) (x : Nat → Option α) :
    Except SolveError (List α × List (Warning α)) :=
  match es with
  | [] => .ok ([], [])
  | e :: rest =>
    match e.c.residual x with
    | none => .error (.panic "residual: index out of bounds")
    | some r =>
      match residualAll rest x with
      | .error err => .error err
      | .ok (rs, ws) =>
        .ok (takeRows e.c.residualDim r.r0 r.r1 r.r2 ++ rs,
             (if r.degenerate then [degenerateWarning e] else []) ++ ws)

/-- `Model::refresh_jacobian`: contributions `(row, col, pd)` in scatter order.  A contribution
whose cell is not in the pattern is the `find(..).unwrap()` panic. -/
def jacobianFrom (pat : List (Nat × Nat)) (es : List (Entry α)) (x : Nat → Option α) (row0 : Nat) :
    Except SolveError (List (Triplet α) × List (Warning α)) :=
  match es with
  | [] => .ok ([], [])
  | e :: rest =>
    match e.c.jacobianRows x with
    | none => .error (.panic "jacobian_rows: index out of bounds")
    | some j =>
      let rows := takeRows e.c.residualDim j.r0 j.r1 j.r2
      let trips : List (Triplet α) :=
        (rows.zipIdx).flatMap (fun (row, k) => row.map (fun jv => (row0 + k, jv.id, jv.pd)))
      if trips.all (fun (r, c, _) => pat.contains (r, c)) then
        match jacobianFrom pat rest x (row0 + e.c.residualDim) with
        | .error err => .error err
        | .ok (ts, ws) =>
          .ok (trips ++ ts, (if j.degenerate then [degenerateWarning e] else []) ++ ws)
      else .error (.panic "refresh_jacobian: cell not in sparsity pattern")

def jacobianAll (es : List (Entry α)) (x : Nat → Option α) :
    Except SolveError (List (Triplet α) × List (Warning α)) :=
  jacobianFrom (pattern es) es x 0

/-! ### solver/newton.rs -/

/-- `iter.map(abs).reduce(fmax)`. -/
def maxAbs? (xs : List α) : Option α :=
  match xs with
  | [] => none
  | x :: rest => some (rest.foldl (fun acc y => fmax acc (abs y)) (abs x))

/-- `iter.map(abs).fold(0.0, fmax)`. -/
def maxAbs0 (xs : List α) : α := xs.foldl (fun acc y => fmax acc (abs y)) 0.0

/-- What the Newton loop returns on success. -/
structure NewtonOk (α : Type) where
  values : List α
  iterations : Nat
  warnings : List (Warning α)
  /-- Jacobian contributions of the last evaluation (what the freedom analysis reads). -/
  lastJac : List (Triplet α)
  /-- Ghost: `true` when the loop returned at the residual test, `false` at the step-size test. -/
  byResidual : Bool

def lookup (x : List α) : Nat → Option α := fun i => x[i]?

/-- What one round of the loop does. -/
inductive StepResult (α : Type) where
  /-- `return Ok(..)` -/
  | done (r : NewtonOk α)
  /-- `return Err(..)` / `?` (with the warnings pushed so far) -/
  | fail (e : SolveError) (ws : List (Warning α))
  /-- next round, with the updated values and warnings -/
  | next (x : List α) (ws : List (Warning α))

/-- `current_values[i] += d[i]`. -/
def applyStep (x d : List α) : List α := List.zipWith (· + ·) x d
/-- `step_tolerance * (‖x‖∞ + step_tolerance)`. -/
def stepThreshold (cfg : Config α) (x : List α) : α :=
  cfg.stepTolerance * (maxAbs0 x + cfg.stepTolerance)
/-- `d.map(abs).reduce(fmax).unwrap_or(0.0)`. -/
def stepInfNorm (d : List α) : α := (maxAbs? d).getD 0.0
/-- No value is NaN or infinite. -/
def allFinite (x : List α) : Bool := x.all (fun v => isFinite v)

/-- One round of `solve_gauss_newton` (`k` is `this_iteration`). -/
def newtonStep (es : List (Entry α)) (cfg : Config α) (solve : Nat → List (Triplet α) → List α →
    Except SolveError (List α)) (k : Nat) (x : List α) (ws : List (Warning α)) : StepResult α :=
  match residualAll es (lookup x) with
  | .error e => .fail e ws
  | .ok (r, w1) =>
    match jacobianAll es (lookup x) with
    | .error e => .fail e (ws ++ w1)
    | .ok (jac, w2) =>
      match maxAbs? r with
      | none => .fail .emptySystemNotAllowed (ws ++ w1 ++ w2)
      | some largest =>
        if largest ≤ cfg.convergenceTolerance then .done ⟨x, k, ws ++ w1 ++ w2, jac, true⟩
        else
          match solve k jac r with
          | .error e => .fail e (ws ++ w1 ++ w2)
          | .ok d =>
            if d.length ≠ x.length then .fail (.panic "d has the wrong length") (ws ++ w1 ++ w2)
            else if !allFinite (applyStep x d) then .fail .didNotConverge (ws ++ w1 ++ w2)
            else if stepInfNorm d ≤ stepThreshold cfg x then
              .done ⟨applyStep x d, k, ws ++ w1 ++ w2, jac, false⟩
            else .next (applyStep x d) (ws ++ w1 ++ w2)

/-- `solve_gauss_newton`: `fuel` rounds remain, `k` is `this_iteration`. -/
def newtonLoop (es : List (Entry α)) (cfg : Config α) (solve : Nat → List (Triplet α) → List α →
    Except SolveError (List α)) (fuel k : Nat) (x : List α) (ws : List (Warning α)) :
    Except (SolveError × List (Warning α)) (NewtonOk α) :=
  match fuel with
  | 0 => .error (.didNotConverge, ws)
  | fuel + 1 =>
    match newtonStep es cfg solve k x ws with
    | .done r => .ok r
    | .fail e ws => .error (e, ws)
    | .next x' ws' => newtonLoop es cfg solve fuel (k + 1) x' ws'

def newton (es : List (Entry α)) (cfg : Config α) (solve : Nat → List (Triplet α) → List α →
    Except SolveError (List α)) (x : List α) :
    Except (SolveError × List (Warning α)) (NewtonOk α) :=
  newtonLoop es cfg solve cfg.maxIterations 0 x []

/-! ### solver/find_dof.rs -/

/-- `iter.reduce(fmax)` without `abs`. -/
def maxOf? (xs : List α) : Option α :=
  match xs with
  | [] => none
  | x :: rest => some (rest.foldl fmax x)

/-- `calculate(σ, V, nvars)`. -/
def dofCalculate (sigma : List α) (V : List (List α)) (nvars : Nat) :
    Except SolveError (List Nat) :=
  match maxOf? sigma with
  | none => .error .emptySystemNotAllowed
  | some largest =>
    let tol : α := Gen.DOF_RANK_TOLERANCE * largest
    let rank := (sigma.filter (fun s => tol < s)).length
    let dofs := (List.range nvars).filter (fun k => rank ≤ k)
    let entry (j k : Nat) : Option α := (V[j]?).bind (fun row => row[k]?)
    if (List.range nvars).all (fun j => dofs.all (fun k => (entry j k).isSome)) then
      let participation : List α := (List.range nvars).map (fun j =>
        sqrt (dofs.foldl (fun acc k => acc + sqr ((entry j k).getD 0.0)) 0.0))
      let maxP := participation.foldl fmax 0.0
      let varTol : α := Gen.DOF_PARTICIPATION_TOLERANCE * maxP
      .ok ((List.range nvars).filter (fun j => varTol < participation.getD j 0.0))
    else .error (.panic "svd_v.get out of bounds")

/-! ### lib.rs -/

/-- `is_satisfied`: `none` is the `unreachable!`. -/
def isSatisfied (dim : Nat) (r : Res α) : Option Bool :=
  let s0 := decide (abs r.r0 < EPS)
  let s1 := decide (abs r.r1 < EPS)
  let s2 := decide (abs r.r2 < EPS)
  match dim with
  | 1 => some s0
  | 2 => some (s0 && s1)
  | 3 => some (s0 && s1 && s2)
  | _ => none

/-- `SolveOutcome` (+ the analysis result when requested). -/
structure Outcome (α : Type) where
  unsatisfied : List Nat
  finalValues : List α
  iterations : Nat
  warnings : List (Warning α)
  prioritySolved : Nat
  underconstrained : Option (List Nat)

/-- `FailureOutcome`. -/
structure Failure (α : Type) where
  error : SolveError
  warnings : List (Warning α)
  numVars : Nat
  numEqs : Nat

/-- The post-solve satisfaction sweep. -/
def unsatisfiedSweep (es : List (Entry α)) (x : Nat → Option α) : Except SolveError (List Nat) :=
  match es with
  | [] => .ok []
  | e :: rest =>
    match e.c.residual x with
    | none => .error (.panic "residual: index out of bounds")
    | some r =>
      match isSatisfied e.c.residualDim r with
      | none => .error (.panic "is_satisfied: unsupported number of residuals")
      | some sat =>
        match unsatisfiedSweep rest x with
        | .error err => .error err
        | .ok us => .ok (if sat then us else e.id :: us)

/-- `entries.map(priority).max().unwrap_or_default()`. -/
def maxPriority (es : List (Entry α)) : Nat := es.foldl (fun acc e => max acc e.priority) 0

/-- `A::analyze(model)`: `none` is `NoAnalysis`; otherwise the SVD of the last Jacobian followed by
`calculate`. -/
def runAnalysis (analyze : Option (List (Triplet α) → Except SolveError (List α × List (List α))))
    (jac : List (Triplet α)) (numVars : Nat) : Except SolveError (Option (List Nat)) :=
  match analyze with
  | none => .ok none
  | some svd =>
    match svd jac with
    | .error e => .error e
    | .ok (sigma, V) =>
      match dofCalculate sigma V numVars with
      | .error e => .error e
      | .ok us => .ok (some us)

/-- `solve_inner`.  `solve` is the LU oracle for this call; `analyze = none` is `NoAnalysis`. -/
def solveInner (es : List (Entry α)) (guesses : List (Nat × α)) (cfg : Config α)
    (solve : Nat → List (Triplet α) → List α → Except SolveError (List α))
    (analyze : Option (List (Triplet α) → Except SolveError (List α × List (List α)))) :
    Except (Failure α) (Outcome α) :=
  match modelNew es (guesses.map (·.1)) with
  | .error e => .error ⟨e, lint es, guesses.length, numRows es⟩
  | .ok () =>
    match newton es cfg solve (guesses.map (·.2)) with
    | .error (e, ws) => .error ⟨e, lint es ++ ws, guesses.length, numRows es⟩
    | .ok ok =>
      match unsatisfiedSweep es (lookup ok.values) with
      | .error e => .error ⟨e, lint es ++ ok.warnings, guesses.length, numRows es⟩
      | .ok unsat =>
        match runAnalysis analyze ok.lastJac guesses.length with
        | .error e => .error ⟨e, lint es ++ ok.warnings, guesses.length, numRows es⟩
        | .ok under =>
          .ok ⟨unsat, ok.values, ok.iterations, lint es ++ ok.warnings, maxPriority es, under⟩

/-- Sorted, duplicate-free priority levels. -/
def insertLevel (p : Nat) : List Nat → List Nat
  | [] => [p]
  | q :: rest => if p < q then p :: q :: rest else if p = q then q :: rest else q :: insertLevel p rest

def levels (es : List (Entry α)) : List Nat := es.foldl (fun acc e => insertLevel e.priority acc) []

/-- The outcome returned when there is nothing to solve. -/
def noConstraintsOutcome (guesses : List (Nat × α)) (analysis : Bool) (prio : Nat) : Outcome α :=
  ⟨[], guesses.map (·.2), 0, [], prio,
   if analysis then some (List.range guesses.length) else none⟩

/-- The cumulative per-level loop of `solve_with_priority_inner`. -/
def priorityLoop (es : List (Entry α)) (guesses : List (Nat × α)) (cfg : Config α)
    (solve : LinSolve α) (svd : Option (Svd α))
    (lvls : List Nat) (call : Nat) (res : Option (Outcome α)) :
    Except (Failure α) (Option (Outcome α)) :=
  match lvls with
  | [] => .ok res
  | p :: rest =>
    match solveInner (es.filter (fun e => e.priority ≤ p)) guesses cfg (solve call)
        (svd.map (fun s => s call)) with
    | .ok o =>
      if !o.unsatisfied.isEmpty then .ok (some (res.getD o))
      else priorityLoop es guesses cfg solve svd rest (call + 1) (some o)
    | .error f =>
      match res with
      | some o => .ok (some o)
      | none => .error f

/-- Requests as the caller passes them: `(constraint, priority)`. -/
def enumerate (reqs : List (Constraint α × Nat)) : List (Entry α) :=
  (reqs.zipIdx).map (fun ((c, p), i) => ⟨c, i, p⟩)

/-- `solve_with_priority_inner` (`svd = none` is `solve`, `some` is `solve_analysis`). -/
def solveWithPriority (reqs : List (Constraint α × Nat)) (guesses : List (Nat × α))
    (cfg : Config α) (solve : LinSolve α) (svd : Option (Svd α)) :
    Except (Failure α) (Outcome α) :=
  if reqs.isEmpty then .ok (noConstraintsOutcome guesses svd.isSome 0)
  else
    match priorityLoop (enumerate reqs) guesses cfg solve svd (levels (enumerate reqs)) 0 none with
    | .error f => .error f
    | .ok (some o) => .ok o
    | .ok none => .ok (noConstraintsOutcome guesses svd.isSome ((levels (enumerate reqs)).headD 0))

end Ezpz
