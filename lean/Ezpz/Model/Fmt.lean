/-
L7 (number formatting): Rust's `{:.2}` for `f64`, as an integer computation on the IEEE-754 bit
pattern.  The command-line program prints every coordinate with `{:.2}`: the exact value of the
double rounded to two decimals, ties to even *on the exact value*.  This file is the integer core of
the driver's `fmt2` (`Driver/Cli.lean`), moved into the model; `Ezpz/Proofs/FmtCorrect.lean` proves
that it is correctly rounded.  Mathlib-free.

The driver's `fmt2 x` is value-for-value `fmt2Bits x.toBits.toNat` (same case split, same
arithmetic, same string interpolation).
-/
namespace Ezpz.Cli

/-- Round-half-even of the rational `n / d` (for `d > 0`), in integer arithmetic: quotient and
remainder, round up when the remainder is more than half, or exactly half and the quotient is odd. -/
def roundHalfEven (n d : Nat) : Nat :=
  let q := n / d
  let r := n % d
  if 2 * r > d ∨ (2 * r = d ∧ q % 2 = 1) then q + 1 else q

/-- Mantissa / exponent decomposition of a finite bit pattern: the magnitude is `m · 2^ex`.
Subnormals (`e = 0`) have no implicit leading one. -/
def decode (bits : Nat) : Nat × Int :=
  let e : Nat := (bits / 2 ^ 52) % 2048
  let f : Nat := bits % (2 ^ 52)
  if e == 0 then (f, -1074) else (f + 2 ^ 52, (e : Int) - 1075)

/-- Number of hundredths `round_half_even(m · 2^ex · 100)`, same case split as the driver. -/
def hundredths (m : Nat) (ex : Int) : Nat :=
  if ex ≥ 0 then m * 100 * 2 ^ ex.toNat
  else
    let d := 2 ^ (-ex).toNat
    let n := m * 100
    roundHalfEven n d

/-- For a finite bit pattern: sign bit and `round_half_even(|value| · 100)`; `none` for NaN and the
infinities (exponent field all ones). -/
def fmt2Core (bits : Nat) : Option (Bool × Nat) :=
  let e := (bits / 2 ^ 52) % 2048
  if e = 2047 then none
  else
    let neg := bits / 2 ^ 63 % 2 == 1
    let (m, ex) := decode bits
    some (neg, hundredths m ex)

/-- Two-digit fractional part: zero-padded. -/
def frac2 (fp : Nat) : String := s!"{if fp < 10 then "0" else ""}{fp}"

/-- The complete `{:.2}` string of the double with bit pattern `bits`: `NaN`, `inf`, `-inf`, or
`[-]ip.fp` with exactly two fractional digits.  The sign is printed whenever the sign bit is set,
including for negative zero and for negative values that round to zero (`-0.00`), as Rust does. -/
def fmt2Bits (bits : Nat) : String :=
  match fmt2Core bits with
  | none =>
    if bits % (2 ^ 52) ≠ 0 then "NaN"
    else if bits / 2 ^ 63 % 2 == 1 then "-inf" else "inf"
  | some (neg, q) =>
    let ip := q / 100
    let fp := q % 100
    let s := s!"{ip}.{if fp < 10 then "0" else ""}{fp}"
    if neg then "-" ++ s else s

/-! ### Evaluated examples (kernel evaluation by `decide`, no native code) -/

/-- 1.0 -/
example : fmt2Core 0x3FF0000000000000 = some (false, 100) := by decide
example : fmt2Bits 0x3FF0000000000000 = "1.00" := by decide
/-- 0.125 is a tie between 0.12 and 0.13: even wins. -/
example : fmt2Core 0x3FC0000000000000 = some (false, 12) := by decide
example : fmt2Bits 0x3FC0000000000000 = "0.12" := by decide
/-- 0.375 is a tie between 0.37 and 0.38: even wins. -/
example : fmt2Core 0x3FD8000000000000 = some (false, 38) := by decide
example : fmt2Bits 0x3FD8000000000000 = "0.38" := by decide
/-- The double nearest 2.675 is below 2.675, so it is not a tie. -/
example : fmt2Core 0x4005666666666666 = some (false, 267) := by decide
example : fmt2Bits 0x4005666666666666 = "2.67" := by decide
/-- -0.004 rounds to `-0.00`: the sign is kept. -/
example : fmt2Core 0xBF70624DD2F1A9FC = some (true, 0) := by decide
example : fmt2Bits 0xBF70624DD2F1A9FC = "-0.00" := by decide
/-- -2.5 -/
example : fmt2Bits 0xC004000000000000 = "-2.50" := by decide
/-- 0.005 (nearest double is above the tie) and 0.015 (below). -/
example : fmt2Bits 0x3F747AE147AE147B = "0.01" := by decide
example : fmt2Bits 0x3F8EB851EB851EB8 = "0.01" := by decide
/-- 1e21 -/
example : fmt2Core 0x444B1AE4D6E2EF50 = some (false, 100000000000000000000000) := by decide
example : fmt2Bits 0x444B1AE4D6E2EF50 = "1000000000000000000000.00" := by decide
/-- 123456.785 (nearest double is above the tie). -/
example : fmt2Bits 0x40FE240C8F5C28F6 = "123456.79" := by decide
/- -0.0 and the smallest subnormal (these need `2 ^ 1074` evaluated). -/
set_option exponentiation.threshold 2000 in
example : fmt2Core 0x8000000000000000 = some (true, 0) := by decide
set_option exponentiation.threshold 2000 in
example : fmt2Bits 0x8000000000000000 = "-0.00" := by decide
set_option exponentiation.threshold 2000 in
example : fmt2Core 1 = some (false, 0) := by decide
set_option exponentiation.threshold 2000 in
example : fmt2Bits 1 = "0.00" := by decide
/-- NaN, +inf, -inf -/
example : fmt2Core 0x7FF8000000000000 = none := by decide
example : fmt2Bits 0x7FF8000000000000 = "NaN" := by decide
example : fmt2Bits 0xFFF8000000000001 = "NaN" := by decide
example : fmt2Core 0x7FF0000000000000 = none := by decide
example : fmt2Bits 0x7FF0000000000000 = "inf" := by decide
example : fmt2Core 0xFFF0000000000000 = none := by decide
example : fmt2Bits 0xFFF0000000000000 = "-inf" := by decide

end Ezpz.Cli
