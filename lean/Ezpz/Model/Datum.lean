/-
Geometric data: mirrors `kcl-ezpz/src/datatypes/inputs.rs` and `datatypes.rs`.
Variable ids are natural numbers (`u32` in Rust; the code performs no arithmetic on them).
-/
import Ezpz.Model.Scalar
namespace Ezpz

/-- `DatumPoint { x_id, y_id }`. -/
structure Pt where
  x : Nat
  y : Nat
deriving Repr, DecidableEq

/-- `DatumLineSegment { p0, p1 }`. -/
structure Seg where
  p0 : Pt
  p1 : Pt
deriving Repr, DecidableEq

/-- `DatumCircle { center, radius: DatumDistance { id } }`. -/
structure Circ where
  center : Pt
  radius : Nat
deriving Repr, DecidableEq

/-- `DatumCircularArc { center, start, end }` (`stop` because `end` is a keyword). -/
structure ArcD where
  center : Pt
  start : Pt
  stop : Pt
deriving Repr, DecidableEq

/-- `Datum::all_variables` for each datum, in the order of the Rust code. -/
def Pt.vars (p : Pt) : List Nat := [p.x, p.y]
def Seg.vars (l : Seg) : List Nat := [l.p0.x, l.p0.y, l.p1.x, l.p1.y]
def Circ.vars (c : Circ) : List Nat := [c.center.x, c.center.y, c.radius]
def ArcD.vars (a : ArcD) : List Nat :=
  [a.start.x, a.start.y, a.stop.x, a.stop.y, a.center.x, a.center.y]

/-- `Angle { val, degrees }`. -/
structure Angle (α : Type) where
  val : α
  degrees : Bool

/-- `AngleKind`. -/
inductive AngleKind (α : Type) where
  | parallel
  | perpendicular
  | other (a : Angle α)

/-- `Constraint`: the 23 kinds, in the order of the Rust enum. -/
inductive Constraint (α : Type) where
  | lineTangentToCircle (line : Seg) (circle : Circ)
  | circleTangentToCircle (a b : Circ)
  | distance (p0 p1 : Pt) (d : α)
  | verticalDistance (p0 p1 : Pt) (d : α)
  | horizontalDistance (p0 p1 : Pt) (d : α)
  | vertical (line : Seg)
  | horizontal (line : Seg)
  | linesAtAngle (l0 l1 : Seg) (k : AngleKind α)
  | fixed (id : Nat) (v : α)
  | scalarEqual (x y : Nat)
  | pointsCoincident (p0 p1 : Pt)
  | circleRadius (c : Circ) (r : α)
  | linesEqualLength (l0 l1 : Seg)
  | arcRadius (a : ArcD) (r : α)
  | isArc (a : ArcD)
  | midpoint (line : Seg) (p : Pt)
  | pointLineDistance (p : Pt) (line : Seg) (d : α)
  | verticalPointLineDistance (p : Pt) (line : Seg) (d : α)
  | horizontalPointLineDistance (p : Pt) (line : Seg) (d : α)
  | symmetric (line : Seg) (a b : Pt)
  | pointArcCoincident (a : ArcD) (p : Pt)
  | arcLength (a : ArcD) (d : α)
  | arcAngle (a : ArcD) (ang : Angle α)

end Ezpz
