/-
L7: the command-line front-end.  Mirrors `ezpz-cli/src/main.rs` (`main`, `main_inner`,
`print_output`, `print_failure_output`): which exit status is produced and which lines are printed
to standard output, as a function of what the library computed.  Wall-clock dependent lines (the two
performance lines) are represented by a marker.  Number formatting `{:.2}` is `fmt2`.
-/
import Ezpz.Model.Text.Executor
namespace Ezpz.Cli
open Ezpz Ezpz.Text

/-- What the library did with the text, as seen by the CLI. -/
inductive Run (α : Type) where
  | readError
  | parseError
  | buildError
  /-- `Err(FailureOutcome)`: kinds of the warnings, `num_vars`, `num_eqs` -/
  | solveError (warnings : List String) (numVars numEqs : Nat)
  /-- `Ok(Outcome)` -/
  | solved (warnings : List String) (unsatisfied : List Nat) (numVars numEqs iterations priority : Nat)
      (labelled : Labelled α)

structure Output where
  exit : Nat
  /-- lines printed to standard output, in order -/
  stdout : List String
  /-- something is printed to standard error -/
  diagnostic : Bool

def problemSize (numVars numEqs : Nat) : String := s!"Problem size: {numEqs} rows, {numVars} vars"

def warningLines (ws : List String) : List String :=
  if ws.isEmpty then [] else "Warnings:" :: ws.map (fun w => "\t" ++ w)

/-- `print_unsatisfied`: `none` is the out-of-bounds panic of `constraints[*constraint_index]`. -/
def unsatisfiedLines (unsat : List Nat) (numConstraints : Nat) : Option (List String) :=
  if unsat.isEmpty then some []
  else if unsat.all (· < numConstraints) then
    some ("Not all constraints were satisfied:" :: unsat.map (fun i => s!"\t{i}: <constraint>"))
  else none

variable {α : Type}

def pointLines (fmt2 : α → String) (l : Labelled α) : List String :=
  "Points:" :: l.points.map (fun (n, x, y) => s!"\t{n}: ({fmt2 x}, {fmt2 y})")

def circleLines (fmt2 : α → String) (l : Labelled α) : List String :=
  if l.circles.isEmpty then [] else
    "Circles:" :: l.circles.map (fun (n, (cx, cy), r) =>
      s!"\t{n}: center = ({fmt2 cx}, {fmt2 cy}), radius = {fmt2 r}")

def arcLines (fmt2 : α → String) (l : Labelled α) : List String :=
  if l.arcs.isEmpty then [] else
    "Arcs:" :: l.arcs.map (fun (n, (cx, cy), (ax, ay), (bx, bY)) =>
      s!"\t{n}: center = ({fmt2 cx}, {fmt2 cy}), a = ({fmt2 ax}, {fmt2 ay}), b = ({fmt2 bx}, {fmt2 bY})")

/-- Marker for the two wall-clock dependent lines. -/
def perfMarker : String := "<performance>"

/-- The whole program.  `numConstraints` is the length of the constraint list the CLI indexes when
printing the unsatisfied requests; `none` is a panic (exit status 101). -/
def run (fmt2 : α → String) (showPoints : Bool) (numConstraints : Nat) : Run α → Option Output
  | .readError => some ⟨1, [], true⟩
  | .parseError => some ⟨1, [], true⟩
  | .buildError => some ⟨1, [], true⟩
  | .solveError ws nv ne => some ⟨1, warningLines ws ++ [problemSize nv ne], true⟩
  | .solved ws unsat nv ne iters prio l =>
    match unsatisfiedLines unsat numConstraints with
    | none => none
    | some ul =>
      some ⟨0,
        warningLines ws ++ ul ++ [problemSize nv ne, s!"Iterations needed: {iters}",
          s!"Solved up to priority: {prio}", perfMarker] ++
        (if showPoints then pointLines fmt2 l ++ circleLines fmt2 l ++ arcLines fmt2 l else []),
        false⟩

end Ezpz.Cli
