/-
L6: the parser.  Mirrors `kcl-ezpz/src/textual/parser.rs`, i.e. the winnow combinators it uses:
ordered choice with backtracking (`alt`), `opt`, `separated(1.., p, newline)`, `take_while`,
`space0`, `digit1`, `ascii::float`, literal tags.  A parser is a function on the remaining input;
`none` is winnow's backtrack error.  (winnow's only "cut" error here — `digit1` after an exponent
marker inside `ascii::float` — cannot change acceptance: nothing in this grammar accepts an
`e`/`E` directly after a number.)
-/
import Ezpz.Model.Text.Syntax
import Ezpz.Model.Text.Number
namespace Ezpz.Text
open Ezpz

abbrev Input := List Char
abbrev P (β : Type) := Input → Option (β × Input)

/-- A literal tag. -/
def tag (s : String) : P Unit := fun i =>
  let cs := s.toList
  if cs.isPrefixOf i then some ((), i.drop cs.length) else none

def chr (c : Char) : P Unit := fun i =>
  match i with
  | d :: rest => if d == c then some ((), rest) else none
  | [] => none

/-- `space0`: spaces and tabs. -/
def space0 : Input → Input := fun i => i.dropWhile (fun c => c == ' ' || c == '\t')

/-- winnow's `space1`: at least one blank or tab. -/
def space1 (i : Input) : Option Input :=
  match i with
  | c :: _ => if c == ' ' || c == '\t' then some (space0 i) else none
  | [] => none

/-- winnow's `AsChar::is_alphanum` for `char`: ASCII letters and digits. -/
def isAlphanum (c : Char) : Bool :=
  ('a' ≤ c && c ≤ 'z') || ('A' ≤ c && c ≤ 'Z') || ('0' ≤ c && c ≤ '9')

def isDigit (c : Char) : Bool := '0' ≤ c && c ≤ '9'

/-- `parse_label`: one or more alphanumerics. -/
def parseLabel : P String := fun i =>
  let l := i.takeWhile isAlphanum
  if l.isEmpty then none else some (String.ofList l, i.drop l.length)

/-- `parse_label_opt_suffix`: `label ('.' label)?`. -/
def parseLabelOptSuffix : P String := fun i =>
  match parseLabel i with
  | none => none
  | some (l, rest) =>
    match rest with
    | '.' :: rest2 =>
      match parseLabel rest2 with
      | some (s, rest3) => some (l ++ "." ++ s, rest3)
      | none => some (l, rest)
    | _ => some (l, rest)

def digitsVal (ds : List Char) : Nat := ds.foldl (fun acc c => acc * 10 + (c.toNat - '0'.toNat)) 0

/-- The exponent digits as `core::num::dec2flt::parse::parse_scientific` reads them: a digit is taken
into account only while the value so far is below `0x10000` ("saturate well before overflow"), so the
result is at most 655359 however long the digit string is. -/
def expDigitsVal (ds : List Char) : Nat :=
  ds.foldl (fun acc c => if acc < 65536 then acc * 10 + (c.toNat - '0'.toNat) else acc) 0

def lowerChar (c : Char) : Char := if 'A' ≤ c && c ≤ 'Z' then Char.ofNat (c.toNat + 32) else c

/-- Case-insensitive tag. -/
def tagNoCase (s : String) : P Unit := fun i =>
  let cs := s.toList
  if cs.length ≤ i.length && (i.take cs.length).map lowerChar == cs then some ((), i.drop cs.length) else none

/-- `winnow::ascii::float` followed by `str::parse::<f64>`. -/
def parseFloat : P Float := fun i =>
  -- recognize_float: [+-]? (digit1 ('.' digit*)? | '.' digit1) ([eE] [+-]? digit1)?
  let (neg, hasSign, i1) := match i with
    | '-' :: r => (true, true, r)
    | '+' :: r => (false, true, r)
    | _ => (false, false, i)
  let intDs := i1.takeWhile isDigit
  let afterInt := i1.drop intDs.length
  let mantissa : Option (List Char × List Char × Input) :=
    if !intDs.isEmpty then
      match afterInt with
      | '.' :: r =>
        let fr := r.takeWhile isDigit
        some (intDs, fr, r.drop fr.length)
      | _ => some (intDs, [], afterInt)
    else
      match i1 with
      | '.' :: r =>
        let fr := r.takeWhile isDigit
        if fr.isEmpty then none else some ([], fr, r.drop fr.length)
      | _ => none
  match mantissa with
  | some (ip, fp, rest) =>
    let (exp, rest') : Int × Input :=
      match rest with
      | e :: r =>
        if e == 'e' || e == 'E' then
          let (eneg, r1) := match r with
            | '-' :: r1 => (true, r1)
            | '+' :: r1 => (false, r1)
            | _ => (false, r)
          let ed := r1.takeWhile isDigit
          if ed.isEmpty then (0, rest)   -- winnow: cut error; acceptance is unaffected (see header)
          else ((if eneg then -(expDigitsVal ed : Int) else (expDigitsVal ed : Int)), r1.drop ed.length)
        else (0, rest)
      | [] => (0, rest)
    -- (the written exponent saturates as in Rust's `parse_scientific`; `decToFloat` is exact for
    -- every integer exponent, so nothing else is clamped)
    some (decToFloat neg (digitsVal (ip ++ fp)) (exp - fp.length), rest')
  | none =>
    -- "nan" | [+-]? "infinity" | [+-]? "inf"   (caseless)
    match tagNoCase "nan" i with
    | some (_, r) => if hasSign then none else some (0.0 / 0.0, r)
    | none =>
      match tagNoCase "infinity" i1 with
      | some (_, r) => some (if neg then -(1.0 / 0.0) else 1.0 / 0.0, r)
      | none =>
        match tagNoCase "inf" i1 with
        | some (_, r) => some (if neg then -(1.0 / 0.0) else 1.0 / 0.0, r)
        | none => none

/-- `parse_number`: `alt((float, digit1))` — every `digit1` is also a float. -/
def parseNumber : P Float := parseFloat

/-- `parse_number_expr`: `number | "sqrt(" expr ")"`, parsed iteratively as in the Rust code. -/
def parseNumberExpr : P Float := fun i =>
  let rec countSqrt (fuel : Nat) (i : Input) (depth : Nat) : Option (Float × Input × Nat) :=
    match fuel with
    | 0 => none
    | fuel + 1 =>
      match parseNumber i with
      | some (v, r) => some (v, r, depth)
      | none =>
        match tag "sqrt(" i with
        | some (_, r) => countSqrt fuel r (depth + 1)
        | none => none
  match countSqrt (i.length + 1) i 0 with
  | none => none
  | some (v, r, depth) =>
    let rec close (n : Nat) (v : Float) (i : Input) : Option (Float × Input) :=
      match n with
      | 0 => some (v, i)
      | n + 1 =>
        match chr ')' i with
        | some (_, r) => close n v.sqrt r
        | none => none
    close depth v r

/-- `commasep`: `ws ',' ws`. -/
def commasep : P Unit := fun i =>
  match chr ',' (space0 i) with
  | some (_, r) => some ((), space0 r)
  | none => none

/-- `inside_brackets(p)`: `'(' ws p ')'`. -/
def insideBrackets {β : Type} (p : P β) : P β := fun i =>
  match chr '(' i with
  | none => none
  | some (_, r) =>
    match p (space0 r) with
    | none => none
    | some (b, r2) =>
      match chr ')' r2 with
      | some (_, r3) => some (b, r3)
      | none => none

/-- `n` labels separated by `commasep`, followed by optional whitespace. -/
def labelsN : Nat → P (List String)
  | 0 => fun i => some ([], i)
  | 1 => fun i =>
    match parseLabel i with
    | some (l, r) => some ([l], space0 r)
    | none => none
  | n + 2 => fun i =>
    match parseLabel i with
    | none => none
    | some (l, r) =>
      match commasep r with
      | none => none
      | some (_, r2) =>
        match labelsN (n + 1) r2 with
        | some (ls, r3) => some (l :: ls, r3)
        | none => none

/-- `(parse_label, commasep, …)` tuples do not skip trailing whitespace (unlike `two_points` &c.). -/
def labelsTight : Nat → P (List String)
  | 0 => fun i => some ([], i)
  | 1 => fun i =>
    match parseLabel i with
    | some (l, r) => some ([l], r)
    | none => none
  | n + 2 => fun i =>
    match parseLabel i with
    | none => none
    | some (l, r) =>
      match commasep r with
      | none => none
      | some (_, r2) =>
        match labelsTight (n + 1) r2 with
        | some (ls, r3) => some (l :: ls, r3)
        | none => none

/-- `parse_point`: `'(' ws number ',' space0 number ')'`. -/
def parsePoint : P (Float × Float) :=
  insideBrackets fun i =>
    match parseNumber i with
    | none => none
    | some (x, r) =>
      match chr ',' r with
      | none => none
      | some (_, r2) =>
        match parseNumber (space0 r2) with
        | some (y, r3) => some ((x, y), r3)
        | none => none

def parseComponent : P Component := fun i =>
  match i with
  | 'x' :: r => some (.x, r)
  | 'y' :: r => some (.y, r)
  | _ => none

/-- `delimited(space0, '=', space0)`. -/
def equalsSign : P Unit := fun i =>
  match chr '=' (space0 i) with
  | some (_, r) => some ((), space0 r)
  | none => none

/-- `parse_angle`: number then `deg` | `rad`. -/
def parseAngle : P (Angle Float) := fun i =>
  match parseNumber i with
  | none => none
  | some (v, r) =>
    match tag "deg" r with
    | some (_, r2) => some (⟨v, true⟩, r2)
    | none =>
      match tag "rad" r with
      | some (_, r2) => some (⟨v, false⟩, r2)
      | none => none

/-- keyword, optional whitespace, bracketed body. -/
def kw {β : Type} (word : String) (body : P β) : P β := fun i =>
  match tag word i with
  | none => none
  | some (_, r) => insideBrackets body (space0 r)

/-- `(labelsN n, commasep, q)`. -/
def labelsThen {β : Type} (n : Nat) (q : P β) : P (List String × β) := fun i =>
  match labelsN n i with
  | none => none
  | some (ls, r) =>
    match commasep r with
    | none => none
    | some (_, r2) =>
      match q r2 with
      | some (b, r3) => some ((ls, b), r3)
      | none => none

def labelsTightThen {β : Type} (n : Nat) (q : P β) : P (List String × β) := fun i =>
  match labelsTight n i with
  | none => none
  | some (ls, r) =>
    match commasep r with
    | none => none
    | some (_, r2) =>
      match q r2 with
      | some (b, r3) => some ((ls, b), r3)
      | none => none

/-- `three_labels_num`: three labels, a number, trailing whitespace. -/
def threeLabelsNum : P (List String × Float) := fun i =>
  match labelsTightThen 3 parseNumber i with
  | some (x, r) => some (x, space0 r)
  | none => none

def firstOf {β : Type} : List (P β) → P β
  | [] => fun _ => none
  | p :: rest => fun i =>
    match p i with
    | some r => some r
    | none => firstOf rest i

def mapP {β γ : Type} (p : P β) (f : β → Option γ) : P γ := fun i =>
  match p i with
  | some (b, r) => (f b).map (fun c => (c, r))
  | none => none

/-- `parse_instruction`: optional whitespace, then the alternatives in the order of the Rust
`alt`s.  Returns a list because `p = (x, y)` yields two instructions. -/
def parseInstruction : P (List (Instr Float)) := fun i0 =>
  let i := space0 i0
  firstOf [
    -- "point" space1 label   (a blank is required: `point1.x = 3` is about the label `point1`)
    fun i => match tag "point" i with
      | some (_, r) =>
        match space1 r with
        | some r' => (parseLabel r').map fun (l, r) => ([.declarePoint l], r)
        | none => none
      | none => none,
    fun i => match tag "circle" i with
      | some (_, r) =>
        match space1 r with
        | some r' => (parseLabel r').map fun (l, r) => ([.declareCircle l], r)
        | none => none
      | none => none,
    fun i => match tag "arc" i with
      | some (_, r) =>
        match space1 r with
        | some r' => (parseLabel r').map fun (l, r) => ([.declareArc l], r)
        | none => none
      | none => none,
    -- label '.' component '=' number
    fun i => match parseLabel i with
      | some (l, '.' :: r) =>
        match parseComponent r with
        | some (c, r2) =>
          match equalsSign r2 with
          | some (_, r3) => (parseNumber r3).map fun (v, r4) => ([.fixPointComponent l c v], r4)
          | none => none
        | none => none
      | _ => none,
    -- label ".center." component '=' number
    fun i => match parseLabel i with
      | some (l, r) =>
        match tag ".center." r with
        | some (_, r1) =>
          match parseComponent r1 with
          | some (c, r2) =>
            match equalsSign r2 with
            | some (_, r3) => (parseNumber r3).map fun (v, r4) => ([.fixCenterPointComponent l c v], r4)
            | none => none
          | none => none
        | none => none
      | none => none,
    -- assign_point: label_opt_suffix ws '=' ws point
    fun i => match parseLabelOptSuffix i with
      | some (l, r) =>
        match chr '=' (space0 r) with
        | some (_, r2) =>
          (parsePoint (space0 r2)).map fun ((x, y), r3) =>
            ([.fixPointComponent l .x x, .fixPointComponent l .y y], r3)
        | none => none
      | none => none,
    mapP (kw "horizontal" (labelsN 2)) fun ls => match ls with
      | [a, b] => some [.horizontal a b] | _ => none,
    mapP (kw "coincident" (labelsN 2)) fun ls => match ls with
      | [a, b] => some [.pointsCoincident a b] | _ => none,
    mapP (kw "point_arc_coincident" (labelsN 2)) fun ls => match ls with
      | [a, b] => some [.pointArcCoincident a b] | _ => none,
    mapP (kw "midpoint" (labelsN 3)) fun ls => match ls with
      | [a, b, c] => some [.midpoint a b c] | _ => none,
    mapP (kw "symmetric" (labelsN 4)) fun ls => match ls with
      | [p, q, a, b] => some [.symmetric p q a b] | _ => none,
    mapP (kw "vertical" (labelsN 2)) fun ls => match ls with
      | [a, b] => some [.vertical a b] | _ => none,
    -- parse_other_instructions
    mapP (kw "distance" (labelsThen 2 parseNumberExpr)) fun (ls, d) => match ls with
      | [a, b] => some [.distance a b d] | _ => none,
    mapP (kw "parallel" (labelsN 4)) fun ls => match ls with
      | [a, b, c, d] => some [.parallel a b c d] | _ => none,
    mapP (kw "perpendicular" (labelsN 4)) fun ls => match ls with
      | [a, b, c, d] => some [.perpendicular a b c d] | _ => none,
    mapP (kw "lines_at_angle" (labelsThen 4 parseAngle)) fun (ls, ang) => match ls with
      | [a, b, c, d] => some [.angleLine a b c d ang] | _ => none,
    mapP (kw "radius" (labelsTightThen 1 parseNumberExpr)) fun (ls, r) => match ls with
      | [c] => some [.circleRadius c r] | _ => none,
    mapP (kw "tangent" (labelsTight 3)) fun ls => match ls with
      | [p0, p1, c] => some [.tangent p0 p1 c] | _ => none,
    mapP (kw "arc_radius" (labelsTightThen 1 parseNumber)) fun (ls, r) => match ls with
      | [a] => some [.arcRadius a r] | _ => none,
    mapP (kw "arc_length" (labelsTightThen 1 parseNumber)) fun (ls, d) => match ls with
      | [a] => some [.arcLength a d] | _ => none,
    mapP (kw "is_arc" (labelsTight 1)) fun ls => match ls with
      | [a] => some [.isArc a] | _ => none,
    mapP (kw "point_line_distance" threeLabelsNum) fun (ls, d) => match ls with
      | [p, l0, l1] => some [.pointLineDistance p l0 l1 d] | _ => none,
    mapP (kw "line" (labelsTight 2)) fun ls => match ls with
      | [a, b] => some [.line a b] | _ => none,
    mapP (kw "lines_equal_length" (labelsN 4)) fun ls => match ls with
      | [a, b, c, d] => some [.linesEqualLength a b c d] | _ => none
  ] i

/-- `separated(1.., p, newline)`: stops (without consuming the separator) at the first newline that
is not followed by another `p`. -/
def separated1 {β : Type} (p : P β) : P (List β) := fun i =>
  match p i with
  | none => none
  | some (b, r) =>
    let rec go (fuel : Nat) (acc : List β) (i : Input) : List β × Input :=
      match fuel with
      | 0 => (acc.reverse, i)
      | fuel + 1 =>
        match i with
        | '\n' :: r =>
          match p r with
          | some (b, r2) => go fuel (b :: acc) r2
          | none => (acc.reverse, i)
        | _ => (acc.reverse, i)
    some (go (r.length + 1) [b] r)

inductive Guess where
  | point (l : String) (x y : Float)
  | scalar (l : String) (v : Float)

/-- `parse_guess`: `ws label ('.' label)? ws "roughly" ws (point | number)`. -/
def parseGuess : P Guess := fun i0 =>
  match parseLabelOptSuffix (space0 i0) with
  | none => none
  | some (l, r) =>
    match tag "roughly" (space0 r) with
    | none => none
    | some (_, r2) =>
      let r3 := space0 r2
      match parsePoint r3 with
      | some ((x, y), r4) => some (.point l x y, r4)
      | none =>
        match parseNumber r3 with
        | some (v, r4) => some (.scalar l v, r4)
        | none => none

def header (word : String) : P Unit := fun i =>
  match chr '#' i with
  | none => none
  | some (_, r) =>
    match tag word (space0 r) with
    | none => none
    | some (_, r2) => chr '\n' r2

/-- `parse_problem` run by `Parser::parse` (the whole input must be consumed). -/
def parseProblem (s : String) : Option (Problem Float) :=
  match header "constraints" s.toList with
  | none => none
  | some (_, r) =>
    match separated1 parseInstruction r with
    | none => none
    | some (instrs, r2) =>
      let instructions := instrs.flatten
      match r2 with
      | '\n' :: '\n' :: r3 =>
        match header "guesses" (space0 r3) with
        | none => none
        | some (_, r4) =>
          match separated1 parseGuess r4 with
          | none => none
          | some (gs, r5) =>
            let r6 := match r5 with
              | '\n' :: r => r
              | _ => r5
            if (space0 r6).isEmpty then
              some {
                instructions := instructions
                innerPoints := instructions.filterMap fun i => match i with | .declarePoint l => some l | _ => none
                innerCircles := instructions.filterMap fun i => match i with | .declareCircle l => some l | _ => none
                innerArcs := instructions.filterMap fun i => match i with | .declareArc l => some l | _ => none
                innerLines := instructions.filterMap fun i => match i with | .line a b => some (a, b) | _ => none
                pointGuesses := gs.filterMap fun g => match g with | .point l x y => some (l, x, y) | _ => none
                scalarGuesses := gs.filterMap fun g => match g with | .scalar l v => some (l, v) | _ => none }
            else none
      | _ => none

end Ezpz.Text
