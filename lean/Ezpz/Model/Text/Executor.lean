/-
L6: `Problem::to_constraint_system` and the labelling of results.
Mirrors `kcl-ezpz/src/textual/executor.rs` and `textual/geometry_variables.rs`.
`none` inside a lookup is a Rust panic (slice index out of bounds).
-/
import Ezpz.Model.Text.Syntax
namespace Ezpz.Text
open Ezpz

variable {α : Type}

/-! ### HashMap as an association list with unique keys -/

def amInsert {β : Type} (m : List (String × β)) (k : String) (v : β) : List (String × β) :=
  (k, v) :: m.filter (fun e => e.1 != k)

def amFromList {β : Type} (xs : List (String × β)) : List (String × β) :=
  xs.foldl (fun m e => amInsert m e.1 e.2) []

def amRemove {β : Type} (m : List (String × β)) (k : String) : Option (β × List (String × β)) :=
  match m.find? (fun e => e.1 == k) with
  | some e => some (e.2, m.filter (fun e => e.1 != k))
  | none => none

/-! ### geometry_variables.rs -/

/-- `GeometryVariables`: the flat `(id, guess)` list laid out points | circles | arcs. -/
structure Vars (α : Type) where
  variables : List (Nat × α) := []
  numPoints : Nat := 0
  numCircles : Nat := 0
  numArcs : Nat := 0

/-- `IdGenerator::next_id` is the current length: ids are handed out sequentially from 0. -/
def Vars.pushScalar (v : Vars α) (guess : α) : Vars α :=
  { v with variables := v.variables ++ [(v.variables.length, guess)] }

def Vars.pushPoint (v : Vars α) (x y : α) : Vars α :=
  let v := { v with numPoints := v.numPoints + 1 }
  (v.pushScalar x).pushScalar y

def Vars.pushCircle (v : Vars α) (cx cy r : α) : Vars α :=
  let v := { v with numCircles := v.numCircles + 1 }
  ((v.pushScalar cx).pushScalar cy).pushScalar r

/-- `push_arc(a, b, center)`: variables `[ax, ay, bx, by, cx, cy]`. -/
def Vars.pushArc (v : Vars α) (a b c : α × α) : Vars α :=
  let v := { v with numArcs := v.numArcs + 1 }
  (((((v.pushScalar a.1).pushScalar a.2).pushScalar b.1).pushScalar b.2).pushScalar c.1).pushScalar c.2

def Vars.idAt (v : Vars α) (k : Nat) : Option Nat := (v.variables[k]?).map (·.1)

/-- `point_ids`. -/
def Vars.pointIds (v : Vars α) (i : Nat) : Option Pt := do
  let x ← v.idAt (Gen.VARS_PER_POINT * i)
  let y ← v.idAt (Gen.VARS_PER_POINT * i + 1)
  pure ⟨x, y⟩

/-- `circle_ids`. -/
def Vars.circleIds (v : Vars α) (i : Nat) : Option Circ := do
  let s := Gen.VARS_PER_POINT * v.numPoints
  let x ← v.idAt (s + Gen.VARS_PER_CIRCLE * i)
  let y ← v.idAt (s + Gen.VARS_PER_CIRCLE * i + 1)
  let r ← v.idAt (s + Gen.VARS_PER_CIRCLE * i + 2)
  pure ⟨⟨x, y⟩, r⟩

/-- `arc_ids` (start of arcs = after the points *and* the circles). -/
def Vars.arcIds (v : Vars α) (i : Nat) : Option ArcD := do
  let s := Gen.VARS_PER_POINT * v.numPoints + Gen.VARS_PER_CIRCLE * v.numCircles
  let ax ← v.idAt (s + Gen.VARS_PER_ARC * i)
  let ay ← v.idAt (s + Gen.VARS_PER_ARC * i + 1)
  let bx ← v.idAt (s + Gen.VARS_PER_ARC * i + 2)
  let bY ← v.idAt (s + Gen.VARS_PER_ARC * i + 3)
  let cx ← v.idAt (s + Gen.VARS_PER_ARC * i + 4)
  let cy ← v.idAt (s + Gen.VARS_PER_ARC * i + 5)
  pure ⟨⟨cx, cy⟩, ⟨ax, ay⟩, ⟨bx, bY⟩⟩

/-! ### executor.rs -/

/-- Errors of `to_constraint_system`, plus `panic` for an out-of-bounds index. -/
inductive ExecError where
  | text (e : TextError)
  | panic
deriving Repr, DecidableEq

abbrev Exec (β : Type) := Except ExecError β

def orPanic {β : Type} (o : Option β) : Exec β :=
  match o with
  | some b => .ok b
  | none => .error .panic

/-- Step 1: lay the guesses out as solver variables. -/
def buildPoints (labels : List String) (gp : List (String × α × α)) (v : Vars α) :
    Exec (Vars α × List (String × α × α)) :=
  match labels with
  | [] => .ok (v, gp)
  | l :: rest =>
    match amRemove gp l with
    | none => .error (.text (.missingGuess l))
    | some (g, gp') => buildPoints rest gp' (v.pushPoint g.1 g.2)

def buildCircles (labels : List String) (gp : List (String × α × α)) (gs : List (String × α))
    (v : Vars α) : Exec (Vars α × List (String × α × α) × List (String × α)) :=
  match labels with
  | [] => .ok (v, gp, gs)
  | l :: rest =>
    match amRemove gp (l ++ ".center") with
    | none => .error (.text (.missingGuess (l ++ ".center")))
    | some (c, gp') =>
      match amRemove gs (l ++ ".radius") with
      | none => .error (.text (.missingGuess (l ++ ".radius")))
      | some (r, gs') => buildCircles rest gp' gs' (v.pushCircle c.1 c.2 r)

def buildArcs (labels : List String) (gp : List (String × α × α)) (v : Vars α) :
    Exec (Vars α × List (String × α × α)) :=
  match labels with
  | [] => .ok (v, gp)
  | l :: rest =>
    match amRemove gp (l ++ ".center") with
    | none => .error (.text (.missingGuess (l ++ ".center")))
    | some (c, gp1) =>
      match amRemove gp1 (l ++ ".a") with
      | none => .error (.text (.missingGuess (l ++ ".a")))
      | some (a, gp2) =>
        match amRemove gp2 (l ++ ".b") with
        | none => .error (.text (.missingGuess (l ++ ".b")))
        | some (b, gp3) => buildArcs rest gp3 (v.pushArc a b c)

def buildVars (p : Problem α) : Exec (Vars α) :=
  match buildPoints p.innerPoints (amFromList p.pointGuesses) {} with
  | .error e => .error e
  | .ok (v, gp) =>
    match buildCircles p.innerCircles gp (amFromList p.scalarGuesses) v with
    | .error e => .error e
    | .ok (v, gp, gs) =>
      match buildArcs p.innerArcs gp v with
      | .error e => .error e
      | .ok (v, gp) =>
        if !gp.isEmpty then .error (.text (.unusedGuesses (gp.map (·.1))))
        else if !gs.isEmpty then .error (.text (.unusedGuesses (gs.map (·.1))))
        else .ok v

/-- `iter().position(pred)`. -/
def position? (xs : List String) (pred : String → Bool) : Option Nat := xs.findIdx? pred

/-- `datum_point_for_label`. -/
def datumPoint (p : Problem α) (v : Vars α) (label : String) : Exec Pt :=
  match position? p.innerPoints (· == label) with
  | some i => orPanic (v.pointIds i)
  | none =>
    match position? p.innerCircles (fun c => c ++ ".center" == label) with
    | some i => orPanic ((v.circleIds i).map (·.center))
    | none =>
      match position? p.innerArcs (fun a => a ++ ".center" == label) with
      | some i => orPanic ((v.arcIds i).map (·.center))
      | none =>
        match position? p.innerArcs (fun a => a ++ ".a" == label) with
        | some i => orPanic ((v.arcIds i).map (·.start))
        | none =>
          match position? p.innerArcs (fun a => a ++ ".b" == label) with
          | some i => orPanic ((v.arcIds i).map (·.stop))
          | none => .error (.text (.undefinedPoint label))

/-- `datum_distance_for_label`. -/
def datumDistance (p : Problem α) (v : Vars α) (label : String) : Exec Nat :=
  match position? p.innerCircles (fun c => c ++ ".radius" == label) with
  | some i => orPanic ((v.circleIds i).map (·.radius))
  | none => .error (.text (.undefinedPoint label))

def compOf (c : Component) (p : Pt) : Nat :=
  match c with
  | .x => p.x
  | .y => p.y

/-- The arc datum of a label: centre, then `.a`, then `.b`. -/
def datumArc (p : Problem α) (v : Vars α) (arc : String) : Exec ArcD := do
  let c ← datumPoint p v (arc ++ ".center")
  let a ← datumPoint p v (arc ++ ".a")
  let b ← datumPoint p v (arc ++ ".b")
  pure ⟨c, a, b⟩

/-- `str::strip_suffix(".center")`. -/
def stripCenter (s : String) : Option String :=
  if s.endsWith ".center" then some (String.ofList (s.toList.take (s.length - 7))) else none

/-- Lowering of one instruction to zero or one constraint. -/
def lower (p : Problem α) (v : Vars α) (instr : Instr α) : Exec (List (Constraint α)) :=
  match instr with
  | .declarePoint _ => .ok []
  | .declareCircle _ => .ok []
  | .declareArc _ => .ok []
  | .line a b => do
    -- executor.rs: a line adds no constraint, but both endpoints must be known points
    let _ ← datumPoint p v a
    let _ ← datumPoint p v b
    pure []
  | .circleRadius circ r => do
    let c ← datumPoint p v (circ ++ ".center")
    let rid ← datumDistance p v (circ ++ ".radius")
    pure [.circleRadius ⟨c, rid⟩ r]
  | .arcRadius arc r => do
    let a ← datumArc p v arc
    pure [.arcRadius a r]
  | .isArc arc => do
    let a ← datumArc p v arc
    pure [.isArc a]
  | .pointLineDistance pt l0 l1 d => do
    let p0 ← datumPoint p v l0
    let p1 ← datumPoint p v l1
    let q ← datumPoint p v pt
    pure [.pointLineDistance q ⟨p0, p1⟩ d]
  | .tangent l0 l1 circ => do
    let c ← datumPoint p v (circ ++ ".center")
    let rid ← datumDistance p v (circ ++ ".radius")
    let p0 ← datumPoint p v l0
    let p1 ← datumPoint p v l1
    pure [.lineTangentToCircle ⟨p0, p1⟩ ⟨c, rid⟩]
  | .fixPointComponent point comp value =>
    match position? p.innerPoints (· == point) with
    | some i => do
      let ids ← orPanic (v.pointIds i)
      pure [.fixed (compOf comp ids) value]
    | none =>
      match stripCenter point with
      | some label =>
        match position? p.innerCircles (· == label) with
        | some i => do
          let c ← orPanic (v.circleIds i)
          pure [.fixed (compOf comp c.center) value]
        | none =>
          match position? p.innerArcs (· == label) with
          | some i => do
            let a ← orPanic (v.arcIds i)
            pure [.fixed (compOf comp a.center) value]
          | none => .error (.text (.undefinedPoint point))
      | none => .error (.text (.undefinedPoint point))
  | .fixCenterPointComponent obj comp value =>
    match position? p.innerCircles (· == obj) with
    | some i => do
      let c ← orPanic (v.circleIds i)
      pure [.fixed (compOf comp c.center) value]
    | none =>
      match position? p.innerArcs (· == obj) with
      | some i => do
        let a ← orPanic (v.arcIds i)
        pure [.fixed (compOf comp a.center) value]
      | none => .error (.text (.undefinedPoint obj))
  | .vertical a b => do
    let p0 ← datumPoint p v a
    let p1 ← datumPoint p v b
    pure [.vertical ⟨p0, p1⟩]
  | .pointsCoincident a b => do
    let p0 ← datumPoint p v a
    let p1 ← datumPoint p v b
    pure [.pointsCoincident p0 p1]
  | .pointArcCoincident point arc => do
    let q ← datumPoint p v point
    let a ← datumArc p v arc
    pure [.pointArcCoincident a q]
  | .midpoint a b mp => do
    let p0 ← datumPoint p v a
    let p1 ← datumPoint p v b
    let m ← datumPoint p v mp
    pure [.midpoint ⟨p0, p1⟩ m]
  | .symmetric lp lq a b => do
    let p0 ← datumPoint p v a
    let p1 ← datumPoint p v b
    let l0 ← datumPoint p v lp
    let l1 ← datumPoint p v lq
    pure [.symmetric ⟨l0, l1⟩ p0 p1]
  | .horizontal a b => do
    let p0 ← datumPoint p v a
    let p1 ← datumPoint p v b
    pure [.horizontal ⟨p0, p1⟩]
  | .distance a b d => do
    let p0 ← datumPoint p v a
    let p1 ← datumPoint p v b
    pure [.distance p0 p1 d]
  | .parallel a b c d => do
    let p0 ← datumPoint p v a
    let p1 ← datumPoint p v b
    let p2 ← datumPoint p v c
    let p3 ← datumPoint p v d
    pure [.linesAtAngle ⟨p0, p1⟩ ⟨p2, p3⟩ .parallel]
  | .linesEqualLength a b c d => do
    let p0 ← datumPoint p v a
    let p1 ← datumPoint p v b
    let p2 ← datumPoint p v c
    let p3 ← datumPoint p v d
    pure [.linesEqualLength ⟨p0, p1⟩ ⟨p2, p3⟩]
  | .perpendicular a b c d => do
    let p0 ← datumPoint p v a
    let p1 ← datumPoint p v b
    let p2 ← datumPoint p v c
    let p3 ← datumPoint p v d
    pure [.linesAtAngle ⟨p0, p1⟩ ⟨p2, p3⟩ .perpendicular]
  | .angleLine a b c d ang => do
    let p0 ← datumPoint p v a
    let p1 ← datumPoint p v b
    let p2 ← datumPoint p v c
    let p3 ← datumPoint p v d
    pure [.linesAtAngle ⟨p0, p1⟩ ⟨p2, p3⟩ (.other ang)]
  | .arcLength arc d => do
    let a ← datumArc p v arc
    pure [.arcLength a d]

def lowerAll (p : Problem α) (v : Vars α) : List (Instr α) → Exec (List (Constraint α))
  | [] => .ok []
  | i :: rest =>
    match lower p v i with
    | .error e => .error e
    | .ok cs =>
      match lowerAll p v rest with
      | .error e => .error e
      | .ok cs' => .ok (cs ++ cs')

/-- `ConstraintSystem`: constraints (all at priority 0) and the initial guesses. -/
structure ConstraintSystem (α : Type) where
  constraints : List (Constraint α)
  vars : Vars α

/-- `Problem::to_constraint_system`. -/
def toConstraintSystem (p : Problem α) : Exec (ConstraintSystem α) :=
  match buildVars p with
  | .error e => .error e
  | .ok v =>
    match lowerAll p v p.instructions with
    | .error e => .error e
    | .ok cs => .ok ⟨cs, v⟩

/-! ### Labelled results (`solve_with_config_inner`) -/

/-- `IndexMap::insert`: overwrite in place, or append. -/
def imInsert {β : Type} (m : List (String × β)) (k : String) (v : β) : List (String × β) :=
  if m.any (fun e => e.1 == k) then m.map (fun e => if e.1 == k then (k, v) else e) else m ++ [(k, v)]

structure Labelled (α : Type) where
  points : List (String × α × α)
  circles : List (String × (α × α) × α)
  arcs : List (String × (α × α) × (α × α) × (α × α))

/-- The labelled outcome built from the final values; `none` is an index-out-of-bounds panic. -/
def labelOutcome (p : Problem α) (final : List α) : Option (Labelled α) := do
  let np := p.innerPoints.length
  let nc := p.innerCircles.length
  let pts ← (p.innerPoints.zipIdx).foldlM (init := ([] : List (String × α × α))) fun acc (l, i) => do
    let x ← final[2 * i]?
    let y ← final[2 * i + 1]?
    pure (imInsert acc l (x, y))
  let sc := 2 * np
  let circs ← (p.innerCircles.zipIdx).foldlM (init := ([] : List (String × (α × α) × α))) fun acc (l, i) => do
    let cx ← final[sc + 3 * i]?
    let cy ← final[sc + 3 * i + 1]?
    let r ← final[sc + 3 * i + 2]?
    pure (imInsert acc l ((cx, cy), r))
  let sa := sc + 3 * nc
  let arcs ← (p.innerArcs.zipIdx).foldlM
      (init := ([] : List (String × (α × α) × (α × α) × (α × α)))) fun acc (l, i) => do
    let ax ← final[sa + Gen.VARS_PER_ARC * i]?
    let ay ← final[sa + Gen.VARS_PER_ARC * i + 1]?
    let bx ← final[sa + Gen.VARS_PER_ARC * i + 2]?
    let bY ← final[sa + Gen.VARS_PER_ARC * i + 3]?
    let cx ← final[sa + Gen.VARS_PER_ARC * i + 4]?
    let cy ← final[sa + Gen.VARS_PER_ARC * i + 5]?
    pure (imInsert acc l ((cx, cy), (ax, ay), (bx, bY)))
  pure ⟨pts, circs, arcs⟩

end Ezpz.Text
