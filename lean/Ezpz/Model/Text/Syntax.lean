/-
L6: the textual problem format.  AST mirrors `kcl-ezpz/src/textual/instruction.rs` and
`textual.rs` (`Problem`).
-/
import Ezpz.Model.Solve
namespace Ezpz.Text
open Ezpz

inductive Component where
  | x
  | y
deriving Repr, DecidableEq

/-- `Instruction` (labels are plain strings). -/
inductive Instr (α : Type) where
  | declarePoint (l : String)
  | declareCircle (l : String)
  | declareArc (l : String)
  | fixPointComponent (point : String) (c : Component) (v : α)
  | vertical (a b : String)
  | horizontal (a b : String)
  | distance (a b : String) (d : α)
  | parallel (a b c d : String)
  | perpendicular (a b c d : String)
  | angleLine (a b c d : String) (ang : Angle α)
  | pointsCoincident (a b : String)
  | pointArcCoincident (point arc : String)
  | midpoint (a b mp : String)
  | symmetric (lp lq a b : String)
  | circleRadius (circle : String) (r : α)
  | tangent (p0 p1 circle : String)
  | arcRadius (arc : String) (r : α)
  | fixCenterPointComponent (obj : String) (c : Component) (v : α)
  | linesEqualLength (a b c d : String)
  | isArc (arc : String)
  | pointLineDistance (p l0 l1 : String) (d : α)
  | line (p0 p1 : String)
  | arcLength (arc : String) (d : α)

/-- `Problem`. -/
structure Problem (α : Type) where
  instructions : List (Instr α)
  innerPoints : List String
  innerCircles : List String
  innerArcs : List String
  innerLines : List (String × String)
  pointGuesses : List (String × α × α)
  scalarGuesses : List (String × α)

/-- Does the instruction state a constraint (as opposed to declaring an entity or a line)? -/
def Instr.producesConstraint {α : Type} : Instr α → Bool
  | .declarePoint _ => false
  | .declareCircle _ => false
  | .declareArc _ => false
  | .line .. => false
  | _ => true

/-- `TextualError`. -/
inductive TextError where
  | missingGuess (label : String)
  | unusedGuesses (labels : List String)
  | undefinedPoint (label : String)
deriving Repr, DecidableEq

end Ezpz.Text
