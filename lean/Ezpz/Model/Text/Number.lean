/-
Exact decimal → binary64 conversion (round to nearest, ties to even), mirroring Rust's
`str::parse::<f64>()` on the token recognised by `winnow::ascii::float`.
The conversion is done on integers; the result is assembled with `Float.ofBits`.
-/
namespace Ezpz.Text

/-- Nearest binary64 to the positive rational `n / d` (`n, d > 0`), as IEEE bits. -/
def ratToBits (n d : Nat) : UInt64 :=
  if n = 0 then 0 else
  -- e := floor(log2(n/d)) (within one), then normalise so that 2^52 ≤ q < 2^53
  let e0 : Int := (Nat.log2 n : Int) - (Nat.log2 d : Int)
  -- scale so that the quotient has 53 or 54 bits
  let shift : Int := 52 - e0
  let (n', d') := if shift ≥ 0 then (n <<< shift.toNat, d) else (n, d <<< (-shift).toNat)
  let q0 := n' / d'
  -- q0 is in [2^51, 2^54); fix the exponent so that q in [2^52, 2^53)
  let (e, n2, d2) :=
    if q0 ≥ 2 ^ 53 then (e0 + 1, n', d' * 2)
    else if q0 < 2 ^ 52 then (e0 - 1, n' * 2, d')
    else (e0, n', d')
  -- subnormal range: biased exponent would be ≤ 0
  let biased : Int := e + 1023
  if biased ≥ 2047 then 0x7FF0000000000000 else
  if biased ≥ 1 then
    let q := n2 / d2
    let r := n2 % d2
    let q := if 2 * r > d2 ∨ (2 * r = d2 ∧ q % 2 = 1) then q + 1 else q
    -- rounding may carry into the next binade
    let (q, biased) := if q ≥ 2 ^ 53 then (q / 2, biased + 1) else (q, biased)
    if biased ≥ 2047 then 0x7FF0000000000000
    else UInt64.ofNat ((biased.toNat <<< 52) + (q - 2 ^ 52))
  else
    -- subnormal: value = m · 2^-1074
    let extra : Nat := (1 - biased).toNat
    let d3 := d2 <<< extra
    let q := n2 / d3
    let r := n2 % d3
    let q := if 2 * r > d3 ∨ (2 * r = d3 ∧ q % 2 = 1) then q + 1 else q
    UInt64.ofNat q

/-- `mant · 10^exp10` with the given sign, correctly rounded. -/
def decToFloat (neg : Bool) (mant : Nat) (exp10 : Int) : Float :=
  let bits :=
    if mant = 0 then (0 : UInt64)
    else if exp10 ≥ 0 then
      -- huge exponents overflow to infinity without building an enormous number
      if exp10 > 400 then 0x7FF0000000000000 else ratToBits (mant * 10 ^ exp10.toNat) 1
    else
      if -exp10 > 800 + (Nat.log2 mant : Int) then 0 else ratToBits mant (10 ^ (-exp10).toNat)
  Float.ofBits (if neg then bits ||| 0x8000000000000000 else bits)

end Ezpz.Text
