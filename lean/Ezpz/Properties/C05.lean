/-
C05 — Freedom analysis reports exactly the variables that can still move.

* `Ezpz/Real/Kernel.lean` (ℝ, Mathlib): under the part of faer's SVD contract the code relies on
  (`SvdSpec`: `V` orthogonal, `VᵀJᵀJV = diag σ²`; checked as a certificate on every recorded trace),
  `J v = 0 ↔` the coordinates of `v` along non-null columns vanish (`kernel_iff`), a variable takes
  part in the null space iff some null column of `V` is non-zero in its row (`participates_iff`),
  the squared participation is the squared length of the projection of `e_j` on `ker J`
  (`participation_eq_projection`), an unmentioned variable is in the kernel, a pinned one is not.
* `Ezpz/Real/Dof.lean` (ℝ): the coded `calculate` — closed form (`dofCalculate_eq`), membership
  (`mem_dofCalculate_iff`) and the specification `dof_spec`: with a gap in the spectrum and in the
  participations (the property's "well-separated cases"), `j` is reported iff
  `∃ v, J v = 0 ∧ v j ≠ 0`; `unmentioned_reported`, `pinned_not_reported`.
* This file (every scalar type): which Jacobian is analysed, the shape of the answer, the
  no-constraint case.
-/
import Ezpz.Real.Dof
import Ezpz.Properties.C03
set_option linter.unusedSectionVars false
namespace Ezpz.C05
open Ezpz Transc

variable {α : Type} [Add α] [Sub α] [Mul α] [Div α] [Neg α] [OfScientific α]
  [LT α] [DecidableLT α] [LE α] [DecidableLE α] [Transc α]

theorem newtonStep_done_lastJac (es : List (Entry α)) (cfg : Config α)
    (solve : Nat → List (Triplet α) → List α → Except SolveError (List α)) (k : Nat) (x : List α)
    (ws : List (Warning α)) (res : NewtonOk α) (h : newtonStep es cfg solve k x ws = .done res) :
    (∃ w2, jacobianAll es (lookup x) = .ok (res.lastJac, w2)) ∧ x.length = res.values.length ∧
      (res.byResidual = true → res.values = x) := by
  unfold newtonStep at h
  split at h
  · simp at h
  · split at h
    · simp at h
    · rename_i jac w2 hj
      split at h
      · simp at h
      · split at h
        · injection h with h; subst h
          exact ⟨⟨w2, hj⟩, rfl, fun _ => rfl⟩
        · split at h
          · simp at h
          · rename_i d hd
            split at h
            · simp at h
            · rename_i hlen
              split at h
              · simp at h
              · split at h
                · injection h with h; subst h
                  refine ⟨⟨w2, hj⟩, ?_, fun hb => by simp at hb⟩
                  have hl : d.length = x.length := by simpa using hlen
                  simp [applyStep, List.length_zipWith, hl]
                · simp at h

/-- The Jacobian the loop hands on (`lastJac`) is the one assembled from the attempted requests at
a visited configuration of the right length; when the loop returned at the residual test, that
configuration is the returned one. -/
theorem newtonLoop_lastJac (es : List (Entry α)) (cfg : Config α)
    (solve : Nat → List (Triplet α) → List α → Except SolveError (List α)) :
    ∀ (fuel k : Nat) (x : List α) (ws : List (Warning α)) (r : NewtonOk α),
      newtonLoop es cfg solve fuel k x ws = .ok r →
      ∃ y w2, jacobianAll es (lookup y) = .ok (r.lastJac, w2) ∧ y.length = r.values.length ∧
        (r.byResidual = true → r.values = y) := by
  intro fuel
  induction fuel with
  | zero => intro k x ws r h; simp [newtonLoop] at h
  | succ fuel ih =>
    intro k x ws r h
    unfold newtonLoop at h
    split at h
    · rename_i r' hr
      injection h with h; subst h
      obtain ⟨⟨w2, hj⟩, hl, hb⟩ := newtonStep_done_lastJac es cfg solve k x ws _ hr
      exact ⟨x, w2, hj, hl, hb⟩
    · simp at h
    · exact ih _ _ _ _ h

/-- C05.4 — **the analysis is of the model that produced the returned outcome**: the
under-constrained list of a successful `solve_analysis` is `calculate` applied to the SVD of the
Jacobian of exactly the attempted requests (priority `≤` the solved priority), evaluated at a
visited configuration — the returned one when the solve ended at the residual test. -/
theorem analysis_of_returned_model (reqs : List (Constraint α × Nat)) (g : List (Nat × α))
    (cfg : Config α) (solve : LinSolve α) (svd : Svd α) (o : Outcome α) (hne : reqs ≠ [])
    (h : solveWithPriority reqs g cfg solve (some svd) = .ok o) :
    ∃ (i : Nat) (nr : NewtonOk α) (y : List α) (w2 : List (Warning α)),
      jacobianAll ((enumerate reqs).filter (fun e => e.priority ≤ o.prioritySolved)) (lookup y) =
        .ok (nr.lastJac, w2) ∧
      y.length = g.length ∧ (nr.byResidual = true → o.finalValues = y) ∧
      runAnalysis (some (svd i)) nr.lastJac g.length = .ok o.underconstrained := by
  obtain ⟨P, i, _, hs, hp⟩ := C03.result_is_subset_solve reqs g cfg solve (some svd) o hne h
  obtain ⟨nr, hn, _, hv, _, _, _, _, ha⟩ := solveInner_ok _ _ _ _ _ _ hs
  unfold newton at hn
  obtain ⟨y, w2, hj, hl, hb⟩ := newtonLoop_lastJac _ cfg (solve i) _ _ _ _ _ hn
  have hlen := solveInner_final_length _ _ _ _ _ _ hs
  refine ⟨i, nr, y, w2, ?_, ?_, ?_, ?_⟩
  · rw [hp]; exact hj
  · rw [hl, ← hv, hlen]
  · intro hb'; rw [hv]; exact hb hb'
  · simpa using ha

/-- A successful analysis yields a list: strictly increasing variable positions, all `< n`. -/
theorem underconstrained_shape (reqs : List (Constraint α × Nat)) (g : List (Nat × α))
    (cfg : Config α) (solve : LinSolve α) (svd : Svd α) (o : Outcome α)
    (h : solveWithPriority reqs g cfg solve (some svd) = .ok o) :
    ∃ us, o.underconstrained = some us ∧ us.Pairwise (· < ·) ∧ ∀ j ∈ us, j < g.length := by
  by_cases hne : reqs = []
  · subst hne
    simp [solveWithPriority, noConstraintsOutcome] at h
    subst h
    exact ⟨_, rfl, List.pairwise_lt_range, by simp⟩
  · obtain ⟨P, i, _, hs, _⟩ := C03.result_is_subset_solve reqs g cfg solve (some svd) o hne h
    obtain ⟨nr, _, _, _, _, _, _, _, ha⟩ := solveInner_ok _ _ _ _ _ _ hs
    simp only [Option.map_some] at ha
    unfold runAnalysis at ha
    split at ha
    · rename_i hsv; simp at hsv
    · rename_i svdf hsv
      injection hsv with hsv
      split at ha
      · simp at ha
      · split at ha
        · simp at ha
        · rename_i us hd
          injection ha with ha
          obtain ⟨h1, h2⟩ := dofCalculate_sorted_lt _ _ _ _ hd
          exact ⟨us, ha.symm, h1, h2⟩

/-- C05 — **no constraints: every variable is free** (after the fix of F9): with an empty request
list the analysis reports all variable positions. -/
theorem no_constraints_all_free (g : List (Nat × α)) (cfg : Config α) (solve : LinSolve α)
    (svd : Svd α) :
    ∃ o, solveWithPriority ([] : List (Constraint α × Nat)) g cfg solve (some svd) = .ok o ∧
      o.underconstrained = some (List.range g.length) :=
  ⟨_, rfl, rfl⟩

end Ezpz.C05
