/-
C04 — Least disturbance: unmoved where free, nearest least-squares fit where linear.

* `Ezpz/Proofs/Untouched2.lean` (every scalar type): a variable that no request mentions has no
  triplet in its Jacobian column (`jacobianAll_no_column`), so a solver that returns a neutral element
  for such columns (`ZeroStepOn`) leaves it at its guess through the whole solve
  (`untouched_var_fixed'`); `Ezpz/Real/UntouchedEntry.lean`: every exact solver over ℝ is such a solver
  (`zeroStepOn_of_exact`), hence `unmentioned_variable_returned_at_guess`.  This file: the empty
  request list returns the guesses.
* `Ezpz/Real/LinearEntry.lean`: the bridge from the model to the linear-algebra theorems below —
  for a list of linear kinds the assembled residual is `A x − b` with a constant `A`
  (`assembled_affine`), one round of the model's loop with an exact solver is an `IsStep`
  (`newtonStep_isStep`), and after `j` executed rounds the distance to the nearest solution of a
  consistent system has contracted by `q^j` (`newtonRun_converges_prefix`,
  `newtonLoop_result_contracts`).
* `Ezpz/Real/GaussNewton.lean`: `untouched_var_step_zero` — the exact step has a zero component for
  every variable whose Jacobian column is zero (no constraint mentions it); `step_identity`.
* `Ezpz/Real/Linear.lean`: `linear_kinds_affine`, `linear_kinds_constant_jacobian`.
* `Ezpz/Real/GaussNewton2.lean`: `tikhonov_step` (one step minimises `‖Ax-b‖² + λ‖x-x₀‖²`),
  `step_orthogonal_to_kernel`, `displacement_orthogonal_to_kernel` (the total displacement stays in
  `range Aᵀ`).
* `Ezpz/Real/GaussNewton3.lean`: `gradient_after_step` (a small last step certifies least-squares
  stationarity up to `λ‖d‖`), `stationary_is_minimiser`, `nearest_least_squares(_unique)`,
  `linear_error_nonexpansive`.
The 1e-4·scale closeness of the f64 result (effect of λ = 1e-9, of early stopping, of rounding) is
left to the exact-rational oracle on the real code.
-/
import Ezpz.Proofs.Untouched
set_option linter.unusedSectionVars false
namespace Ezpz.C04
open Ezpz Transc

variable {α : Type} [Add α] [Sub α] [Mul α] [Div α] [Neg α] [OfScientific α]
  [LT α] [DecidableLT α] [LE α] [DecidableLE α] [Transc α]

/-- Stepping stone only (kept for its proof pattern): if at every level the solver's answer has
the neutral element `z` in slot `j` FOR EVERY JACOBIAN IT IS HANDED, a successful result returns
variable `j`'s guess.  The hypothesis `ZeroStepAt` is not met by any exact solver (it ranges over
Jacobians whose column `j` is not zero), so this statement does not carry the property's clause.
The clause itself — *no request mentions `j`* ⇒ returned at its guess — is
`untouched_var_fixed'` (`Ezpz/Proofs/Untouched2.lean`, every scalar type, hypothesis `ZeroStepOn`
restricted to Jacobians without a column `j`, plus `jacobianAll_no_column`) and, with the hypothesis
discharged for exact solvers over ℝ, `unmentioned_variable_returned_at_guess`
(`Ezpz/Real/UntouchedEntry.lean`). -/
theorem untouched_var_fixed_of_zeroStepAt (reqs : List (Constraint α × Nat)) (g : List (Nat × α)) (cfg : Config α)
    (solve : LinSolve α) (svd : Option (Svd α)) (j : Nat) (z a : α)
    (hz : ∀ i, ZeroStepAt (solve i) j z) (hg : (g.map (·.2))[j]? = some a) (o : Outcome α)
    (h : solveWithPriority reqs g cfg solve svd = .ok o) : o.finalValues[j]? = some a := by
  by_cases hne : reqs = []
  · subst hne
    obtain ⟨o', ho', hv, _⟩ := no_requests_returns_guesses g cfg solve svd
    rw [ho'] at h; injection h with h; subst h; rw [hv]; exact hg
  · obtain ⟨P, i, _, hs, _⟩ := C03.result_is_subset_solve reqs g cfg solve svd o hne h
    exact solveInner_untouched _ g cfg (solve i) _ j z a (hz i) hg o hs

/-- C04 — an empty request list returns the guesses, in order. -/
theorem no_requests (g : List (Nat × α)) (cfg : Config α) (solve : LinSolve α)
    (svd : Option (Svd α)) :
    ∃ o, solveWithPriority ([] : List (Constraint α × Nat)) g cfg solve svd = .ok o ∧
      o.finalValues = g.map (·.2) ∧ o.unsatisfied = [] ∧ o.iterations = 0 ∧ o.warnings = [] :=
  no_requests_returns_guesses g cfg solve svd

end Ezpz.C04
