/-
C09 — Text front-end is strict and total: bad input errors, no crash, no silent drop.
-/
import Ezpz.Proofs.TextStrict
import Ezpz.Model.Text.Parser
set_option linter.unusedSectionVars false
namespace Ezpz.C09
open Ezpz Ezpz.Text

variable {α : Type}

/-- C09.1 — the model parser is a total function: for every string it returns a problem or fails
(its recursion is structural or fuelled by the input length, `sqrt(` nesting included).  This is
about the *grammar*; the stack depth of the Rust parser is a runtime behaviour checked on the real
code (deep nesting in the mutation stream). -/
theorem parser_total (s : String) : parseProblem s = none ∨ ∃ p, parseProblem s = some p := by
  cases parseProblem s with
  | none => exact Or.inl rfl
  | some p => exact Or.inr ⟨p, rfl⟩

/-- C09.2 — **the executor is total**: for every parsed problem it returns `Ok` or a textual error;
no index is out of bounds. -/
theorem executor_total (p : Problem α) : toConstraintSystem p ≠ .error .panic :=
  toConstraintSystem_noPanic p

/-- C09.3 — **strict guesses**: an accepted problem gives every declared entity all its guesses
and gives no guess for an undeclared entity. -/
theorem strict_guesses (p : Problem α) (cs : ConstraintSystem α) (h : toConstraintSystem p = .ok cs) :
    (∀ l ∈ p.innerPoints, l ∈ p.pointGuesses.map (·.1)) ∧
    (∀ l ∈ p.innerCircles, l ++ ".center" ∈ p.pointGuesses.map (·.1) ∧
      l ++ ".radius" ∈ p.scalarGuesses.map (·.1)) ∧
    (∀ l ∈ p.innerArcs, l ++ ".center" ∈ p.pointGuesses.map (·.1) ∧
      l ++ ".a" ∈ p.pointGuesses.map (·.1) ∧ l ++ ".b" ∈ p.pointGuesses.map (·.1)) ∧
    (∀ k ∈ p.pointGuesses.map (·.1), k ∈ p.innerPoints ∨ (∃ l ∈ p.innerCircles, k = l ++ ".center") ∨
      ∃ l ∈ p.innerArcs, k = l ++ ".center" ∨ k = l ++ ".a" ∨ k = l ++ ".b") ∧
    (∀ k ∈ p.scalarGuesses.map (·.1), ∃ l ∈ p.innerCircles, k = l ++ ".radius") := by
  unfold toConstraintSystem at h
  cases hv : buildVars p with
  | error e => simp [hv] at h
  | ok v => exact buildVars_strict p v hv

/-- C09.3b — an undeclared point-role label is an error, never a silent default. -/
theorem undeclared_point_rejected (p : Problem α) (v : Vars α) (h : buildVars p = .ok v) (l : String)
    (h1 : position? p.innerPoints (· == l) = none)
    (h2 : position? p.innerCircles (fun c => c ++ ".center" == l) = none)
    (h3 : position? p.innerArcs (fun a => a ++ ".center" == l) = none)
    (h4 : position? p.innerArcs (fun a => a ++ ".a" == l) = none)
    (h5 : position? p.innerArcs (fun a => a ++ ".b" == l) = none) :
    datumPoint p v l = .error (.text (.undefinedPoint l)) := by
  rw [datumPoint_spec p v (Built.of_buildVars p v h) l]
  simp [h1, h2, h3, h4, h5]

theorem lowerAll_length (p : Problem α) (v : Vars α) :
    ∀ (is : List (Instr α)) (cs : List (Constraint α)), lowerAll p v is = .ok cs →
      cs.length = (is.filter (·.producesConstraint)).length := by
  intro is
  induction is with
  | nil => intro cs h; simp [lowerAll] at h; subst h; rfl
  | cons i rest ih =>
    intro cs h
    unfold lowerAll at h
    split at h
    · simp at h
    · rename_i c1 h1
      split at h
      · simp at h
      · rename_i c2 h2
        injection h with h; subst h
        have l1 := lower_length p v i c1 h1
        have l2 := ih c2 h2
        simp only [List.length_append, l1, l2, List.filter_cons]
        split <;> simp <;> omega

/-- C09.4 — **nothing is silently dropped**: in an accepted problem every constraint-stating
instruction contributes exactly one constraint (`p = (x, y)` is two instructions). -/
theorem nothing_dropped (p : Problem α) (cs : ConstraintSystem α) (h : toConstraintSystem p = .ok cs) :
    cs.constraints.length = (p.instructions.filter (·.producesConstraint)).length := by
  unfold toConstraintSystem at h
  cases hv : buildVars p with
  | error e => simp [hv] at h
  | ok v =>
    simp only [hv] at h
    cases hl : lowerAll p v p.instructions with
    | error e => simp [hl] at h
    | ok c =>
      simp only [hl] at h
      injection h with h; subst h
      exact lowerAll_length p v _ _ hl

end Ezpz.C09
