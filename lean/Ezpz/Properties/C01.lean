/-
C01 — A "satisfied" verdict means the geometry really satisfies the constraint.

Part 1 (this file, every scalar type): the verdict is *exactly* the threshold test on the
constraint's own error measure at the returned coordinates, for exactly the attempted requests.
Part 2 (`Ezpz/Real/Measures.lean`, over ℝ): what each error measure means geometrically.
-/
import Ezpz.Properties.C03
set_option linter.unusedSectionVars false
namespace Ezpz.C01
open Ezpz Transc

variable {α : Type} [Add α] [Sub α] [Mul α] [Div α] [Neg α] [OfScientific α]
  [LT α] [DecidableLT α] [LE α] [DecidableLE α] [Transc α]

/-- `is_satisfied`: a constraint with `d ∈ {1,2,3}` rows is satisfied iff each of its first `d`
error components is below `EPSILON` in absolute value. -/
theorem isSatisfied_iff (d : Nat) (r : Res α) (hd : d = 1 ∨ d = 2 ∨ d = 3) :
    isSatisfied d r = some true ↔
      (abs r.r0 < EPS) ∧ (2 ≤ d → abs r.r1 < EPS) ∧ (3 ≤ d → abs r.r2 < EPS) := by
  rcases hd with h | h | h <;> subst h <;> simp [isSatisfied, and_assoc]

/-- C01.1 — **verdict = threshold test on the error measure.**  In a successful result of a
non-empty request list, the unsatisfied list is exactly the list of caller positions of the
attempted requests (priority `≤` the solved priority) whose verdict at the returned coordinates is
"not satisfied", in request order. -/
theorem verdict_iff_residual (reqs : List (Constraint α × Nat)) (g : List (Nat × α))
    (cfg : Config α) (solve : LinSolve α) (svd : Option (Svd α)) (o : Outcome α)
    (hne : reqs ≠ []) (h : solveWithPriority reqs g cfg solve svd = .ok o) :
    o.unsatisfied =
      (((enumerate reqs).filter (fun e => e.priority ≤ o.prioritySolved)).filter
        (fun e => !satisfiedAt e (lookup o.finalValues))).map (·.id) := by
  obtain ⟨P, i, _, hs, hp⟩ := C03.result_is_subset_solve reqs g cfg solve svd o hne h
  obtain ⟨nr, _, _, hf, _, _, _, hu, _⟩ := solveInner_ok _ _ _ _ _ _ hs
  rw [hp, hf]
  exact unsatisfiedSweep_eq _ _ _ hu

/-- Corollary: an attempted request is listed iff its verdict is "not satisfied". -/
theorem listed_iff (reqs : List (Constraint α × Nat)) (g : List (Nat × α))
    (cfg : Config α) (solve : LinSolve α) (svd : Option (Svd α)) (o : Outcome α)
    (hne : reqs ≠ []) (h : solveWithPriority reqs g cfg solve svd = .ok o)
    (e : Entry α) (he : e ∈ enumerate reqs) (hp : e.priority ≤ o.prioritySolved)
    (huniq : ∀ e' ∈ enumerate reqs, e'.id = e.id → e' = e) :
    e.id ∈ o.unsatisfied ↔ satisfiedAt e (lookup o.finalValues) = false := by
  rw [verdict_iff_residual reqs g cfg solve svd o hne h]
  simp only [List.mem_map, List.mem_filter, decide_eq_true_eq, Bool.not_eq_eq_eq_not, Bool.not_true]
  constructor
  · rintro ⟨e', ⟨⟨he', _⟩, hs⟩, hid⟩
    rw [← huniq e' he' hid]; exact hs
  · intro hs; exact ⟨e, ⟨⟨he, hp⟩, hs⟩, rfl⟩

end Ezpz.C01
