/-
C13 — Each constraint's linearisation is the true derivative of its error measure.

* Over ℝ (`Ezpz/Real/Deriv*.lean`): `DerivRow` theorems — for every configuration outside the kind's
  guard set, every direction and **every aliasing of variable ids**, the Jacobian row applied to a
  direction is the derivative of the error measure along that direction.
* For every scalar type (this file): the error measure does not depend on variables the constraint
  does not declare, and every variable a Jacobian row reports is declared for that row.
-/
import Ezpz.Proofs.Kernels
set_option linter.unusedSectionVars false
namespace Ezpz.C13
open Ezpz Transc

variable {α : Type} [Add α] [Sub α] [Mul α] [Div α] [Neg α] [OfScientific α]
  [LT α] [DecidableLT α] [LE α] [DecidableLE α] [Transc α]

/-- C13.3 — **zero sensitivity to undeclared variables**: two assignments that agree on the
declared variables give the same error measure (all three components and the flag). -/
theorem undeclared_is_zero (c : Constraint α) (v w : Nat → α)
    (h : ∀ i ∈ c.nonzeroes.all, v i = w i) : c.residualV v = c.residualV w :=
  residualV_undeclared c v w h

/-- C13.3b — **every reported variable is declared**, row by row. -/
theorem reported_ids_declared (c : Constraint α) (v : Nat → α) :
    (∀ jv ∈ (c.jacobianV v).r0, jv.id ∈ c.nonzeroes.r0) ∧
    (∀ jv ∈ (c.jacobianV v).r1, jv.id ∈ c.nonzeroes.r1) ∧
    (∀ jv ∈ (c.jacobianV v).r2, jv.id ∈ c.nonzeroes.r2) := jacobianV_ids_subset c v

end Ezpz.C13
