/-
C07 (strengthened) / C15 — degeneracy notices are raised at VISITED configurations, for successful
and failed solves; failure sizes are those of the lowest requested priority level.

Replaces the weak points of `Ezpz/Properties/C07.lean`:
* `warning_indices` used `DegenerateFrom` (flag raised at *some* assignment, content unconstrained)
  and covered `.ok` only  →  `warning_indices_visited`, `failure_warning_indices`;
* `failure_sizes_solve` left the level `p` unconstrained  →  `failure_sizes_solve'`.

All theorems hold for every scalar type, every LU / SVD oracle.  The last section instantiates the
non-vacuity statement at `α := ℝ`.
-/
import Ezpz.Properties.C07
import Ezpz.Proofs.Visited
import Ezpz.Real.Instance
set_option linter.unusedSectionVars false
namespace Ezpz.C07
open Ezpz Transc

section generic
variable {α : Type} [Add α] [Sub α] [Mul α] [Div α] [Neg α] [OfScientific α]
  [LT α] [DecidableLT α] [LE α] [DecidableLE α] [Transc α]

/-- The requests attempted at priority level `P`, with their caller positions. -/
abbrev attempted (reqs : List (Constraint α × Nat)) (P : Nat) : List (Entry α) :=
  (enumerate reqs).filter (fun e => e.priority ≤ P)

/-- The value vectors visited by the Newton run of level `P` when it is call number `i`. -/
abbrev visited (reqs : List (Constraint α × Nat)) (g : List (Nat × α)) (cfg : Config α)
    (solve : LinSolve α) (P i : Nat) : List (List α) :=
  iterates (attempted reqs P) cfg (solve i) (g.map (·.2))

/-- A successful prioritised solve of a non-empty list returns the result of the level at some
position `i` of the sorted level list, run as call number `i`; that level is the solved priority.
(Refines `C03.result_is_subset_solve`, which leaves the call number unconstrained.) -/
theorem result_is_level_solve (reqs : List (Constraint α × Nat)) (g : List (Nat × α))
    (cfg : Config α) (solve : LinSolve α) (svd : Option (Svd α)) (o : Outcome α)
    (hne : reqs ≠ []) (h : solveWithPriority reqs g cfg solve svd = .ok o) :
    ∃ P i, (levels (enumerate reqs))[i]? = some P ∧
      solveInner (attempted reqs P) g cfg (solve i) (svd.map (fun s => s i)) = .ok o ∧
      o.prioritySolved = P := by
  have hne' : reqs.isEmpty = false := by cases reqs <;> simp_all
  unfold solveWithPriority at h
  rw [hne'] at h
  simp only [Bool.false_eq_true, if_false] at h
  rw [priorityLoop_eq_loopOver] at h
  split at h
  · simp at h
  · rename_i o' ho
    injection h with h; subst h
    rcases loopOver_ok_mem _ _ _ ho with h1 | h1
    · simp at h1
    · obtain ⟨i, P, hP, hi⟩ := mem_levelResults_idx _ _ _ _ _ _ _ _ h1
      rw [Nat.zero_add] at hi
      have hPr : ∃ r ∈ reqs, r.2 = P := by
        have : P ∈ levels (enumerate reqs) := List.mem_of_getElem? hP
        rw [mem_levels, enumerate_priorities] at this; exact this
      refine ⟨P, i, hP, hi.symm, ?_⟩
      obtain ⟨_, _, _, _, _, _, hp, _⟩ := solveInner_ok _ _ _ _ _ _ hi.symm
      rw [hp]
      apply maxPriority_filter
      rw [enumerate_priorities]; exact hPr
  · rename_i hnone
    exact absurd (loopOver_none_nil_only _ hnone) (by
      intro hnil
      have hl := levels_ne_nil reqs hne
      cases hlv : levels (enumerate reqs) with
      | nil => exact hl hlv
      | cons p rest => rw [hlv] at hnil; simp [levelResults] at hnil)

/-- Every attempted entry sits at its own position in the caller's list, with priority `≤ P`. -/
theorem attempted_position (reqs : List (Constraint α × Nat)) (P : Nat) (e : Entry α)
    (he : e ∈ attempted reqs P) : reqs[e.id]? = some (e.c, e.priority) ∧ e.priority ≤ P := by
  obtain ⟨he1, he2⟩ := List.mem_filter.mp he
  exact ⟨mem_enumerate reqs e he1, by simpa using he2⟩

/-- A warning of a level's `solve_inner` (lint or visited-degenerate) names, by caller position, an
attempted request of the right kind. -/
theorem index_of_warning (reqs : List (Constraint α × Nat)) (P : Nat) (xs : List (List α))
    (w : Warning α) (h : w ∈ lint (attempted reqs P) ∨ DegenerateAtVisited (attempted reqs P) xs w) :
    ∃ i c p, w.about = some i ∧ reqs[i]? = some (c, p) ∧ p ≤ P ∧
      ((w ∈ lint (attempted reqs P) ∧ ∃ l0 l1 θ, c = .linesAtAngle l0 l1 (.other θ)) ∨
       DegenerateAtVisited (attempted reqs P) xs w) := by
  rcases h with hl | hd
  · obtain ⟨e, he, ha, hk⟩ := lint_mem _ w hl
    have := attempted_position reqs P e he
    exact ⟨e.id, e.c, e.priority, ha, this.1, this.2, Or.inl ⟨hl, hk⟩⟩
  · obtain ⟨_, e, he, ha, _⟩ := id hd
    have := attempted_position reqs P e he
    exact ⟨e.id, e.c, e.priority, ha, this.1, this.2, Or.inr hd⟩

/-- C07.3 / C07.4, strengthened — **successful solve.**  The outcome is that of the level `P` at
position `i` of the sorted level list (`P` is the reported solved priority).  Every warning names,
by its position in the caller's list, a request attempted at that level, and is either a lint
warning of that level about a `LinesAtAngle(Other)` request, or a notice with content `Degenerate`
about a request whose residual or Jacobian evaluation raises the flag at a value vector VISITED by
that level's Newton run. -/
theorem warning_indices_visited (reqs : List (Constraint α × Nat)) (g : List (Nat × α))
    (cfg : Config α) (solve : LinSolve α) (svd : Option (Svd α)) (o : Outcome α)
    (hne : reqs ≠ []) (h : solveWithPriority reqs g cfg solve svd = .ok o) :
    ∃ P i, (levels (enumerate reqs))[i]? = some P ∧ o.prioritySolved = P ∧
      ∀ w ∈ o.warnings, ∃ idx c p, w.about = some idx ∧ reqs[idx]? = some (c, p) ∧ p ≤ P ∧
        ((w ∈ lint (attempted reqs P) ∧ ∃ l0 l1 θ, c = .linesAtAngle l0 l1 (.other θ)) ∨
         DegenerateAtVisited (attempted reqs P) (visited reqs g cfg solve P i) w) := by
  obtain ⟨P, i, hi, hs, hp⟩ := result_is_level_solve reqs g cfg solve svd o hne h
  refine ⟨P, i, hi, hp, ?_⟩
  intro w hw
  exact index_of_warning reqs P _ w (solveInner_ok_warnings_visited _ _ _ _ _ _ hs w hw)

/-- With no requests there are no warnings. -/
theorem warnings_nil_of_no_requests (g : List (Nat × α)) (cfg : Config α) (solve : LinSolve α)
    (svd : Option (Svd α)) (o : Outcome α)
    (h : solveWithPriority ([] : List (Constraint α × Nat)) g cfg solve svd = .ok o) :
    o.warnings = [] := by
  simp [solveWithPriority, noConstraintsOutcome] at h
  subst h; rfl

/-- C07.3 / C07.4, strengthened — **failed solve** (the index theorem that was missing for
`Failure.warnings`).  A failure is always that of the lowest level `p` (head of the sorted level
list), run as call number `0`.  Every warning it carries names, by caller position, a request of
that level, and is either a lint warning of that level about a `LinesAtAngle(Other)` request or a
`Degenerate` notice raised at a value vector visited by that level's Newton run. -/
theorem failure_warning_indices (reqs : List (Constraint α × Nat)) (g : List (Nat × α))
    (cfg : Config α) (solve : LinSolve α) (svd : Option (Svd α)) (f : Failure α)
    (h : solveWithPriority reqs g cfg solve svd = .error f) :
    ∃ p rest, levels (enumerate reqs) = p :: rest ∧
      ∀ w ∈ f.warnings, ∃ idx c q, w.about = some idx ∧ reqs[idx]? = some (c, q) ∧ q ≤ p ∧
        ((w ∈ lint (attempted reqs p) ∧ ∃ l0 l1 θ, c = .linesAtAngle l0 l1 (.other θ)) ∨
         DegenerateAtVisited (attempted reqs p) (visited reqs g cfg solve p 0) w) := by
  obtain ⟨p, rest, hl, hr⟩ := C03.highest_level_error reqs g cfg solve svd f h
  refine ⟨p, rest, hl, ?_⟩
  intro w hw
  exact index_of_warning reqs p _ w (solveInner_error_warnings_visited _ _ _ _ _ _ hr w hw)

/-- The head of the sorted level list is the numerically smallest requested priority. -/
theorem head_level_min (reqs : List (Constraint α × Nat)) (p : Nat) (rest : List Nat)
    (hl : levels (enumerate reqs) = p :: rest) :
    (∃ r ∈ reqs, r.2 = p) ∧ ∀ r ∈ reqs, p ≤ r.2 := by
  have hmem := (C03.levels_sorted_dedup reqs).2
  have hsorted := (C03.levels_sorted_dedup reqs).1
  rw [hl] at hmem hsorted
  constructor
  · exact (hmem p).mp (by simp)
  · intro r hr
    have : r.2 ∈ p :: rest := (hmem r.2).mpr ⟨r, hr, rfl⟩
    rcases List.mem_cons.mp this with h1 | h1
    · omega
    · have := (List.pairwise_cons.mp hsorted).1 r.2 h1; omega

/-- C07.6 at the public entry point, strengthened — a failure reports the true variable count and
the equation count of the subset attempted at level `p`, where `p` is the head of the sorted level
list, i.e. the numerically smallest requested priority (the only level whose failure is ever
returned). -/
theorem failure_sizes_solve' (reqs : List (Constraint α × Nat)) (g : List (Nat × α))
    (cfg : Config α) (solve : LinSolve α) (svd : Option (Svd α)) (f : Failure α)
    (h : solveWithPriority reqs g cfg solve svd = .error f) :
    f.numVars = g.length ∧
    ∃ p rest, levels (enumerate reqs) = p :: rest ∧
      (∃ r ∈ reqs, r.2 = p) ∧ (∀ r ∈ reqs, p ≤ r.2) ∧
      f.numEqs = numRows (attempted reqs p) := by
  obtain ⟨p, rest, hl, hr⟩ := C03.highest_level_error reqs g cfg solve svd f h
  have hs := failure_sizes _ _ _ _ _ _ hr
  have hm := head_level_min reqs p rest hl
  exact ⟨hs.1, p, rest, hl, hm.1, hm.2, hs.2⟩

/-- **Exact warning list of a successful solve**: the lint warnings of the solved level followed by
one `Degenerate` notice per flagged evaluation of that level's Newton run, in order — the model
performs no de-duplication. -/
theorem warnings_eq (reqs : List (Constraint α × Nat)) (g : List (Nat × α))
    (cfg : Config α) (solve : LinSolve α) (svd : Option (Svd α)) (o : Outcome α)
    (hne : reqs ≠ []) (h : solveWithPriority reqs g cfg solve svd = .ok o) :
    ∃ P i, (levels (enumerate reqs))[i]? = some P ∧ o.prioritySolved = P ∧
      o.warnings = lint (attempted reqs P) ++
        (visited reqs g cfg solve P i).flatMap (stepNew (attempted reqs P)) := by
  obtain ⟨P, i, hi, hs, hp⟩ := result_is_level_solve reqs g cfg solve svd o hne h
  exact ⟨P, i, hi, hp, solveInner_ok_warnings_eq _ _ _ _ _ _ hs⟩

/-- **Completeness** — in a successful solve, every request of the solved level whose residual or
Jacobian evaluation raises the flag at a value vector visited by that level's Newton run has a
`Degenerate` notice carrying its caller position among the outcome's warnings. -/
theorem degenerate_reported (reqs : List (Constraint α × Nat)) (g : List (Nat × α))
    (cfg : Config α) (solve : LinSolve α) (svd : Option (Svd α)) (o : Outcome α)
    (hne : reqs ≠ []) (h : solveWithPriority reqs g cfg solve svd = .ok o) :
    ∃ P i, (levels (enumerate reqs))[i]? = some P ∧ o.prioritySolved = P ∧
      ∀ y ∈ visited reqs g cfg solve P i, ∀ e ∈ attempted reqs P, FlagAt e y →
        (⟨some e.id, .degenerate⟩ : Warning α) ∈ o.warnings := by
  obtain ⟨P, i, hi, hs, hp⟩ := result_is_level_solve reqs g cfg solve svd o hne h
  refine ⟨P, i, hi, hp, ?_⟩
  intro y hy e he hf
  exact solveInner_ok_complete _ _ _ _ _ o hs y hy e he hf

/-! ### Non-vacuity: a `Distance` request between coincident points -/

/-- The one-request system `Distance((0,1), (2,3), d)` at caller position `0`, priority `0`. -/
def coincidentEntry (d : α) : Entry α := ⟨.distance ⟨0, 1⟩ ⟨2, 3⟩ d, 0, 0⟩

/-- For any scalar type in which `hypot (a - a) (b - b) < EPSILON`: with the two points of a
`Distance` request both guessed at `(a, b)`, the Jacobian evaluation at the guess raises the flag. -/
theorem coincident_flag (a b d : α) (hz : hypot (a - a) (b - b) < (EPS : α)) :
    FlagAt (coincidentEntry d) [a, b, a, b] := by
  right
  refine ⟨{ degenerate := true }, ?_, rfl⟩
  simp [coincidentEntry, Constraint.jacobianRows, Constraint.jacobianReads, Pt.vars, lookup,
    Constraint.jacobianV, distJacRow, hz]

/-- … so, as soon as one round is allowed, the notice `⟨some 0, Degenerate⟩` satisfies
`DegenerateAtVisited` for the entries and iterates of that run, with `x` = the guess — for every LU
oracle. -/
theorem coincident_visited (a b d : α) (hz : hypot (a - a) (b - b) < (EPS : α))
    (cfg : Config α) (hit : 0 < cfg.maxIterations)
    (solve : Nat → List (Triplet α) → List α → Except SolveError (List α)) :
    DegenerateAtVisited [coincidentEntry d] (iterates [coincidentEntry d] cfg solve [a, b, a, b])
      ⟨some 0, .degenerate⟩ :=
  ⟨rfl, coincidentEntry d, by simp, rfl, [a, b, a, b],
    guess_mem_iterates _ cfg solve _ hit, coincident_flag a b d hz⟩

/-- … and the notice really is among the warnings of the Newton run, whatever the run returns. -/
theorem coincident_reported (a b d : α) (hz : hypot (a - a) (b - b) < (EPS : α))
    (cfg : Config α) (hit : 0 < cfg.maxIterations)
    (solve : Nat → List (Triplet α) → List α → Except SolveError (List α)) :
    (∀ r, newton [coincidentEntry d] cfg solve [a, b, a, b] = .ok r →
      (⟨some 0, .degenerate⟩ : Warning α) ∈ r.warnings) ∧
    (∀ err ws, newton [coincidentEntry d] cfg solve [a, b, a, b] = .error (err, ws) →
      (⟨some 0, .degenerate⟩ : Warning α) ∈ ws) := by
  have hres : ∃ rs w1, residualAll [coincidentEntry d] (lookup [a, b, a, b]) = .ok (rs, w1) := by
    simp [residualAll, coincidentEntry, Constraint.residual, Constraint.residualReads, Pt.vars,
      lookup]
  have hjac : ∃ ts w2, jacobianAll [coincidentEntry d] (lookup [a, b, a, b]) = .ok (ts, w2) := by
    simp [jacobianAll, jacobianFrom, coincidentEntry, Constraint.jacobianRows,
      Constraint.jacobianReads, Pt.vars, lookup, Constraint.jacobianV, distJacRow, hz,
      Constraint.residualDim, takeRows]
  have hflag := coincident_flag a b d hz
  rcases hflag with ⟨r, h1, h2⟩ | ⟨j, h1, h2⟩
  · exact newtonLoop_warnings_complete _ cfg solve _ 0 _ [] _
      (guess_mem_iterates _ cfg solve _ hit) (coincidentEntry d) (by simp)
      (Or.inl ⟨r, h1, h2, hres⟩)
  · exact newtonLoop_warnings_complete _ cfg solve _ 0 _ [] _
      (guess_mem_iterates _ cfg solve _ hit) (coincidentEntry d) (by simp)
      (Or.inr ⟨j, h1, h2, hres, hjac⟩)

end generic

/-! ### The same at `α := ℝ` (hypothesis discharged) -/

/-- Over the reals `hypot (a - a) (b - b) = 0 < EPSILON`. -/
theorem coincident_hyp_real (a b : ℝ) : Transc.hypot (a - a) (b - b) < (EPS : ℝ) := by
  simp only [hypot_real, sub_self, mul_zero, add_zero, Real.sqrt_zero]
  exact EPS_pos

/-- Non-vacuity of `DegenerateAtVisited`: the real one-request system `Distance((0,1),(2,3), 5)` with
both points guessed at `(1, 2)` and the default iteration cap; `x` is the guess. -/
example (solve : Nat → List (Triplet ℝ) → List ℝ → Except SolveError (List ℝ)) :
    DegenerateAtVisited [coincidentEntry (5 : ℝ)]
      (iterates [coincidentEntry (5 : ℝ)] Config.default solve [1, 2, 1, 2])
      ⟨some 0, .degenerate⟩ :=
  coincident_visited 1 2 5 (coincident_hyp_real 1 2) Config.default (by decide) solve

/-- … and that notice is in the warnings of the run, whether it succeeds or fails. -/
example (solve : Nat → List (Triplet ℝ) → List ℝ → Except SolveError (List ℝ)) :
    (∀ r, newton [coincidentEntry (5 : ℝ)] Config.default solve [1, 2, 1, 2] = .ok r →
      (⟨some 0, .degenerate⟩ : Warning ℝ) ∈ r.warnings) ∧
    (∀ err ws, newton [coincidentEntry (5 : ℝ)] Config.default solve [1, 2, 1, 2] = .error (err, ws) →
      (⟨some 0, .degenerate⟩ : Warning ℝ) ∈ ws) :=
  coincident_reported 1 2 5 (coincident_hyp_real 1 2) Config.default (by decide) solve

end Ezpz.C07
