/-
C14 — Config is honoured: the iteration cap caps; raising it never changes a success.

All theorems hold for every scalar type, every request list, every LU oracle.
-/
import Ezpz.Properties.C03
set_option linter.unusedSectionVars false
namespace Ezpz.C14
open Ezpz Transc

variable {α : Type} [Add α] [Sub α] [Mul α] [Div α] [Neg α] [OfScientific α]
  [LT α] [DecidableLT α] [LE α] [DecidableLE α] [Transc α]

/-- `config.with_max_iterations(c)`. -/
def withCap (cfg : Config α) (c : Nat) : Config α := { cfg with maxIterations := c }

theorem newtonStep_withCap (es : List (Entry α)) (cfg : Config α) (c : Nat)
    (solve : Nat → List (Triplet α) → List α → Except SolveError (List α))
    (k : Nat) (x : List α) (ws : List (Warning α)) :
    newtonStep es (withCap cfg c) solve k x ws = newtonStep es cfg solve k x ws := by
  simp [newtonStep, withCap, stepThreshold]

theorem newtonLoop_withCap (es : List (Entry α)) (cfg : Config α) (c : Nat)
    (solve : Nat → List (Triplet α) → List α → Except SolveError (List α)) :
    ∀ (fuel k : Nat) (x : List α) (ws : List (Warning α)),
      newtonLoop es (withCap cfg c) solve fuel k x ws = newtonLoop es cfg solve fuel k x ws := by
  intro fuel
  induction fuel with
  | zero => intro k x ws; rfl
  | succ fuel ih =>
    intro k x ws
    unfold newtonLoop
    rw [newtonStep_withCap]
    split <;> simp [ih]

/-- C14.1 — a successful Newton run reports fewer rounds than the cap (so at most `cap` rounds are
executed: the loop is structural recursion on the cap). -/
theorem iterations_lt_cap (es : List (Entry α)) (cfg : Config α)
    (solve : Nat → List (Triplet α) → List α → Except SolveError (List α)) (x : List α)
    (r : NewtonOk α) (h : newton es cfg solve x = .ok r) : r.iterations < cfg.maxIterations := by
  have := newtonLoop_iterations es cfg solve cfg.maxIterations 0 x [] r h
  omega

/-- C14.1 lifted to the public entry point: the reported iteration count never exceeds the cap. -/
theorem solve_iterations_le_cap (reqs : List (Constraint α × Nat)) (g : List (Nat × α))
    (cfg : Config α) (solve : LinSolve α) (svd : Option (Svd α)) (o : Outcome α)
    (h : solveWithPriority reqs g cfg solve svd = .ok o) : o.iterations ≤ cfg.maxIterations := by
  by_cases hne : reqs = []
  · subst hne
    simp [solveWithPriority, noConstraintsOutcome] at h
    subst h; simp
  · obtain ⟨P, i, _, hs, _⟩ := C03.result_is_subset_solve reqs g cfg solve svd o hne h
    have := solveInner_iterations_lt _ _ _ _ _ _ hs
    omega

/-- C14.2a — a Newton success under cap `c` is the *same* success (values, round count, warnings,
last Jacobian) under every larger cap. -/
theorem newton_cap_monotone_ok (es : List (Entry α)) (cfg : Config α)
    (solve : Nat → List (Triplet α) → List α → Except SolveError (List α)) (x : List α)
    (c c' : Nat) (hc : c ≤ c') (r : NewtonOk α)
    (h : newton es (withCap cfg c) solve x = .ok r) : newton es (withCap cfg c') solve x = .ok r := by
  unfold newton at h ⊢
  rw [newtonLoop_withCap] at h ⊢
  have e : (withCap cfg c').maxIterations = (withCap cfg c).maxIterations + (c' - c) := by
    simp [withCap]; omega
  rw [e]
  exact newtonLoop_fuel_mono es cfg solve _ _ 0 x [] _ h (by intro ws; simp)

/-- C14.2b — running out of iterations under cap `c'` means running out under every smaller cap. -/
theorem newton_cap_monotone_err (es : List (Entry α)) (cfg : Config α)
    (solve : Nat → List (Triplet α) → List α → Except SolveError (List α)) (x : List α)
    (c c' : Nat) (hc : c ≤ c') (ws : List (Warning α))
    (h : newton es (withCap cfg c') solve x = .error (.didNotConverge, ws)) :
    ∃ ws', newton es (withCap cfg c) solve x = .error (.didNotConverge, ws') := by
  unfold newton at h ⊢
  rw [newtonLoop_withCap] at h ⊢
  have e : (withCap cfg c').maxIterations = (withCap cfg c).maxIterations + (c' - c) := by
    simp [withCap]; omega
  rw [e] at h
  exact newtonLoop_err_mono es cfg solve _ _ 0 x [] ws h

/-- Any Newton result other than "did not converge" is reproduced under every larger cap. -/
theorem newton_cap_monotone (es : List (Entry α)) (cfg : Config α)
    (solve : Nat → List (Triplet α) → List α → Except SolveError (List α)) (x : List α)
    (c c' : Nat) (hc : c ≤ c') (res : Except (SolveError × List (Warning α)) (NewtonOk α))
    (h : newton es (withCap cfg c) solve x = res) (hne : ∀ ws, res ≠ .error (.didNotConverge, ws)) :
    newton es (withCap cfg c') solve x = res := by
  unfold newton at h ⊢
  rw [newtonLoop_withCap] at h ⊢
  have e : (withCap cfg c').maxIterations = (withCap cfg c).maxIterations + (c' - c) := by
    simp [withCap]; omega
  rw [e]
  exact newtonLoop_fuel_mono es cfg solve _ _ 0 x [] _ h hne

/-- C14.3 — one level (`solve_inner`): every result other than "did not converge" — in particular
every success, bit for bit — is reproduced under every larger cap. -/
theorem solveInner_cap_monotone (es : List (Entry α)) (g : List (Nat × α)) (cfg : Config α)
    (solve : Nat → List (Triplet α) → List α → Except SolveError (List α))
    (analyze : Option (List (Triplet α) → Except SolveError (List α × List (List α))))
    (c c' : Nat) (hc : c ≤ c')
    (hne : ∀ f, solveInner es g (withCap cfg c) solve analyze = .error f → f.error ≠ .didNotConverge) :
    solveInner es g (withCap cfg c') solve analyze = solveInner es g (withCap cfg c) solve analyze := by
  unfold solveInner at hne ⊢
  cases hm : modelNew es (List.map (fun x => x.1) g) with
  | error e => simp
  | ok u =>
    simp only [hm] at hne ⊢
    cases hn : newton es (withCap cfg c) solve (List.map (fun x => x.2) g) with
    | ok nr =>
      rw [newton_cap_monotone_ok es cfg solve _ c c' hc nr hn]
    | error ew =>
      obtain ⟨e, ws⟩ := ew
      have hned : e ≠ .didNotConverge := by
        have := hne ⟨e, lint es ++ ws, g.length, numRows es⟩ (by simp [hn])
        simpa using this
      rw [newton_cap_monotone es cfg solve _ c c' hc _ hn (by
        intro ws'; simp; intro h1; exact absurd h1 hned)]

/-- C14.3b — one level: failing for lack of iterations under a cap means failing the same way under
every smaller cap. -/
theorem solveInner_cap_monotone_err (es : List (Entry α)) (g : List (Nat × α)) (cfg : Config α)
    (solve : Nat → List (Triplet α) → List α → Except SolveError (List α))
    (analyze : Option (List (Triplet α) → Except SolveError (List α × List (List α))))
    (c c' : Nat) (hc : c ≤ c') (f : Failure α)
    (h : solveInner es g (withCap cfg c') solve analyze = .error f)
    (hf : f.error = .didNotConverge)
    (hsvd : ∀ jac n, runAnalysis analyze jac n ≠ .error .didNotConverge) :
    ∃ f', solveInner es g (withCap cfg c) solve analyze = .error f' ∧ f'.error = .didNotConverge := by
  unfold solveInner at h ⊢
  cases hm : modelNew es (List.map (fun x => x.1) g) with
  | error e =>
    simp only [hm] at h
    injection h with h; subst h
    exact ⟨_, rfl, hf⟩
  | ok u =>
    simp only [hm] at h ⊢
    cases hn : newton es (withCap cfg c') solve (List.map (fun x => x.2) g) with
    | error ew =>
      obtain ⟨e, ws⟩ := ew
      simp only [hn] at h
      injection h with h; subst h
      simp at hf; subst hf
      obtain ⟨ws', hw⟩ := newton_cap_monotone_err es cfg solve _ c c' hc ws hn
      simp [hw]
    | ok nr =>
      -- the larger cap succeeded in Newton, so the failure comes from the sweep or the analysis,
      -- neither of which reports `didNotConverge`
      exfalso
      simp only [hn] at h
      split at h
      · rename_i e he
        injection h with h; subst h
        simp at hf; subst hf
        -- sweep errors are panics
        have : ∀ (es : List (Entry α)) (x : Nat → Option α),
            unsatisfiedSweep es x ≠ .error .didNotConverge := by
          intro es
          induction es with
          | nil => intro x; simp [unsatisfiedSweep]
          | cons e rest ih =>
            intro x
            unfold unsatisfiedSweep
            split
            · simp
            · split
              · simp
              · split
                · rename_i err hr; intro hh; injection hh with hh; subst hh; exact ih x hr
                · simp
        exact this _ _ he
      · split at h
        · rename_i e he
          injection h with h; subst h
          simp at hf; subst hf
          exact hsvd _ _ he
        · simp at h

/-- C14.4, conditional form for any number of levels: the public entry point inherits
cap-monotonicity under the hypothesis `hlev` that NO level call (for any priority value and any
oracle index — stronger than "no attempted level") runs out of iterations under the smaller cap.
The unconditional single-level statement is `solve_cap_monotone_single_level`
(`Ezpz/Proofs/Caps.lean`); the error direction at the entry point is `solve_cap_monotone_err` (same
file); without `hlev` the multi-level statement is false of model and code (known finding F11):
machine-checked witness `cap_not_monotone_multi_level` (`Ezpz/Real/ToleranceEntry.lean`) and, run at
`Float`, `cap_not_monotone_multi_level_float` (`Ezpz/Proofs/Caps.lean`). -/
theorem solve_cap_monotone_partial (reqs : List (Constraint α × Nat)) (g : List (Nat × α))
    (cfg : Config α) (solve : LinSolve α) (svd : Option (Svd α)) (c c' : Nat) (hc : c ≤ c')
    (hlev : ∀ p i f, levelRun (enumerate reqs) g (withCap cfg c) solve svd i p = .error f →
      f.error ≠ .didNotConverge) :
    solveWithPriority reqs g (withCap cfg c') solve svd =
      solveWithPriority reqs g (withCap cfg c) solve svd := by
  unfold solveWithPriority
  split
  · rfl
  · rw [priorityLoop_eq_loopOver, priorityLoop_eq_loopOver]
    have : ∀ (lvls : List Nat) (call : Nat),
        levelResults (enumerate reqs) g (withCap cfg c') solve svd lvls call =
        levelResults (enumerate reqs) g (withCap cfg c) solve svd lvls call := by
      intro lvls
      induction lvls with
      | nil => intro call; rfl
      | cons p rest ih =>
        intro call
        simp only [levelResults, ih]
        congr 1
        unfold levelRun
        exact solveInner_cap_monotone _ _ _ _ _ c c' hc (fun f hf => hlev p call f hf)
    rw [this]

/-! ### The multi-level statement without that hypothesis is false of the model (finding F11) -/

/-- Non-vacuity of `newton_cap_monotone_ok`: a concrete run that succeeds at cap 1. -/
example : ∃ r, newton [⟨Constraint.fixed 0 (1.0 : Float), 0, 0⟩] (withCap Config.default 1)
    (fun _ _ _ => .ok [0.0]) [1.0] = .ok r := ⟨_, rfl⟩

end Ezpz.C14
