/-
C10 — Solving is deterministic and the analysis / entry point does not change the answer.

The model is a pure function (two calls with equal arguments are equal by `rfl`); the theorems
below are about what *could* differ between calls: the order in which priority levels are
collected, and whether the freedom analysis is requested.  All hold for every scalar type.
-/
import Ezpz.Properties.C03
set_option linter.unusedSectionVars false
namespace Ezpz.C10
open Ezpz Transc

variable {α : Type} [Add α] [Sub α] [Mul α] [Div α] [Neg α] [OfScientific α]
  [LT α] [DecidableLT α] [LE α] [DecidableLE α] [Transc α]

/-- C10.2 — the only hash-ordered collection on the solve path (the set of priorities) is sorted
before use: any two request lists with the same *set* of priorities visit the same levels, so the
iteration order of the set cannot influence the result. -/
theorem level_order_independent (es es' : List (Entry α))
    (h : ∀ q, (∃ e ∈ es, e.priority = q) ↔ (∃ e ∈ es', e.priority = q)) :
    levels es = levels es' := levels_perm_invariant es es' h

/-- Forget the analysis part of an outcome. -/
def strip (o : Outcome α) : Outcome α := { o with underconstrained := none }

/-- One level, analysis requested and successful ⇒ the plain run succeeds with the same outcome. -/
theorem level_analysis_ok (es : List (Entry α)) (g : List (Nat × α)) (cfg : Config α)
    (solve : Nat → List (Triplet α) → List α → Except SolveError (List α))
    (svd : List (Triplet α) → Except SolveError (List α × List (List α))) (o : Outcome α)
    (h : solveInner es g cfg solve (some svd) = .ok o) :
    solveInner es g cfg solve none = .ok (strip o) := by
  obtain ⟨nr, hn, hm, hf, hi, hw, hp, hu, _⟩ := solveInner_ok _ _ _ _ _ _ h
  unfold solveInner
  simp only [hm, hn, hu, runAnalysis]
  cases o
  simp_all [strip]

/-- One level: if the plain run fails, the run with analysis fails with the same failure. -/
theorem level_plain_error (es : List (Entry α)) (g : List (Nat × α)) (cfg : Config α)
    (solve : Nat → List (Triplet α) → List α → Except SolveError (List α))
    (svd : List (Triplet α) → Except SolveError (List α × List (List α))) (f : Failure α)
    (h : solveInner es g cfg solve none = .error f) :
    solveInner es g cfg solve (some svd) = .error f := by
  unfold solveInner at h ⊢
  cases hm : modelNew es (List.map (fun x => x.1) g) with
  | error e => simp only [hm] at h ⊢; exact h
  | ok u =>
    simp only [hm] at h ⊢
    cases hn : newton es cfg solve (List.map (fun x => x.2) g) with
    | error ew => simp only [hn] at h ⊢; exact h
    | ok nr =>
      simp only [hn] at h ⊢
      cases hu : unsatisfiedSweep es (lookup nr.values) with
      | error e => simp only [hu] at h ⊢; exact h
      | ok us => simp [hu, runAnalysis] at h

/-- One level: if the plain run succeeds, requesting the analysis either yields the same outcome
with the analysis attached, or fails in the analysis step itself. -/
theorem level_plain_ok (es : List (Entry α)) (g : List (Nat × α)) (cfg : Config α)
    (solve : Nat → List (Triplet α) → List α → Except SolveError (List α))
    (svd : List (Triplet α) → Except SolveError (List α × List (List α))) (o : Outcome α)
    (h : solveInner es g cfg solve none = .ok o) :
    (∃ us, solveInner es g cfg solve (some svd) = .ok { o with underconstrained := some us }) ∨
    (∃ f nr, solveInner es g cfg solve (some svd) = .error f ∧
      newton es cfg solve (g.map (·.2)) = .ok nr ∧
      runAnalysis (some svd) nr.lastJac g.length = .error f.error) := by
  obtain ⟨nr, hn, hm, hf, hi, hw, hp, hu, ha⟩ := solveInner_ok _ _ _ _ _ _ h
  unfold solveInner
  simp only [hm, hn, hu]
  cases hra : runAnalysis (some svd) nr.lastJac g.length with
  | error e => exact Or.inr ⟨_, nr, rfl, rfl, hra⟩
  | ok us =>
    left
    cases us with
    | none => simp [runAnalysis] at hra; split at hra <;> (try split at hra) <;> simp at hra
    | some us =>
      refine ⟨us, ?_⟩
      cases o
      simp_all [runAnalysis]

/-- C10.3 — **when the plain solve fails they all fail**: a failure of `solve` is also the result
of `solve_analysis`. -/
theorem plain_fails_then_analysis_fails (reqs : List (Constraint α × Nat)) (g : List (Nat × α))
    (cfg : Config α) (solve : LinSolve α) (svd : Svd α) (f : Failure α)
    (h : solveWithPriority reqs g cfg solve none = .error f) :
    solveWithPriority reqs g cfg solve (some svd) = .error f := by
  obtain ⟨p, rest, hl, hr⟩ := C03.highest_level_error reqs g cfg solve none f h
  have hne : reqs.isEmpty = false := by
    cases reqs with
    | nil => simp [solveWithPriority] at h
    | cons _ _ => rfl
  unfold solveWithPriority
  rw [hne]
  simp only [Bool.false_eq_true, if_false]
  rw [priorityLoop_eq_loopOver, hl]
  have : levelRun (enumerate reqs) g cfg solve (some svd) 0 p = .error f := by
    unfold levelRun at hr ⊢
    exact level_plain_error _ _ _ _ _ _ hr
  simp [levelResults, this, loopOver]

/-- `loopOver` commutes with a map on outcomes that preserves the unsatisfied list. -/
theorem loopOver_map (φ : Outcome α → Outcome α) (hφ : ∀ o, (φ o).unsatisfied = o.unsatisfied) :
    ∀ (rs : List (Except (Failure α) (Outcome α))) (res : Option (Outcome α)),
      loopOver (rs.map (fun r => r.map φ)) (res.map φ) = (loopOver rs res).map (fun x => x.map φ) := by
  intro rs
  induction rs with
  | nil => intro res; simp [loopOver, Except.map]
  | cons r rest ih =>
    intro res
    cases r with
    | error f => cases res <;> simp [loopOver, Except.map]
    | ok o =>
      simp only [List.map_cons, Except.map, loopOver, hφ]
      split
      · cases res <;> simp [Except.map]
      · exact ih (some o)

/-- C10.4 (partial) — if the analysis step succeeds at every level the plain solve attempts, then
`solve` is `solve_analysis` with the analysis forgotten: same level, same values, same unsatisfied
list, iteration count, warnings.  (Without the hypothesis the statement is false of the code: an
analysis error at a non-first level is caught by the priority loop and an earlier level is
returned — known finding F10.) -/
theorem analysis_only_adds_failure_partial (reqs : List (Constraint α × Nat)) (g : List (Nat × α))
    (cfg : Config α) (solve : LinSolve α) (svd : Svd α)
    (hok : ∀ p i, levelRun (enumerate reqs) g cfg solve none i p =
      (levelRun (enumerate reqs) g cfg solve (some svd) i p).map strip) (hne : reqs ≠ []) :
    solveWithPriority reqs g cfg solve none =
      (solveWithPriority reqs g cfg solve (some svd)).map strip := by
  have hne' : reqs.isEmpty = false := by cases reqs <;> simp_all
  unfold solveWithPriority
  rw [hne']
  simp only [Bool.false_eq_true, if_false]
  rw [priorityLoop_eq_loopOver, priorityLoop_eq_loopOver]
  have hmap : ∀ (lvls : List Nat) (call : Nat),
      levelResults (enumerate reqs) g cfg solve none lvls call =
        (levelResults (enumerate reqs) g cfg solve (some svd) lvls call).map (fun r => r.map strip) := by
    intro lvls
    induction lvls with
    | nil => intro call; rfl
    | cons p rest ih => intro call; simp [levelResults, ih, hok]
  rw [hmap]
  have := loopOver_map (α := α) strip (fun _ => rfl)
    (levelResults (enumerate reqs) g cfg solve (some svd) (levels (enumerate reqs)) 0) none
  simp only [Option.map_none] at this
  rw [this]
  cases hres : loopOver (levelResults (enumerate reqs) g cfg solve (some svd)
      (levels (enumerate reqs)) 0) none with
  | error f => simp [Except.map]
  | ok v =>
    cases v with
    | some o => simp [Except.map]
    | none =>
      exfalso
      have := loopOver_none_nil_only _ hres
      have hl := levels_ne_nil reqs hne
      cases hlv : levels (enumerate reqs) with
      | nil => exact hl hlv
      | cons p rest => rw [hlv] at this; simp [levelResults] at this

/-- C10.4 (partial), hypothesis restricted to the level calls that can occur: it is enough that the
plain and the analysed run of level `p` agree (up to forgetting the analysis) when `p` is the `j`-th
level of the request list and the call index is `j` — not for every priority value and every call
index as in `analysis_only_adds_failure_partial`.  (Still stronger than "at every level the plain
solve attempts": levels after the first unsatisfied one are included.) -/
theorem analysis_only_adds_failure_levels (reqs : List (Constraint α × Nat)) (g : List (Nat × α))
    (cfg : Config α) (solve : LinSolve α) (svd : Svd α)
    (hok : ∀ j p, (levels (enumerate reqs))[j]? = some p →
      levelRun (enumerate reqs) g cfg solve none j p =
        (levelRun (enumerate reqs) g cfg solve (some svd) j p).map strip) (hne : reqs ≠ []) :
    solveWithPriority reqs g cfg solve none =
      (solveWithPriority reqs g cfg solve (some svd)).map strip := by
  have hne' : reqs.isEmpty = false := by cases reqs <;> simp_all
  unfold solveWithPriority
  rw [hne']
  simp only [Bool.false_eq_true, if_false]
  rw [priorityLoop_eq_loopOver, priorityLoop_eq_loopOver]
  have hmap : ∀ (lvls : List Nat) (call : Nat),
      (∀ j p, lvls[j]? = some p →
        levelRun (enumerate reqs) g cfg solve none (call + j) p =
          (levelRun (enumerate reqs) g cfg solve (some svd) (call + j) p).map strip) →
      levelResults (enumerate reqs) g cfg solve none lvls call =
        (levelResults (enumerate reqs) g cfg solve (some svd) lvls call).map (fun r => r.map strip) := by
    intro lvls
    induction lvls with
    | nil => intro call _; rfl
    | cons p rest ih =>
      intro call h
      have h0 := h 0 p (by simp)
      simp only [Nat.add_zero] at h0
      have hrest := ih (call + 1) (fun j q hq => by
        have := h (j + 1) q (by simpa using hq)
        rw [show call + (j + 1) = call + 1 + j by omega] at this
        exact this)
      simp [levelResults, h0, hrest]
  rw [hmap (levels (enumerate reqs)) 0 (fun j p hj => by simpa using hok j p hj)]
  have := loopOver_map (α := α) strip (fun _ => rfl)
    (levelResults (enumerate reqs) g cfg solve (some svd) (levels (enumerate reqs)) 0) none
  simp only [Option.map_none] at this
  rw [this]
  cases hres : loopOver (levelResults (enumerate reqs) g cfg solve (some svd)
      (levels (enumerate reqs)) 0) none with
  | error f => simp [Except.map]
  | ok v =>
    cases v with
    | some o => simp [Except.map]
    | none =>
      exfalso
      have := loopOver_none_nil_only _ hres
      have hl := levels_ne_nil reqs hne
      cases hlv : levels (enumerate reqs) with
      | nil => exact hl hlv
      | cons p rest => rw [hlv] at this; simp [levelResults] at this

end Ezpz.C10
