/-
C02 — A sketch whose guess is near a valid solution is solved, quickly, to the nearby solution.

What is logic is proved; the convergence of the f64 iteration itself is left to the search
(oracle on the real code), as DESIGN.md §6 C02 says.

* This file (every scalar type): the loop's anatomy — each round is *residual test → damped step →
  step test* with `x' = x + d`, `d` the solver's answer for the Jacobian and residual at `x`; a start
  at an exact solution returns at once.
* `Ezpz/Real/GaussNewton.lean`, `GaussNewton3.lean` (ℝ): the step exists and is unique
  (`step_exists`, `step_unique`), is a descent direction (`step_descent`), vanishes exactly at
  stationary points (`step_zero_iff`); on consistent linear systems no step moves away from any
  solution (`linear_error_nonexpansive`); the abstract contraction argument with the property's
  constant 1.5 (`contraction_gives_C02`, `quadratic_gives_contraction`, `contraction_rounds`).
* `Ezpz/Real/Deriv*.lean` (C13): the Jacobian rows are the true derivatives for all 23 kinds — the
  mechanism that makes the exact iteration Newton-like.
-/
import Ezpz.Properties.C11
set_option linter.unusedSectionVars false
namespace Ezpz.C02
open Ezpz Transc

variable {α : Type} [Add α] [Sub α] [Mul α] [Div α] [Neg α] [OfScientific α]
  [LT α] [DecidableLT α] [LE α] [DecidableLE α] [Transc α]

/-- C02.3 — **an exact solution is a fixed point reached in 0 rounds**: if the residual test passes
at the start values (in particular when every error measure is exactly 0 there), the loop returns
them unchanged with 0 iterations, whatever the solver would answer. -/
theorem newton_fixed_at_solution (es : List (Entry α)) (cfg : Config α) (x : List α)
    (hc : C11.ConvergedAt es cfg x) (hcap : 1 ≤ cfg.maxIterations)
    (solve : Nat → List (Triplet α) → List α → Except SolveError (List α)) :
    ∃ r, newton es cfg solve x = .ok r ∧ r.values = x ∧ r.iterations = 0 :=
  let ⟨r, h1, h2, h3, _⟩ := C11.converged_guess_untouched_newton es cfg x hc hcap solve
  ⟨r, h1, h2, h3⟩

/-- The anatomy of a round that continues: the residual test failed at `x`, the solver was asked
for the step of *the Jacobian and residual evaluated at `x`*, and the next iterate is `x + d`. -/
theorem round_is_damped_step (es : List (Entry α)) (cfg : Config α)
    (solve : Nat → List (Triplet α) → List α → Except SolveError (List α)) (k : Nat) (x : List α)
    (ws : List (Warning α)) (x' : List α) (ws' : List (Warning α))
    (h : newtonStep es cfg solve k x ws = .next x' ws') :
    ∃ r w1 jac w2 largest d, residualAll es (lookup x) = .ok (r, w1) ∧
      jacobianAll es (lookup x) = .ok (jac, w2) ∧ maxAbs? r = some largest ∧
      ¬ largest ≤ cfg.convergenceTolerance ∧ solve k jac r = .ok d ∧ d.length = x.length ∧
      x' = applyStep x d ∧ ¬ stepInfNorm d ≤ stepThreshold cfg x ∧ allFinite x' = true := by
  unfold newtonStep at h
  split at h
  · simp at h
  · rename_i r w1 hr
    split at h
    · simp at h
    · rename_i jac w2 hj
      split at h
      · simp at h
      · rename_i largest hm
        split at h
        · simp at h
        · rename_i hl
          split at h
          · simp at h
          · rename_i d hd
            split at h
            · simp at h
            · rename_i hlen
              split at h
              · simp at h
              · rename_i hfin
                split at h
                · simp at h
                · rename_i hst
                  injection h with h1 h2
                  refine ⟨r, w1, jac, w2, largest, d, hr, hj, hm, hl, hd, ?_, h1.symm, hst, ?_⟩
                  · simpa using hlen
                  · rw [← h1]; simpa using hfin

/-- The anatomy of the round that returns: either the residual test passed at `x` (values `x`
returned untouched) or one more damped step was taken and it was below the step tolerance. -/
theorem final_round (es : List (Entry α)) (cfg : Config α)
    (solve : Nat → List (Triplet α) → List α → Except SolveError (List α)) (k : Nat) (x : List α)
    (ws : List (Warning α)) (res : NewtonOk α)
    (h : newtonStep es cfg solve k x ws = .done res) :
    (res.byResidual = true ∧ res.values = x ∧ C11.ConvergedAt es cfg x) ∨
    (res.byResidual = false ∧ ∃ r w1 jac w2 d, residualAll es (lookup x) = .ok (r, w1) ∧
      jacobianAll es (lookup x) = .ok (jac, w2) ∧ solve k jac r = .ok d ∧
      res.values = applyStep x d ∧ stepInfNorm d ≤ stepThreshold cfg x) := by
  unfold newtonStep at h
  split at h
  · simp at h
  · rename_i r w1 hr
    split at h
    · simp at h
    · rename_i jac w2 hj
      split at h
      · simp at h
      · rename_i largest hm
        split at h
        · rename_i hl
          injection h with h; subst h
          exact Or.inl ⟨rfl, rfl, r, w1, jac, w2, largest, hr, hj, hm, hl⟩
        · split at h
          · simp at h
          · rename_i d hd
            split at h
            · simp at h
            · split at h
              · simp at h
              · split at h
                · rename_i hst
                  injection h with h; subst h
                  exact Or.inr ⟨rfl, r, w1, jac, w2, d, hr, hj, hd, rfl, hst⟩
                · simp at h

end Ezpz.C02
