/-
C16 — The CLI prints what the library computed and fails via its exit status.

Model: `Ezpz/Model/Cli.lean` (`run`: printing and exit status as a function of what the library
did) and `Ezpz/Model/CliMain.lean` (`classifyWith`, `mainModelWith`: how `main_inner` obtains that
from the text).  `none` is a panic (exit status 101).  Everything holds for every scalar type and
every number formatter `fmt2`.
-/
import Ezpz.Model.CliMain
import Ezpz.Properties.C03
import Ezpz.Properties.C07
import Ezpz.Properties.C09
import Ezpz.Proofs.Total
import Ezpz.Proofs.Text
set_option linter.unusedSectionVars false
namespace Ezpz.Cli
open Ezpz Ezpz.Text

variable {α : Type} [Add α] [Sub α] [Mul α] [Div α] [Neg α] [OfScientific α]
  [LT α] [DecidableLT α] [LE α] [DecidableLE α] [Transc α]

/-! ### 1. Exit status and diagnostic -/

/-- C16.1a — when the program does not panic its exit status is 0 or 1. -/
theorem exit_status_cases (fmt2 : α → String) (sp : Bool) (n : Nat) (r : Run α) (out : Output)
    (h : run fmt2 sp n r = some out) : out.exit = 0 ∨ out.exit = 1 := by
  cases r <;> simp only [run] at h
  case solved =>
    split at h
    · simp at h
    · injection h with h; subst h; exact Or.inl rfl
  all_goals (injection h with h; subst h; exact Or.inr rfl)

/-- C16.1b — the exit status is 0 exactly when the library returned `Ok(Outcome)`: a read, parse,
build or solve error never exits with 0. -/
theorem exit_zero_iff (fmt2 : α → String) (sp : Bool) (n : Nat) (r : Run α) (out : Output)
    (h : run fmt2 sp n r = some out) :
    out.exit = 0 ↔ ∃ ws us nv ne it pr l, r = .solved ws us nv ne it pr l := by
  cases r <;> simp only [run] at h
  case solved ws us nv ne it pr l =>
    split at h
    · simp at h
    · injection h with h; subst h
      exact ⟨fun _ => ⟨ws, us, nv, ne, it, pr, l, rfl⟩, fun _ => rfl⟩
  all_goals (injection h with h; subst h; simp)

/-- C16.1c — a non-zero exit always comes with a diagnostic on standard error, a zero exit never
does. -/
theorem failure_has_diagnostic (fmt2 : α → String) (sp : Bool) (n : Nat) (r : Run α) (out : Output)
    (h : run fmt2 sp n r = some out) :
    (out.exit = 1 → out.diagnostic = true) ∧ (out.exit = 0 → out.diagnostic = false) := by
  cases r <;> simp only [run] at h
  case solved =>
    split at h
    · simp at h
    · injection h with h; subst h; simp
  all_goals (injection h with h; subst h; simp)

/-! ### 2. The only panic site of the printing code -/

/-- `print_unsatisfied` panics exactly when some listed index is out of range. -/
theorem unsatisfiedLines_none_iff (us : List Nat) (n : Nat) :
    unsatisfiedLines us n = none ↔ ∃ i ∈ us, n ≤ i := by
  unfold unsatisfiedLines
  cases us with
  | nil => simp
  | cons u rest =>
    simp only [List.isEmpty_cons, Bool.false_eq_true, if_false]
    split
    · rename_i hall
      simp only [List.all_eq_true, decide_eq_true_eq] at hall
      constructor
      · intro h; simp at h
      · rintro ⟨i, hi, hn⟩
        have := hall i hi
        omega
    · rename_i hall
      constructor
      · intro _
        cases hex : (u :: rest).all (fun x => decide (x < n)) with
        | true => exact absurd hex hall
        | false =>
          have : ¬ ∀ x ∈ u :: rest, x < n := by
            intro hx
            have : (u :: rest).all (fun x => decide (x < n)) = true := by
              simp only [List.all_eq_true, decide_eq_true_eq]; exact hx
            rw [hex] at this; cases this
          -- find the witness
          have key : ∀ (l : List Nat), (¬ ∀ x ∈ l, x < n) → ∃ i ∈ l, n ≤ i := by
            intro l
            induction l with
            | nil => intro h; exact absurd (by simp) h
            | cons a t ih =>
              intro h
              by_cases ha : a < n
              · have : ¬ ∀ x ∈ t, x < n := by
                  intro ht; apply h; intro x hx
                  rcases List.mem_cons.mp hx with rfl | hx
                  · exact ha
                  · exact ht x hx
                obtain ⟨i, hi, hn⟩ := ih this
                exact ⟨i, List.mem_cons_of_mem _ hi, hn⟩
              · exact ⟨a, List.mem_cons_self, by omega⟩
          exact key _ this
      · intro _; rfl

/-- C16.2 — the printing code panics exactly when the library succeeded and reported an
unsatisfied index that is not a position of the constraint list the CLI kept (`constraints[i]` in
`print_unsatisfied`). -/
theorem panic_iff (fmt2 : α → String) (sp : Bool) (n : Nat) (r : Run α) :
    run fmt2 sp n r = none ↔
      ∃ ws us nv ne it pr l, r = .solved ws us nv ne it pr l ∧ ∃ i ∈ us, n ≤ i := by
  cases r <;> simp only [run]
  case solved ws us nv ne it pr l =>
    constructor
    · intro h
      split at h
      · rename_i hu
        exact ⟨ws, us, nv, ne, it, pr, l, rfl, (unsatisfiedLines_none_iff us n).mp hu⟩
      · simp at h
    · rintro ⟨ws', us', nv', ne', it', pr', l', heq, hex⟩
      injection heq with _ h2
      subst h2
      rw [(unsatisfiedLines_none_iff us n).mpr hex]
  all_goals simp

/-! ### 3. What is printed on success -/

/-- The "unsatisfied" section of the output: nothing when every request is satisfied, otherwise the
header and one line per index, in the order of the list. -/
def unsatSection (us : List Nat) : List String :=
  if us.isEmpty then [] else
    "Not all constraints were satisfied:" :: us.map (fun i => s!"\t{i}: <constraint>")

/-- With all indices in range, `print_unsatisfied` prints `unsatSection`. -/
theorem unsatisfiedLines_eq (us : List Nat) (n : Nat) (hus : ∀ i ∈ us, i < n) :
    unsatisfiedLines us n = some (unsatSection us) := by
  unfold unsatisfiedLines unsatSection
  cases us with
  | nil => simp
  | cons u rest =>
    have : (u :: rest).all (fun x => decide (x < n)) = true := by
      simp only [List.all_eq_true, decide_eq_true_eq]; exact hus
    simp only [List.isEmpty_cons, Bool.false_eq_true, if_false, this, if_true]

/-- C16.3 — the unsatisfied section: nothing when the list is empty; otherwise the header followed
by one line per index in order, so `us.length + 1` lines. -/
theorem unsatisfied_section (us : List Nat) :
    (us = [] → unsatSection us = []) ∧
    (us ≠ [] → unsatSection us =
        "Not all constraints were satisfied:" :: us.map (fun i => s!"\t{i}: <constraint>") ∧
      (unsatSection us).length = us.length + 1) := by
  cases us with
  | nil => simp [unsatSection]
  | cons u rest => simp [unsatSection]

/-- The lines `print_output` prints after the unsatisfied section and before the optional
`--show-points` sections. -/
def summaryLines (nv ne it pr : Nat) : List String :=
  [problemSize nv ne, s!"Iterations needed: {it}", s!"Solved up to priority: {pr}", perfMarker]

/-- The `--show-points` part of the output. -/
def shownSections (fmt2 : α → String) (sp : Bool) (l : Labelled α) : List String :=
  if sp then pointLines fmt2 l ++ circleLines fmt2 l ++ arcLines fmt2 l else []

/-- C16.3 — **printed fields.**  On success, with every unsatisfied index in range, the program
exits with 0, prints no diagnostic, and its standard output is exactly: the warnings, the
unsatisfied section, the problem size computed by the library, the library's iteration count, the
library's solved priority, the performance lines, then (only with `--show-points`) the points,
circles and arcs. -/
theorem printed_fields (fmt2 : α → String) (sp : Bool) (n : Nat) (ws : List String) (us : List Nat)
    (nv ne it pr : Nat) (l : Labelled α) (hus : ∀ i ∈ us, i < n) :
    run fmt2 sp n (.solved ws us nv ne it pr l) =
      some ⟨0, warningLines ws ++ unsatSection us ++ summaryLines nv ne it pr ++
        shownSections fmt2 sp l, false⟩ := by
  simp only [run, unsatisfiedLines_eq us n hus, summaryLines, shownSections]

/-- C16.3 — the size, iteration and priority lines are on standard output. -/
theorem printed_fields_mem (fmt2 : α → String) (sp : Bool) (n : Nat) (ws : List String)
    (us : List Nat) (nv ne it pr : Nat) (l : Labelled α) (out : Output)
    (h : run fmt2 sp n (.solved ws us nv ne it pr l) = some out) :
    problemSize nv ne ∈ out.stdout ∧ s!"Iterations needed: {it}" ∈ out.stdout ∧
    s!"Solved up to priority: {pr}" ∈ out.stdout := by
  simp only [run] at h
  split at h
  · simp at h
  · injection h with h; subst h
    simp

/-- `toString` of a string is the string. -/
private theorem toString_str (s : String) : toString s = s := rfl

/-- No line printed before the `--show-points` part is the line `Points:`. -/
theorem points_header_not_mem (ws : List String) (us : List Nat) (nv ne it pr : Nat) :
    "Points:" ∉ warningLines ws ++ unsatSection us ++ summaryLines nv ne it pr := by
  intro h
  simp only [List.mem_append] at h
  rcases h with (h | h) | h
  · unfold warningLines at h
    split at h
    · simp at h
    · rcases List.mem_cons.mp h with h | h
      · exact absurd h (by decide)
      · obtain ⟨w, _, hw⟩ := List.mem_map.mp h
        have := congrArg String.toList hw
        simp [String.toList_append] at this
  · unfold unsatSection at h
    split at h
    · simp at h
    · rcases List.mem_cons.mp h with h | h
      · exact absurd h (by decide)
      · obtain ⟨i, _, hi⟩ := List.mem_map.mp h
        have := congrArg String.toList hi
        simp [String.toList_append, toString_str] at this
  · simp only [summaryLines, problemSize, perfMarker, List.mem_cons, List.mem_nil_iff,
      or_false] at h
    rcases h with h | h | h | h
    · have := congrArg String.toList h
      simp [String.toList_append, toString_str] at this
    · have := congrArg String.toList h
      simp [String.toList_append, toString_str] at this
    · have := congrArg String.toList h
      simp [String.toList_append, toString_str] at this
    · exact absurd h (by decide)

/-- C16.3 — without `--show-points` nothing is printed after the performance lines, and in
particular no `Points:` line is printed at all. -/
theorem no_points_without_flag (fmt2 : α → String) (n : Nat) (ws : List String) (us : List Nat)
    (nv ne it pr : Nat) (l : Labelled α) (out : Output)
    (h : run fmt2 false n (.solved ws us nv ne it pr l) = some out) :
    out.stdout = warningLines ws ++ unsatSection us ++ summaryLines nv ne it pr ∧
    "Points:" ∉ out.stdout := by
  have hus : ∀ i ∈ us, i < n := by
    intro i hi
    cases hlt : decide (i < n) with
    | true => exact of_decide_eq_true hlt
    | false =>
      have : n ≤ i := by have := of_decide_eq_false hlt; omega
      have hp := (panic_iff fmt2 false n (.solved ws us nv ne it pr l)).mpr
        ⟨ws, us, nv, ne, it, pr, l, rfl, i, hi, this⟩
      rw [hp] at h; cases h
  rw [printed_fields fmt2 false n ws us nv ne it pr l hus] at h
  injection h with h; subst h
  have hs : warningLines ws ++ unsatSection us ++ summaryLines nv ne it pr ++
      shownSections fmt2 false l = warningLines ws ++ unsatSection us ++ summaryLines nv ne it pr := by
    simp [shownSections]
  exact ⟨hs, by rw [hs]; exact points_header_not_mem ws us nv ne it pr⟩

/-! ### 4. The point, circle and arc sections -/

/-- C16.4a — the arcs section depends only on the arcs. -/
theorem arcLines_congr (fmt2 : α → String) (l l' : Labelled α) (h : l.arcs = l'.arcs) :
    arcLines fmt2 l = arcLines fmt2 l' := by
  simp only [arcLines, h]

/-- C16.4a — the circles section depends only on the circles. -/
theorem circleLines_congr (fmt2 : α → String) (l l' : Labelled α) (h : l.circles = l'.circles) :
    circleLines fmt2 l = circleLines fmt2 l' := by
  simp only [circleLines, h]

/-- C16.4a — the points section depends only on the points. -/
theorem pointLines_congr (fmt2 : α → String) (l l' : Labelled α) (h : l.points = l'.points) :
    pointLines fmt2 l = pointLines fmt2 l' := by
  simp only [pointLines, h]

/-- C16.4 — **the sections are independent**: each of the three sections is a function of its own
list only (so, e.g., the arcs are printed the same whether or not there are circles). -/
theorem sections_independent (fmt2 : α → String) (l l' : Labelled α) :
    (l.points = l'.points → pointLines fmt2 l = pointLines fmt2 l') ∧
    (l.circles = l'.circles → circleLines fmt2 l = circleLines fmt2 l') ∧
    (l.arcs = l'.arcs → arcLines fmt2 l = arcLines fmt2 l') :=
  ⟨pointLines_congr fmt2 l l', circleLines_congr fmt2 l l', arcLines_congr fmt2 l l'⟩

/-- C16.4b — one line per labelled point / circle / arc, in order, after the header; a section
without entries is not printed, except `Points:` whose header is always printed. -/
theorem section_lengths (fmt2 : α → String) (l : Labelled α) :
    (pointLines fmt2 l).length = l.points.length + 1 ∧
    (circleLines fmt2 l).length = (if l.circles = [] then 0 else l.circles.length + 1) ∧
    (arcLines fmt2 l).length = (if l.arcs = [] then 0 else l.arcs.length + 1) := by
  refine ⟨by simp [pointLines], ?_, ?_⟩
  · unfold circleLines
    cases l.circles <;> simp
  · unfold arcLines
    cases l.arcs <;> simp

/-- C16.4b — the sections are the header followed by the image of the labelled list (so: one line
per entry, in the order of the list), each line showing the label and the values formatted with
two decimals. -/
theorem section_shapes (fmt2 : α → String) (l : Labelled α) :
    pointLines fmt2 l =
      "Points:" :: l.points.map (fun (n, x, y) => s!"\t{n}: ({fmt2 x}, {fmt2 y})") ∧
    (l.circles ≠ [] → circleLines fmt2 l =
      "Circles:" :: l.circles.map (fun (n, (cx, cy), r) =>
        s!"\t{n}: center = ({fmt2 cx}, {fmt2 cy}), radius = {fmt2 r}")) ∧
    (l.arcs ≠ [] → arcLines fmt2 l =
      "Arcs:" :: l.arcs.map (fun (n, (cx, cy), (ax, ay), (bx, bY)) =>
        s!"\t{n}: center = ({fmt2 cx}, {fmt2 cy}), a = ({fmt2 ax}, {fmt2 ay}), b = ({fmt2 bx}, {fmt2 bY})")) := by
  refine ⟨rfl, fun h => ?_, fun h => ?_⟩
  · unfold circleLines
    cases hc : l.circles with
    | nil => exact absurd hc h
    | cons a t => simp only [List.isEmpty_cons, Bool.false_eq_true, if_false]
  · unfold arcLines
    cases hc : l.arcs with
    | nil => exact absurd hc h
    | cons a t => simp only [List.isEmpty_cons, Bool.false_eq_true, if_false]

/-- C16.4c — with `--show-points`, the arcs are printed whenever there are arcs, whether or not
there are circles. -/
theorem arcs_printed (fmt2 : α → String) (n : Nat) (ws : List String) (us : List Nat)
    (nv ne it pr : Nat) (l : Labelled α) (out : Output)
    (h : run fmt2 true n (.solved ws us nv ne it pr l) = some out) (ha : l.arcs ≠ []) :
    "Arcs:" ∈ out.stdout ∧ "Points:" ∈ out.stdout := by
  simp only [run] at h
  split at h
  · simp at h
  · injection h with h; subst h
    have : "Arcs:" ∈ arcLines fmt2 l := by
      unfold arcLines
      cases hc : l.arcs with
      | nil => exact absurd hc ha
      | cons a t => simp
    simp [this, pointLines]

/-- C16.4c — likewise the circles are printed whenever there are circles. -/
theorem circles_printed (fmt2 : α → String) (n : Nat) (ws : List String) (us : List Nat)
    (nv ne it pr : Nat) (l : Labelled α) (out : Output)
    (h : run fmt2 true n (.solved ws us nv ne it pr l) = some out) (hc : l.circles ≠ []) :
    "Circles:" ∈ out.stdout := by
  simp only [run] at h
  split at h
  · simp at h
  · injection h with h; subst h
    have : "Circles:" ∈ circleLines fmt2 l := by
      unfold circleLines
      cases hc' : l.circles with
      | nil => exact absurd hc' hc
      | cons a t => simp
    simp [this]

/-! ### 5. End to end: the composition `main_inner` performs -/

/-- An `Option` bind succeeds when both parts do. -/
theorem bind_isSome {β γ : Type} (x : Option β) (f : β → Option γ) (hx : x.isSome = true)
    (hf : ∀ b, (f b).isSome = true) : (x >>= f).isSome = true := by
  cases x with
  | none => simp at hx
  | some b => exact hf b

/-- A monadic fold in `Option` succeeds when every step does. -/
theorem foldlM_isSome {β γ : Type} (f : β → γ → Option β) :
    ∀ (xs : List γ) (b : β), (∀ b x, x ∈ xs → (f b x).isSome = true) →
      (xs.foldlM f b).isSome = true := by
  intro xs
  induction xs with
  | nil => intro b _; simp
  | cons x rest ih =>
    intro b h
    rw [List.foldlM_cons]
    apply bind_isSome
    · exact h b x List.mem_cons_self
    · intro b'; exact ih b' (fun b x hx => h b x (List.mem_cons_of_mem _ hx))

/-- The labelling never indexes out of bounds when there is a final value for every variable of
the layout `points | circles | arcs`. -/
theorem labelOutcome_total {α : Type} (p : Problem α) (final : List α)
    (h : 2 * p.innerPoints.length + 3 * p.innerCircles.length + 6 * p.innerArcs.length
      ≤ final.length) : ∃ l, labelOutcome p final = some l := by
  apply Option.isSome_iff_exists.mp
  unfold labelOutcome
  apply bind_isSome
  · apply foldlM_isSome
    rintro acc ⟨l, i⟩ hm
    have hi : i < p.innerPoints.length := by
      have := List.mem_zipIdx_iff_getElem?.mp hm
      exact (List.getElem?_eq_some_iff.mp this).1
    apply bind_isSome
    · simp; omega
    intro x
    apply bind_isSome
    · simp; omega
    intro y
    simp
  intro pts
  apply bind_isSome
  · apply foldlM_isSome
    rintro acc ⟨l, i⟩ hm
    have hi : i < p.innerCircles.length := by
      have := List.mem_zipIdx_iff_getElem?.mp hm
      exact (List.getElem?_eq_some_iff.mp this).1
    apply bind_isSome
    · simp; omega
    intro x
    apply bind_isSome
    · simp; omega
    intro y
    apply bind_isSome
    · simp; omega
    intro r
    simp
  intro circs
  apply bind_isSome
  · apply foldlM_isSome
    rintro acc ⟨l, i⟩ hm
    have hi : i < p.innerArcs.length := by
      have := List.mem_zipIdx_iff_getElem?.mp hm
      exact (List.getElem?_eq_some_iff.mp this).1
    repeat (apply bind_isSome; (· simp [Gen.VARS_PER_ARC]; omega); intro _)
    simp
  intro arcs
  simp

/-- An accepted problem has one solver variable per coordinate of the layout. -/
theorem built_vars_length {α : Type} (p : Problem α) (cs : ConstraintSystem α)
    (h : toConstraintSystem p = .ok cs) :
    cs.vars.variables.length =
      2 * p.innerPoints.length + 3 * p.innerCircles.length + 6 * p.innerArcs.length := by
  unfold toConstraintSystem at h
  cases hv : buildVars p with
  | error e => simp [hv] at h
  | ok v =>
    simp only [hv] at h
    cases hl : lowerAll p v p.instructions with
    | error e => simp [hl] at h
    | ok c =>
      simp only [hl] at h
      injection h with h; subst h
      obtain ⟨hok, h1, h2, h3⟩ := buildVars_ok p v hv
      have := hok.len
      simp only [this, h1, h2, h3]

/-- One request per constraint of the built system. -/
theorem requests_length (cs : ConstraintSystem α) : (requests cs).length = cs.constraints.length := by
  simp [requests]

/-- The unsatisfied indices the library returns are positions of the constraint list the CLI
kept. -/
theorem library_unsatisfied_lt (cs : ConstraintSystem α) (cfg : Config α) (solve : LinSolve α)
    (o : Outcome α) (h : librarySolve cs cfg solve = .ok o) :
    ∀ i ∈ o.unsatisfied, i < cs.constraints.length := by
  intro i hi
  obtain ⟨c, pr, hget, _⟩ :=
    (C07.unsatisfied_sorted_attempted (requests cs) cs.vars.variables cfg solve none o h).2 i hi
  have := (List.getElem?_eq_some_iff.mp hget).1
  rwa [requests_length] at this

/-- A failure the library returns to the CLI is not a panic, when the LU oracle returns vectors of
the right length and does not itself panic. -/
theorem library_failure_noPanic (cs : ConstraintSystem α) (cfg : Config α) (solve : LinSolve α)
    (hs : LinSolveTotal (solve 0) cs.vars.variables.length)
    (f : Failure α) (h : librarySolve cs cfg solve = .error f) : f.error.isPanic = false := by
  obtain ⟨p, rest, _, hr⟩ := C03.highest_level_error (requests cs) cs.vars.variables cfg solve none f h
  unfold levelRun at hr
  exact solveInner_noPanic _ _ _ _ _ hs (by intro svd hsvd; simp at hsvd) f hr

/-- The labelling of a successful library result never indexes out of bounds. -/
theorem library_label_total (p : Problem α) (cs : ConstraintSystem α) (cfg : Config α)
    (solve : LinSolve α) (hb : toConstraintSystem p = .ok cs) (o : Outcome α)
    (h : librarySolve cs cfg solve = .ok o) : ∃ l, labelOutcome p o.finalValues = some l := by
  apply labelOutcome_total
  rw [C07.final_length (requests cs) cs.vars.variables cfg solve none o h, built_vars_length p cs hb]
  exact Nat.le_refl _


/-- The `num_eqs` the library reports on success is the number of residual rows of the whole
request list. -/
theorem numEqs_eq_numRows (cs : ConstraintSystem α) :
    numEqs cs = numRows (enumerate (requests cs)) := by
  have h : ∀ (reqs : List (Constraint α × Nat)),
      (enumerate reqs).map (fun e => e.c.residualDim) = reqs.map (fun r => r.1.residualDim) := by
    intro reqs
    have h1 : (enumerate reqs).map (fun e => e.c.residualDim) =
        ((reqs.zipIdx).map Prod.fst).map (fun r => r.1.residualDim) := by
      rw [enumerate, List.map_map, List.map_map]; rfl
    rw [h1, List.zipIdx_map_fst]
  rw [numRows, h, numEqs, requests, List.map_map]; rfl

/-- What `classifyBuilt` returns when the library succeeds: the library's values, labelled. -/
theorem classifyBuilt_ok (p : Problem α) (cs : ConstraintSystem α) (cfg : Config α)
    (solve : LinSolve α) (wk : Warning α → String) (hb : toConstraintSystem p = .ok cs)
    (o : Outcome α) (h : librarySolve cs cfg solve = .ok o) :
    ∃ l, labelOutcome p o.finalValues = some l ∧
      classifyBuilt p cs cfg solve wk =
        some (.solved (o.warnings.map wk) o.unsatisfied (numVars cs) (numEqs cs) o.iterations
          o.prioritySolved l, cs.constraints.length) := by
  obtain ⟨l, hl⟩ := library_label_total p cs cfg solve hb o h
  exact ⟨l, hl, by simp only [classifyBuilt, h, hl]⟩

/-- What `classifyBuilt` returns when the library fails without panicking. -/
theorem classifyBuilt_error (p : Problem α) (cs : ConstraintSystem α) (cfg : Config α)
    (solve : LinSolve α) (wk : Warning α → String) (f : Failure α)
    (h : librarySolve cs cfg solve = .error f) (hp : f.error.isPanic = false) :
    classifyBuilt p cs cfg solve wk =
      some (.solveError (f.warnings.map wk) f.numVars f.numEqs, cs.constraints.length) := by
  simp [classifyBuilt, h, hp]

/-- The hypothesis on the external LU kernel under which the solver does not panic: for the system
built from the text, it returns vectors with one entry per variable and does not itself panic. -/
def OracleTotal (parse : String → Option (Problem α)) (text : Option String) (solve : LinSolve α) :
    Prop :=
  ∀ t p cs, text = some t → parse t = some p → toConstraintSystem p = .ok cs →
    LinSolveTotal (solve 0) cs.vars.variables.length

/-- The oracle hypothesis is satisfiable (an LU that always reports a numeric failure). -/
example (parse : String → Option (Problem α)) (text : Option String) :
    OracleTotal parse text (fun _ _ _ _ => .error .faerSolve) := by
  intro t p cs _ _ _
  constructor
  · intro k jac r d h; cases h
  · intro k jac r e h; injection h with h; subst h; rfl

/-- C16.5a — **the only way the program can panic is a panic inside the solver.**  For every text,
parser, configuration and LU oracle: the whole program panics exactly when the text parses and
builds and the library's solve hits one of its own panic sites.  In particular the out-of-bounds
sites of the executor (`to_constraint_system`), of the labelling (`final_values[..]`) and of
`print_unsatisfied` (`constraints[i]`) are unreachable: the labelled layout has exactly one final
value per guess (`C07.final_length`, `built_vars_length`) and the unsatisfied indices are positions
of the request list (`C07.unsatisfied_sorted_attempted`). -/
theorem cli_panic_iff (parse : String → Option (Problem α)) (fmt2 : α → String) (sp : Bool)
    (text : Option String) (cfg : Config α) (solve : LinSolve α) (wk : Warning α → String) :
    mainModelWith parse fmt2 sp text cfg solve wk = none ↔
      ∃ t p cs f, text = some t ∧ parse t = some p ∧ toConstraintSystem p = .ok cs ∧
        librarySolve cs cfg solve = .error f ∧ f.error.isPanic = true := by
  unfold mainModelWith classifyWith
  cases text with
  | none => simp [run]
  | some t =>
    cases hp : parse t with
    | none => simp [run, hp]
    | some p =>
      simp only [hp, classifyParsed]
      cases hcs : toConstraintSystem p with
      | error e =>
        have hrhs : ¬ ∃ t' p' cs f, some t = some t' ∧ parse t' = some p' ∧
            toConstraintSystem p' = .ok cs ∧ librarySolve cs cfg solve = .error f ∧
            f.error.isPanic = true := by
          rintro ⟨t', p', cs, o, ht, hp', hcs', _⟩
          cases ht; rw [hp] at hp'; cases hp'; rw [hcs] at hcs'; cases hcs'
        cases e with
        | panic => exact absurd hcs (C09.executor_total p)
        | text e => simp only [run, hrhs]; simp
      | ok cs =>
        simp only []
        cases hl : librarySolve cs cfg solve with
        | error f =>
          cases hpn : f.error.isPanic with
          | true =>
            have hc : classifyBuilt p cs cfg solve wk = none := by simp [classifyBuilt, hl, hpn]
            rw [hc]
            simp only [true_iff]
            exact ⟨t, p, cs, f, rfl, hp, hcs, hl, hpn⟩
          | false =>
            rw [classifyBuilt_error p cs cfg solve wk f hl hpn]
            simp only [run]
            have hrhs : ¬ ∃ t' p' cs' f', some t = some t' ∧ parse t' = some p' ∧
                toConstraintSystem p' = .ok cs' ∧ librarySolve cs' cfg solve = .error f' ∧
                f'.error.isPanic = true := by
              rintro ⟨t', p', cs', f', ht, hp', hcs', hl', hpn'⟩
              cases ht; rw [hp] at hp'; cases hp'; rw [hcs] at hcs'; cases hcs'
              rw [hl] at hl'; cases hl'; rw [hpn] at hpn'; cases hpn'
            simp only [hrhs]; simp
        | ok o =>
          obtain ⟨l, _, hc⟩ := classifyBuilt_ok p cs cfg solve wk hcs o hl
          rw [hc]
          simp only []
          rw [printed_fields fmt2 sp _ _ _ _ _ _ _ l (library_unsatisfied_lt cs cfg solve o hl)]
          have hrhs : ¬ ∃ t' p' cs' f', some t = some t' ∧ parse t' = some p' ∧
              toConstraintSystem p' = .ok cs' ∧ librarySolve cs' cfg solve = .error f' ∧
              f'.error.isPanic = true := by
            rintro ⟨t', p', cs', f', ht, hp', hcs', hl', _⟩
            cases ht; rw [hp] at hp'; cases hp'; rw [hcs] at hcs'; cases hcs'
            rw [hl] at hl'; cases hl'
          simp only [hrhs]; simp

/-- C16.5b — **the CLI never panics**: for every text (or read error) the program terminates with an
exit status and output, provided the external LU kernel returns vectors with one entry per
variable and does not itself panic (the hypothesis under which the solver is panic-free,
`solveInner_noPanic`). -/
theorem cli_never_panics (parse : String → Option (Problem α)) (fmt2 : α → String) (sp : Bool)
    (text : Option String) (cfg : Config α) (solve : LinSolve α) (wk : Warning α → String)
    (hs : OracleTotal parse text solve) :
    mainModelWith parse fmt2 sp text cfg solve wk ≠ none := by
  intro h
  obtain ⟨t, p, cs, f, ht, hp, hcs, hl, hpn⟩ :=
    (cli_panic_iff parse fmt2 sp text cfg solve wk).mp h
  rw [library_failure_noPanic cs cfg solve (hs t p cs ht hp hcs) f hl] at hpn
  cases hpn

/-- C16.5d — **the CLI prints the library's values.**  When the text is read, parses, builds to `cs`
and the library returns `Ok(o)`, the program exits with 0 without a diagnostic and prints exactly:
`o`'s warnings, `o.unsatisfied` (header + one line per index), the problem size with
`num_vars` = number of initial guesses and `num_eqs` = Σ `residual_dim` over all constraints,
`o.iterations`, `o.prioritySolved`, the performance lines, and with `--show-points` the points,
circles and arcs labelled from `o.finalValues`. -/
theorem cli_prints_library_values (parse : String → Option (Problem α)) (fmt2 : α → String)
    (sp : Bool) (text : Option String) (cfg : Config α) (solve : LinSolve α)
    (wk : Warning α → String) (t : String) (p : Problem α) (cs : ConstraintSystem α)
    (o : Outcome α) (ht : text = some t) (hp : parse t = some p)
    (hcs : toConstraintSystem p = .ok cs) (hl : librarySolve cs cfg solve = .ok o) :
    ∃ l, labelOutcome p o.finalValues = some l ∧
      mainModelWith parse fmt2 sp text cfg solve wk =
        some ⟨0,
          warningLines (o.warnings.map wk) ++ unsatSection o.unsatisfied ++
            summaryLines cs.vars.variables.length (cs.constraints.map (fun c => c.residualDim)).sum
              o.iterations o.prioritySolved ++
            shownSections fmt2 sp l,
          false⟩ := by
  obtain ⟨l, hlab, hc⟩ := classifyBuilt_ok p cs cfg solve wk hcs o hl
  refine ⟨l, hlab, ?_⟩
  subst ht
  simp only [mainModelWith, classifyWith, hp, classifyParsed, hcs, hc]
  rw [printed_fields fmt2 sp _ _ _ _ _ _ _ l (library_unsatisfied_lt cs cfg solve o hl)]
  rfl

/-- C16.5e — when the library returns `Err(f)`, the program exits with 1, prints a diagnostic, and its
standard output is `f`'s warnings and the problem size `f` reports (whose variable count is the
number of initial guesses). -/
theorem cli_failure_prints_library_values (parse : String → Option (Problem α)) (fmt2 : α → String)
    (sp : Bool) (text : Option String) (cfg : Config α) (solve : LinSolve α)
    (wk : Warning α → String) (t : String) (p : Problem α) (cs : ConstraintSystem α)
    (f : Failure α) (ht : text = some t) (hp : parse t = some p)
    (hcs : toConstraintSystem p = .ok cs) (hl : librarySolve cs cfg solve = .error f)
    (hnp : f.error.isPanic = false) :
    mainModelWith parse fmt2 sp text cfg solve wk =
      some ⟨1, warningLines (f.warnings.map wk) ++ [problemSize f.numVars f.numEqs], true⟩ ∧
    f.numVars = cs.vars.variables.length := by
  subst ht
  refine ⟨?_, (C07.failure_sizes_solve (requests cs) cs.vars.variables cfg solve none f hl).1⟩
  simp only [mainModelWith, classifyWith, hp, classifyParsed, hcs,
    classifyBuilt_error p cs cfg solve wk f hl hnp, run]

/-- C16.5c — **exit status 0 exactly on success.**  Whenever the program does not panic, it exits with
0 if and only if the text was read, parses, builds and the library solve returns `Ok`. -/
theorem cli_exit_zero_iff (parse : String → Option (Problem α)) (fmt2 : α → String) (sp : Bool)
    (text : Option String) (cfg : Config α) (solve : LinSolve α) (wk : Warning α → String)
    (out : Output) (h : mainModelWith parse fmt2 sp text cfg solve wk = some out) :
    out.exit = 0 ↔ ∃ t p cs o, text = some t ∧ parse t = some p ∧
      toConstraintSystem p = .ok cs ∧ librarySolve cs cfg solve = .ok o := by
  unfold mainModelWith classifyWith at h
  cases text with
  | none =>
    simp only [run] at h
    injection h with h; subst h; simp
  | some t =>
    cases hp : parse t with
    | none =>
      simp only [hp, run] at h
      injection h with h; subst h; simp [hp]
    | some p =>
      simp only [hp, classifyParsed] at h
      cases hcs : toConstraintSystem p with
      | error e =>
        have hrhs : ¬ ∃ t' p' cs o, some t = some t' ∧ parse t' = some p' ∧
            toConstraintSystem p' = .ok cs ∧ librarySolve cs cfg solve = .ok o := by
          rintro ⟨t', p', cs, o, ht, hp', hcs', _⟩
          cases ht; rw [hp] at hp'; cases hp'; rw [hcs] at hcs'; cases hcs'
        cases e with
        | panic => simp [hcs] at h
        | text e =>
          simp only [hcs, run] at h
          injection h with h; subst h
          simp only [hrhs, iff_false]; decide
      | ok cs =>
        simp only [hcs] at h
        cases hl : librarySolve cs cfg solve with
        | error f =>
          have hrhs : ¬ ∃ t' p' cs' o, some t = some t' ∧ parse t' = some p' ∧
              toConstraintSystem p' = .ok cs' ∧ librarySolve cs' cfg solve = .ok o := by
            rintro ⟨t', p', cs', o, ht, hp', hcs', hl'⟩
            cases ht; rw [hp] at hp'; cases hp'; rw [hcs] at hcs'; cases hcs'
            rw [hl] at hl'; cases hl'
          cases hpn : f.error.isPanic with
          | true => simp [classifyBuilt, hl, hpn] at h
          | false =>
            rw [classifyBuilt_error p cs cfg solve wk f hl hpn] at h
            simp only [run] at h
            injection h with h; subst h
            simp only [hrhs, iff_false]; decide
        | ok o =>
          obtain ⟨l, _, hc⟩ := classifyBuilt_ok p cs cfg solve wk hcs o hl
          rw [hc] at h
          simp only [] at h
          rw [printed_fields fmt2 sp _ _ _ _ _ _ _ l (library_unsatisfied_lt cs cfg solve o hl)] at h
          injection h with h; subst h
          exact ⟨fun _ => ⟨t, p, cs, o, rfl, hp, hcs, hl⟩, fun _ => rfl⟩

/-- C16.5c' — whenever the program does not panic it either exits with 0 and no diagnostic, or with 1
and a diagnostic on standard error. -/
theorem cli_failure_has_diagnostic (parse : String → Option (Problem α)) (fmt2 : α → String)
    (sp : Bool) (text : Option String) (cfg : Config α) (solve : LinSolve α)
    (wk : Warning α → String) (out : Output)
    (h : mainModelWith parse fmt2 sp text cfg solve wk = some out) :
    (out.exit = 0 ∧ out.diagnostic = false) ∨ (out.exit = 1 ∧ out.diagnostic = true) := by
  unfold mainModelWith at h
  split at h
  · simp at h
  · rename_i r n _
    have hd := failure_has_diagnostic fmt2 sp n r out h
    rcases exit_status_cases fmt2 sp n r out h with h0 | h1
    · exact Or.inl ⟨h0, hd.2 h0⟩
    · exact Or.inr ⟨h1, hd.1 h1⟩

/-- C16.6 — the benchmark loop re-solves the same system with the same configuration 100 times; the
model is a function, so every re-solve returns the first result, and after a first `Ok(o)` every
`.unwrap()` in the loop succeeds (given determinism of the numeric kernels, property C10). -/
theorem resolve_deterministic (cs : ConstraintSystem α) (cfg : Config α) (solve : LinSolve α) :
    (∀ r ∈ benchmarkResults cs cfg solve, r = librarySolve cs cfg solve) ∧
    (benchmarkResults cs cfg solve).length = 100 ∧
    ∀ o, librarySolve cs cfg solve = .ok o → ∀ r ∈ benchmarkResults cs cfg solve, r = .ok o := by
  refine ⟨?_, by simp [benchmarkResults, NUM_ITERS_BENCHMARK], ?_⟩
  · intro r hr
    exact (List.mem_replicate.mp hr).2
  · intro o ho r hr
    rw [← ho]
    exact (List.mem_replicate.mp hr).2


/-! ### Instances at `Float` with the model of the real parser -/

/-- `cli_panic_iff` for `mainModel`. -/
theorem mainModel_panic_iff (fmt2 : Float → String) (sp : Bool) (text : Option String)
    (cfg : Config Float) (solve : LinSolve Float) (wk : Warning Float → String) :
    mainModel fmt2 sp text cfg solve wk = none ↔
      ∃ t p cs f, text = some t ∧ parseProblem t = some p ∧ toConstraintSystem p = .ok cs ∧
        librarySolve cs cfg solve = .error f ∧ f.error.isPanic = true :=
  cli_panic_iff parseProblem fmt2 sp text cfg solve wk

/-- `cli_never_panics` for `mainModel`. -/
theorem mainModel_never_panics (fmt2 : Float → String) (sp : Bool) (text : Option String)
    (cfg : Config Float) (solve : LinSolve Float) (wk : Warning Float → String)
    (hs : OracleTotal parseProblem text solve) : mainModel fmt2 sp text cfg solve wk ≠ none :=
  cli_never_panics parseProblem fmt2 sp text cfg solve wk hs

/-- `cli_exit_zero_iff` for `mainModel`. -/
theorem mainModel_exit_zero_iff (fmt2 : Float → String) (sp : Bool) (text : Option String)
    (cfg : Config Float) (solve : LinSolve Float) (wk : Warning Float → String) (out : Output)
    (h : mainModel fmt2 sp text cfg solve wk = some out) :
    out.exit = 0 ↔ ∃ t p cs o, text = some t ∧ parseProblem t = some p ∧
      toConstraintSystem p = .ok cs ∧ librarySolve cs cfg solve = .ok o :=
  cli_exit_zero_iff parseProblem fmt2 sp text cfg solve wk out h

/-- `cli_prints_library_values` for `mainModel`. -/
theorem mainModel_prints_library_values (fmt2 : Float → String) (sp : Bool) (text : Option String)
    (cfg : Config Float) (solve : LinSolve Float) (wk : Warning Float → String) (t : String)
    (p : Problem Float) (cs : ConstraintSystem Float) (o : Outcome Float) (ht : text = some t)
    (hp : parseProblem t = some p) (hcs : toConstraintSystem p = .ok cs)
    (hl : librarySolve cs cfg solve = .ok o) :
    ∃ l, labelOutcome p o.finalValues = some l ∧
      mainModel fmt2 sp text cfg solve wk =
        some ⟨0,
          warningLines (o.warnings.map wk) ++ unsatSection o.unsatisfied ++
            summaryLines cs.vars.variables.length (cs.constraints.map (fun c => c.residualDim)).sum
              o.iterations o.prioritySolved ++
            shownSections fmt2 sp l,
          false⟩ :=
  cli_prints_library_values parseProblem fmt2 sp text cfg solve wk t p cs o ht hp hcs hl

/-! ### Non-vacuity -/

/-- The hypotheses of `cli_prints_library_values` are met by a concrete instance: a parser that
returns the empty problem, which builds to the empty system, which the library solves. -/
example (cfg : Config α) (solve : LinSolve α) :
    toConstraintSystem (⟨[], [], [], [], [], [], []⟩ : Problem α) = .ok ⟨[], {}⟩ ∧
    librarySolve (⟨[], {}⟩ : ConstraintSystem α) cfg solve = .ok (noConstraintsOutcome [] false 0) :=
  ⟨rfl, rfl⟩

/-- `panic_iff` is not vacuous: an out-of-range unsatisfied index does make `run` panic. -/
example (fmt2 : α → String) (l : Labelled α) :
    run fmt2 false 1 (.solved [] [3] 2 1 0 0 l) = none := rfl

end Ezpz.Cli
