/-
C11 — A configuration that already satisfies the constraints is left untouched.

All theorems hold for every scalar type and every LU oracle (which is never called).  The
statements that pass the residual test from a request list to its sub-lists / concatenations take
the order laws `MaxLaws` of `≤`/`fmax` as an explicit hypothesis (true over ℝ, see
`Ezpz/Real/Resolve.lean`; false for `Float` because of NaN — example at the end).

Layout: the loop and one level; the public entry point (`converged_guess_untouched*`); re-solving
at the loop (`resolve_is_identity`); sub-lists and concatenations (`ConvergedAt_subset`,
`ConvergedAt_append`, `converged_guess_untouched_append`); re-solving at the public entry point
(`resolve_untouched`, `resolve_is_identity_solve`, `resolve_with_extra_untouched`); examples.
-/
import Ezpz.Properties.C03
import Ezpz.Proofs.Resolve
set_option linter.unusedSectionVars false
namespace Ezpz.C11
open Ezpz Transc

variable {α : Type} [Add α] [Sub α] [Mul α] [Div α] [Neg α] [OfScientific α]
  [LT α] [DecidableLT α] [LE α] [DecidableLE α] [Transc α]

/-- The residual test of the Newton loop passes at `x` for the requests `es`: residual and Jacobian
evaluate, and the largest absolute residual is within the convergence tolerance. -/
def ConvergedAt (es : List (Entry α)) (cfg : Config α) (x : List α) : Prop :=
  ∃ r w1 jac w2 largest, residualAll es (lookup x) = .ok (r, w1) ∧
    jacobianAll es (lookup x) = .ok (jac, w2) ∧ maxAbs? r = some largest ∧
    largest ≤ cfg.convergenceTolerance

/-- C11.1 (loop) — if the residual test passes at the start values and at least one round is
allowed, the loop returns those values unchanged, with 0 iterations, for *every* LU oracle: no
solver step is taken. -/
theorem converged_guess_untouched_newton (es : List (Entry α)) (cfg : Config α) (x : List α)
    (hc : ConvergedAt es cfg x) (hcap : 1 ≤ cfg.maxIterations)
    (solve : Nat → List (Triplet α) → List α → Except SolveError (List α)) :
    ∃ r, newton es cfg solve x = .ok r ∧ r.values = x ∧ r.iterations = 0 ∧ r.byResidual = true := by
  obtain ⟨r, w1, jac, w2, l, hr, hj, hm, hl⟩ := hc
  obtain ⟨c, hcc⟩ : ∃ c, cfg.maxIterations = c + 1 := ⟨cfg.maxIterations - 1, by omega⟩
  refine ⟨⟨x, 0, [] ++ w1 ++ w2, jac, true⟩, ?_, rfl, rfl, rfl⟩
  unfold newton
  rw [hcc]
  unfold newtonLoop
  rw [newtonStep_converged es cfg solve 0 x [] w1 w2 r jac l hr hj hm hl]

/-- The result does not depend on the LU oracle at all. -/
theorem converged_independent_of_solver (es : List (Entry α)) (cfg : Config α) (x : List α)
    (hc : ConvergedAt es cfg x) (hcap : 1 ≤ cfg.maxIterations)
    (solve solve' : Nat → List (Triplet α) → List α → Except SolveError (List α)) :
    newton es cfg solve x = newton es cfg solve' x := by
  obtain ⟨r, w1, jac, w2, l, hr, hj, hm, hl⟩ := hc
  obtain ⟨c, hcc⟩ : ∃ c, cfg.maxIterations = c + 1 := ⟨cfg.maxIterations - 1, by omega⟩
  unfold newton
  rw [hcc]
  unfold newtonLoop
  rw [newtonStep_converged es cfg solve 0 x [] w1 w2 r jac l hr hj hm hl,
      newtonStep_converged es cfg solve' 0 x [] w1 w2 r jac l hr hj hm hl]

/-- C11.1 (one level) — `solve_inner` on an already converged guess returns the guesses bit for bit,
with 0 iterations; and if each request's own verdict at the guesses is "satisfied", nothing is
listed as unsatisfied. -/
theorem converged_guess_untouched_level (es : List (Entry α)) (g : List (Nat × α)) (cfg : Config α)
    (solve : Nat → List (Triplet α) → List α → Except SolveError (List α))
    (analyze : Option (List (Triplet α) → Except SolveError (List α × List (List α))))
    (hc : ConvergedAt es cfg (g.map (·.2))) (hcap : 1 ≤ cfg.maxIterations)
    (o : Outcome α) (h : solveInner es g cfg solve analyze = .ok o) :
    o.finalValues = g.map (·.2) ∧ o.iterations = 0 ∧
    ((∀ e ∈ es, satisfiedAt e (lookup (g.map (·.2))) = true) → o.unsatisfied = []) := by
  obtain ⟨nr, hn, _, hf, hi, _, _, hu, _⟩ := solveInner_ok es g cfg solve analyze o h
  obtain ⟨r, hr, hv, hit, _⟩ := converged_guess_untouched_newton es cfg _ hc hcap solve
  rw [hr] at hn
  injection hn with hn
  subst hn
  refine ⟨by rw [hf, hv], by rw [hi, hit], ?_⟩
  intro hsat
  have := unsatisfiedSweep_eq _ _ _ hu
  rw [this, hv]
  simp only [List.map_eq_nil_iff, List.filter_eq_nil_iff]
  intro e he
  simp [hsat e he]

/-- C11.1 (one level, success derived) — if model creation succeeds, the residual test passes at
the guesses, at least one round is allowed and the analysis (if any) does not fail, then
`solve_inner` succeeds, returns the guesses bit for bit with 0 iterations, lists exactly the
requests whose own verdict at the guesses is "not satisfied", and reports the largest priority. -/
theorem converged_level_ok (es : List (Entry α)) (g : List (Nat × α)) (cfg : Config α)
    (solve : Nat → List (Triplet α) → List α → Except SolveError (List α))
    (analyze : Option (List (Triplet α) → Except SolveError (List α × List (List α))))
    (hm : modelNew es (g.map (·.1)) = .ok ())
    (hc : ConvergedAt es cfg (g.map (·.2))) (hcap : 1 ≤ cfg.maxIterations)
    (hana : ∀ jac, ∃ u, runAnalysis analyze jac g.length = .ok u) :
    ∃ o, solveInner es g cfg solve analyze = .ok o ∧ o.finalValues = g.map (·.2) ∧
      o.iterations = 0 ∧
      o.unsatisfied = (es.filter (fun e => !satisfiedAt e (lookup (g.map (·.2))))).map (·.id) ∧
      o.prioritySolved = maxPriority es := by
  obtain ⟨r, hr, hv, hit, _⟩ := converged_guess_untouched_newton es cfg _ hc hcap solve
  obtain ⟨rs, w1, _, _, _, hres, _, _, _⟩ := hc
  have hsome := (residualAll_ok_inv _ es rs w1 hres).1
  obtain ⟨us, hus⟩ := unsatisfiedSweep_of_some (lookup (g.map (·.2))) es hsome
  obtain ⟨u, hu⟩ := hana r.lastJac
  have hus' : unsatisfiedSweep es (lookup r.values) = .ok us := by rw [hv]; exact hus
  refine ⟨⟨us, r.values, r.iterations, lint es ++ r.warnings, maxPriority es, u⟩, ?_, hv, hit, ?_,
    rfl⟩
  · unfold solveInner
    simp only [hm, hr, hus', hu]
  · exact unsatisfiedSweep_eq _ _ _ hus

/-- C11.1 (public entry point, given success) — if the residual test passes at the guesses for the
subset attempted at every *visited* level (the distinct requested priorities), a successful
prioritised solve — with or without analysis — returns the guesses bit for bit with 0 iterations;
and if every request's own verdict at the guesses is "satisfied", nothing is listed as
unsatisfied. -/
theorem converged_guess_untouched_of_ok (reqs : List (Constraint α × Nat)) (g : List (Nat × α))
    (cfg : Config α) (solve : LinSolve α) (svd : Option (Svd α)) (hcap : 1 ≤ cfg.maxIterations)
    (hc : ∀ P ∈ levels (enumerate reqs),
      ConvergedAt ((enumerate reqs).filter (fun e => e.priority ≤ P)) cfg (g.map (·.2)))
    (o : Outcome α) (h : solveWithPriority reqs g cfg solve svd = .ok o) :
    o.finalValues = g.map (·.2) ∧ o.iterations = 0 ∧
    ((∀ e ∈ enumerate reqs, satisfiedAt e (lookup (g.map (·.2))) = true) → o.unsatisfied = []) := by
  by_cases hne : reqs = []
  · subst hne
    simp [solveWithPriority, noConstraintsOutcome] at h
    subst h; simp
  · obtain ⟨P, i, hP, hs, _⟩ := C03.result_is_subset_solve reqs g cfg solve svd o hne h
    have hPl : P ∈ levels (enumerate reqs) := by
      rw [mem_levels, enumerate_priorities]; exact hP
    have := converged_guess_untouched_level _ g cfg _ _ (hc P hPl) hcap o hs
    exact ⟨this.1, this.2.1, fun hsat => this.2.2 (fun e he => hsat e (List.mem_filter.mp he).1)⟩

/-- C11.1 (public entry point, success derived, values only) — if model creation succeeds for the
request list, the residual test passes at the guesses for the subset attempted at every visited
level, at least one round is allowed and the analysis (if any) never fails, then the prioritised
solve succeeds and returns the guesses bit for bit with 0 iterations, for every LU oracle. -/
theorem converged_guess_untouched_ok (reqs : List (Constraint α × Nat)) (g : List (Nat × α))
    (cfg : Config α) (solve : LinSolve α) (svd : Option (Svd α)) (hcap : 1 ≤ cfg.maxIterations)
    (hm : modelNew (enumerate reqs) (g.map (·.1)) = .ok ())
    (hc : ∀ P ∈ levels (enumerate reqs),
      ConvergedAt ((enumerate reqs).filter (fun e => e.priority ≤ P)) cfg (g.map (·.2)))
    (hana : ∀ i jac, ∃ u, runAnalysis (svd.map (fun s => s i)) jac g.length = .ok u) :
    ∃ o, solveWithPriority reqs g cfg solve svd = .ok o ∧ o.finalValues = g.map (·.2) ∧
      o.iterations = 0 := by
  by_cases hne : reqs = []
  · subst hne
    exact ⟨_, rfl, rfl, rfl⟩
  · have hl := levels_ne_nil reqs hne
    cases hlv : levels (enumerate reqs) with
    | nil => exact absurd hlv hl
    | cons p rest =>
      have hp : p ∈ levels (enumerate reqs) := by rw [hlv]; simp
      obtain ⟨o1, ho1, _⟩ := converged_level_ok _ g cfg (solve 0) (svd.map (fun s => s 0))
        (modelNew_subset _ _ _ hm (fun _ he => (List.mem_filter.mp he).1)) (hc p hp) hcap (hana 0)
      obtain ⟨o, ho⟩ := priorityLoop_first_ok (enumerate reqs) g cfg solve svd p rest 0 o1 ho1
      have hsolve : solveWithPriority reqs g cfg solve svd = .ok o := by
        unfold solveWithPriority
        rw [if_neg (by simpa using hne), hlv, ho]
      have := converged_guess_untouched_of_ok reqs g cfg solve svd hcap hc o hsolve
      exact ⟨o, hsolve, this.1, this.2.1⟩

/-- C11.1 (public entry point) — **a configuration that already satisfies the constraints is
returned untouched.**  Hypotheses: model creation succeeds for the request list (every declared
variable has a guess); the residual test (convergence tolerance) passes at the guesses for the
subset attempted at every *visited* level, i.e. for every distinct requested priority `P` (subsets
below the smallest requested priority are never run); every request is satisfied at the guesses in
the solver's own sense (`EPSILON` test of the satisfaction sweep — a separate test); at least one
round is allowed; the analysis, if requested, never fails (automatic for `svd = none`).
Conclusion: the solve succeeds, for every LU oracle (no solver step is taken); the values are the
guesses bit for bit; 0 iterations; nothing is unsatisfied; the solved priority is the largest
requested priority (`maxPriority`, see `maxPriority_spec`). -/
theorem converged_guess_untouched (reqs : List (Constraint α × Nat)) (g : List (Nat × α))
    (cfg : Config α) (solve : LinSolve α) (svd : Option (Svd α)) (hcap : 1 ≤ cfg.maxIterations)
    (hm : modelNew (enumerate reqs) (g.map (·.1)) = .ok ())
    (hc : ∀ P ∈ levels (enumerate reqs),
      ConvergedAt ((enumerate reqs).filter (fun e => e.priority ≤ P)) cfg (g.map (·.2)))
    (hsat : ∀ e ∈ enumerate reqs, satisfiedAt e (lookup (g.map (·.2))) = true)
    (hana : ∀ i jac, ∃ u, runAnalysis (svd.map (fun s => s i)) jac g.length = .ok u) :
    ∃ o, solveWithPriority reqs g cfg solve svd = .ok o ∧ o.finalValues = g.map (·.2) ∧
      o.iterations = 0 ∧ o.unsatisfied = [] ∧ o.prioritySolved = maxPriority (enumerate reqs) := by
  by_cases hne : reqs = []
  · subst hne
    exact ⟨_, rfl, rfl, rfl, rfl, rfl⟩
  · -- every visited level, at whatever call number, is good and returns the guesses
    have hlev : ∀ P ∈ levels (enumerate reqs), ∀ i, ∃ o,
        levelRun (enumerate reqs) g cfg solve svd i P = .ok o ∧ o.finalValues = g.map (·.2) ∧
        o.iterations = 0 ∧ o.unsatisfied = [] ∧ o.prioritySolved = P := by
      intro P hP i
      obtain ⟨o, ho, h1, h2, h3, h4⟩ := converged_level_ok _ g cfg (solve i)
        (svd.map (fun s => s i))
        (modelNew_subset _ _ _ hm (fun _ he => (List.mem_filter.mp he).1)) (hc P hP) hcap (hana i)
      refine ⟨o, ho, h1, h2, ?_, ?_⟩
      · rw [h3]
        simp only [List.map_eq_nil_iff, List.filter_eq_nil_iff]
        intro e he
        simp [hsat e (List.mem_filter.mp he).1]
      · rw [h4]; exact maxPriority_filter _ P ((mem_levels _ _).mp hP)
    have hl := levels_ne_nil reqs hne
    obtain ⟨P, hP⟩ : ∃ P, (levels (enumerate reqs)).getLast? = some P := by
      cases h : (levels (enumerate reqs)).getLast? with
      | none => exact absurd (List.getLast?_eq_none_iff.mp h) hl
      | some P => exact ⟨P, rfl⟩
    obtain ⟨i, o, hloop, hrun⟩ := priorityLoop_all_good (enumerate reqs) g cfg solve svd _ 0 none P
      (fun p hp i => by
        obtain ⟨o, ho, _, _, hu, _⟩ := hlev p hp i
        rw [ho]; simp [goodB, hu]) hP
    obtain ⟨o', ho', h1, h2, h3, h4⟩ := hlev P (List.mem_of_getLast? hP) i
    rw [hrun] at ho'
    injection ho' with ho'
    subst ho'
    refine ⟨o, ?_, h1, h2, h3, ?_⟩
    · unfold solveWithPriority
      rw [if_neg (by simpa using hne), hloop]
    · rw [h4]; exact levels_getLast_eq_maxPriority _ P hP

/-- C11.1 for `solve` (no freedom analysis): the analysis hypothesis is vacuous. -/
theorem converged_guess_untouched_no_analysis (reqs : List (Constraint α × Nat))
    (g : List (Nat × α)) (cfg : Config α) (solve : LinSolve α) (hcap : 1 ≤ cfg.maxIterations)
    (hm : modelNew (enumerate reqs) (g.map (·.1)) = .ok ())
    (hc : ∀ P ∈ levels (enumerate reqs),
      ConvergedAt ((enumerate reqs).filter (fun e => e.priority ≤ P)) cfg (g.map (·.2)))
    (hsat : ∀ e ∈ enumerate reqs, satisfiedAt e (lookup (g.map (·.2))) = true) :
    ∃ o, solveWithPriority reqs g cfg solve none = .ok o ∧ o.finalValues = g.map (·.2) ∧
      o.iterations = 0 ∧ o.unsatisfied = [] ∧ o.prioritySolved = maxPriority (enumerate reqs) ∧
      o.underconstrained = none := by
  obtain ⟨o, h, h1, h2, h3, h4⟩ := converged_guess_untouched reqs g cfg solve none hcap hm hc hsat
    (fun _ _ => ⟨none, rfl⟩)
  refine ⟨o, h, h1, h2, h3, h4, ?_⟩
  by_cases hne : reqs = []
  · subst hne
    simp [solveWithPriority, noConstraintsOutcome] at h
    subst h; rfl
  · obtain ⟨P, i, _, hs, _⟩ := C03.result_is_subset_solve reqs g cfg solve none o hne h
    obtain ⟨_, _, _, _, _, _, _, _, ha⟩ := solveInner_ok _ _ _ _ _ _ hs
    simp [runAnalysis] at ha
    exact ha.symm

/-- C11.2a — a run that returned at the *residual* test returned a point at which the residual test
passes (the hypothesis of C11.1 for a re-solve). -/
theorem residual_stop_is_converged (es : List (Entry α)) (cfg : Config α)
    (solve : Nat → List (Triplet α) → List α → Except SolveError (List α)) :
    ∀ (fuel k : Nat) (x : List α) (ws : List (Warning α)) (r : NewtonOk α),
      newtonLoop es cfg solve fuel k x ws = .ok r → r.byResidual = true →
      ConvergedAt es cfg r.values := by
  intro fuel
  induction fuel with
  | zero => intro k x ws r h; simp [newtonLoop] at h
  | succ fuel ih =>
    intro k x ws r h hb
    unfold newtonLoop at h
    split at h
    · rename_i r' hs
      injection h with h; subst h
      -- a `done` with the ghost flag set comes from the residual test
      unfold newtonStep at hs
      split at hs
      · simp at hs
      · rename_i rr w1 hres
        split at hs
        · simp at hs
        · rename_i jac w2 hjac
          split at hs
          · simp at hs
          · rename_i largest hm
            split at hs
            · rename_i hl
              injection hs with hs; subst hs
              exact ⟨rr, w1, jac, w2, largest, hres, hjac, hm, hl⟩
            · split at hs
              · simp at hs
              · split at hs
                · simp at hs
                · split at hs
                  · simp at hs
                  · split at hs
                    · injection hs with hs; subst hs; simp at hb
                    · simp at hs
    · simp at h
    · exact ih (k + 1) _ _ r h hb

/-- C11.2 — **a solved sketch does not drift**: re-solving from a result that was returned at the
residual test returns that same result with 0 iterations (and so on, for chains of any length). -/
theorem resolve_is_identity (es : List (Entry α)) (cfg : Config α)
    (solve solve' : Nat → List (Triplet α) → List α → Except SolveError (List α)) (x : List α)
    (r : NewtonOk α) (h : newton es cfg solve x = .ok r) (hb : r.byResidual = true) :
    ∃ r', newton es cfg solve' r.values = .ok r' ∧ r'.values = r.values ∧ r'.iterations = 0 ∧
      r'.byResidual = true := by
  have hc := residual_stop_is_converged es cfg solve cfg.maxIterations 0 x [] r h hb
  have hcap : 1 ≤ cfg.maxIterations := by
    have := newtonLoop_iterations es cfg solve cfg.maxIterations 0 x [] r h
    omega
  exact converged_guess_untouched_newton es cfg r.values hc hcap solve'

/-! ### The residual test of sub-lists and concatenations (under order laws)

`ConvergedAt` compares the *largest* absolute residual component with the tolerance.  That this is
inherited by sub-lists and concatenations needs the order laws `MaxLaws` of `≤`/`fmax` (true over
ℝ, `Ezpz.maxLaws_real`; false for `Float`, where `fmax` skips NaN components). -/

/-- Under the order laws, the residual test passes for a request list iff the list is not empty,
every request's residual and derivative rows evaluate, and every residual component of every
request is within the convergence tolerance.  Ids, priorities and row offsets play no role. -/
theorem convergedAt_iff (L : MaxLaws α) (es : List (Entry α)) (cfg : Config α) (x : List α) :
    ConvergedAt es cfg x ↔ es ≠ [] ∧ (∀ e ∈ es, ∃ r, e.c.residual (lookup x) = some r) ∧
      (∀ e ∈ es, ∃ j, e.c.jacobianRows (lookup x) = some j) ∧
      ∀ e ∈ es, ∀ y ∈ entryRows e (lookup x), abs y ≤ cfg.convergenceTolerance := by
  constructor
  · rintro ⟨r, w1, jac, w2, l, hr, hj, hm, hl⟩
    obtain ⟨h1, h2⟩ := residualAll_ok_inv _ es r w1 hr
    have h3 := jacobianFrom_ok_inv _ _ es 0 jac w2 hj
    refine ⟨?_, h1, h3, ?_⟩
    · rintro rfl
      simp at h2
      subst h2
      simp [maxAbs?] at hm
    · intro e he y hy
      exact (maxAbs?_le_iff L r l _ hm).mp hl y
        (by rw [h2]; exact List.mem_flatMap.mpr ⟨e, he, hy⟩)
  · rintro ⟨hne, h1, h3, h4⟩
    obtain ⟨w1, hr⟩ := residualAll_of_some _ es h1
    obtain ⟨jac, w2, hj⟩ := jacobianAll_of_some _ es h3
    have hrs : es.flatMap (fun e => entryRows e (lookup x)) ≠ [] := by
      cases es with
      | nil => exact absurd rfl hne
      | cons e rest =>
        obtain ⟨r, hr⟩ := h1 e (by simp)
        have := entryRows_ne_nil e _ r hr
        simp [List.flatMap_cons, this]
    obtain ⟨m, hm⟩ := maxAbs?_some_of_ne_nil _ hrs
    refine ⟨_, w1, jac, w2, m, hr, hj, hm, ?_⟩
    apply (maxAbs?_le_iff L _ m _ hm).mpr
    intro y hy
    obtain ⟨e, he, hy⟩ := List.mem_flatMap.mp hy
    exact h4 e he y hy

/-- **The residual test passes to sub-lists**: if it passes for `es` it passes for every non-empty
list drawn from `es` (sub-lists, filters by priority, reorderings) — the largest absolute
component over fewer rows is no larger.  (An empty list never passes, and is never run.) -/
theorem ConvergedAt_subset (L : MaxLaws α) (es es' : List (Entry α)) (cfg : Config α) (x : List α)
    (h : ConvergedAt es cfg x) (hsub : ∀ e ∈ es', e ∈ es) (hne : es' ≠ []) :
    ConvergedAt es' cfg x := by
  obtain ⟨_, h1, h2, h3⟩ := (convergedAt_iff L es cfg x).mp h
  exact (convergedAt_iff L es' cfg x).mpr
    ⟨hne, fun e he => h1 e (hsub e he), fun e he => h2 e (hsub e he),
      fun e he => h3 e (hsub e he)⟩

/-- **The residual test passes to concatenations**: if it passes for `es` and for `extra` at the
same point, it passes for `es ++ extra` (no id or row-offset condition is needed). -/
theorem ConvergedAt_append (L : MaxLaws α) (es extra : List (Entry α)) (cfg : Config α)
    (x : List α) (h1 : ConvergedAt es cfg x) (h2 : ConvergedAt extra cfg x) :
    ConvergedAt (es ++ extra) cfg x := by
  obtain ⟨hne, a1, a2, a3⟩ := (convergedAt_iff L es cfg x).mp h1
  obtain ⟨_, b1, b2, b3⟩ := (convergedAt_iff L extra cfg x).mp h2
  refine (convergedAt_iff L _ cfg x).mpr ⟨by simp [hne], ?_, ?_, ?_⟩ <;>
  · intro e he
    rcases List.mem_append.mp he with he | he
    · first | exact a1 e he | exact a2 e he | exact a3 e he
    · first | exact b1 e he | exact b2 e he | exact b3 e he

/-- The residual test depends only on the constraints, not on ids or priorities. -/
theorem ConvergedAt_congr (L : MaxLaws α) (es es' : List (Entry α)) (cfg : Config α) (x : List α)
    (hcs : es.map (·.c) = es'.map (·.c)) : ConvergedAt es cfg x ↔ ConvergedAt es' cfg x := by
  have key : ∀ (l : List (Entry α)), ConvergedAt l cfg x ↔
      l.map (·.c) ≠ [] ∧ (∀ c ∈ l.map (·.c), ∃ r, c.residual (lookup x) = some r) ∧
      (∀ c ∈ l.map (·.c), ∃ j, c.jacobianRows (lookup x) = some j) ∧
      ∀ c ∈ l.map (·.c), ∀ y ∈ entryRows (⟨c, 0, 0⟩ : Entry α) (lookup x),
        abs y ≤ cfg.convergenceTolerance := by
    intro l
    rw [convergedAt_iff L]
    simp only [ne_eq, List.map_eq_nil_iff, List.forall_mem_map]
    rfl
  rw [key es, key es', hcs]

/-- The residual test for a caller's concatenated request list, from the two parts. -/
theorem ConvergedAt_enumerate_append (L : MaxLaws α) (reqs extra : List (Constraint α × Nat))
    (cfg : Config α) (x : List α) (h1 : ConvergedAt (enumerate reqs) cfg x)
    (h2 : ConvergedAt (enumerate extra) cfg x) : ConvergedAt (enumerate (reqs ++ extra)) cfg x := by
  have := ConvergedAt_append L _ _ cfg x h1 h2
  refine (ConvergedAt_congr L _ _ cfg x ?_).mp this
  simp [enumerate_constraints]

/-- C11.1 from the full list only (under the order laws): it is enough that the residual test
passes for the *whole* request list — the subsets attempted at the lower levels inherit it. -/
theorem converged_guess_untouched_of_full (L : MaxLaws α) (reqs : List (Constraint α × Nat))
    (g : List (Nat × α)) (cfg : Config α) (solve : LinSolve α) (svd : Option (Svd α))
    (hcap : 1 ≤ cfg.maxIterations)
    (hm : modelNew (enumerate reqs) (g.map (·.1)) = .ok ())
    (hc : ConvergedAt (enumerate reqs) cfg (g.map (·.2)))
    (hsat : ∀ e ∈ enumerate reqs, satisfiedAt e (lookup (g.map (·.2))) = true)
    (hana : ∀ i jac, ∃ u, runAnalysis (svd.map (fun s => s i)) jac g.length = .ok u) :
    ∃ o, solveWithPriority reqs g cfg solve svd = .ok o ∧ o.finalValues = g.map (·.2) ∧
      o.iterations = 0 ∧ o.unsatisfied = [] ∧ o.prioritySolved = maxPriority (enumerate reqs) :=
  converged_guess_untouched reqs g cfg solve svd hcap hm
    (fun P hP => ConvergedAt_subset L _ _ cfg _ hc (fun _ he => (List.mem_filter.mp he).1)
      (filter_level_ne_nil _ P hP)) hsat hana

/-- C11.3 — **adding constraints the configuration already satisfies changes nothing** (under the
order laws): if the residual test passes at the guesses for `reqs` and for `extra`, the solve of
`reqs ++ extra` from those guesses succeeds and returns them bit for bit with 0 iterations; if
moreover every request is satisfied in the sweep's sense, nothing is unsatisfied and the solved
priority is the largest one. -/
theorem converged_guess_untouched_append (L : MaxLaws α) (reqs extra : List (Constraint α × Nat))
    (g : List (Nat × α)) (cfg : Config α) (solve : LinSolve α) (svd : Option (Svd α))
    (hcap : 1 ≤ cfg.maxIterations)
    (hm : modelNew (enumerate (reqs ++ extra)) (g.map (·.1)) = .ok ())
    (hc1 : ConvergedAt (enumerate reqs) cfg (g.map (·.2)))
    (hc2 : ConvergedAt (enumerate extra) cfg (g.map (·.2)))
    (hana : ∀ i jac, ∃ u, runAnalysis (svd.map (fun s => s i)) jac g.length = .ok u) :
    ∃ o, solveWithPriority (reqs ++ extra) g cfg solve svd = .ok o ∧
      o.finalValues = g.map (·.2) ∧ o.iterations = 0 ∧
      ((∀ e ∈ enumerate (reqs ++ extra), satisfiedAt e (lookup (g.map (·.2))) = true) →
        o.unsatisfied = [] ∧ o.prioritySolved = maxPriority (enumerate (reqs ++ extra))) := by
  have hc := ConvergedAt_enumerate_append L reqs extra cfg _ hc1 hc2
  have hlv : ∀ P ∈ levels (enumerate (reqs ++ extra)),
      ConvergedAt ((enumerate (reqs ++ extra)).filter (fun e => e.priority ≤ P)) cfg
        (g.map (·.2)) :=
    fun P hP => ConvergedAt_subset L _ _ cfg _ hc (fun _ he => (List.mem_filter.mp he).1)
      (filter_level_ne_nil _ P hP)
  obtain ⟨o, ho, h1, h2⟩ := converged_guess_untouched_ok _ g cfg solve svd hcap hm hlv hana
  refine ⟨o, ho, h1, h2, ?_⟩
  intro hsat
  obtain ⟨o', ho', _, _, h3, h4⟩ := converged_guess_untouched _ g cfg solve svd hcap hm hlv hsat hana
  rw [ho] at ho'
  injection ho' with ho'
  subst ho'
  exact ⟨h3, h4⟩

/-! ### Re-solving the result of a prioritised solve -/

/-- C11.2b — if a prioritised solve returned the outcome of its *top* level (solved priority =
largest requested priority) and every Newton run on the full list from the guesses stops at the
residual test (ghost flag `byResidual`), the residual test passes for the full list at the
returned values. -/
theorem solve_residual_stop_converged (reqs : List (Constraint α × Nat)) (g : List (Nat × α))
    (cfg : Config α) (solve : LinSolve α) (svd : Option (Svd α)) (o : Outcome α)
    (hne : reqs ≠ []) (h : solveWithPriority reqs g cfg solve svd = .ok o)
    (htop : o.prioritySolved = maxPriority (enumerate reqs))
    (hb : ∀ i nr, newton (enumerate reqs) cfg (solve i) (g.map (·.2)) = .ok nr →
      nr.byResidual = true) :
    ConvergedAt (enumerate reqs) cfg o.finalValues := by
  obtain ⟨P, i, _, hs, hp⟩ := C03.result_is_subset_solve reqs g cfg solve svd o hne h
  rw [← hp, htop, filter_le_maxPriority] at hs
  obtain ⟨nr, hn, _, hf, _⟩ := solveInner_ok _ _ _ _ _ _ hs
  rw [hf]
  exact residual_stop_is_converged _ cfg (solve i) cfg.maxIterations 0 _ [] nr hn (hb i nr hn)

/-- With a single requested priority, the returned outcome is always that of the top level. -/
theorem single_priority_top (reqs : List (Constraint α × Nat)) (g : List (Nat × α))
    (cfg : Config α) (solve : LinSolve α) (svd : Option (Svd α)) (o : Outcome α) (p : Nat)
    (hp : ∀ r ∈ reqs, r.2 = p) (h : solveWithPriority reqs g cfg solve svd = .ok o) :
    o.prioritySolved = maxPriority (enumerate reqs) := by
  by_cases hne : reqs = []
  · subst hne
    simp [solveWithPriority, noConstraintsOutcome] at h
    subst h; rfl
  · obtain ⟨P, i, ⟨r, hr, hrP⟩, _, hP⟩ := C03.result_is_subset_solve reqs g cfg solve svd o hne h
    have hen : enumerate reqs ≠ [] := by
      intro hnil
      have := enumerate_length reqs
      rw [hnil] at this
      exact hne (List.eq_nil_of_length_eq_zero this.symm)
    obtain ⟨⟨e, he, hmax⟩, _⟩ := maxPriority_spec (enumerate reqs) hen
    obtain ⟨r', hr', hr'p⟩ := (enumerate_priorities reqs _).mp ⟨e, he, hmax⟩
    rw [hP, ← hrP, hp r hr, ← hr'p, hp r' hr']

/-- C11.2 (public entry point) — **re-solving a result returns it unchanged.**  Let a prioritised
solve return `o` from its top level (`htop`; automatic for single-priority lists,
`single_priority_top`), and let the residual test pass at `o.finalValues` for the subset of every
visited level (`hc`; under the order laws this follows from the full list alone, see
`resolve_is_identity_solve`).  Then solving the same requests again from `o.finalValues` (same
variable ids; any LU oracle; any analysis that does not fail) succeeds and returns the same values
with 0 iterations; and if nothing was unsatisfied, nothing is unsatisfied and the solved priority
is the same. -/
theorem resolve_untouched (reqs : List (Constraint α × Nat)) (g g' : List (Nat × α))
    (cfg : Config α) (solve solve' : LinSolve α) (svd svd' : Option (Svd α)) (o : Outcome α)
    (h : solveWithPriority reqs g cfg solve svd = .ok o)
    (hids : g'.map (·.1) = g.map (·.1)) (hvals : g'.map (·.2) = o.finalValues)
    (htop : o.prioritySolved = maxPriority (enumerate reqs))
    (hc : ∀ P ∈ levels (enumerate reqs),
      ConvergedAt ((enumerate reqs).filter (fun e => e.priority ≤ P)) cfg o.finalValues)
    (hana : ∀ i jac, ∃ u, runAnalysis (svd'.map (fun s => s i)) jac g'.length = .ok u) :
    ∃ o', solveWithPriority reqs g' cfg solve' svd' = .ok o' ∧ o'.finalValues = o.finalValues ∧
      o'.iterations = 0 ∧
      (o.unsatisfied = [] → o'.unsatisfied = [] ∧ o'.prioritySolved = o.prioritySolved) := by
  by_cases hne : reqs = []
  · subst hne
    simp [solveWithPriority, noConstraintsOutcome] at h
    subst h
    exact ⟨_, rfl, hvals, rfl, fun _ => ⟨rfl, rfl⟩⟩
  · obtain ⟨P, i, _, hs, hp⟩ := C03.result_is_subset_solve reqs g cfg solve svd o hne h
    rw [← hp, htop, filter_le_maxPriority] at hs
    obtain ⟨nr, hn, hm, hf, _, _, _, hu, _⟩ := solveInner_ok _ _ _ _ _ _ hs
    have hcap : 1 ≤ cfg.maxIterations := by
      have := newtonLoop_iterations _ cfg (solve i) cfg.maxIterations 0 _ [] nr hn
      omega
    have hm' : modelNew (enumerate reqs) (g'.map (·.1)) = .ok () := by rw [hids]; exact hm
    have hc' : ∀ P ∈ levels (enumerate reqs),
        ConvergedAt ((enumerate reqs).filter (fun e => e.priority ≤ P)) cfg (g'.map (·.2)) := by
      rw [hvals]; exact hc
    obtain ⟨o', ho', h1, h2⟩ :=
      converged_guess_untouched_ok reqs g' cfg solve' svd' hcap hm' hc' hana
    refine ⟨o', ho', by rw [h1, hvals], h2, ?_⟩
    intro hun
    have hsat : ∀ e ∈ enumerate reqs, satisfiedAt e (lookup (g'.map (·.2))) = true := by
      have := unsatisfiedSweep_eq _ _ _ hu
      rw [hun] at this
      have := this.symm
      simp only [List.map_eq_nil_iff, List.filter_eq_nil_iff] at this
      intro e he
      have := this e he
      rw [hvals, hf]
      simpa using this
    obtain ⟨o'', ho'', _, _, h3, h4⟩ :=
      converged_guess_untouched reqs g' cfg solve' svd' hcap hm' hc' hsat hana
    rw [ho'] at ho''
    injection ho'' with ho''
    subst ho''
    exact ⟨h3, by rw [h4, htop]⟩

/-- C11.2 under the order laws: it is enough that the residual test passes at the returned values
for the *full* request list (which is what a top-level run that stopped at the residual test
guarantees, `solve_residual_stop_converged`). -/
theorem resolve_is_identity_solve (L : MaxLaws α) (reqs : List (Constraint α × Nat))
    (g g' : List (Nat × α)) (cfg : Config α) (solve solve' : LinSolve α)
    (svd svd' : Option (Svd α)) (o : Outcome α)
    (h : solveWithPriority reqs g cfg solve svd = .ok o)
    (hids : g'.map (·.1) = g.map (·.1)) (hvals : g'.map (·.2) = o.finalValues)
    (htop : o.prioritySolved = maxPriority (enumerate reqs))
    (hc : ConvergedAt (enumerate reqs) cfg o.finalValues)
    (hana : ∀ i jac, ∃ u, runAnalysis (svd'.map (fun s => s i)) jac g'.length = .ok u) :
    ∃ o', solveWithPriority reqs g' cfg solve' svd' = .ok o' ∧ o'.finalValues = o.finalValues ∧
      o'.iterations = 0 ∧
      (o.unsatisfied = [] → o'.unsatisfied = [] ∧ o'.prioritySolved = o.prioritySolved) :=
  resolve_untouched reqs g g' cfg solve solve' svd svd' o h hids hvals htop
    (fun P hP => ConvergedAt_subset L _ _ cfg _ hc (fun _ he => (List.mem_filter.mp he).1)
      (filter_level_ne_nil _ P hP)) hana

/-- C11.2 + C11.3 under the order laws — **re-solving with further constraints that the result
already satisfies returns it unchanged**: if the first solve returned `o` from its top level at the
residual test, and the residual test also passes at `o.finalValues` for the added requests
`extra`, then the solve of `reqs ++ extra` from `o.finalValues` (model creation succeeding for the
longer list) returns the same values with 0 iterations. -/
theorem resolve_with_extra_untouched (L : MaxLaws α) (reqs extra : List (Constraint α × Nat))
    (g g' : List (Nat × α)) (cfg : Config α) (solve solve' : LinSolve α)
    (svd svd' : Option (Svd α)) (o : Outcome α) (hne : reqs ≠ [])
    (h : solveWithPriority reqs g cfg solve svd = .ok o)
    (hvals : g'.map (·.2) = o.finalValues)
    (htop : o.prioritySolved = maxPriority (enumerate reqs))
    (hb : ∀ i nr, newton (enumerate reqs) cfg (solve i) (g.map (·.2)) = .ok nr →
      nr.byResidual = true)
    (hextra : ConvergedAt (enumerate extra) cfg o.finalValues)
    (hm : modelNew (enumerate (reqs ++ extra)) (g'.map (·.1)) = .ok ())
    (hana : ∀ i jac, ∃ u, runAnalysis (svd'.map (fun s => s i)) jac g'.length = .ok u) :
    ∃ o', solveWithPriority (reqs ++ extra) g' cfg solve' svd' = .ok o' ∧
      o'.finalValues = o.finalValues ∧ o'.iterations = 0 ∧
      ((∀ e ∈ enumerate (reqs ++ extra), satisfiedAt e (lookup o.finalValues) = true) →
        o'.unsatisfied = [] ∧ o'.prioritySolved = maxPriority (enumerate (reqs ++ extra))) := by
  have hc := solve_residual_stop_converged reqs g cfg solve svd o hne h htop hb
  have hcap : 1 ≤ cfg.maxIterations := by
    have := C03.result_is_subset_solve reqs g cfg solve svd o hne h
    obtain ⟨P, i, _, hs, _⟩ := this
    have := solveInner_iterations_lt _ _ _ _ _ _ hs
    omega
  rw [← hvals] at hc hextra ⊢
  obtain ⟨o', ho', h1, h2, h3⟩ :=
    converged_guess_untouched_append L reqs extra g' cfg solve' svd' hcap hm hc hextra hana
  exact ⟨o', ho', h1, h2, h3⟩

/-! ### Non-vacuity -/

/-- `ConvergedAt` holds for a concrete system at a concrete point (`Fixed(0, 1.0)` at `[1.0]`). -/
example : ConvergedAt [⟨Constraint.fixed 0 (1.0 : Float), 0, 0⟩] Config.default [1.0] :=
  ⟨[0.0], [], [(0, 0, 1.0)], [], 0.0, rfl, rfl, rfl, by decide⟩

/-- The residual test never passes for the empty list (`maxAbs? [] = none` is the
"empty system" error).  This is why the hypothesis of C11.1 ranges over the *visited* levels only:
for `P` below the smallest requested priority the subset `priority ≤ P` is empty. -/
theorem not_convergedAt_nil (cfg : Config α) (x : List α) : ¬ ConvergedAt [] cfg x := by
  rintro ⟨r, w1, jac, w2, l, hr, _, hm, _⟩
  simp [residualAll] at hr
  obtain ⟨rfl, _⟩ := hr
  simp [maxAbs?] at hm

/-- Two requests with priorities 3 and 7 (no request has priority 0), satisfied at the guesses. -/
def exReqs : List (Constraint Float × Nat) :=
  [(Constraint.fixed 0 1.0, 3), (Constraint.fixed 1 2.0, 7)]

/-- The hypotheses of `converged_guess_untouched` hold for `exReqs` at the guesses
`x0 = 1.0, x1 = 2.0` with the default configuration, and the theorem gives the outcome, for every
LU oracle. -/
example (solve : LinSolve Float) :
    ∃ o, solveWithPriority exReqs [(0, 1.0), (1, 2.0)] Config.default solve none = .ok o ∧
      o.finalValues = [1.0, 2.0] ∧ o.iterations = 0 ∧ o.unsatisfied = [] ∧
      o.prioritySolved = 7 ∧ o.underconstrained = none :=
  converged_guess_untouched_no_analysis exReqs [(0, 1.0), (1, 2.0)] Config.default solve
    (by decide) rfl
    (by
      intro P hP
      have hl : levels (enumerate exReqs) = [3, 7] := by decide
      rw [hl] at hP
      simp only [List.mem_cons, List.not_mem_nil, or_false] at hP
      rcases hP with rfl | rfl
      · exact ⟨[0.0], [], [(0, 0, 1.0)], [], 0.0, rfl, rfl, rfl, by decide⟩
      · exact ⟨[0.0, 0.0], [], [(0, 0, 1.0), (1, 1, 1.0)], [], 0.0, rfl, rfl, rfl, by decide⟩)
    (by decide)

/-- The old hypothesis (`∀ P`, not only visited levels) is unsatisfiable for `exReqs`. -/
example : ¬ ∀ P, ConvergedAt ((enumerate exReqs).filter (fun e => e.priority ≤ P)) Config.default
    [1.0, 2.0] :=
  fun h => not_convergedAt_nil _ _ (h 0)

/-- An LU oracle that answers `[1.0, 2.0]` whatever it is asked. -/
def exOracle : LinSolve Float := fun _ _ _ _ => .ok [1.0, 2.0]

/-- The hypotheses of `resolve_untouched` hold for a genuine two-level solve of `exReqs` from the
guesses `0.0, 0.0` (each level takes one step with `exOracle` and stops at the residual test in
round 1), and the theorem says that re-solving from the result with any oracle returns it with 0
iterations. -/
example (solve' : LinSolve Float) :
    ∃ o', solveWithPriority exReqs [(0, 1.0), (1, 2.0)] Config.default solve' none = .ok o' ∧
      o'.finalValues = [1.0, 2.0] ∧ o'.iterations = 0 ∧
      (([] : List Nat) = [] → o'.unsatisfied = [] ∧ o'.prioritySolved = 7) :=
  resolve_untouched exReqs [(0, 0.0), (1, 0.0)] [(0, 1.0), (1, 2.0)] Config.default exOracle solve'
    none none ⟨[], [1.0, 2.0], 1, [], 7, none⟩ rfl rfl rfl rfl
    (by
      intro P hP
      have hl : levels (enumerate exReqs) = [3, 7] := by decide
      rw [hl] at hP
      simp only [List.mem_cons, List.not_mem_nil, or_false] at hP
      rcases hP with rfl | rfl
      · exact ⟨[0.0], [], [(0, 0, 1.0)], [], 0.0, rfl, rfl, rfl, by decide⟩
      · exact ⟨[0.0, 0.0], [], [(0, 0, 1.0), (1, 1, 1.0)], [], 0.0, rfl, rfl, rfl, by decide⟩)
    (fun _ _ => ⟨none, rfl⟩)

/-- The ghost hypothesis of `solve_residual_stop_converged` holds for that solve: the top-level
Newton run stops at the residual test, for every call number. -/
example : ∀ i nr, newton (enumerate exReqs) Config.default (exOracle i) [0.0, 0.0] = .ok nr →
    nr.byResidual = true := by
  intro i nr h
  have : newton (enumerate exReqs) Config.default (exOracle i) [0.0, 0.0] =
      .ok ⟨[1.0, 2.0], 1, [], [(0, 0, 1.0), (1, 1, 1.0)], true⟩ := rfl
  rw [this] at h
  injection h with h
  subst h
  rfl

/-- The order laws cannot be dropped from `ConvergedAt_subset`: for `Float`, with a NaN guess for
`x0`, the residual test passes for the two requests of `exReqs` together (`fmax` skips the NaN
component `NaN - 1.0` and keeps `|2.0 - 2.0|`), but not for the level-3 subset alone. -/
example : ConvergedAt (enumerate exReqs) Config.default [0.0 / 0.0, 2.0] ∧
    ¬ ConvergedAt ((enumerate exReqs).filter (fun e => e.priority ≤ 3)) Config.default
      [0.0 / 0.0, 2.0] := by
  constructor
  · exact ⟨_, _, _, _, _, rfl, rfl, rfl, by decide⟩
  · rintro ⟨r, w1, jac, w2, l, hr, _, hm, hl⟩
    have h1 : residualAll ((enumerate exReqs).filter (fun e => e.priority ≤ 3))
        (lookup [0.0 / 0.0, 2.0]) = .ok ([0.0 / 0.0 - 1.0], []) := rfl
    rw [h1] at hr
    injection hr with hr
    injection hr with hr _
    subst hr
    have h2 : maxAbs? [(0.0 / 0.0 - 1.0 : Float)] = some (Float.abs (0.0 / 0.0 - 1.0)) := rfl
    rw [h2] at hm
    injection hm with hm
    subst hm
    revert hl
    decide

/-- An LU oracle that answers `[1.0, 0.0]` at the first level and fails at the second. -/
def exOracleA : LinSolve Float :=
  fun call _ _ _ => if call = 0 then .ok [1.0, 0.0] else .error .faerSolve

/-- An LU oracle that answers `[0.0, 2.0]` whatever it is asked. -/
def exOracleB : LinSolve Float := fun _ _ _ _ => .ok [0.0, 2.0]

/-- The hypothesis `htop` of `resolve_untouched` cannot be dropped: a *fallback* result is not a
fixed point of re-solving.  With `exOracleA` the second level of the first solve fails, so the
solve returns the first level's outcome (`x = [1.0, 0.0]`, solved priority 3, nothing unsatisfied,
stopped at the residual test).  Solving again from those values with `exOracleB`, the second level
now succeeds and the values move to `[1.0, 2.0]` in one iteration. -/
example :
    solveWithPriority exReqs [(0, 0.0), (1, 0.0)] Config.default exOracleA none =
      .ok ⟨[], [1.0, 0.0], 1, [], 3, none⟩ ∧
    solveWithPriority exReqs [(0, 1.0), (1, 0.0)] Config.default exOracleB none =
      .ok ⟨[], [1.0, 2.0], 1, [], 7, none⟩ := ⟨rfl, rfl⟩

end Ezpz.C11
