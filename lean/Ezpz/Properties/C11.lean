/-
C11 — A configuration that already satisfies the constraints is left untouched.

All theorems hold for every scalar type and every LU oracle (which is never called).
-/
import Ezpz.Properties.C03
set_option linter.unusedSectionVars false
namespace Ezpz.C11
open Ezpz Transc

variable {α : Type} [Add α] [Sub α] [Mul α] [Div α] [Neg α] [OfScientific α]
  [LT α] [DecidableLT α] [LE α] [DecidableLE α] [Transc α]

/-- The residual test of the Newton loop passes at `x` for the requests `es`: residual and Jacobian
evaluate, and the largest absolute residual is within the convergence tolerance. -/
def ConvergedAt (es : List (Entry α)) (cfg : Config α) (x : List α) : Prop :=
  ∃ r w1 jac w2 largest, residualAll es (lookup x) = .ok (r, w1) ∧
    jacobianAll es (lookup x) = .ok (jac, w2) ∧ maxAbs? r = some largest ∧
    largest ≤ cfg.convergenceTolerance

/-- C11.1 (loop) — if the residual test passes at the start values and at least one round is
allowed, the loop returns those values unchanged, with 0 iterations, for *every* LU oracle: no
solver step is taken. -/
theorem converged_guess_untouched_newton (es : List (Entry α)) (cfg : Config α) (x : List α)
    (hc : ConvergedAt es cfg x) (hcap : 1 ≤ cfg.maxIterations)
    (solve : Nat → List (Triplet α) → List α → Except SolveError (List α)) :
    ∃ r, newton es cfg solve x = .ok r ∧ r.values = x ∧ r.iterations = 0 ∧ r.byResidual = true := by
  obtain ⟨r, w1, jac, w2, l, hr, hj, hm, hl⟩ := hc
  obtain ⟨c, hcc⟩ : ∃ c, cfg.maxIterations = c + 1 := ⟨cfg.maxIterations - 1, by omega⟩
  refine ⟨⟨x, 0, [] ++ w1 ++ w2, jac, true⟩, ?_, rfl, rfl, rfl⟩
  unfold newton
  rw [hcc]
  unfold newtonLoop
  rw [newtonStep_converged es cfg solve 0 x [] w1 w2 r jac l hr hj hm hl]

/-- The result does not depend on the LU oracle at all. -/
theorem converged_independent_of_solver (es : List (Entry α)) (cfg : Config α) (x : List α)
    (hc : ConvergedAt es cfg x) (hcap : 1 ≤ cfg.maxIterations)
    (solve solve' : Nat → List (Triplet α) → List α → Except SolveError (List α)) :
    newton es cfg solve x = newton es cfg solve' x := by
  obtain ⟨r, w1, jac, w2, l, hr, hj, hm, hl⟩ := hc
  obtain ⟨c, hcc⟩ : ∃ c, cfg.maxIterations = c + 1 := ⟨cfg.maxIterations - 1, by omega⟩
  unfold newton
  rw [hcc]
  unfold newtonLoop
  rw [newtonStep_converged es cfg solve 0 x [] w1 w2 r jac l hr hj hm hl,
      newtonStep_converged es cfg solve' 0 x [] w1 w2 r jac l hr hj hm hl]

/-- C11.1 (one level) — `solve_inner` on an already converged guess returns the guesses bit for bit,
with 0 iterations; and if each request's own verdict at the guesses is "satisfied", nothing is
listed as unsatisfied. -/
theorem converged_guess_untouched_level (es : List (Entry α)) (g : List (Nat × α)) (cfg : Config α)
    (solve : Nat → List (Triplet α) → List α → Except SolveError (List α))
    (analyze : Option (List (Triplet α) → Except SolveError (List α × List (List α))))
    (hc : ConvergedAt es cfg (g.map (·.2))) (hcap : 1 ≤ cfg.maxIterations)
    (o : Outcome α) (h : solveInner es g cfg solve analyze = .ok o) :
    o.finalValues = g.map (·.2) ∧ o.iterations = 0 ∧
    ((∀ e ∈ es, satisfiedAt e (lookup (g.map (·.2))) = true) → o.unsatisfied = []) := by
  obtain ⟨nr, hn, _, hf, hi, _, _, hu, _⟩ := solveInner_ok es g cfg solve analyze o h
  obtain ⟨r, hr, hv, hit, _⟩ := converged_guess_untouched_newton es cfg _ hc hcap solve
  rw [hr] at hn
  injection hn with hn
  subst hn
  refine ⟨by rw [hf, hv], by rw [hi, hit], ?_⟩
  intro hsat
  have := unsatisfiedSweep_eq _ _ _ hu
  rw [this, hv]
  simp only [List.map_eq_nil_iff, List.filter_eq_nil_iff]
  intro e he
  simp [hsat e he]

/-- C11.1 (public entry point) — if the residual test passes at the guesses for every attempted
subset, a successful prioritised solve returns the guesses bit for bit with 0 iterations. -/
theorem converged_guess_untouched (reqs : List (Constraint α × Nat)) (g : List (Nat × α))
    (cfg : Config α) (solve : LinSolve α) (svd : Option (Svd α)) (hcap : 1 ≤ cfg.maxIterations)
    (hc : ∀ P, ConvergedAt ((enumerate reqs).filter (fun e => e.priority ≤ P)) cfg (g.map (·.2)))
    (o : Outcome α) (h : solveWithPriority reqs g cfg solve svd = .ok o) :
    o.finalValues = g.map (·.2) ∧ o.iterations = 0 := by
  by_cases hne : reqs = []
  · subst hne
    simp [solveWithPriority, noConstraintsOutcome] at h
    subst h; simp
  · obtain ⟨P, i, _, hs, _⟩ := C03.result_is_subset_solve reqs g cfg solve svd o hne h
    have := converged_guess_untouched_level _ g cfg _ _ (hc P) hcap o hs
    exact ⟨this.1, this.2.1⟩

/-- C11.2a — a run that returned at the *residual* test returned a point at which the residual test
passes (the hypothesis of C11.1 for a re-solve). -/
theorem residual_stop_is_converged (es : List (Entry α)) (cfg : Config α)
    (solve : Nat → List (Triplet α) → List α → Except SolveError (List α)) :
    ∀ (fuel k : Nat) (x : List α) (ws : List (Warning α)) (r : NewtonOk α),
      newtonLoop es cfg solve fuel k x ws = .ok r → r.byResidual = true →
      ConvergedAt es cfg r.values := by
  intro fuel
  induction fuel with
  | zero => intro k x ws r h; simp [newtonLoop] at h
  | succ fuel ih =>
    intro k x ws r h hb
    unfold newtonLoop at h
    split at h
    · rename_i r' hs
      injection h with h; subst h
      -- a `done` with the ghost flag set comes from the residual test
      unfold newtonStep at hs
      split at hs
      · simp at hs
      · rename_i rr w1 hres
        split at hs
        · simp at hs
        · rename_i jac w2 hjac
          split at hs
          · simp at hs
          · rename_i largest hm
            split at hs
            · rename_i hl
              injection hs with hs; subst hs
              exact ⟨rr, w1, jac, w2, largest, hres, hjac, hm, hl⟩
            · split at hs
              · simp at hs
              · split at hs
                · simp at hs
                · split at hs
                  · simp at hs
                  · split at hs
                    · injection hs with hs; subst hs; simp at hb
                    · simp at hs
    · simp at h
    · exact ih (k + 1) _ _ r h hb

/-- C11.2 — **a solved sketch does not drift**: re-solving from a result that was returned at the
residual test returns that same result with 0 iterations (and so on, for chains of any length). -/
theorem resolve_is_identity (es : List (Entry α)) (cfg : Config α)
    (solve solve' : Nat → List (Triplet α) → List α → Except SolveError (List α)) (x : List α)
    (r : NewtonOk α) (h : newton es cfg solve x = .ok r) (hb : r.byResidual = true) :
    ∃ r', newton es cfg solve' r.values = .ok r' ∧ r'.values = r.values ∧ r'.iterations = 0 ∧
      r'.byResidual = true := by
  have hc := residual_stop_is_converged es cfg solve cfg.maxIterations 0 x [] r h hb
  have hcap : 1 ≤ cfg.maxIterations := by
    have := newtonLoop_iterations es cfg solve cfg.maxIterations 0 x [] r h
    omega
  exact converged_guess_untouched_newton es cfg r.values hc hcap solve'

/-! ### Non-vacuity -/

/-- `ConvergedAt` holds for a concrete system at a concrete point (`Fixed(0, 1.0)` at `[1.0]`). -/
example : ConvergedAt [⟨Constraint.fixed 0 (1.0 : Float), 0, 0⟩] Config.default [1.0] :=
  ⟨[0.0], [], [(0, 0, 1.0)], [], 0.0, rfl, rfl, rfl, by decide⟩

end Ezpz.C11
