/-
C03 — Priorities: higher-priority constraints are never sacrificed for lower ones.

Model: `solveWithPriority` (L4), parametric in the LU oracle, the SVD oracle and the scalar type.
Every theorem here holds for every scalar type `α` (so also for the `Float` instantiation that the
correspondence check runs against the Rust code), every request list of every length and every
priority assignment.
-/
import Ezpz.Proofs.Report
set_option linter.unusedSectionVars false
namespace Ezpz.C03
open Ezpz Transc

variable {α : Type} [Add α] [Sub α] [Mul α] [Div α] [Neg α] [OfScientific α]
  [LT α] [DecidableLT α] [LE α] [DecidableLE α] [Transc α]

/-- The per-level results of a prioritised solve of `reqs`: entry `i` is `solve_inner` on the
requests (with their caller positions) whose priority is at most the `i`-th smallest requested
priority. -/
def results (reqs : List (Constraint α × Nat)) (g : List (Nat × α)) (cfg : Config α)
    (solve : LinSolve α) (svd : Option (Svd α)) : List (Except (Failure α) (Outcome α)) :=
  levelResults (enumerate reqs) g cfg solve svd (levels (enumerate reqs)) 0

/-- C03.1 — the levels visited are exactly the distinct requested priorities in strictly
increasing order, whatever order they are collected in. -/
theorem levels_sorted_dedup (reqs : List (Constraint α × Nat)) :
    (levels (enumerate reqs)).Pairwise (· < ·) ∧
    ∀ q, q ∈ levels (enumerate reqs) ↔ ∃ r ∈ reqs, r.2 = q :=
  ⟨levels_sorted _, fun q => by rw [mem_levels, enumerate_priorities]⟩

/-- C03.2 — **priority specification.**  For a non-empty request list the prioritised solve returns
the last outcome of the maximal prefix of levels that all solved without error and with nothing
unsatisfied; if that prefix is empty it returns the highest level's own result: its error, or its
best-effort outcome (unsatisfied requests listed). -/
theorem priority_spec (reqs : List (Constraint α × Nat)) (g : List (Nat × α)) (cfg : Config α)
    (solve : LinSolve α) (svd : Option (Svd α)) (h : reqs ≠ []) :
    solveWithPriority reqs g cfg solve svd =
      match lastGood ((results reqs g cfg solve svd).takeWhile goodB) none,
            (results reqs g cfg solve svd).dropWhile goodB with
      | some o, _ => .ok o
      | none, r :: _ => r
      | none, [] => .ok (noConstraintsOutcome g svd.isSome ((levels (enumerate reqs)).headD 0)) := by
  have hne : reqs.isEmpty = false := by cases reqs <;> simp_all
  unfold solveWithPriority
  rw [hne]
  simp only [Bool.false_eq_true, if_false]
  rw [priorityLoop_eq_loopOver, loopOver_spec]
  unfold results
  generalize levelResults (enumerate reqs) g cfg solve svd (levels (enumerate reqs)) 0 = rs
  cases hd : List.dropWhile goodB rs with
  | nil =>
    cases hl : lastGood (List.takeWhile goodB rs) none <;> simp
  | cons r rest =>
    cases hl : lastGood (List.takeWhile goodB rs) none with
    | some o => simp
    | none => cases r <;> simp

/-- The third branch of `priority_spec` is unreachable: with at least one request there is at least
one level, and if every level is good something is held. -/
theorem priority_spec_reachable (reqs : List (Constraint α × Nat)) (g : List (Nat × α))
    (cfg : Config α) (solve : LinSolve α) (svd : Option (Svd α)) (h : reqs ≠ []) :
    ¬ (lastGood ((results reqs g cfg solve svd).takeWhile goodB) none = none ∧
       (results reqs g cfg solve svd).dropWhile goodB = []) := by
  rintro ⟨h1, h2⟩
  have hl := levels_ne_nil reqs h
  unfold results at h1 h2
  cases hlv : levels (enumerate reqs) with
  | nil => exact hl hlv
  | cons p rest =>
    rw [hlv] at h1 h2
    simp only [levelResults] at h1 h2
    -- dropWhile = [] means every element is good, in particular the head
    have hgood : goodB (levelRun (enumerate reqs) g cfg solve svd 0 p) = true := by
      cases hb : goodB (levelRun (enumerate reqs) g cfg solve svd 0 p) with
      | true => rfl
      | false =>
        have hb' : ¬ goodB (levelRun (enumerate reqs) g cfg solve svd 0 p) = true := by simp [hb]
        rw [List.dropWhile_cons_of_neg hb'] at h2
        simp at h2
    rw [List.takeWhile_cons_of_pos hgood] at h1
    cases hr : levelRun (enumerate reqs) g cfg solve svd 0 p with
    | error f => rw [hr] at hgood; simp [goodB] at hgood
    | ok o =>
      rw [hr] at h1
      simp only [lastGood, List.foldl_cons] at h1
      -- a fold that starts from `some` stays `some`
      have key : ∀ (l : List (Except (Failure α) (Outcome α))) (o : Outcome α),
          l.foldl (fun acc r => match r with | .ok o => some o | .error _ => acc) (some o) ≠ none := by
        intro l
        induction l with
        | nil => intro o; simp
        | cons r rest ih => intro o; cases r <;> simp [ih]
      exact key _ o h1

/-- C03.2b — if even the highest level errors, that error is what is returned. -/
theorem highest_level_error (reqs : List (Constraint α × Nat)) (g : List (Nat × α))
    (cfg : Config α) (solve : LinSolve α) (svd : Option (Svd α)) (f : Failure α)
    (h : solveWithPriority reqs g cfg solve svd = .error f) :
    ∃ p rest, levels (enumerate reqs) = p :: rest ∧
      levelRun (enumerate reqs) g cfg solve svd 0 p = .error f := by
  unfold solveWithPriority at h
  split at h
  · simp at h
  · rw [priorityLoop_eq_loopOver] at h
    split at h
    · rename_i f' hf
      injection h with h; subst h
      have := loopOver_error _ _ hf
      cases hl : levels (enumerate reqs) with
      | nil => rw [hl] at this; simp [levelResults] at this
      | cons p rest =>
        rw [hl, levelResults_head] at this
        exact ⟨p, rest, rfl, by simpa using this⟩
    · simp at h
    · simp at h

/-- C03.3 — a successful prioritised solve of a non-empty list returns the result of solving
exactly the requests of priority `≤ P` for a requested priority `P`, and reports that `P` as the
solved priority. -/
theorem result_is_subset_solve (reqs : List (Constraint α × Nat)) (g : List (Nat × α))
    (cfg : Config α) (solve : LinSolve α) (svd : Option (Svd α)) (o : Outcome α)
    (hne : reqs ≠ []) (h : solveWithPriority reqs g cfg solve svd = .ok o) :
    ∃ P i, (∃ r ∈ reqs, r.2 = P) ∧
      solveInner ((enumerate reqs).filter (fun e => e.priority ≤ P)) g cfg (solve i)
        (svd.map (fun s => s i)) = .ok o ∧
      o.prioritySolved = P := by
  have hne' : reqs.isEmpty = false := by cases reqs <;> simp_all
  unfold solveWithPriority at h
  rw [hne'] at h
  simp only [Bool.false_eq_true, if_false] at h
  rw [priorityLoop_eq_loopOver] at h
  split at h
  · simp at h
  · rename_i o' ho
    injection h with h; subst h
    rcases loopOver_ok_mem _ _ _ ho with h1 | h1
    · simp at h1
    · obtain ⟨P, hP, i, hi⟩ := mem_levelResults _ _ _ _ _ _ _ _ h1
      have hPr : ∃ r ∈ reqs, r.2 = P := by
        rw [mem_levels, enumerate_priorities] at hP; exact hP
      refine ⟨P, i, hPr, hi.symm, ?_⟩
      obtain ⟨_, _, _, _, _, _, hp, _⟩ := solveInner_ok _ _ _ _ _ _ hi.symm
      rw [hp]
      apply maxPriority_filter
      rw [enumerate_priorities]; exact hPr
  · rename_i hnone
    exact absurd (loopOver_none_nil_only _ hnone) (by
      intro hnil
      have hl := levels_ne_nil reqs hne
      cases hlv : levels (enumerate reqs) with
      | nil => exact hl hlv
      | cons p rest => rw [hlv] at hnil; simp [levelResults] at hnil)

/-- C03.5 — the unsatisfied list names requests by their position in the caller's list: every
index is in range, the request at that index was attempted (priority `≤` the solved priority), the
list is strictly increasing. -/
theorem report_positions (reqs : List (Constraint α × Nat)) (g : List (Nat × α))
    (cfg : Config α) (solve : LinSolve α) (svd : Option (Svd α)) (o : Outcome α)
    (hne : reqs ≠ []) (h : solveWithPriority reqs g cfg solve svd = .ok o) :
    o.unsatisfied.Pairwise (· < ·) ∧
    ∀ i ∈ o.unsatisfied, ∃ c p, reqs[i]? = some (c, p) ∧ p ≤ o.prioritySolved := by
  obtain ⟨P, i, _, hs, hp⟩ := result_is_subset_solve reqs g cfg solve svd o hne h
  obtain ⟨nr, _, _, _, _, _, _, hu, _⟩ := solveInner_ok _ _ _ _ _ _ hs
  have hus := unsatisfiedSweep_eq _ _ _ hu
  constructor
  · rw [hus]
    have hsub : ((List.filter (fun e => !satisfiedAt e (lookup nr.values))
        (List.filter (fun e => decide (e.priority ≤ P)) (enumerate reqs))).map (·.id)).Sublist
        ((enumerate reqs).map (·.id)) :=
      ((List.filter_sublist).trans (List.filter_sublist)).map _
    rw [enumerate_ids] at hsub
    exact List.Pairwise.sublist hsub (by
      simpa using List.pairwise_lt_range (n := reqs.length))
  · intro j hj
    rw [hus] at hj
    simp only [List.mem_map, List.mem_filter] at hj
    obtain ⟨e, ⟨⟨he, hpr⟩, _⟩, rfl⟩ := hj
    exact ⟨e.c, e.priority, mem_enumerate reqs e he, by simpa [hp] using hpr⟩

/-! ### Non-vacuity: concrete instances of the hypotheses -/

/-- A two-level request list is non-empty (hypothesis of the theorems above). -/
example : ([(Constraint.fixed 0 (1.0 : Float), 0), (Constraint.fixed 0 (2.0 : Float), 7)] :
    List (Constraint Float × Nat)) ≠ [] := by simp

/-- `levels` on priorities given out of order, with a gap and a duplicate. -/
example : levels (enumerate [(Constraint.fixed 0 (1.0 : Float), 5), (Constraint.fixed 0 (2.0 : Float), 0),
    (Constraint.fixed 1 (2.0 : Float), 5), (Constraint.fixed 1 (2.0 : Float), 4000000000)]) =
    [0, 5, 4000000000] := by decide

end Ezpz.C03
