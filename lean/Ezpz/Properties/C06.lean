/-
C06 — Solving is total: it returns, never panics, and finite input gives finite output.

Every Rust panic site on the solve path is an explicit `SolveError.panic` in the model (slice
indexing in `residual` / `jacobian_rows`, the `find(..).unwrap()` of the scatter, `unreachable!` in
`is_satisfied`, the length assertion on the step, `svd_v.get`).  The theorems hold for every scalar
type, any requests (aliased / out-of-range / duplicate ids), any guesses, any configuration.
-/
import Ezpz.Properties.C03
import Ezpz.Proofs.Total
set_option linter.unusedSectionVars false
namespace Ezpz.C06
open Ezpz Transc

variable {α : Type} [Add α] [Sub α] [Mul α] [Div α] [Neg α] [OfScientific α]
  [LT α] [DecidableLT α] [LE α] [DecidableLE α] [Transc α]

/-- C06.1 — every slot of the assignment slice that `residual` or `jacobian_rows` indexes is a
variable the constraint declares in `nonzeroes`. -/
theorem reads_subset_nonzeroes (c : Constraint α) :
    (∀ i ∈ c.residualReads, i ∈ c.nonzeroes.all) ∧ (∀ i ∈ c.jacobianReads, i ∈ c.nonzeroes.all) :=
  ⟨residualReads_subset c, jacobianReads_subset c⟩

/-- C06.2 — every Jacobian entry reported for row `k` is for a variable declared in row `k`. -/
theorem jac_ids_subset_nonzeroes (c : Constraint α) (v : Nat → α) :
    (∀ jv ∈ (c.jacobianV v).r0, jv.id ∈ c.nonzeroes.r0) ∧
    (∀ jv ∈ (c.jacobianV v).r1, jv.id ∈ c.nonzeroes.r1) ∧
    (∀ jv ∈ (c.jacobianV v).r2, jv.id ∈ c.nonzeroes.r2) := jacobianV_ids_subset c v

/-- C06.3 — `residual_dim ∈ {1,2,3}` and equals the table extracted from the Rust source. -/
theorem residualDim_ok (c : Constraint α) :
    (c.residualDim = 1 ∨ c.residualDim = 2 ∨ c.residualDim = 3) ∧
    Gen.RESIDUAL_DIM.lookup c.kindName = some c.residualDim :=
  ⟨residualDim_range c, residualDim_eq_table c⟩

/-- C06.4 — **no panic site is reachable at any priority level**, under the contracts of the two
external kernels (a step has one entry per variable; `V` is at least `n × n`; their errors are
errors, not panics). -/
theorem solve_total (reqs : List (Constraint α × Nat)) (g : List (Nat × α)) (cfg : Config α)
    (solve : LinSolve α) (svd : Option (Svd α))
    (hs : ∀ i, LinSolveTotal (solve i) g.length)
    (ha : ∀ s, svd = some s → ∀ i, SvdTotal (s i) g.length)
    (p i : Nat) (f : Failure α)
    (h : levelRun (enumerate reqs) g cfg solve svd i p = .error f) : f.error.isPanic = false := by
  unfold levelRun at h
  apply solveInner_noPanic _ g cfg (solve i) _ (hs i) _ f h
  intro s hsome
  cases svd with
  | none => simp at hsome
  | some s0 =>
    simp at hsome
    subst hsome
    exact ha s0 rfl i

/-- C06.4b — in particular an error returned by the public entry point is never a panic. -/
theorem solve_error_not_panic (reqs : List (Constraint α × Nat)) (g : List (Nat × α))
    (cfg : Config α) (solve : LinSolve α) (svd : Option (Svd α))
    (hs : ∀ i, LinSolveTotal (solve i) g.length)
    (ha : ∀ s, svd = some s → ∀ i, SvdTotal (s i) g.length)
    (f : Failure α) (h : solveWithPriority reqs g cfg solve svd = .error f) :
    f.error.isPanic = false := by
  obtain ⟨p, _, _, hr⟩ := C03.highest_level_error reqs g cfg solve svd f h
  exact solve_total reqs g cfg solve svd hs ha p 0 f hr

/-- C06.5 — every reported iteration count of a successful Newton run is below the cap.  (That the
run terminates is structural recursion on the cap — a fact about the definition, not this theorem;
the number of configurations a run visits is bounded by the cap in
`iteratesFrom_length_le`, `Ezpz/Proofs/Visited.lean`.) -/
theorem iterations_bounded (es : List (Entry α)) (cfg : Config α)
    (solve : Nat → List (Triplet α) → List α → Except SolveError (List α)) (x : List α)
    (r : NewtonOk α) (h : newton es cfg solve x = .ok r) : r.iterations < cfg.maxIterations := by
  have := newtonLoop_iterations es cfg solve cfg.maxIterations 0 x [] r h
  omega

/-- C06.6 — **finite in ⇒ finite out**: every value of a successful result either is a guess or
passed the finiteness guard of the Newton loop. -/
theorem ok_implies_finite (reqs : List (Constraint α × Nat)) (g : List (Nat × α)) (cfg : Config α)
    (solve : LinSolve α) (svd : Option (Svd α)) (o : Outcome α)
    (hfin : allFinite (g.map (·.2)) = true)
    (h : solveWithPriority reqs g cfg solve svd = .ok o) : allFinite o.finalValues = true := by
  by_cases hne : reqs = []
  · subst hne
    simp [solveWithPriority, noConstraintsOutcome] at h
    subst h; exact hfin
  · obtain ⟨P, i, _, hs, _⟩ := C03.result_is_subset_solve reqs g cfg solve svd o hne h
    obtain ⟨nr, hn, _, hf, _⟩ := solveInner_ok _ _ _ _ _ _ hs
    rw [hf]
    exact newtonLoop_finite _ cfg (solve i) cfg.maxIterations 0 _ [] nr hfin hn

/-! ### Non-vacuity: the oracle contracts are satisfiable -/

example : LinSolveTotal (α := Float) (fun _ _ _ => .ok [0.0, 0.0]) 2 :=
  ⟨by intro k jac r d h; injection h with h; subst h; rfl, by intro k jac r e h; simp at h⟩

example : SvdTotal (α := Float) (fun _ => .ok ([1.0], [[1.0, 0.0], [0.0, 1.0]])) 2 :=
  ⟨by
    intro jac σ V h
    injection h with h
    injection h with h1 h2
    subst h2
    exact ⟨by simp, by intro row hr; simp at hr; rcases hr with rfl | rfl <;> simp⟩,
   by intro jac e h; simp at h⟩

end Ezpz.C06
