/-
A reader's index: the headline theorems per property, by name (the full lists audited on every run
are in evidence/<id>.json).  `#check` fails to compile if a name disappears, so this file is part of
the build.
-/
import Ezpz

open Ezpz

/-! ### C01 — a "satisfied" verdict means the geometry satisfies the constraint -/
#check @C01.verdict_iff_residual
#check @C01.listed_iff
#check @C01.satisfiedAt_iff_residualV
#check @C01.attempted_unlisted_residual_small
#check @C01.distance_end_to_end                   -- one of 23 <kind>_end_to_end
#check @C01.arcAngle_end_to_end
#check @satisfied_distance
#check @satisfied_pointArcCoincident
#check @pointArc_outside_sweep_satisfied          -- known finding F14, machine-checked witness
#check @pointBisectsArc_bisects
#check @circleArcCoincident_does_not_fix_radius

/-! ### C02 — a guess near a solution is solved quickly, to the nearby solution -/
#check @C02.round_is_damped_step
#check @GN.step_exists
#check @GN.step_unique
#check @GN.contraction_gives_C02
#check @GN.gauss_newton_local_C02
#check @GN.gauss_newton_local_C02_of_continuous_jacobian
#check @hasFDerivAt_rOf_regular                     -- the model's residual is Fréchet differentiable (15 kinds)
#check @newtonStep_eq_gnMap                         -- one model round = the damped Gauss–Newton map
#check @model_newtonRun_C02                         -- C02 for the continuing rounds the model's loop executes
#check @model_newtonRun_C02_2                       -- ... for every kind except point-on-arc
#check @model_newtonLoop_C02                        -- ... for the loop's result (step-size return included)
#check @kindC1_pointArcCoincident                  -- PointArcCoincident in the Fréchet bridge (StrictPAC)
#check @kindC1_of_regular3                          -- ALL 23 kinds: Jacobian rows are Fréchet derivatives, continuous (RegularAt3)
#check @isOpen_regularAt3                           -- regularity is an open condition (all 23 kinds)
#check @contDiffAt_one_rOf                          -- ... so the assembled residual map is C¹ at every regular point
#check @fderiv_rOf_eventually                       -- ... and the model's Jacobian is its derivative in a neighbourhood
#check @pacB_not_kindC1                             -- ... and with a distance exactly EPSILON the row is not continuous
#check @model_solve_C02_single_level_3              -- C02 at the public entry point, every kind
#check @model_solve_C02_single_level                -- ... at the public entry point, one priority level
#check @pointLineDistance_numerator_forms_agree     -- fix F21 does not change the meaning
#check @circleTangentToCircle_row_or_flag           -- fix F22
#check @GN.damped_defect_on_kernel                 -- why F15 happens

/-! ### C03 — priorities -/
#check @C03.priority_spec
#check @C03.result_is_subset_solve
#check @C03.report_positions
#check @result_is_filtered_solve                   -- at the public solve of the filtered list
#check @result_is_filtered_solve_fields
#check @error_is_filtered_solve

/-! ### C04 — least disturbance -/
#check @untouched_var_fixed'                        -- no request mentions j ⇒ returned at its guess
#check @jacobianAll_no_column
#check @unmentioned_variable_returned_at_guess      -- ℝ, exact solver with non-zero damping
#check @assembled_affine                            -- linear kinds: residual = A x − b, A constant
#check @newtonStep_isStep
#check @newtonLoop_result_contracts
#check @GN.untouched_var_step_zero
#check @GN.tikhonov_step
#check @GN.nearest_least_squares
#check @GN.linear_consistent_converges
#check @GN.gap_exists
#check @GN.linear_consistent_converges_from_guess
#check @GN.linear_converges_to_least_squares        -- ... and INCONSISTENT systems converge to the least-squares point nearest the guess
#check @newtonLoop_result_contracts_ls               -- ... for the result of the model's loop
#check @linear_kinds_affine

/-! ### C05 — freedom analysis -/
#check @dof_spec
#check @GN.participates_iff
#check @C05.analysis_of_returned_model
#check @underconstrained_is_nullspace_participation
#check @DofEntryEx.lastJac_is_before_last_step      -- which Jacobian is analysed after a step-size stop
#check @C05.no_constraints_all_free

/-! ### C06 — total, no panic, finite -/
#check @C06.solve_total
#check @C06.iterations_bounded
#check @C06.ok_implies_finite

/-! ### C07 — reports are addressed right -/
#check @C07.unsatisfied_sorted_attempted
#check @C07.warning_indices
#check @C07.warning_indices_visited                 -- raised at a configuration this run visited
#check @C07.failure_warning_indices
#check @C07.failure_sizes_solve'
#check @newtonLoop_warnings_eq
#check @C07.finalValueArc_spec
#check @C07.values_by_id_partial
#check @C07.values_by_id_fails_when_permuted       -- known finding F5, witness

/-! ### C08 / C09 — text front-end -/
#check @C08.labels_bind_spec_vars
#check @Text.labelOutcome_spec
#check @Text.parse_render
#check @Text.ratToBits_nearest
#check @C09.executor_total
#check @C09.strict_guesses
#check @C09.nothing_dropped
#check @Text.strict_labels
#check @Text.undeclared_rejected
#check @Text.rejection_kinds
#check @Text.buildVars_isOk_iff

/-! ### C10 — deterministic, entry points agree -/
#check @C10.level_order_independent
#check @C10.analysis_only_adds_failure_partial     -- hypothesis excluded by known finding F10
#check @Text.text_analysis_only_adds_failure         -- text front-end (single level): unconditional
#check @Text.text_analysis_ok_then_plain_ok
#check @Text.withConfig_of_noMetadata_ok             -- solve_with_config reports what solve_no_metadata computed
#check @Text.text_methods_shape                      -- call structure regenerated from executor.rs
#check @Text.text_methods_never_panic                -- none of the four methods panics (total LU / SVD oracles)

/-! ### C11 — a satisfied configuration is left untouched -/
#check @C11.converged_guess_untouched
#check @C11.resolve_is_identity
#check @C11.resolve_untouched
#check @StepEx.step_stop_not_fixed_point             -- a step-size stop is NOT a fixed point (the restriction is necessary)
#check @C11.converged_guess_untouched_append
#check @C11.converged_guess_untouched_real

/-! ### C12 — order and numbering do not matter -/
#check @solveWithPriority_perm
#check @solveWithPriority_renumber
#check @solveWithPriority_perm_withAnalysis
#check @solveWithPriority_renumber_withAnalysis
#check @EquivEx.renumber_example_with_step          -- ... instantiated on a successful run with a genuine step
#check @EquivEx.perm_example_with_step
#check @dof_row_perm
#check @dof_col_perm
#check @GN.step_row_perm
#check @GN.step_col_perm
#check @renumbering_consistent

/-! ### C13 — Jacobian = derivative (one theorem per kind and row in Ezpz/Real/Deriv*.lean) -/
#check @DerivRow
#check @deriv_distance
#check @C13.undeclared_is_zero

/-! ### C14 — Config is honoured -/
#check @C14.iterations_lt_cap
#check @C14.newton_cap_monotone
#check @C14.solve_cap_monotone_partial             -- hypothesis excluded by known finding F11
#check @C14.converged_within_tolerance
#check @C14.solve_cap_monotone_single_level
#check @C14.solve_cap_monotone_err
#check @C14.cap_not_monotone_multi_level            -- known finding F11, witness over ℝ
#check @C14.solve_within_tolerance
#check @C14.solve_within_tolerance_of_silentOn      -- no ghost flag, satisfiable with the default config

/-! ### C15 — warnings are truthful -/
#check @lint_fires_parallel
#check @lint_fires_perpendicular
#check @lint_quiet
#check @lint_exclusive
#check @lint_survives
#check @degenerate_complete_at_guess
#check @lint_lost_below_solved_priority            -- known finding F12, witness

/-! ### C16 — CLI -/
#check @Cli.cli_exit_zero_iff
#check @Cli.cli_panic_iff
#check @Cli.cli_prints_library_values
#check @Cli.fmt2Core_nearest

/-! ### C17 — independent parts -/
#check @disjoint_block_structure
#check @GN.step_of_blocks
#check @newtonLoop_union_prefix
#check @residual_test_union_iff
#check @solveWithPriority_unionMany_converged       -- k groups
#check @union_unequal_rounds_loop_partial            -- groups needing DIFFERENT numbers of rounds: blocks within 2·(1/2)^rounds of the solo results
#check @extra_rounds_close
#check @solveWithPriority_unionMany_unequal_partial  -- ... k groups, public entry point, no relation between the round counts
#check @freeRun_unionMany
#check @solveWithPriority_unionMany_unequal_verdicts_partial   -- ... same verdicts => the union's unsatisfied list is the solo lists, by position
#check @solveWithPriority_unionMany_unequal_positions_partial  -- ... per variable
#check @UnequalEntryEx.unequal_entry_run                        -- a run with solo counts 0 and 1
#check @solveWithPriority_unionMany_any_order_exact -- any interleaving and numbering
#check @step_test_is_global                        -- the one global effect (F17)
