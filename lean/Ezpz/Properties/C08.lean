/-
C08 — Text format fidelity: text → constraints → labelled results is faithful.

The executor's label lookups are proved equal to an independently written layout specification
(`Ezpz/Spec/TextSpec.lean`: sequential allocation points → circles → arcs) for any number of
points, circles and arcs, any declaration interleaving and any number of instructions.  The grammar
itself (winnow combinators) is modelled by hand and covered by the correspondence check only.
-/
import Ezpz.Proofs.Text
set_option linter.unusedSectionVars false
namespace Ezpz.C08
open Ezpz Ezpz.Text

variable {α : Type}

/-- C08.1a — **labels bind the right variables.**  For a problem whose variables could be built,
the `i`-th point, `j`-th circle and `k`-th arc are looked up at exactly the ids the layout
specification gives them — arcs after the points *and* the circles. -/
theorem labels_bind_spec_vars (p : Problem α) (v : Vars α) (h : buildVars p = .ok v) :
    (∀ i, i < p.innerPoints.length → v.pointIds i = some (Spec.pointIds i)) ∧
    (∀ j, j < p.innerCircles.length →
      v.circleIds j = some (Spec.circleIds p.innerPoints.length j)) ∧
    (∀ k, k < p.innerArcs.length →
      v.arcIds k = some (Spec.arcIds p.innerPoints.length p.innerCircles.length k)) := by
  obtain ⟨hv, hp, hc, ha⟩ := buildVars_ok p v h
  obtain ⟨l1, l2, l3⟩ := lookups_eq_spec v hv
  refine ⟨?_, ?_, ?_⟩
  · intro i hi; exact l1 i (by rw [hp]; exact hi)
  · intro j hj; rw [← hp]; exact l2 j (by rw [hc]; exact hj)
  · intro k hk; rw [← hp, ← hc]; exact l3 k (by rw [ha]; exact hk)

/-- C08.1b — the variable list has one slot per specified variable, and ids are positions. -/
theorem variables_layout (p : Problem α) (v : Vars α) (h : buildVars p = .ok v) :
    v.variables.length =
      Spec.numVars p.innerPoints.length p.innerCircles.length p.innerArcs.length ∧
    ∀ k, k < v.variables.length → v.idAt k = some k := by
  obtain ⟨hv, hp, hc, ha⟩ := buildVars_ok p v h
  exact ⟨by rw [hv.len, hp, hc, ha]; rfl, hv.seq⟩

/-- C08.1c — **every point-role label resolves to the specified entity**: a declared point, a
circle's centre, an arc's centre / start (`.a`) / end (`.b`), in that order of precedence; anything
else is the `UndefinedPoint` error. -/
theorem point_label_resolution (p : Problem α) (v : Vars α) (h : buildVars p = .ok v) (l : String) :
    datumPoint p v l =
      match position? p.innerPoints (· == l) with
      | some i => .ok (Spec.pointIds i)
      | none =>
        match position? p.innerCircles (fun c => c ++ ".center" == l) with
        | some j => .ok (Spec.circleIds p.innerPoints.length j).center
        | none =>
          match position? p.innerArcs (fun a => a ++ ".center" == l) with
          | some k => .ok (Spec.arcIds p.innerPoints.length p.innerCircles.length k).center
          | none =>
            match position? p.innerArcs (fun a => a ++ ".a" == l) with
            | some k => .ok (Spec.arcIds p.innerPoints.length p.innerCircles.length k).start
            | none =>
              match position? p.innerArcs (fun a => a ++ ".b" == l) with
              | some k => .ok (Spec.arcIds p.innerPoints.length p.innerCircles.length k).stop
              | none => .error (.text (.undefinedPoint l)) :=
  datumPoint_spec p v (Built.of_buildVars p v h) l

/-- C08.1d — a radius label resolves to the specified radius variable of that circle. -/
theorem radius_label_resolution (p : Problem α) (v : Vars α) (h : buildVars p = .ok v) (l : String) :
    datumDistance p v l =
      match position? p.innerCircles (fun c => c ++ ".radius" == l) with
      | some j => .ok (Spec.circleIds p.innerPoints.length j).radius
      | none => .error (.text (.undefinedPoint l)) :=
  datumDistance_spec p v (Built.of_buildVars p v h) l

/-- The specification keeps the three kinds of entity apart: a circle's variables never overlap a
point's, an arc's never overlap a circle's (the defect fixed in `arc_ids`). -/
theorem spec_ranges_disjoint (P C : Nat) (i j k : Nat) (hi : i < P) (hj : j < C) :
    (Spec.pointIds i).y < (Spec.circleIds P j).center.x ∧
    (Spec.circleIds P j).radius < (Spec.arcIds P C k).start.x := by
  simp [Spec.pointIds, Spec.circleIds, Spec.arcIds]
  omega

/-! ### Non-vacuity -/

/-- A concrete problem with a point, a circle and an arc builds, and the arc's centre-x is
variable 9 (= 2·1 + 3·1 + 6·0 + 4), not 6. -/
example :
    let p : Problem Float := {
      instructions := [], innerPoints := ["p"], innerCircles := ["c"], innerArcs := ["a"],
      innerLines := [],
      pointGuesses := [("p", 0.0, 0.0), ("c.center", 1.0, 1.0), ("a.center", 3.0, 3.0),
        ("a.a", 4.0, 3.0), ("a.b", 3.0, 4.0)],
      scalarGuesses := [("c.radius", 2.0)] }
    (match buildVars p with
     | .ok v => (v.arcIds 0).map (·.center.x)
     | .error _ => none) = some 9 := by
  decide

end Ezpz.C08
