/-
C07 — Reports are addressed right: values by variable id, findings by request index.

All theorems hold for every scalar type, every LU / SVD oracle.
-/
import Ezpz.Properties.C03
import Ezpz.Proofs.Warnings
set_option linter.unusedSectionVars false
namespace Ezpz.C07
open Ezpz Transc

variable {α : Type} [Add α] [Sub α] [Mul α] [Div α] [Neg α] [OfScientific α]
  [LT α] [DecidableLT α] [LE α] [DecidableLE α] [Transc α]

/-- C07.1 — a successful result has exactly one final value per guess. -/
theorem final_length (reqs : List (Constraint α × Nat)) (g : List (Nat × α)) (cfg : Config α)
    (solve : LinSolve α) (svd : Option (Svd α)) (o : Outcome α)
    (h : solveWithPriority reqs g cfg solve svd = .ok o) : o.finalValues.length = g.length := by
  by_cases hne : reqs = []
  · subst hne
    simp [solveWithPriority, noConstraintsOutcome] at h
    subst h; simp
  · obtain ⟨P, i, _, hs, _⟩ := C03.result_is_subset_solve reqs g cfg solve svd o hne h
    exact solveInner_final_length _ _ _ _ _ _ hs

/-- C07.2 — the unsatisfied list is strictly increasing and names attempted requests by their
position in the caller's list. -/
theorem unsatisfied_sorted_attempted (reqs : List (Constraint α × Nat)) (g : List (Nat × α))
    (cfg : Config α) (solve : LinSolve α) (svd : Option (Svd α)) (o : Outcome α)
    (h : solveWithPriority reqs g cfg solve svd = .ok o) :
    o.unsatisfied.Pairwise (· < ·) ∧
    ∀ i ∈ o.unsatisfied, ∃ c p, reqs[i]? = some (c, p) ∧ p ≤ o.prioritySolved := by
  by_cases hne : reqs = []
  · subst hne
    simp [solveWithPriority, noConstraintsOutcome] at h
    subst h; simp
  · exact C03.report_positions reqs g cfg solve svd o hne h

/-- C07.5 — the solved priority is one of the requested priorities. -/
theorem priority_in_requests (reqs : List (Constraint α × Nat)) (g : List (Nat × α))
    (cfg : Config α) (solve : LinSolve α) (svd : Option (Svd α)) (o : Outcome α)
    (hne : reqs ≠ []) (h : solveWithPriority reqs g cfg solve svd = .ok o) :
    ∃ r ∈ reqs, r.2 = o.prioritySolved := by
  obtain ⟨P, i, hP, _, hp⟩ := C03.result_is_subset_solve reqs g cfg solve svd o hne h
  rw [hp]; exact hP

/-- A lint warning names a `LinesAtAngle(Other)` request of the list it was computed from. -/
theorem lint_mem (es : List (Entry α)) (w : Warning α) (h : w ∈ lint es) :
    ∃ e ∈ es, w.about = some e.id ∧ ∃ l0 l1 θ, e.c = .linesAtAngle l0 l1 (.other θ) := by
  simp only [lint, List.mem_filterMap] at h
  obtain ⟨e, he, hl⟩ := h
  refine ⟨e, he, ?_⟩
  unfold lintOne at hl
  split at hl
  · rename_i l0 l1 θ hc
    split at hl
    · injection hl with hl; subst hl; exact ⟨rfl, l0, l1, θ, hc⟩
    · split at hl
      · injection hl with hl; subst hl; exact ⟨rfl, l0, l1, θ, hc⟩
      · simp at hl
  · simp at hl

/-- C07.3 / C07.4 — every warning of a successful solve names, by its position in the caller's
list, a request of the attempted subset: lint warnings a `LinesAtAngle(Other)` request, degeneracy
notices a request whose evaluation raised the flag at a visited assignment. -/
theorem warning_indices (reqs : List (Constraint α × Nat)) (g : List (Nat × α))
    (cfg : Config α) (solve : LinSolve α) (svd : Option (Svd α)) (o : Outcome α)
    (hne : reqs ≠ []) (h : solveWithPriority reqs g cfg solve svd = .ok o) :
    ∀ w ∈ o.warnings, ∃ i c p, w.about = some i ∧ reqs[i]? = some (c, p) ∧ p ≤ o.prioritySolved ∧
      ((∃ l0 l1 θ, c = .linesAtAngle l0 l1 (.other θ)) ∨
       DegenerateFrom ((enumerate reqs).filter (fun e => e.priority ≤ o.prioritySolved)) g.length w) := by
  obtain ⟨P, i, _, hs, hp⟩ := C03.result_is_subset_solve reqs g cfg solve svd o hne h
  obtain ⟨nr, hn, _, _, _, hw, _, _, _⟩ := solveInner_ok _ _ _ _ _ _ hs
  intro w hwm
  rw [hw] at hwm
  have hsub : ∀ e ∈ (enumerate reqs).filter (fun e => e.priority ≤ P),
      reqs[e.id]? = some (e.c, e.priority) ∧ e.priority ≤ o.prioritySolved := by
    intro e he
    obtain ⟨he1, he2⟩ := List.mem_filter.mp he
    exact ⟨mem_enumerate reqs e he1, by simpa [hp] using he2⟩
  rcases List.mem_append.mp hwm with hl | hd
  · obtain ⟨e, he, ha, hk⟩ := lint_mem _ w hl
    exact ⟨e.id, e.c, e.priority, ha, (hsub e he).1, (hsub e he).2, Or.inl hk⟩
  · have hall := (newtonLoop_warnings ((enumerate reqs).filter (fun e => e.priority ≤ P)) cfg
      (solve i) g.length cfg.maxIterations 0 (g.map (fun x => x.2)) [] (by simp) (by simp)).1 nr
      (by unfold newton at hn; exact hn) w hd
    obtain ⟨e, he, ha, hx⟩ := hall
    refine ⟨e.id, e.c, e.priority, ha, (hsub e he).1, (hsub e he).2, Or.inr ?_⟩
    rw [hp]
    exact ⟨e, he, ha, hx⟩

/-- C07.6 — a failure reports the true variable count and the equation count of the subset that
was being attempted. -/
theorem failure_sizes (es : List (Entry α)) (g : List (Nat × α)) (cfg : Config α)
    (solve : Nat → List (Triplet α) → List α → Except SolveError (List α))
    (analyze : Option (List (Triplet α) → Except SolveError (List α × List (List α))))
    (f : Failure α) (h : solveInner es g cfg solve analyze = .error f) :
    f.numVars = g.length ∧ f.numEqs = numRows es := by
  unfold solveInner at h
  repeat' split at h
  all_goals first
    | (injection h with h; subst h; exact ⟨rfl, rfl⟩)
    | simp at h

/-- C07.6 at the public entry point: the sizes are those of the highest-priority subset (the only
level whose failure is ever returned). -/
theorem failure_sizes_solve (reqs : List (Constraint α × Nat)) (g : List (Nat × α))
    (cfg : Config α) (solve : LinSolve α) (svd : Option (Svd α)) (f : Failure α)
    (h : solveWithPriority reqs g cfg solve svd = .error f) :
    f.numVars = g.length ∧ ∃ p, f.numEqs = numRows ((enumerate reqs).filter (fun e => e.priority ≤ p)) := by
  obtain ⟨p, rest, _, hr⟩ := C03.highest_level_error reqs g cfg solve svd f h
  have := failure_sizes _ _ _ _ _ _ hr
  exact ⟨this.1, p, this.2⟩

/-- `SolveOutcome::final_value_point`. -/
def finalValuePoint (o : Outcome α) (p : Pt) : Option (α × α) :=
  match o.finalValues[p.x]?, o.finalValues[p.y]? with
  | some x, some y => some (x, y)
  | _, _ => none

/-- C07.8 (partial) — **values by id**, under the hypothesis that the guess list is dense and in
order (`ids = 0, 1, …, n-1`): the start value used for variable `v` is the guess given for id `v`.
Without the hypothesis this is false of the code: the id of a guess pair is only validated, never
used (known finding F5). -/
theorem values_by_id_partial (g : List (Nat × α)) (hdense : g.map (·.1) = List.range g.length)
    (v : Nat) (a : α) (h : (v, a) ∈ g) : lookup (g.map (·.2)) v = some a := by
  obtain ⟨i, hi, hget⟩ := List.getElem_of_mem h
  have hv : v = i := by
    have h1 : (g.map (·.1))[i]? = some v := by simp [List.getElem?_eq_getElem hi, hget]
    rw [hdense] at h1
    simp [List.getElem?_range hi] at h1
    exact h1.symm
  subst hv
  simp [lookup, List.getElem?_eq_getElem hi, hget]

/-- Negation witness for the unrestricted statement (finding F5): with the guess list
`[(1, 100.0), (0, 5.0)]` the start value looked up for variable `0` is `100.0`, the guess given for
id `1`. -/
theorem values_by_id_fails_when_permuted :
    lookup (([(1, 100.0), (0, 5.0)] : List (Nat × Float)).map (·.2)) 0 = some 100.0 := rfl

end Ezpz.C07
