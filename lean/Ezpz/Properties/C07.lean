/-
C07 — Reports are addressed right: values by variable id, findings by request index.

All theorems hold for every scalar type, every LU / SVD oracle.
-/
import Ezpz.Properties.C03
import Ezpz.Model.Outcome
import Ezpz.Proofs.Warnings
set_option linter.unusedSectionVars false
namespace Ezpz.C07
open Ezpz Transc

variable {α : Type} [Add α] [Sub α] [Mul α] [Div α] [Neg α] [OfScientific α]
  [LT α] [DecidableLT α] [LE α] [DecidableLE α] [Transc α]

/-- C07.1 — a successful result has exactly one final value per guess. -/
theorem final_length (reqs : List (Constraint α × Nat)) (g : List (Nat × α)) (cfg : Config α)
    (solve : LinSolve α) (svd : Option (Svd α)) (o : Outcome α)
    (h : solveWithPriority reqs g cfg solve svd = .ok o) : o.finalValues.length = g.length := by
  by_cases hne : reqs = []
  · subst hne
    simp [solveWithPriority, noConstraintsOutcome] at h
    subst h; simp
  · obtain ⟨P, i, _, hs, _⟩ := C03.result_is_subset_solve reqs g cfg solve svd o hne h
    exact solveInner_final_length _ _ _ _ _ _ hs

/-- C07.2 — the unsatisfied list is strictly increasing and names attempted requests by their
position in the caller's list. -/
theorem unsatisfied_sorted_attempted (reqs : List (Constraint α × Nat)) (g : List (Nat × α))
    (cfg : Config α) (solve : LinSolve α) (svd : Option (Svd α)) (o : Outcome α)
    (h : solveWithPriority reqs g cfg solve svd = .ok o) :
    o.unsatisfied.Pairwise (· < ·) ∧
    ∀ i ∈ o.unsatisfied, ∃ c p, reqs[i]? = some (c, p) ∧ p ≤ o.prioritySolved := by
  by_cases hne : reqs = []
  · subst hne
    simp [solveWithPriority, noConstraintsOutcome] at h
    subst h; simp
  · exact C03.report_positions reqs g cfg solve svd o hne h

/-- C07.5 — the solved priority is one of the requested priorities. -/
theorem priority_in_requests (reqs : List (Constraint α × Nat)) (g : List (Nat × α))
    (cfg : Config α) (solve : LinSolve α) (svd : Option (Svd α)) (o : Outcome α)
    (hne : reqs ≠ []) (h : solveWithPriority reqs g cfg solve svd = .ok o) :
    ∃ r ∈ reqs, r.2 = o.prioritySolved := by
  obtain ⟨P, i, hP, _, hp⟩ := C03.result_is_subset_solve reqs g cfg solve svd o hne h
  rw [hp]; exact hP

/-- A lint warning names a `LinesAtAngle(Other)` request of the list it was computed from. -/
theorem lint_mem (es : List (Entry α)) (w : Warning α) (h : w ∈ lint es) :
    ∃ e ∈ es, w.about = some e.id ∧ ∃ l0 l1 θ, e.c = .linesAtAngle l0 l1 (.other θ) := by
  simp only [lint, List.mem_filterMap] at h
  obtain ⟨e, he, hl⟩ := h
  refine ⟨e, he, ?_⟩
  unfold lintOne at hl
  split at hl
  · rename_i l0 l1 θ hc
    split at hl
    · injection hl with hl; subst hl; exact ⟨rfl, l0, l1, θ, hc⟩
    · split at hl
      · injection hl with hl; subst hl; exact ⟨rfl, l0, l1, θ, hc⟩
      · simp at hl
  · simp at hl

/-- C07.3 / C07.4 — every warning of a successful solve names, by its position in the caller's
list, a request of the attempted subset: lint warnings a `LinesAtAngle(Other)` request, degeneracy
notices a request of a kind that can raise the flag (`DegenerateFrom`: at *some* assignment of the
right length — this weak form does not say the assignment was visited by the run).  The statement
with "raised at a configuration this run visited", for Ok and for Failure outcomes, is
`warning_indices_visited` / `failure_warning_indices` in `Ezpz/Properties/C07b.lean`
(`DegenerateAtVisited`, `Ezpz/Proofs/Visited.lean`). -/
theorem warning_indices (reqs : List (Constraint α × Nat)) (g : List (Nat × α))
    (cfg : Config α) (solve : LinSolve α) (svd : Option (Svd α)) (o : Outcome α)
    (hne : reqs ≠ []) (h : solveWithPriority reqs g cfg solve svd = .ok o) :
    ∀ w ∈ o.warnings, ∃ i c p, w.about = some i ∧ reqs[i]? = some (c, p) ∧ p ≤ o.prioritySolved ∧
      ((∃ l0 l1 θ, c = .linesAtAngle l0 l1 (.other θ)) ∨
       DegenerateFrom ((enumerate reqs).filter (fun e => e.priority ≤ o.prioritySolved)) g.length w) := by
  obtain ⟨P, i, _, hs, hp⟩ := C03.result_is_subset_solve reqs g cfg solve svd o hne h
  obtain ⟨nr, hn, _, _, _, hw, _, _, _⟩ := solveInner_ok _ _ _ _ _ _ hs
  intro w hwm
  rw [hw] at hwm
  have hsub : ∀ e ∈ (enumerate reqs).filter (fun e => e.priority ≤ P),
      reqs[e.id]? = some (e.c, e.priority) ∧ e.priority ≤ o.prioritySolved := by
    intro e he
    obtain ⟨he1, he2⟩ := List.mem_filter.mp he
    exact ⟨mem_enumerate reqs e he1, by simpa [hp] using he2⟩
  rcases List.mem_append.mp hwm with hl | hd
  · obtain ⟨e, he, ha, hk⟩ := lint_mem _ w hl
    exact ⟨e.id, e.c, e.priority, ha, (hsub e he).1, (hsub e he).2, Or.inl hk⟩
  · have hall := (newtonLoop_warnings ((enumerate reqs).filter (fun e => e.priority ≤ P)) cfg
      (solve i) g.length cfg.maxIterations 0 (g.map (fun x => x.2)) [] (by simp) (by simp)).1 nr
      (by unfold newton at hn; exact hn) w hd
    obtain ⟨e, he, ha, hx⟩ := hall
    refine ⟨e.id, e.c, e.priority, ha, (hsub e he).1, (hsub e he).2, Or.inr ?_⟩
    rw [hp]
    exact ⟨e, he, ha, hx⟩

/-- C07.6 — a failure reports the true variable count and the equation count of the subset that
was being attempted. -/
theorem failure_sizes (es : List (Entry α)) (g : List (Nat × α)) (cfg : Config α)
    (solve : Nat → List (Triplet α) → List α → Except SolveError (List α))
    (analyze : Option (List (Triplet α) → Except SolveError (List α × List (List α))))
    (f : Failure α) (h : solveInner es g cfg solve analyze = .error f) :
    f.numVars = g.length ∧ f.numEqs = numRows es := by
  unfold solveInner at h
  repeat' split at h
  all_goals first
    | (injection h with h; subst h; exact ⟨rfl, rfl⟩)
    | simp at h

/-- C07.6 at the public entry point, weak form: the equation count is that of the subset of *some*
priority bound `p`.  The full statement — `p` is the head of `levels (enumerate reqs)`, i.e. the
numerically smallest requested priority, the only level whose failure is ever returned — is
`failure_sizes_solve'` in `Ezpz/Properties/C07b.lean`. -/
theorem failure_sizes_solve (reqs : List (Constraint α × Nat)) (g : List (Nat × α))
    (cfg : Config α) (solve : LinSolve α) (svd : Option (Svd α)) (f : Failure α)
    (h : solveWithPriority reqs g cfg solve svd = .error f) :
    f.numVars = g.length ∧ ∃ p, f.numEqs = numRows ((enumerate reqs).filter (fun e => e.priority ≤ p)) := by
  obtain ⟨p, rest, _, hr⟩ := C03.highest_level_error reqs g cfg solve svd f h
  have := failure_sizes _ _ _ _ _ _ hr
  exact ⟨this.1, p, this.2⟩

/-! ### Typed lookups (`solve_outcome.rs:52-86`, model `Ezpz/Model/Outcome.lean`) -/

/-- C07.7a — `final_value_distance` returns the final value stored at the datum's id, and fails (the
real code panics) exactly when the id is not a position of the final values. -/
theorem finalValueDistance_spec (o : Outcome α) (id : Nat) :
    o.finalValueDistance id = o.finalValues[id]? ∧
    (o.finalValueDistance id = none ↔ o.finalValues.length ≤ id) := by
  simp [Outcome.finalValueDistance]

/-- C07.7b — `final_value_point` returns the values at the point's own x-id and y-id, whatever those
ids are (not consecutive, not ordered, possibly equal). -/
theorem finalValuePoint_spec (o : Outcome α) (p : Pt) (x y : α) :
    o.finalValuePoint p = some (x, y) ↔ o.finalValues[p.x]? = some x ∧ o.finalValues[p.y]? = some y := by
  unfold Outcome.finalValuePoint
  split <;> simp_all

/-- `final_value_point` succeeds exactly when both ids are positions of the final values. -/
theorem finalValuePoint_isSome (o : Outcome α) (p : Pt) :
    (o.finalValuePoint p).isSome ↔ p.x < o.finalValues.length ∧ p.y < o.finalValues.length := by
  unfold Outcome.finalValuePoint
  split
  · rename_i x y hx hy
    have h1 := (List.getElem?_eq_some_iff.mp hx).1
    have h2 := (List.getElem?_eq_some_iff.mp hy).1
    simp [h1, h2]
  · rename_i h
    simp only [Option.isSome_none, Bool.false_eq_true, false_iff, not_and]
    intro h1 h2
    exact h _ _ (List.getElem?_eq_getElem h1) (List.getElem?_eq_getElem h2)

/-- C07.7c — `final_value_circle` returns the centre's two values and the value at the radius id. -/
theorem finalValueCircle_spec (o : Outcome α) (c : Circ) (cx cy r : α) :
    o.finalValueCircle c = some ((cx, cy), r) ↔
      o.finalValues[c.center.x]? = some cx ∧ o.finalValues[c.center.y]? = some cy ∧
      o.finalValues[c.radius]? = some r := by
  unfold Outcome.finalValueCircle
  split
  · rename_i ctr r' hc hr
    obtain ⟨cx', cy'⟩ := ctr
    have := (finalValuePoint_spec o c.center cx' cy').mp hc
    simp only [Outcome.finalValueDistance] at hr
    simp only [Option.some.injEq, Prod.mk.injEq]
    constructor
    · rintro ⟨⟨rfl, rfl⟩, rfl⟩; exact ⟨this.1, this.2, hr⟩
    · rintro ⟨h1, h2, h3⟩
      rw [this.1] at h1; rw [this.2] at h2; rw [hr] at h3
      simp_all
  · rename_i h
    constructor
    · intro h'; simp at h'
    · rintro ⟨h1, h2, h3⟩
      exact absurd ((finalValuePoint_spec o c.center cx cy).mpr ⟨h1, h2⟩) (by
        intro hp; exact h _ _ hp (by simpa [Outcome.finalValueDistance] using h3))

/-- C07.7d — `final_value_arc` returns, as `(a, b, center)`, the values at the ids of the arc's start,
end and centre **each looked up by its own ids** — no assumption that the six ids are consecutive
or in any order. -/
theorem finalValueArc_spec (o : Outcome α) (a : ArcD) (s e c : α × α) :
    o.finalValueArc a = some (s, e, c) ↔
      o.finalValuePoint a.start = some s ∧ o.finalValuePoint a.stop = some e ∧
      o.finalValuePoint a.center = some c := by
  unfold Outcome.finalValueArc
  split
  · rename_i s' e' c' hs he hc
    simp only [Option.some.injEq, Prod.mk.injEq]
    constructor
    · rintro ⟨rfl, rfl, rfl⟩; exact ⟨hs, he, hc⟩
    · rintro ⟨h1, h2, h3⟩
      rw [hs] at h1; rw [he] at h2; rw [hc] at h3
      simp_all
  · rename_i h
    constructor
    · intro h'; simp at h'
    · rintro ⟨h1, h2, h3⟩; exact absurd h3 (h _ _ _ h1 h2)

/-- Non-vacuity / regression example: an arc whose ids are neither consecutive nor ordered
(centre 4,0; start 2,5; end 1,1) over six final values. -/
example : (⟨[], [10, 11, 12, 13, 14, 15], 0, [], 0, none⟩ : Outcome Nat).finalValueArc
    ⟨⟨4, 0⟩, ⟨2, 5⟩, ⟨1, 1⟩⟩ = some ((12, 15), (11, 11), (14, 10)) := by decide

/-- C07.8 (partial) — **values by id**, under the hypothesis that the guess list is dense and in
order (`ids = 0, 1, …, n-1`): the start value used for variable `v` is the guess given for id `v`.
Without the hypothesis this is false of the code: the id of a guess pair is only validated, never
used (known finding F5). -/
theorem values_by_id_partial (g : List (Nat × α)) (hdense : g.map (·.1) = List.range g.length)
    (v : Nat) (a : α) (h : (v, a) ∈ g) : lookup (g.map (·.2)) v = some a := by
  obtain ⟨i, hi, hget⟩ := List.getElem_of_mem h
  have hv : v = i := by
    have h1 : (g.map (·.1))[i]? = some v := by simp [List.getElem?_eq_getElem hi, hget]
    rw [hdense] at h1
    simp [List.getElem?_range hi] at h1
    exact h1.symm
  subst hv
  simp [lookup, List.getElem?_eq_getElem hi, hget]

/-- Negation witness for the unrestricted statement (finding F5): with the guess list
`[(1, 100.0), (0, 5.0)]` the start value looked up for variable `0` is `100.0`, the guess given for
id `1`. -/
theorem values_by_id_fails_when_permuted :
    lookup (([(1, 100.0), (0, 5.0)] : List (Nat × Float)).map (·.2)) 0 = some 100.0 := rfl

end Ezpz.C07
