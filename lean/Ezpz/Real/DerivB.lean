/-
C13 over ℝ, part B: `HorizontalPointLineDistance`, `Symmetric`, `PointLineDistance`.
-/
import Ezpz.Real.Deriv
namespace Ezpz
open Transc Filter Topology

variable (v u : Nat → ℝ)

/-- Structural derivative; like `deriv_struct` but tries division before multiplication (so that
`1 / x` is not unfolded to `1 * x⁻¹`). Side conditions (`… ≠ 0`) are left as goals. -/
macro "deriv_structB" : tactic => `(tactic| (
  repeat' (first
    | exact hasDerivAt_line _ _ _
    | exact hasDerivAt_const _ _
    | apply HasDerivAt.fun_add
    | apply HasDerivAt.fun_sub
    | apply HasDerivAt.div_const
    | apply HasDerivAt.fun_div
    | apply HasDerivAt.fun_mul
    | apply HasDerivAt.fun_neg
    | apply HasDerivAt.sqrt)))

/-! ### Horizontal point–line distance (rational, guarded) -/

/-- The guard of `HorizontalPointLineDistance` is strictly inactive at `v`: the line is not
(nearly) horizontal and its end points are not (nearly) coincident. -/
def RegularHPLD (l : Seg) (v : Nat → ℝ) : Prop :=
  EPS < |v l.p1.y - v l.p0.y| ∧
  EPS < (v l.p1.x - v l.p0.x) * (v l.p1.x - v l.p0.x) + (v l.p1.y - v l.p0.y) * (v l.p1.y - v l.p0.y)

theorem deriv_horizontalPointLineDistance (p : Pt) (l : Seg) (d : ℝ) (hreg : RegularHPLD l v) :
    DerivRow (.horizontalPointLineDistance p l d) v u (·.r0) (·.r0) := by
  obtain ⟨h1, h2⟩ := hreg
  have hj : ¬ (|v l.p1.y - v l.p0.y| < EPS ∨
      (v l.p1.x - v l.p0.x) * (v l.p1.x - v l.p0.x) + (v l.p1.y - v l.p0.y) * (v l.p1.y - v l.p0.y) < EPS) := by
    rintro (h | h)
    · exact absurd h (not_lt.mpr h1.le)
    · exact absurd h (not_lt.mpr h2.le)
  have hdy : v l.p1.y - v l.p0.y ≠ 0 := by
    intro h0; rw [h0, abs_zero] at h1; exact lt_irrefl _ (lt_trans EPS_pos h1)
  have hev : ∀ᶠ t in 𝓝 (0 : ℝ),
      ((Constraint.horizontalPointLineDistance p l d).residualV (lineThrough v u t)).r0 =
      lineThrough v u t p.x - d - lineThrough v u t l.p0.x
        - (lineThrough v u t p.y - lineThrough v u t l.p0.y)
          * (-lineThrough v u t l.p0.x + lineThrough v u t l.p1.x)
          * (1.0 / (-lineThrough v u t l.p0.y + lineThrough v u t l.p1.y)) := by
    have c1 : ContinuousAt (fun t => |lineThrough v u t l.p1.y - lineThrough v u t l.p0.y|) 0 := by
      have := continuous_line v u l.p1.y; have := continuous_line v u l.p0.y
      fun_prop
    have c2 : ContinuousAt (fun t =>
        (lineThrough v u t l.p1.x - lineThrough v u t l.p0.x) * (lineThrough v u t l.p1.x - lineThrough v u t l.p0.x)
        + (lineThrough v u t l.p1.y - lineThrough v u t l.p0.y) * (lineThrough v u t l.p1.y - lineThrough v u t l.p0.y)) 0 := by
      have := continuous_line v u l.p1.x; have := continuous_line v u l.p0.x
      have := continuous_line v u l.p1.y; have := continuous_line v u l.p0.y
      fun_prop
    have e1 := eventually_not_lt c1 (by simpa [lineThrough] using h1)
    have e2 := eventually_not_lt c2 (by simpa [lineThrough] using h2)
    filter_upwards [e1, e2] with t t1 t2
    simp only [Constraint.residualV, abs_real]
    rw [if_neg (by rintro (h | h); exact t1 h; exact t2 h)]
    rfl
  unfold DerivRow
  refine HasDerivAt.congr_of_eventuallyEq ?_ hev
  simp only [Constraint.jacobianV, abs_real]
  rw [if_neg hj]
  simp only [rowApply, List.map_cons, List.map_nil, List.sum_cons, List.sum_nil, recip, sqr]
  apply HasDerivAt.congr_deriv
  · deriv_structB
    simp only [lineThrough, zero_mul, add_zero]
    intro h; apply hdy; linarith
  · lits
    have h3 : v l.p0.y - v l.p1.y ≠ 0 := by intro h; apply hdy; linarith
    have h4 : -v l.p0.y + v l.p1.y ≠ 0 := by intro h; apply hdy; linarith
    field_simp
    ring

/-- Non-vacuity: the segment `(0,0)–(0,1)`. -/
example : RegularHPLD ⟨⟨0, 1⟩, ⟨2, 3⟩⟩ (fun i => if i = 3 then 1 else 0) := by
  unfold RegularHPLD; rw [EPS_real]; norm_num

/-! ### Symmetric (rational; only the Jacobian is guarded) -/

/-- The Jacobian guard of `Symmetric` (`(|q - p|²)² < EPS`) is inactive at `v`; in particular the
mirror line's end points are distinct, which is all the (unguarded) residual needs. -/
def RegularSymmetric (l : Seg) (v : Nat → ℝ) : Prop :=
  EPS ≤ ((v l.p0.x - v l.p1.x) * (v l.p0.x - v l.p1.x) + (v l.p0.y - v l.p1.y) * (v l.p0.y - v l.p1.y))
      * ((v l.p0.x - v l.p1.x) * (v l.p0.x - v l.p1.x) + (v l.p0.y - v l.p1.y) * (v l.p0.y - v l.p1.y))

theorem symmetric_ne {l : Seg} {v : Nat → ℝ} (hreg : RegularSymmetric l v) :
    (v l.p0.x - v l.p1.x) * (v l.p0.x - v l.p1.x) + (v l.p0.y - v l.p1.y) * (v l.p0.y - v l.p1.y) ≠ 0 := by
  intro h0
  unfold RegularSymmetric at hreg
  rw [h0, mul_zero] at hreg
  exact absurd EPS_pos (not_lt.mpr hreg)

/-- `RegularSymmetric` is exactly "the Jacobian code does not report degeneracy". -/
theorem regularSymmetric_iff (l : Seg) (a b : Pt) (v : Nat → ℝ) :
    RegularSymmetric l v ↔ ((Constraint.symmetric l a b).jacobianV v).degenerate = false := by
  unfold RegularSymmetric
  simp only [Constraint.jacobianV]
  by_cases h : sqr ((v l.p0.x - v l.p1.x) * (v l.p0.x - v l.p1.x) + (v l.p0.y - v l.p1.y) * (v l.p0.y - v l.p1.y)) < EPS
  · rw [if_pos h]
    simp only [Bool.true_eq_false, iff_false, not_le]
    exact h
  · rw [if_neg h]
    simp only [iff_true]
    exact not_lt.mp h

theorem deriv_symmetric_row0 (l : Seg) (a b : Pt) (hreg : RegularSymmetric l v) :
    DerivRow (.symmetric l a b) v u (·.r0) (·.r0) := by
  have hr := symmetric_ne hreg
  have hr' : (v l.p1.x - v l.p0.x) * (v l.p1.x - v l.p0.x) + (v l.p1.y - v l.p0.y) * (v l.p1.y - v l.p0.y) ≠ 0 := by
    intro h; apply hr; linarith
  have hj : ¬ (sqr ((v l.p0.x - v l.p1.x) * (v l.p0.x - v l.p1.x) + (v l.p0.y - v l.p1.y) * (v l.p0.y - v l.p1.y))
      < EPS) := not_lt.mpr hreg
  unfold DerivRow
  simp only [Constraint.residualV, Constraint.jacobianV, Res.mk2]
  rw [if_neg hj]
  simp only [sqr]
  simp only [rowApply, List.map_cons, List.map_nil, List.sum_cons, List.sum_nil]
  apply HasDerivAt.congr_deriv
  · deriv_structB
    simpa [lineThrough] using hr'
  · lits
    have hR : (v l.p1.x - v l.p0.x) * (v l.p1.x - v l.p0.x) + (v l.p1.y - v l.p0.y) * (v l.p1.y - v l.p0.y)
        = (v l.p0.x - v l.p1.x) * (v l.p0.x - v l.p1.x) + (v l.p0.y - v l.p1.y) * (v l.p0.y - v l.p1.y) := by
      ring
    rw [hR]
    generalize hRd : (v l.p0.x - v l.p1.x) * (v l.p0.x - v l.p1.x) + (v l.p0.y - v l.p1.y) * (v l.p0.y - v l.p1.y) = R at hr ⊢
    field_simp
    subst hRd
    ring

theorem deriv_symmetric_row1 (l : Seg) (a b : Pt) (hreg : RegularSymmetric l v) :
    DerivRow (.symmetric l a b) v u (·.r1) (·.r1) := by
  have hr := symmetric_ne hreg
  have hr' : (v l.p1.x - v l.p0.x) * (v l.p1.x - v l.p0.x) + (v l.p1.y - v l.p0.y) * (v l.p1.y - v l.p0.y) ≠ 0 := by
    intro h; apply hr; linarith
  have hj : ¬ (sqr ((v l.p0.x - v l.p1.x) * (v l.p0.x - v l.p1.x) + (v l.p0.y - v l.p1.y) * (v l.p0.y - v l.p1.y))
      < EPS) := not_lt.mpr hreg
  unfold DerivRow
  simp only [Constraint.residualV, Constraint.jacobianV, Res.mk2]
  rw [if_neg hj]
  simp only [sqr]
  simp only [rowApply, List.map_cons, List.map_nil, List.sum_cons, List.sum_nil]
  apply HasDerivAt.congr_deriv
  · deriv_structB
    simpa [lineThrough] using hr'
  · lits
    have hR : (v l.p1.x - v l.p0.x) * (v l.p1.x - v l.p0.x) + (v l.p1.y - v l.p0.y) * (v l.p1.y - v l.p0.y)
        = (v l.p0.x - v l.p1.x) * (v l.p0.x - v l.p1.x) + (v l.p0.y - v l.p1.y) * (v l.p0.y - v l.p1.y) := by
      ring
    rw [hR]
    generalize hRd : (v l.p0.x - v l.p1.x) * (v l.p0.x - v l.p1.x) + (v l.p0.y - v l.p1.y) * (v l.p0.y - v l.p1.y) = R at hr ⊢
    field_simp
    subst hRd
    ring

/-- Non-vacuity: the mirror line `(0,0)–(0,1)`. -/
example : RegularSymmetric ⟨⟨0, 1⟩, ⟨2, 3⟩⟩ (fun i => if i = 3 then 1 else 0) := by
  unfold RegularSymmetric; rw [EPS_real]; norm_num

/-! ### Point–line distance (square root and `powf _ 1.5`; only the residual is guarded) -/

/-- `x ^ 1.5` as a product of square roots. -/
theorem rpow_three_halves {x : ℝ} (hx : 0 < x) : x ^ (3 / 2 : ℝ) = √x * √x * √x := by
  rw [Real.sqrt_eq_rpow, ← Real.rpow_add hx, ← Real.rpow_add hx]
  norm_num

/-- The residual guard of `PointLineDistance` (`|q - p| < EPS`) is strictly inactive at `v`. (The
Jacobian code has no guard of its own.) -/
def RegularPLD (l : Seg) (v : Nat → ℝ) : Prop :=
  EPS < Real.sqrt ((v l.p0.y - v l.p1.y) * (v l.p0.y - v l.p1.y) + (v l.p1.x - v l.p0.x) * (v l.p1.x - v l.p0.x))

theorem deriv_pointLineDistance (p : Pt) (l : Seg) (d : ℝ) (hreg : RegularPLD l v) :
    DerivRow (.pointLineDistance p l d) v u (·.r0) (·.r0) := by
  unfold RegularPLD at hreg
  have hEpos : 0 < Real.sqrt ((v l.p0.y - v l.p1.y) * (v l.p0.y - v l.p1.y)
      + (v l.p1.x - v l.p0.x) * (v l.p1.x - v l.p0.x)) := lt_trans EPS_pos hreg
  have hSpos : 0 < (v l.p0.y - v l.p1.y) * (v l.p0.y - v l.p1.y)
      + (v l.p1.x - v l.p0.x) * (v l.p1.x - v l.p0.x) := Real.sqrt_pos.mp hEpos
  have hev : ∀ᶠ t in 𝓝 (0 : ℝ),
      ((Constraint.pointLineDistance p l d).residualV (lineThrough v u t)).r0 =
      ((lineThrough v u t l.p0.y - lineThrough v u t l.p1.y) * lineThrough v u t p.x
        + (lineThrough v u t l.p1.x - lineThrough v u t l.p0.x) * lineThrough v u t p.y
        + (lineThrough v u t l.p0.x * lineThrough v u t l.p1.y
            - lineThrough v u t l.p1.x * lineThrough v u t l.p0.y))
        / Real.sqrt ((lineThrough v u t l.p0.y - lineThrough v u t l.p1.y)
              * (lineThrough v u t l.p0.y - lineThrough v u t l.p1.y)
            + (lineThrough v u t l.p1.x - lineThrough v u t l.p0.x)
              * (lineThrough v u t l.p1.x - lineThrough v u t l.p0.x)) - d := by
    have c1 : ContinuousAt (fun t => Real.sqrt ((lineThrough v u t l.p0.y - lineThrough v u t l.p1.y)
              * (lineThrough v u t l.p0.y - lineThrough v u t l.p1.y)
            + (lineThrough v u t l.p1.x - lineThrough v u t l.p0.x)
              * (lineThrough v u t l.p1.x - lineThrough v u t l.p0.x))) 0 := by
      have := continuous_line v u l.p1.x; have := continuous_line v u l.p0.x
      have := continuous_line v u l.p1.y; have := continuous_line v u l.p0.y
      fun_prop
    have e1 := eventually_not_lt c1 (by simpa [lineThrough] using hreg)
    filter_upwards [e1] with t t1
    simp only [Constraint.residualV, hypot_real]
    rw [if_neg t1]
    -- (the code computes the numerator relative to the line's first point since fix 7c5f1bc; it is
    -- the same real number as `A·px + B·py + C`)
    show _ / _ - d = _ / _ - d
    congr 2
    ring
  unfold DerivRow
  refine HasDerivAt.congr_of_eventuallyEq ?_ hev
  simp only [Constraint.jacobianV, hypot_real, powf_real, sqr]
  simp only [rowApply, List.map_cons, List.map_nil, List.sum_cons, List.sum_nil]
  apply HasDerivAt.congr_deriv
  · deriv_structB
    · simpa [lineThrough] using hSpos.ne'
    · simpa [lineThrough] using hEpos.ne'
  · lits
    have hS : (-v l.p0.x + v l.p1.x) * (-v l.p0.x + v l.p1.x) + (v l.p0.y - v l.p1.y) * (v l.p0.y - v l.p1.y)
        = (v l.p0.y - v l.p1.y) * (v l.p0.y - v l.p1.y) + (v l.p1.x - v l.p0.x) * (v l.p1.x - v l.p0.x) := by
      ring
    rw [hS, rpow_three_halves hSpos]
    generalize Real.sqrt ((v l.p0.y - v l.p1.y) * (v l.p0.y - v l.p1.y)
      + (v l.p1.x - v l.p0.x) * (v l.p1.x - v l.p0.x)) = E at hEpos ⊢
    have hE := hEpos.ne'
    field_simp
    ring

/-- Non-vacuity: the segment `(0,0)–(0,1)`. -/
example : RegularPLD ⟨⟨0, 1⟩, ⟨2, 3⟩⟩ (fun i => if i = 3 then 1 else 0) := by
  unfold RegularPLD; rw [EPS_real]; norm_num

end Ezpz
