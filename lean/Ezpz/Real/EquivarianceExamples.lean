/-
C12 at the entry point WITH freedom analysis: non-vacuity witnesses on runs that SUCCEED after a
GENUINE Newton step.

The examples at the end of `Real/EquivarianceDof.lean` show only that the hypotheses of
`solveInner_renumber_withAnalysis` / `solveInner_perm_withAnalysis` can be met; the conclusion there
is a relation (`ResRel …`) that also holds when both runs fail.  Here the entry-point theorems
`solveWithPriority_renumber_withAnalysis` and `solveWithPriority_perm_withAnalysis` are applied to
runs that are NOT started at the solution, with LU oracles that are exact total solvers of the damped
normal equations with the code's damping `1e-9`:

* `renumber_example_with_step` — the run of `Real/StepExamples.lean` ("variable 0 is 5" on two
  variables, guesses `[(0, 0), (1, 7)]`): it succeeds after ONE iteration with values
  `[5/(1+1e-9), 7]` and report `[1]`; the theorem yields that the run with the two variables
  exchanged succeeds with values `[7, 5/(1+1e-9)]`, one iteration, report `[0]`.
* `perm_example_with_step` — "variable 0 is 5, variable 1 is 7" on three variables, guesses
  `[(0, 0), (1, 0), (2, 3)]`: it succeeds after ONE iteration with values
  `[5/(1+1e-9), 7/(1+1e-9), 3]` and report `[2]`; the theorem yields that the run with the two
  requests listed in the other order succeeds with the same values, iteration count and report.

In both cases the second run is NOT recomputed: its success and its fields are derived from the
relation that the entry-point theorem concludes.
-/
import Ezpz.Real.EquivarianceDof
import Ezpz.Real.StepExamples
set_option linter.unusedSimpArgs false
set_option linter.unusedSectionVars false
set_option linter.unnecessarySeqFocus false
namespace Ezpz.EquivEx
open Ezpz Transc Matrix StepEx

/-! ### Generic transfer lemmas: a successful first run and the relation give a successful second run -/

/-- If two results are related by `ResRel` and the first is a success, so is the second, and the two
outcomes are related. -/
theorem resRel_ok {RF : Failure ℝ → Failure ℝ → Prop} {RO : Outcome ℝ → Outcome ℝ → Prop}
    {x y : Except (Failure ℝ) (Outcome ℝ)} (h : ResRel RF RO x y) (o : Outcome ℝ) (hx : x = .ok o) :
    ∃ o', y = .ok o' ∧ RO o o' := by
  subst hx
  cases y with
  | ok o' => exact ⟨o', rfl, h⟩
  | error f => exact h.elim

/-- A list of two entries that is `[a, b]` reordered by `swap01` is `[b, a]`. -/
theorem reordered_swap01 {β : Type} (a b : β) (l : List β) (h : Reordered swap01 2 [a, b] l) :
    l = [b, a] := by
  obtain ⟨_, hl, hr⟩ := h
  have h0 := hr 0 (by omega)
  have h1 := hr 1 (by omega)
  match l, hl with
  | [x, y], _ =>
    simp [swap01] at h0 h1
    rw [h0, h1]

/-- If the report of the original run is `[1]`, the report of the run renumbered by `swap01` is
`[0]`. -/
theorem dofRenum_swap01_one (u : Option (List Nat)) (h : DofRenum swap01 (some [1]) u) :
    u = some [0] := by
  cases u with
  | none => exact h.elim
  | some u' =>
    have hp : u'.Perm [0] := h.1
    rw [List.perm_singleton.mp hp]

/-! ### 1. Renumbering the variables, on a run with a genuine step -/

/-- The guess list of the renumbered run: the labels stay `0, 1`, the values are exchanged. -/
def sxG' : List (Nat × ℝ) := [(0, 7), (1, 0)]

/-- The SVD oracle of the renumbered run: `σ = [1]`, `V =` the swap matrix (a correct SVD of
`[0 1]`). -/
def exSvdS : Svd ℝ := fun _ _ => .ok ([1], [[0, 1], [1, 0]])

/-- The only level of the request list "variable 0 is 5" is 0, and the requests of that level are
the single entry. -/
theorem sx_level (i p : Nat) (hp : (levels (enumerate sxReqs))[i]? = some p) :
    (enumerate sxReqs).filter (fun e => e.priority ≤ p) = sxEs := by
  have hl : levels (enumerate sxReqs) = [0] :=
    levels_single sxReqs 0 (by simp [sxReqs]) (by simp [sxReqs])
  rw [hl] at hp
  have hp0 : p = 0 := by
    cases i with
    | zero => simpa using hp.symm
    | succ j => simp at hp
  subst hp0
  rw [filter_single_level sxReqs 0 0 (by simp [sxReqs]) ⟨_, List.mem_singleton.mpr rfl, rfl⟩]
  rfl

/-- The SVD oracle `σ = [1]`, `V = I₂` is good on the last Jacobian `[(0, 0, 1)]` of the original
run. -/
theorem sx_good_I (i : Nat) : SvdGood (DofEntryEx.exSvd i) (numRows sxEs) 2 [(0, 0, 1.0)] := by
  refine ⟨[1], _, rfl, by simp, by simp, exd_hV_I, exd_gap, ?_⟩
  rw [show numRows sxEs = 1 from rfl, exd_mat_I]
  exact exd_svd_I

/-- The SVD oracle `σ = [1]`, `V =` swap is good on the last Jacobian `[(0, 1, 1)]` of the
renumbered run. -/
theorem sx_good_S (i : Nat) : SvdGood (exSvdS i) (numRows sxEs) 2 [(0, 1, 1.0)] := by
  refine ⟨[1], _, rfl, by simp, by simp, exd_hV_S, exd_gap, ?_⟩
  rw [show numRows sxEs = 1 from rfl, exd_mat_S]
  exact exd_svd_S

/-- **Non-vacuity witness for `solveWithPriority_renumber_withAnalysis` on a successful run that
takes a genuine Newton step.**  Requests "variable 0 is 5" on two variables, guesses
`[(0, 0), (1, 7)]`, renumbering `swap01`, renumbered guesses `[(0, 7), (1, 0)]`.  There are LU
oracles (the same exact total solver of the damped normal equations with the code's damping `1e-9`
for both runs) and SVD oracles (`([1], I₂)` resp. `([1], swap)`) such that

* every hypothesis of `solveWithPriority_renumber_withAnalysis` holds (items 1–7 below);
* the original run is `.ok o` with `o.iterations = 1`, `o.finalValues = [5/(1+1e-9), 7]`,
  `o.underconstrained = some [1]`, and variable 0 has really moved away from its guess;
* hence — by the theorem's relation `Outcome.RenumEqDof`, not by recomputing — the renumbered run is
  `.ok o'` with `o'.finalValues = [7, 5/(1+1e-9)]`, `o'.iterations = 1`,
  `o'.underconstrained = some [0]`, and nothing unsatisfied. -/
theorem renumber_example_with_step :
    ∃ (solve solve' : LinSolve ℝ) (svd svd' : Svd ℝ) (o : Outcome ℝ),
      -- the hypotheses of `solveWithPriority_renumber_withAnalysis`
      PermOn 2 swap01 ∧
      (∀ r ∈ sxReqs, ∀ i ∈ r.1.nonzeroes.all, i < 2) ∧
      (∀ i, ColPermSolve (solve i) (solve' i) swap01 2) ∧
      Reordered swap01 2 (sxG.map (·.2)) (sxG'.map (·.2)) ∧
      (∀ v, v < 2 → (sxG'.map (·.1)).contains (swap01 v) = (sxG.map (·.1)).contains v) ∧
      (∀ i p, (levels (enumerate sxReqs))[i]? = some p → ∀ a,
        newton ((enumerate sxReqs).filter (fun e => e.priority ≤ p)) sxCfg (solve i)
          (sxG.map (·.2)) = .ok a →
        SvdGood (svd i) (numRows ((enumerate sxReqs).filter (fun e => e.priority ≤ p))) 2
          a.lastJac) ∧
      (∀ i p, (levels (enumerate sxReqs))[i]? = some p → ∀ b,
        newton (((enumerate sxReqs).filter (fun e => e.priority ≤ p)).map (Entry.rename swap01))
          sxCfg (solve' i) (sxG'.map (·.2)) = .ok b →
        SvdGood (svd' i) (numRows ((enumerate sxReqs).filter (fun e => e.priority ≤ p))) 2
          b.lastJac) ∧
      -- the LU oracles are exact total damped solvers with the code's damping
      (∀ i, ExactSolve (solve i) 1 2 (fun _ => Gen.REGULARIZATION_LAMBDA)) ∧
      (∀ i, ExactSolve (solve' i) 1 2 (fun _ => Gen.REGULARIZATION_LAMBDA)) ∧
      -- the original run succeeds after one genuine step
      solveWithPriority sxReqs sxG sxCfg solve (some svd) = .ok o ∧
      o.iterations = 1 ∧ o.finalValues = [sxA, 7] ∧ o.underconstrained = some [1] ∧
      o.finalValues[0]? ≠ (sxG.map (·.2))[0]? ∧
      -- the renumbered run, from the theorem
      ∃ o', solveWithPriority (sxReqs.map (fun r => (r.1.rename swap01, r.2))) sxG' sxCfg solve'
          (some svd') = .ok o' ∧
        Outcome.RenumEqDof swap01 2 o o' ∧
        o'.finalValues = [7, sxA] ∧ o'.iterations = 1 ∧ o'.underconstrained = some [0] ∧
        o'.unsatisfied = [] := by
  have h2 : ∀ i, i < 2 → i = 0 ∨ i = 1 := by omega
  have hpos : (0 : ℝ) < Gen.REGULARIZATION_LAMBDA := by rw [lambda_real]; norm_num
  obtain ⟨s, hs, ht⟩ := exists_exactSolve 1 2 (fun _ => (Gen.REGULARIZATION_LAMBDA : ℝ))
    (fun _ => hpos)
  have hcol : ColPermSolve s s swap01 2 :=
    colPermSolve_of_exact s s 1 2 swap01 permOn_swap01 _ (fun _ => hpos) hs hs ht ht
  have hrun : solveWithPriority sxReqs sxG sxCfg (fun _ => s) (some DofEntryEx.exSvd) =
      .ok ⟨[], [sxA, 7], 1, [], 0, some [1]⟩ := sx_run_svd s hs ht
  -- the hypotheses
  have hd : ∀ r ∈ sxReqs, ∀ i ∈ r.1.nonzeroes.all, i < 2 := by
    intro r hr i hi
    simp only [sxReqs, List.mem_singleton] at hr
    subst hr
    simp [Constraint.nonzeroes, Rows.all] at hi
    omega
  have hval : Reordered swap01 2 (sxG.map (·.2)) (sxG'.map (·.2)) := by
    refine ⟨rfl, rfl, ?_⟩
    intro i hi
    rcases h2 i hi with rfl | rfl <;> rfl
  have hlab : ∀ v, v < 2 → (sxG'.map (·.1)).contains (swap01 v) = (sxG.map (·.1)).contains v := by
    intro v hv
    rcases h2 v hv with rfl | rfl <;> decide
  have hG : ∀ i p, (levels (enumerate sxReqs))[i]? = some p → ∀ a,
      newton ((enumerate sxReqs).filter (fun e => e.priority ≤ p)) sxCfg s (sxG.map (·.2)) = .ok a →
      SvdGood (DofEntryEx.exSvd i) (numRows ((enumerate sxReqs).filter (fun e => e.priority ≤ p))) 2
        a.lastJac := by
    intro i p hp a ha
    rw [sx_level i p hp] at ha ⊢
    rw [exd_lastJac_I _ _ _ a ha]
    exact sx_good_I i
  have hG' : ∀ i p, (levels (enumerate sxReqs))[i]? = some p → ∀ b,
      newton (((enumerate sxReqs).filter (fun e => e.priority ≤ p)).map (Entry.rename swap01))
        sxCfg s (sxG'.map (·.2)) = .ok b →
      SvdGood (exSvdS i) (numRows ((enumerate sxReqs).filter (fun e => e.priority ≤ p))) 2
        b.lastJac := by
    intro i p hp b hb
    rw [sx_level i p hp] at hb ⊢
    rw [exd_lastJac_S _ _ _ b hb]
    exact sx_good_S i
  -- the theorem
  have key := solveWithPriority_renumber_withAnalysis swap01 2 permOn_swap01 sxReqs hd sxCfg
    (fun _ => s) (fun _ => s) (fun _ => hcol) sxG sxG' hval hlab DofEntryEx.exSvd exSvdS hG hG'
  obtain ⟨o', hrun', hrel⟩ := resRel_ok key _ hrun
  obtain ⟨hfv, hus, hit, _, _, hdof⟩ := hrel
  refine ⟨fun _ => s, fun _ => s, DofEntryEx.exSvd, exSvdS, _, permOn_swap01, hd, fun _ => hcol,
    hval, hlab, hG, hG', fun _ => hs, fun _ => hs, hrun, rfl, rfl, rfl, ?_, o', hrun',
    ⟨hfv, hus, hit, by assumption, by assumption, hdof⟩, ?_, hit, ?_, hus⟩
  · simp [sxG, sxA_ne_zero]
  · exact reordered_swap01 _ _ _ hfv
  · exact dofRenum_swap01_one _ hdof

/-! ### 2. Reordering the caller's list, on a run with a genuine step -/

/-- The request list: "variable 0 is 5", "variable 1 is 7", same priority. -/
def pxReqs : List (Constraint ℝ × Nat) := [(.fixed 0 5, 0), (.fixed 1 7, 0)]
/-- The same requests in the other order. -/
def pxReqs' : List (Constraint ℝ × Nat) := [(.fixed 1 7, 0), (.fixed 0 5, 0)]
/-- The entries of `pxReqs`. -/
def pxEs : List (Entry ℝ) := [⟨.fixed 0 5, 0, 0⟩, ⟨.fixed 1 7, 1, 0⟩]
/-- The entries of `pxReqs'` (ids are the positions in the caller's list). -/
def pxEs' : List (Entry ℝ) := [⟨.fixed 1 7, 0, 0⟩, ⟨.fixed 0 5, 1, 0⟩]
/-- Three variables: 0 and 1 start at 0 (NOT the solution), the unmentioned variable 2 at 3. -/
def pxG : List (Nat × ℝ) := [(0, 0), (1, 0), (2, 3)]
/-- Where variable 1 lands after one exact damped step from 0: `7 / (1 + 1e-9)`. -/
noncomputable def pxB : ℝ := 7 / (1 + 1e-9)
/-- The SVD oracle: `σ = [1, 1]`, `V = I₃` (a correct SVD of `[1 0 0; 0 1 0]` and of its row
swap). -/
def pxSvd : Svd ℝ := fun _ _ => .ok ([1, 1], [[1, 0, 0], [0, 1, 0], [0, 0, 1]])

/-- The enumerated request list. -/
theorem pxEnumerate : enumerate pxReqs = pxEs := rfl
/-- The enumerated reordered request list. -/
theorem pxEnumerate' : enumerate pxReqs' = pxEs' := rfl

/-- Residual, Jacobian and largest residual of the two entries at the values `[x0, x1, x2]`. -/
theorem px_eval (x0 x1 x2 : ℝ) :
    residualAll pxEs (lookup [x0, x1, x2]) = .ok ([x0 - 5, x1 - 7], []) ∧
    jacobianAll pxEs (lookup [x0, x1, x2]) = .ok ([(0, 0, 1.0), (1, 1, 1.0)], []) ∧
    maxAbs? [x0 - 5, x1 - 7] = some (max |x0 - 5| |x1 - 7|) := by
  refine ⟨?_, ?_, ?_⟩
  · simp [pxEs, residualAll, Constraint.residual, Constraint.residualV,
      Constraint.residualReads, lookup, takeRows, Constraint.residualDim, Res.mk1]
  · simp [pxEs, jacobianAll, jacobianFrom, pattern, patternFrom,
      Constraint.jacobianRows, Constraint.jacobianV,
      Constraint.jacobianReads, lookup, takeRows, Constraint.residualDim, Constraint.nonzeroes]
  · simp [maxAbs?]

/-- What an exact solver with damping `lam` answers on the `2 × 3` system with matrix
`[1 0 0; 0 1 0]` and residual `[ρ0, ρ1]`: the step `[-ρ0/(1+lam k), -ρ1/(1+lam k), 0]` — the third
variable has an empty column and is not moved. -/
theorem exactSolve_two_by_three (s : Nat → List (Triplet ℝ) → List ℝ → Except SolveError (List ℝ))
    (lam : Nat → ℝ) (hlam : ∀ k, 0 < lam k) (hs : ExactSolve s 2 3 lam) (k : Nat) (ρ0 ρ1 : ℝ)
    (d : List ℝ) (h : s k [(0, 0, 1.0), (1, 1, 1.0)] [ρ0, ρ1] = .ok d) :
    d = [-ρ0 / (1 + lam k), -ρ1 / (1 + lam k), 0] := by
  obtain ⟨hl, hst⟩ := hs k _ _ d h
  match d, hl with
  | [d0, d1, d2], _ =>
    rw [exd_mat_A] at hst
    have h0 := congrFun hst 0
    have h1 := congrFun hst 1
    have h2 := congrFun hst 2
    simp [GN.IsStep, vecOf, Matrix.mulVec, dotProduct, Matrix.add_apply, Matrix.mul_apply,
      Fin.sum_univ_two, Fin.sum_univ_three, Matrix.one_apply] at h0 h1 h2
    have hp : (1 + lam k) ≠ 0 := by have := hlam k; positivity
    have hd2 : d2 = 0 := by
      rcases h2 with h2 | h2
      · exact absurd h2 (ne_of_gt (hlam k))
      · exact h2
    have hd0 : d0 = -ρ0 / (1 + lam k) := by
      field_simp
      linarith
    have hd1 : d1 = -ρ1 / (1 + lam k) := by
      field_simp
      linarith
    rw [hd0, hd1, hd2]

/-- `7 / (1 + 1e-9)` is within the residual tolerance `1e-5` of 7. -/
theorem pxB_close : |pxB - 7| ≤ 1e-5 := by
  have e : pxB - 7 = -(7 * 1e-9 / (1 + 1e-9)) := by unfold pxB; field_simp; ring
  rw [e, abs_neg, abs_of_nonneg (by positivity), div_le_iff₀ (by norm_num)]
  norm_num

/-- Variable 1 has really moved: `7 / (1 + 1e-9) ≠ 0`. -/
theorem pxB_ne_zero : pxB ≠ 0 := by unfold pxB; positivity

section Run
variable (s : Nat → List (Triplet ℝ) → List ℝ → Except SolveError (List ℝ))
  (hs : ExactSolve s 2 3 (fun _ => Gen.REGULARIZATION_LAMBDA))
  (htot : ∀ k jac r, ∃ d, s k jac r = .ok d)
include hs htot

/-- Round 0: from the guess `[0, 0, 3]` the residual test fails, the exact damped solver answers
`[5/(1+1e-9), 7/(1+1e-9), 0]`, the step-size test does not fire, and the loop continues at
`[5/(1+1e-9), 7/(1+1e-9), 3]`. -/
theorem px_step0 : newtonStep pxEs sxCfg s 0 [0, 0, 3] [] = .next [sxA, pxB, 3] [] := by
  obtain ⟨hr, hj, hm⟩ := px_eval 0 0 3
  obtain ⟨d, hd⟩ := htot 0 [(0, 0, 1.0), (1, 1, 1.0)] [0 - 5, 0 - 7]
  have hd' := exactSolve_two_by_three s (fun _ => Gen.REGULARIZATION_LAMBDA)
    (fun _ => by rw [lambda_real]; norm_num) hs 0 (0 - 5) (0 - 7) d hd
  subst hd'
  have e0 : -((0 : ℝ) - 5) / (1 + Gen.REGULARIZATION_LAMBDA) = sxA := by
    rw [lambda_real]; unfold sxA; ring
  have e1 : -((0 : ℝ) - 7) / (1 + Gen.REGULARIZATION_LAMBDA) = pxB := by
    rw [lambda_real]; unfold pxB; ring
  rw [e0, e1] at hd
  have hpos : (0 : ℝ) < sxA := by unfold sxA; positivity
  have hposB : (0 : ℝ) < pxB := by unfold pxB; positivity
  have hbig : (1 : ℝ) ≤ sxA := by
    unfold sxA; rw [le_div_iff₀ (by norm_num)]; norm_num
  rw [newtonStep_eval _ _ s 0 [0, 0, 3] [] _ _ _ _ _ hr hj hm, if_neg (by
    simp only [sxCfg]; norm_num), hd]
  simp [sxCfg, applyStep, allFinite, stepInfNorm, stepThreshold, maxAbs0, maxAbs?, abs_of_pos hpos,
    abs_of_pos hposB]
  rw [lit_0]
  intro h1 _
  exfalso
  have e3 : max (max (0 : ℝ) 0) 3 = 3 := by norm_num
  rw [e3] at h1
  have : (1e-5 : ℝ) * (3 + 1e-5) < 1 := by norm_num
  linarith

omit hs htot in
/-- Round 1: at `[5/(1+1e-9), 7/(1+1e-9), 3]` the residual test passes (whatever the solver). -/
theorem px_step1 : newtonStep pxEs sxCfg s 1 [sxA, pxB, 3] [] =
    .done ⟨[sxA, pxB, 3], 1, [], [(0, 0, 1.0), (1, 1, 1.0)], true⟩ := by
  obtain ⟨hr, hj, hm⟩ := px_eval sxA pxB 3
  rw [newtonStep_eval _ _ s 1 [sxA, pxB, 3] [] _ _ _ _ _ hr hj hm, if_pos (by
    simp only [sxCfg]; exact max_le sxA_close pxB_close)]
  rfl

/-- The Newton run: one continuing round (a genuine step), then a return at the residual test. -/
theorem px_newton : newton pxEs sxCfg s [0, 0, 3] =
    .ok ⟨[sxA, pxB, 3], 1, [], [(0, 0, 1.0), (1, 1, 1.0)], true⟩ := by
  show newtonLoop _ _ _ (28 + 1 + 1) 0 [0, 0, 3] [] = _
  rw [newtonLoop, px_step0 s hs htot]
  dsimp only
  rw [newtonLoop, px_step1 s]

omit hs htot in
/-- The model validates: every mentioned variable is declared by the guess list. -/
theorem px_model : modelNew pxEs (pxG.map (·.1)) = .ok () := by
  simp [pxEs, pxG, modelNew, validateVariables, firstMissing, Constraint.nonzeroes, pattern,
    patternFrom, takeRows, Constraint.residualDim, List.zipIdx]

omit hs htot in
/-- Both requests are satisfied at the returned values. -/
theorem px_sweep : unsatisfiedSweep pxEs (lookup [sxA, pxB, 3]) = .ok [] := by
  have h54 : (1e-5 : ℝ) < 1e-4 := by norm_num
  have hA : |sxA - 5| < 1e-4 := lt_of_le_of_lt sxA_close h54
  have hB : |pxB - 7| < 1e-4 := lt_of_le_of_lt pxB_close h54
  simp [pxEs, unsatisfiedSweep, Constraint.residual, Constraint.residualV, Constraint.residualReads,
    lookup, Constraint.residualDim, Res.mk1, isSatisfied, EPS_real, hA, hB]

end Run

/-! The freedom analysis of `σ = [1, 1]`, `V = I₃` on three variables reports `[2]`. -/

/-- Two non-zero singular values. -/
theorem px_rank : dofRank [1, 1] = 2 := by simp [dofRank]

/-- Variable 0 has participation 0. -/
theorem px_p0 : partic [[1, 0, 0], [0, 1, 0], [0, 0, 1]] 2 3 0 = 0 := by
  have : Finset.Ico 2 3 = {2} := by decide
  simp [partic, this, entryR]

/-- Variable 1 has participation 0. -/
theorem px_p1 : partic [[1, 0, 0], [0, 1, 0], [0, 0, 1]] 2 3 1 = 0 := by
  have : Finset.Ico 2 3 = {2} := by decide
  simp [partic, this, entryR]

/-- Variable 2 has participation 1. -/
theorem px_p2 : partic [[1, 0, 0], [0, 1, 0], [0, 0, 1]] 2 3 2 = 1 := by
  have : Finset.Ico 2 3 = {2} := by decide
  simp [partic, this, entryR]

/-- `calculate` reports `[2]`. -/
theorem px_dof : dofCalculate ([1, 1] : List ℝ) [[1, 0, 0], [0, 1, 0], [0, 0, 1]] 3 = .ok [2] := by
  rw [dofCalculate_eq _ _ _ (by simp) exd_hV_I3 exd_gap11, px_rank]
  have hmax : maxPartic [[1, 0, 0], [0, 1, 0], [0, 0, 1]] 2 3 = 1 := by
    simp [maxPartic, List.range_succ, px_p0, px_p1, px_p2]
  have hr : List.range 3 = [0, 1, 2] := by decide
  rw [hmax, hr]
  simp [List.filter_cons, px_p0, px_p1, px_p2, DOF_PARTICIPATION_TOLERANCE_real]
  norm_num

section Run2
variable (s : Nat → List (Triplet ℝ) → List ℝ → Except SolveError (List ℝ))
  (hs : ExactSolve s 2 3 (fun _ => Gen.REGULARIZATION_LAMBDA))
  (htot : ∀ k jac r, ∃ d, s k jac r = .ok d)
include hs htot

/-- `solveInner` with the SVD oracle `σ = [1, 1]`, `V = I₃`: success after one iteration, values
`[5/(1+1e-9), 7/(1+1e-9), 3]`, under-constrained list `[2]`. -/
theorem px_inner_svd : solveInner pxEs pxG sxCfg s (some (pxSvd 0)) =
    .ok ⟨[], [sxA, pxB, 3], 1, [], 0, some [2]⟩ := by
  have hn : newton pxEs sxCfg s (pxG.map (·.2)) =
      .ok ⟨[sxA, pxB, 3], 1, [], [(0, 0, 1.0), (1, 1, 1.0)], true⟩ := px_newton s hs htot
  have hlen : pxG.length = 3 := rfl
  simp only [solveInner, px_model, hn, px_sweep, runAnalysis, pxSvd, hlen, px_dof]
  simp [lint, lintOne, maxPriority, pxEs]

/-- **The prioritised solve with analysis succeeds after one genuine step**, reporting `[2]`. -/
theorem px_run_svd : solveWithPriority pxReqs pxG sxCfg (fun _ => s) (some pxSvd) =
    .ok ⟨[], [sxA, pxB, 3], 1, [], 0, some [2]⟩ := by
  rw [solveWithPriority_single_level pxReqs pxG sxCfg (fun _ => s) (some pxSvd) 0
    (by simp [pxReqs]) (by simp [pxReqs]), pxEnumerate]
  exact px_inner_svd s hs htot

end Run2

/-- When every request has priority 0, the only level is 0 and the requests of that level are all
the requests. -/
theorem level_zero (reqs : List (Constraint ℝ × Nat)) (hne : reqs ≠ []) (hall : ∀ r ∈ reqs, r.2 = 0)
    (i p : Nat) (hp : (levels (enumerate reqs))[i]? = some p) :
    p = 0 ∧ (enumerate reqs).filter (fun e => e.priority ≤ p) = enumerate reqs := by
  rw [levels_single reqs 0 hne hall] at hp
  have hp0 : p = 0 := by
    cases i with
    | zero => simpa using hp.symm
    | succ j => simp at hp
  subst hp0
  refine ⟨rfl, filter_single_level reqs 0 0 hall ?_⟩
  cases reqs with
  | nil => exact absurd rfl hne
  | cons r rest => exact ⟨r, by simp, hall r (by simp)⟩

/-- The last Jacobian of a successful Newton run on the reordered entries. -/
theorem px_lastJac' (cfg : Config ℝ) (solve) (x : List ℝ) (a : NewtonOk ℝ)
    (h : newton pxEs' cfg solve x = .ok a) : a.lastJac = [(0, 1, 1.0), (1, 0, 1.0)] := by
  obtain ⟨y, w2, hj, _, _⟩ := C05.newtonLoop_lastJac _ cfg solve _ _ _ _ a h
  simp [pxEs', jacobianAll, jacobianFrom, pattern, patternFrom, Constraint.jacobianRows,
    Constraint.jacobianV, Constraint.jacobianReads, takeRows, Constraint.residualDim,
    Constraint.nonzeroes] at hj
  exact hj.1.symm

/-- The SVD oracle `σ = [1, 1]`, `V = I₃` is good on the last Jacobian of the original run. -/
theorem px_good (i : Nat) : SvdGood (pxSvd i) (numRows pxEs) 3 [(0, 0, 1.0), (1, 1, 1.0)] := by
  refine ⟨[1, 1], _, rfl, by simp, by simp, exd_hV_I3, exd_gap11, ?_⟩
  rw [show numRows pxEs = 2 from rfl]
  exact exd_svd3 _ (Or.inl exd_mat_A)

/-- The same oracle is good on the last Jacobian of the reordered run (the row swap). -/
theorem px_good' (i : Nat) : SvdGood (pxSvd i) (numRows pxEs) 3 [(0, 1, 1.0), (1, 0, 1.0)] := by
  refine ⟨[1, 1], _, rfl, by simp, by simp, exd_hV_I3, exd_gap11, ?_⟩
  rw [show numRows pxEs = 2 from rfl]
  exact exd_svd3 _ (Or.inr exd_mat_B)

/-- **Non-vacuity witness for `solveWithPriority_perm_withAnalysis` on a successful run that takes a
genuine Newton step.**  Requests "variable 0 is 5", "variable 1 is 7" (one priority level) listed in
the two orders, three variables with guesses `[(0, 0), (1, 0), (2, 3)]`.  There are LU oracles (the
same exact total solver of the damped normal equations with the code's damping `1e-9` for both
runs) and an SVD oracle (`([1, 1], I₃)` for both) such that

* every hypothesis of `solveWithPriority_perm_withAnalysis` holds (items 1–6 below);
* the original run is `.ok o` with `o.iterations = 1`,
  `o.finalValues = [5/(1+1e-9), 7/(1+1e-9), 3]`, `o.underconstrained = some [2]` (the unmentioned
  variable), and variables 0 and 1 have really moved away from their guesses;
* hence — by the theorem's relation `Outcome.EntryPermEq`, not by recomputing — the run on the
  reordered list is `.ok o'` with the same final values, iteration count and under-constrained
  list, and nothing unsatisfied. -/
theorem perm_example_with_step :
    ∃ (solve solve' : LinSolve ℝ) (svd svd' : Svd ℝ) (o : Outcome ℝ),
      -- the hypotheses of `solveWithPriority_perm_withAnalysis`
      PermOn 2 swap01 ∧
      Reordered swap01 2 pxReqs pxReqs' ∧
      (∀ i p, (levels (enumerate pxReqs))[i]? = some p → RowPermSolve (solve i) (solve' i)
        (numRows ((enumerate pxReqs).filter (fun e => e.priority ≤ p)))) ∧
      (∀ i p, (levels (enumerate pxReqs))[i]? = some p → ∀ a,
        newton ((enumerate pxReqs).filter (fun e => e.priority ≤ p)) sxCfg (solve i)
          (pxG.map (·.2)) = .ok a →
        SvdGood (svd i) (numRows ((enumerate pxReqs).filter (fun e => e.priority ≤ p))) pxG.length
          a.lastJac) ∧
      (∀ i p, (levels (enumerate pxReqs))[i]? = some p → ∀ b,
        newton ((enumerate pxReqs').filter (fun e => e.priority ≤ p)) sxCfg (solve' i)
          (pxG.map (·.2)) = .ok b →
        SvdGood (svd' i) (numRows ((enumerate pxReqs).filter (fun e => e.priority ≤ p))) pxG.length
          b.lastJac) ∧
      (∀ p ∈ levels (enumerate pxReqs),
        modelNew ((enumerate pxReqs).filter (fun e => e.priority ≤ p)) (pxG.map (·.1)) = .ok ()) ∧
      -- the LU oracles are exact total damped solvers with the code's damping
      (∀ i, ExactSolve (solve i) 2 3 (fun _ => Gen.REGULARIZATION_LAMBDA)) ∧
      (∀ i, ExactSolve (solve' i) 2 3 (fun _ => Gen.REGULARIZATION_LAMBDA)) ∧
      -- the original run succeeds after one genuine step
      solveWithPriority pxReqs pxG sxCfg solve (some svd) = .ok o ∧
      o.iterations = 1 ∧ o.finalValues = [sxA, pxB, 3] ∧ o.underconstrained = some [2] ∧
      o.finalValues[0]? ≠ (pxG.map (·.2))[0]? ∧ o.finalValues[1]? ≠ (pxG.map (·.2))[1]? ∧
      -- the reordered run, from the theorem
      ∃ o', solveWithPriority pxReqs' pxG sxCfg solve' (some svd') = .ok o' ∧
        Outcome.EntryPermEq swap01 o o' ∧
        o'.finalValues = [sxA, pxB, 3] ∧ o'.iterations = 1 ∧ o'.underconstrained = some [2] ∧
        o'.unsatisfied = [] := by
  have h2 : ∀ i, i < 2 → i = 0 ∨ i = 1 := by omega
  have hpos : (0 : ℝ) < Gen.REGULARIZATION_LAMBDA := by rw [lambda_real]; norm_num
  obtain ⟨s, hs, ht⟩ := exists_exactSolve 2 3 (fun _ => (Gen.REGULARIZATION_LAMBDA : ℝ))
    (fun _ => hpos)
  have hrow : RowPermSolve s s 2 :=
    rowPermSolve_of_exact s s 2 3 _ (fun _ => hpos) hs hs (fun k jac r _ _ => ht k jac r)
      (fun k jac r _ _ => ht k jac r)
  have hrun : solveWithPriority pxReqs pxG sxCfg (fun _ => s) (some pxSvd) =
      .ok ⟨[], [sxA, pxB, 3], 1, [], 0, some [2]⟩ := px_run_svd s hs ht
  have hne : pxReqs ≠ [] := by simp [pxReqs]
  have hall : ∀ r ∈ pxReqs, r.2 = 0 := by simp [pxReqs]
  have hne' : pxReqs' ≠ [] := by simp [pxReqs']
  have hall' : ∀ r ∈ pxReqs', r.2 = 0 := by simp [pxReqs']
  have hlev : ∀ (i p : Nat), (levels (enumerate pxReqs))[i]? = some p →
      (enumerate pxReqs).filter (fun e => e.priority ≤ p) = pxEs ∧
      (enumerate pxReqs').filter (fun e => e.priority ≤ p) = pxEs' := by
    intro i p hp
    obtain ⟨hp0, hf⟩ := level_zero pxReqs hne hall i p hp
    subst hp0
    refine ⟨hf, ?_⟩
    rw [filter_single_level pxReqs' 0 0 hall' ⟨_, List.mem_cons_self, rfl⟩]
    rfl
  -- the hypotheses
  have hre : Reordered swap01 2 pxReqs pxReqs' := by
    refine ⟨rfl, rfl, ?_⟩
    intro i hi
    rcases h2 i hi with rfl | rfl <;> rfl
  have hS : ∀ (i p : Nat), (levels (enumerate pxReqs))[i]? = some p → RowPermSolve s s
      (numRows ((enumerate pxReqs).filter (fun e => e.priority ≤ p))) := by
    intro i p hp
    rw [(hlev i p hp).1]
    exact hrow
  have hG : ∀ (i p : Nat), (levels (enumerate pxReqs))[i]? = some p → ∀ a,
      newton ((enumerate pxReqs).filter (fun e => e.priority ≤ p)) sxCfg s (pxG.map (·.2)) = .ok a →
      SvdGood (pxSvd i) (numRows ((enumerate pxReqs).filter (fun e => e.priority ≤ p))) pxG.length
        a.lastJac := by
    intro i p hp a ha
    rw [(hlev i p hp).1] at ha ⊢
    rw [exd_lastJac_A _ _ _ a ha]
    exact px_good i
  have hG' : ∀ (i p : Nat), (levels (enumerate pxReqs))[i]? = some p → ∀ b,
      newton ((enumerate pxReqs').filter (fun e => e.priority ≤ p)) sxCfg s (pxG.map (·.2)) = .ok b →
      SvdGood (pxSvd i) (numRows ((enumerate pxReqs).filter (fun e => e.priority ≤ p))) pxG.length
        b.lastJac := by
    intro i p hp b hb
    rw [(hlev i p hp).2] at hb
    rw [(hlev i p hp).1, px_lastJac' _ _ _ b hb]
    exact px_good' i
  have hm : ∀ p ∈ levels (enumerate pxReqs),
      modelNew ((enumerate pxReqs).filter (fun e => e.priority ≤ p)) (pxG.map (·.1)) = .ok () := by
    intro p hp
    obtain ⟨i, hi⟩ := List.getElem?_of_mem hp
    rw [(hlev i p hi).1]
    exact px_model
  -- the theorem
  have key := solveWithPriority_perm_withAnalysis pxReqs pxReqs' swap01 2 permOn_swap01 hre pxG
    sxCfg (fun _ => s) (fun _ => s) pxSvd pxSvd hS hG hG' hm
  obtain ⟨o', hrun', hrel⟩ := resRel_ok key _ hrun
  obtain ⟨hfv, hit, _, hdof, hus, _⟩ := hrel
  refine ⟨fun _ => s, fun _ => s, pxSvd, pxSvd, _, permOn_swap01, hre, hS, hG, hG', hm,
    fun _ => hs, fun _ => hs, hrun, rfl, rfl, rfl, ?_, ?_, o', hrun',
    ⟨hfv, hit, by assumption, hdof, hus, by assumption⟩, hfv, hit, hdof, ?_⟩
  · simp [pxG, sxA_ne_zero]
  · simp [pxG, pxB_ne_zero]
  · exact List.perm_nil.mp hus

end Ezpz.EquivEx
