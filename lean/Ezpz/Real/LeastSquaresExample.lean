/-
C04 — a model-level run on the INCONSISTENT linear list `twoFixed` ("variable 0 is 0" and "variable 0
is 1"), with the limit identified.
-/
import Ezpz.Real.LeastSquaresEntry
import Ezpz.Real.StepExamples
set_option linter.unusedSimpArgs false
namespace Ezpz
open Transc Matrix

/-! ### 1. The matrix, the right-hand side and the limit of `twoFixed` -/

/-- `twoFixed` has two rows. -/
theorem twoFixed_numRows : numRows twoFixed = 2 := rfl

/-- The Jacobian of `twoFixed` is the two contributions `(0, 0, 1)`, `(1, 0, 1)` at every point. -/
theorem twoFixed_jac (t : ℝ) :
    jacobianAll twoFixed (lookup [t]) = .ok ([(0, 0, 1.0), (1, 0, 1.0)], []) := by
  simp [twoFixed, jacobianAll, jacobianFrom, pattern, patternFrom, Constraint.jacobianRows,
    Constraint.jacobianV, Constraint.jacobianReads, lookup, takeRows, Constraint.residualDim,
    Constraint.nonzeroes]

/-- The dense matrix of the two contributions is the column `(1, 1)`. -/
theorem twoFixed_matOf : matOf 2 1 [(0, 0, (1.0 : ℝ)), (1, 0, 1.0)] = GN.exA := by
  ext i j
  fin_cases i <;> fin_cases j <;> simp [matOf, GN.exA, lit_1]

/-- **The model-level matrix of `twoFixed` is the matrix of the matrix-level example**: the column
`(1, 1)`. -/
theorem twoFixed_linA : linA twoFixed 1 = GN.exA := by
  obtain ⟨r, wr, jac, wj, _, hj, _, hA, _⟩ :=
    assembled_affine twoFixed 1 twoFixed_linear twoFixed_declared [0] rfl
  rw [twoFixed_jac] at hj
  simp only [Except.ok.injEq, Prod.mk.injEq] at hj
  rw [← hA, ← hj.1]
  exact twoFixed_matOf

/-- **The model-level right-hand side of `twoFixed` is that of the matrix-level example**:
`(0, 1)`. -/
theorem twoFixed_linB : linB twoFixed = GN.exB := by
  obtain ⟨r, wr, jac, wj, hr, _, _, _, hb⟩ :=
    assembled_affine twoFixed 1 twoFixed_linear twoFixed_declared [0] rfl
  rw [twoFixed_resid] at hr
  simp only [Except.ok.injEq, Prod.mk.injEq] at hr
  rw [← hr.1, twoFixed_linA] at hb
  have helper : ∀ b : Fin 2 → ℝ,
      vecOf 2 [(0 : ℝ) - 0, 0 - 1] = GN.exA *ᵥ vecOf 1 [0] - b → b = GN.exB := by
    intro b h
    ext i
    have := congrFun h i
    fin_cases i <;> simp [vecOf, mulVec, dotProduct, GN.exA, GN.exB] at this ⊢ <;> linarith
  exact helper _ hb

/-- The system of `twoFixed`, read at the model level, is the matrix-level example's system, so
`twoFixed_inconsistent` and `GN.ex_inconsistent` are the same statement. -/
theorem twoFixed_system_eq :
    (∃ z, linA twoFixed 1 *ᵥ z = linB twoFixed) ↔ ∃ z, GN.exA *ᵥ z = GN.exB := by
  rw [twoFixed_linA, twoFixed_linB]
  exact Iff.rfl

/-- **The limit is `1/2`**: the only solution of the normal equations of `twoFixed` is `![1/2]` —
whatever the guess (the matrix has full column rank). -/
theorem twoFixed_stationary_unique (xh : Fin 1 → ℝ)
    (h : (linA twoFixed 1)ᵀ *ᵥ (linA twoFixed 1 *ᵥ xh - linB twoFixed) = 0) : xh = ![1 / 2] := by
  rw [twoFixed_linA, twoFixed_linB] at h
  exact GN.ex_stationary_unique xh h

/-- `![1/2]` does satisfy the normal equations of `twoFixed`, and every displacement from it lies in
`range Aᵀ` (so it is the nearest least-squares point of every guess). -/
theorem twoFixed_half_spec (x : List ℝ) :
    (linA twoFixed 1)ᵀ *ᵥ (linA twoFixed 1 *ᵥ ![1 / 2] - linB twoFixed) = 0 ∧
      ∃ w0, vecOf 1 x - ![1 / 2] = (linA twoFixed 1)ᵀ *ᵥ w0 := by
  rw [twoFixed_linA, twoFixed_linB]
  have key : ∃ w0 : Fin 2 → ℝ, vecOf 1 x - ![1 / 2] = GN.exAᵀ *ᵥ w0 := by
    refine ⟨![x.getD 0 0 - 1 / 2, 0], ?_⟩
    ext i
    fin_cases i
    simp [vecOf, mulVec, dotProduct, GN.exA, Fin.sum_univ_two]
  exact ⟨GN.ex_stationary, key⟩

/-- **`twoFixed_limit`: the limit point of `newtonRun_converges_prefix_ls` on `twoFixed` is `1/2`
whatever the guess.**  For every damping `lam > 0` there is a rate `q ∈ [0, 1)` such that for every
exact solver, configuration, start round and guess list `x` of one value, the values `y` after any
number `j` of executed (continuing) rounds satisfy `‖y − (1/2)‖² ≤ q^(2j) ‖x − (1/2)‖²`: the point
`x̂` promised by the general theorem is identified as `![1/2]`
(`twoFixed_stationary_unique`). -/
theorem twoFixed_limit (lam : ℝ) (hlam : 0 < lam) :
    ∃ q : ℝ, 0 ≤ q ∧ q < 1 ∧
      ∀ (cfg : Config ℝ) (solve : Nat → List (Triplet ℝ) → List ℝ → Except SolveError (List ℝ)),
        ExactSolve solve (numRows twoFixed) 1 (fun _ => lam) →
        ∀ (k : Nat) (x : List ℝ) (ws : List (Warning ℝ)), x.length = 1 →
          ∀ (j : Nat) (y : List ℝ) (wy : List (Warning ℝ)),
            newtonRun twoFixed cfg solve j k x ws = some (y, wy) →
            (vecOf 1 y - ![1 / 2]) ⬝ᵥ (vecOf 1 y - ![1 / 2]) ≤
              q ^ (2 * j) * ((vecOf 1 x - ![1 / 2]) ⬝ᵥ (vecOf 1 x - ![1 / 2])) := by
  obtain ⟨q, hq0, hq1, h⟩ :=
    newtonRun_converges_prefix_ls twoFixed 1 lam hlam twoFixed_linear twoFixed_declared
  refine ⟨q, hq0, hq1, fun cfg solve hS k x ws hx => ?_⟩
  obtain ⟨xh, hxh, _, hrun⟩ := h cfg solve hS k x ws hx
  rw [twoFixed_stationary_unique xh hxh] at hrun
  exact hrun

/-- The squared distance of a one-value list from `![1/2]`, in plain numbers. -/
theorem dist_half (y : ℝ) :
    (vecOf 1 [y] - ![1 / 2]) ⬝ᵥ (vecOf 1 [y] - ![1 / 2]) = (y - 1 / 2) ^ 2 := by
  simp [vecOf, dotProduct]
  ring

/-! ### 2. One continuing round of the model's loop on `twoFixed` -/

/-- What an exact solver with damping `lam k` answers on the `2 × 1` system with matrix `(1, 1)ᵀ`
and residual `(ρ0, ρ1)`: the step `-(ρ0 + ρ1) / (2 + lam k)` (normal equations
`(2 + lam) d = -(ρ0 + ρ1)`). -/
theorem exactSolve_two_by_one (s : Nat → List (Triplet ℝ) → List ℝ → Except SolveError (List ℝ))
    (lam : Nat → ℝ) (hlam : ∀ k, 0 < lam k) (hs : ExactSolve s 2 1 lam) (k : Nat) (ρ0 ρ1 : ℝ)
    (d : List ℝ) (h : s k [(0, 0, 1.0), (1, 0, 1.0)] [ρ0, ρ1] = .ok d) :
    d = [-(ρ0 + ρ1) / (2 + lam k)] := by
  obtain ⟨hl, hst⟩ := hs k _ _ d h
  match d, hl with
  | [d0], _ =>
    rw [twoFixed_matOf] at hst
    have h0 := congrFun hst 0
    simp [GN.IsStep, GN.exA, vecOf, Matrix.mulVec, dotProduct, Matrix.add_apply, Matrix.mul_apply,
      Fin.sum_univ_two, Matrix.one_apply] at h0
    have hp : (2 + lam k) ≠ 0 := by have := hlam k; positivity
    have hd0 : d0 = -(ρ0 + ρ1) / (2 + lam k) := by
      field_simp
      linarith
    rw [hd0]

/-- The largest residual of `twoFixed` at `[x]` is `max |x − 0| |x − 1|`. -/
theorem twoFixed_maxAbs (x : ℝ) : maxAbs? [x - 0, x - 1] = some (max |x - 0| |x - 1|) := by
  simp [maxAbs?]

/-- The largest residual of `twoFixed` is at least `1/2` everywhere: no point is within `1/2` of both
`0` and `1`. -/
theorem twoFixed_residual_ge_half (x : ℝ) : 1 / 2 ≤ max |x - 0| |x - 1| := by
  rcases le_total x (1 / 2) with h | h
  · exact le_trans (by rw [abs_of_nonpos (by linarith)]; linarith) (le_max_right _ _)
  · exact le_trans (by rw [abs_of_nonneg (by linarith)]; linarith) (le_max_left _ _)

/-- **`twoFixed_round`: one continuing round of the model's loop on the inconsistent list.**  With a
solver that is exact for `2 × 1` systems with damping `lam > 0` and always answers, a configuration
whose convergence tolerance is below `1/2` (so the residual test cannot fire:
`twoFixed_residual_ge_half`), and a round in which the step-size test does not fire
(`stepTolerance · (|x| + stepTolerance) < |(1 − 2x)/(2 + lam)|`), round `k` of `newtonStep` from
`[x]` continues at `[x + (1 − 2x)/(2 + lam)]` with the warnings unchanged. -/
theorem twoFixed_round (lam : ℝ) (hlam : 0 < lam) (cfg : Config ℝ)
    (solve : Nat → List (Triplet ℝ) → List ℝ → Except SolveError (List ℝ))
    (hS : ExactSolve solve 2 1 (fun _ => lam)) (htot : ∀ k jac r, ∃ d, solve k jac r = .ok d)
    (htol : cfg.convergenceTolerance < 1 / 2) (k : Nat) (x : ℝ) (ws : List (Warning ℝ))
    (hstep : cfg.stepTolerance * (|x| + cfg.stepTolerance) < |(1 - 2 * x) / (2 + lam)|) :
    newtonStep twoFixed cfg solve k [x] ws = .next [x + (1 - 2 * x) / (2 + lam)] ws := by
  obtain ⟨d, hd⟩ := htot k [(0, 0, 1.0), (1, 0, 1.0)] [x - 0, x - 1]
  have hd' := exactSolve_two_by_one solve (fun _ => lam) (fun _ => hlam) hS k (x - 0) (x - 1) d hd
  subst hd'
  have e : -(x - 0 + (x - 1)) / (2 + lam) = (1 - 2 * x) / (2 + lam) := by ring
  rw [e] at hd
  rw [newtonStep_eval _ _ solve k [x] ws _ _ _ _ _ (twoFixed_resid x) (twoFixed_jac x)
    (twoFixed_maxAbs x), if_neg (by
      have := twoFixed_residual_ge_half x
      intro hle
      linarith), hd]
  have hmax : max (0.0 : ℝ) |x| = |x| := by rw [lit_0]; exact max_eq_right (abs_nonneg x)
  simp [applyStep, allFinite, stepInfNorm, stepThreshold, maxAbs0, maxAbs?, hmax]
  exact hstep

/-- The companion of `twoFixed_round` for a round in which the step-size test DOES fire
(`|(1 − 2x)/(2 + lam)| ≤ stepTolerance · (|x| + stepTolerance)`): the loop returns the stepped value
`x + (1 − 2x)/(2 + lam)`, flagged "not by the residual test". -/
theorem twoFixed_round_stop (lam : ℝ) (hlam : 0 < lam) (cfg : Config ℝ)
    (solve : Nat → List (Triplet ℝ) → List ℝ → Except SolveError (List ℝ))
    (hS : ExactSolve solve 2 1 (fun _ => lam)) (htot : ∀ k jac r, ∃ d, solve k jac r = .ok d)
    (htol : cfg.convergenceTolerance < 1 / 2) (k : Nat) (x : ℝ) (ws : List (Warning ℝ))
    (hstep : |(1 - 2 * x) / (2 + lam)| ≤ cfg.stepTolerance * (|x| + cfg.stepTolerance)) :
    newtonStep twoFixed cfg solve k [x] ws =
      .done ⟨[x + (1 - 2 * x) / (2 + lam)], k, ws, [(0, 0, 1.0), (1, 0, 1.0)], false⟩ := by
  obtain ⟨d, hd⟩ := htot k [(0, 0, 1.0), (1, 0, 1.0)] [x - 0, x - 1]
  have hd' := exactSolve_two_by_one solve (fun _ => lam) (fun _ => hlam) hS k (x - 0) (x - 1) d hd
  subst hd'
  have e : -(x - 0 + (x - 1)) / (2 + lam) = (1 - 2 * x) / (2 + lam) := by ring
  rw [e] at hd
  rw [newtonStep_eval _ _ solve k [x] ws _ _ _ _ _ (twoFixed_resid x) (twoFixed_jac x)
    (twoFixed_maxAbs x), if_neg (by
      have := twoFixed_residual_ge_half x
      intro hle
      linarith), hd]
  have hmax : max (0.0 : ℝ) |x| = |x| := by rw [lit_0]; exact max_eq_right (abs_nonneg x)
  simp [applyStep, allFinite, stepInfNorm, stepThreshold, maxAbs0, maxAbs?, hmax]
  exact hstep

/-! ### 3. A concrete run with one executed round, and the theorem's bound on it -/

/-- Tolerances `1e-5`, 30 rounds. -/
def tfCfg : Config ℝ := ⟨30, 1e-5, 1e-5⟩
/-- Where the value lands after one exact damped step (damping `1e-9`) from 0: `1 / (2 + 1e-9)`. -/
noncomputable def tfY : ℝ := 1 / (2 + 1e-9)

/-- Round 0 of the loop on `twoFixed` from `[0]` with tolerances `1e-5` and an exact total solver of
damping `1e-9` continues at `[1/(2 + 1e-9)]`. -/
theorem tf_step0 (solve : Nat → List (Triplet ℝ) → List ℝ → Except SolveError (List ℝ))
    (hS : ExactSolve solve 2 1 (fun _ => Gen.REGULARIZATION_LAMBDA))
    (htot : ∀ k jac r, ∃ d, solve k jac r = .ok d) :
    newtonStep twoFixed tfCfg solve 0 [0] [] = .next [tfY] [] := by
  have hpos : (0 : ℝ) < Gen.REGULARIZATION_LAMBDA := by rw [StepEx.lambda_real]; norm_num
  have h := twoFixed_round Gen.REGULARIZATION_LAMBDA hpos tfCfg solve hS htot
    (by simp only [tfCfg]; norm_num) 0 0 []
    (by rw [StepEx.lambda_real]; simp only [tfCfg]; norm_num [abs_of_pos])
  rw [h, StepEx.lambda_real]
  unfold tfY
  norm_num

/-- The run of ONE continuing round from `[0]`: `newtonRun … 1 0 [0] [] = some ([1/(2+1e-9)], [])`. -/
theorem tf_run1 (solve : Nat → List (Triplet ℝ) → List ℝ → Except SolveError (List ℝ))
    (hS : ExactSolve solve 2 1 (fun _ => Gen.REGULARIZATION_LAMBDA))
    (htot : ∀ k jac r, ∃ d, solve k jac r = .ok d) :
    newtonRun twoFixed tfCfg solve 1 0 [0] [] = some ([tfY], []) := by
  simp only [newtonRun, tf_step0 solve hS htot]

/-- **`twoFixed_run_example`: the least-squares theorem on a run that executes a round on an
inconsistent list.**  There is a rate `q ∈ [0, 1)` — the one of `newtonRun_converges_prefix_ls` for
`twoFixed` and the code's damping `1e-9` — such that (a) the theorem's bound holds for every exact
solver, configuration, guess and number of executed rounds, with the limit point identified as `1/2`,
and (b) there is an exact total solver for which the model's loop with tolerances `1e-5` executes one
continuing round from `[0]` to `[y]`, `y = 1/(2 + 1e-9)`, and on this run the bound reads
`(y − 1/2)² ≤ q² (0 − 1/2)²`.  The inequality is obtained from the theorem, not recomputed. -/
theorem twoFixed_run_example :
    ∃ q : ℝ, 0 ≤ q ∧ q < 1 ∧
      (∀ (cfg : Config ℝ) (solve : Nat → List (Triplet ℝ) → List ℝ → Except SolveError (List ℝ)),
        ExactSolve solve (numRows twoFixed) 1 (fun _ => Gen.REGULARIZATION_LAMBDA) →
        ∀ (k : Nat) (x : List ℝ) (ws : List (Warning ℝ)), x.length = 1 →
          ∀ (j : Nat) (y : List ℝ) (wy : List (Warning ℝ)),
            newtonRun twoFixed cfg solve j k x ws = some (y, wy) →
            (vecOf 1 y - ![1 / 2]) ⬝ᵥ (vecOf 1 y - ![1 / 2]) ≤
              q ^ (2 * j) * ((vecOf 1 x - ![1 / 2]) ⬝ᵥ (vecOf 1 x - ![1 / 2]))) ∧
      ∃ solve : Nat → List (Triplet ℝ) → List ℝ → Except SolveError (List ℝ),
        ExactSolve solve (numRows twoFixed) 1 (fun _ => Gen.REGULARIZATION_LAMBDA) ∧
        newtonRun twoFixed tfCfg solve 1 0 [0] [] = some ([tfY], []) ∧
        tfY = 1 / (2 + 1e-9) ∧ tfY ≠ 0 ∧
        (tfY - 1 / 2) ^ 2 ≤ q ^ 2 * ((0 : ℝ) - 1 / 2) ^ 2 := by
  have hpos : (0 : ℝ) < Gen.REGULARIZATION_LAMBDA := by rw [StepEx.lambda_real]; norm_num
  obtain ⟨q, hq0, hq1, h⟩ := twoFixed_limit Gen.REGULARIZATION_LAMBDA hpos
  obtain ⟨s, hs, ht⟩ := exists_exactSolve 2 1 (fun _ => (Gen.REGULARIZATION_LAMBDA : ℝ))
    (fun _ => hpos)
  have hrun := tf_run1 s hs ht
  refine ⟨q, hq0, hq1, h, s, hs, hrun, rfl, by unfold tfY; positivity, ?_⟩
  have hb := h tfCfg s hs 0 [0] [] rfl 1 [tfY] [] hrun
  rw [dist_half, dist_half] at hb
  exact hb

/-! ### 3b. The rate made explicit: `q = lam / (2 + lam)` -/

/-- The matrix of `twoFixed` has gap constant `2` on `range Aᵀ` (`‖A Aᵀ w‖² = 2 ‖Aᵀ w‖²`). -/
theorem twoFixed_gap (w : Fin (numRows twoFixed) → ℝ) :
    2 * (((linA twoFixed 1)ᵀ *ᵥ w) ⬝ᵥ ((linA twoFixed 1)ᵀ *ᵥ w)) ≤
      (linA twoFixed 1 *ᵥ ((linA twoFixed 1)ᵀ *ᵥ w)) ⬝ᵥ
        (linA twoFixed 1 *ᵥ ((linA twoFixed 1)ᵀ *ᵥ w)) := by
  rw [twoFixed_linA]
  have helper : ∀ w : Fin 2 → ℝ, 2 * ((GN.exAᵀ *ᵥ w) ⬝ᵥ (GN.exAᵀ *ᵥ w)) ≤
      (GN.exA *ᵥ (GN.exAᵀ *ᵥ w)) ⬝ᵥ (GN.exA *ᵥ (GN.exAᵀ *ᵥ w)) := by
    intro w
    simp [GN.exA, mulVec, dotProduct, Fin.sum_univ_two]
    exact le_of_eq (by ring)
  exact helper w

/-- **The rate on `twoFixed` is `lam/(2 + lam)`, in plain numbers**: with an exact solver of damping
`lam > 0`, if `j` rounds of the model's loop continue from `[x]` to `y`, then `y = [t]` for some `t`
with `(2 + lam)^(2j) (t − 1/2)² ≤ lam^(2j) (x − 1/2)²`.  (`twoFixed_round` shows that this is attained:
one round multiplies `x − 1/2` by exactly `lam/(2 + lam)`.) -/
theorem twoFixed_run_rate (lam : ℝ) (hlam : 0 < lam) (cfg : Config ℝ)
    (solve : Nat → List (Triplet ℝ) → List ℝ → Except SolveError (List ℝ))
    (hS : ExactSolve solve (numRows twoFixed) 1 (fun _ => lam)) (j k : Nat) (x : ℝ)
    (ws : List (Warning ℝ)) (y : List ℝ) (wy : List (Warning ℝ))
    (h : newtonRun twoFixed cfg solve j k [x] ws = some (y, wy)) :
    ∃ t, y = [t] ∧ (2 + lam) ^ (2 * j) * (t - 1 / 2) ^ 2 ≤ lam ^ (2 * j) * (x - 1 / 2) ^ 2 := by
  obtain ⟨hxh, hw0⟩ := twoFixed_half_spec [x]
  obtain ⟨hy, _, hb⟩ := newtonRun_contracts_ls twoFixed 1 cfg solve lam hlam twoFixed_linear
    twoFixed_declared hS 2 (by norm_num) twoFixed_gap ![1 / 2] hxh j k [x] ws y wy rfl hw0 h
  match y, hy with
  | [t], _ =>
    rw [dist_half, dist_half] at hb
    exact ⟨t, rfl, hb⟩

/-- One continuing round multiplies the error `x − 1/2` by exactly `lam/(2 + lam)`: the bound of
`twoFixed_run_rate` is an equality for `j = 1`. -/
theorem twoFixed_round_error (lam : ℝ) (hlam : 0 < lam) (x : ℝ) :
    x + (1 - 2 * x) / (2 + lam) - 1 / 2 = lam / (2 + lam) * (x - 1 / 2) := by
  have : (2 + lam) ≠ 0 := by positivity
  field_simp
  ring

/-! ### 4. On `twoFixed` the loop never returns at the residual test -/

/-- **A returned loop on `twoFixed` returned at the step-size test.**  For every exact solver of
damping `lam > 0`, every configuration whose convergence tolerance is below `1/2`, every fuel, start
round, one-value guess and warnings: if the model's loop returns `res`, then `res.byResidual = false`
— the residual test never fires on this inconsistent list, so a successful return is always the
step-size test's. -/
theorem twoFixed_never_by_residual (lam : ℝ) (hlam : 0 < lam) (cfg : Config ℝ)
    (solve : Nat → List (Triplet ℝ) → List ℝ → Except SolveError (List ℝ))
    (hS : ExactSolve solve (numRows twoFixed) 1 (fun _ => lam))
    (htol : cfg.convergenceTolerance < 1 / 2) (fuel k : Nat) (x : ℝ) (ws : List (Warning ℝ))
    (res : NewtonOk ℝ) (h : newtonLoop twoFixed cfg solve fuel k [x] ws = .ok res) :
    res.byResidual = false := by
  obtain ⟨j, y, wy, _, hrun, hdone⟩ := newtonLoop_ok_run twoFixed cfg solve fuel k [x] ws res h
  obtain ⟨t, rfl, _⟩ := twoFixed_run_rate lam hlam cfg solve hS j k x ws y wy hrun
  rw [newtonStep_eval _ _ solve (k + j) [t] wy _ _ _ _ _ (twoFixed_resid t) (twoFixed_jac t)
    (twoFixed_maxAbs t), if_neg (by
      have := twoFixed_residual_ge_half t
      intro hle
      linarith)] at hdone
  split at hdone
  · simp at hdone
  · split at hdone
    · simp at hdone
    · split at hdone
      · simp at hdone
      · split at hdone
        · injection hdone with hdone
          rw [← hdone]
        · simp at hdone

/-! ### 4b. The default configuration from `[0]`: two continuing rounds, return at the step-size test -/

/-- The value after two exact damped steps (damping `1e-9`) from 0. -/
noncomputable def tfX2 : ℝ := tfY + (1 - 2 * tfY) / (2 + 1e-9)
/-- The value after three exact damped steps (damping `1e-9`) from 0. -/
noncomputable def tfX3 : ℝ := tfX2 + (1 - 2 * tfX2) / (2 + 1e-9)

/-- The default convergence tolerance `1e-8` is below `1/2`. -/
theorem default_tol_lt_half : (Config.default : Config ℝ).convergenceTolerance < 1 / 2 := by
  show (1e-8 : ℝ) < 1 / 2
  norm_num

/-- **The default configuration on `twoFixed` from `[0]` returns at the step-size test in round 2.**
With the default tolerances (`1e-8` residual, `1e-12` step, 35 rounds) and any exact total solver of
damping `1e-9`: rounds 0 and 1 continue (steps `≈ 0.5` and `≈ 2.5e-10`), in round 2 the step
(`≈ 1.25e-19`) is below the step threshold (`≈ 5e-13`) and the loop returns the stepped value with
`iterations = 2`, flagged "not by the residual test" — the residual there is still `≈ 1/2`. -/
theorem twoFixed_default_loop
    (solve : Nat → List (Triplet ℝ) → List ℝ → Except SolveError (List ℝ))
    (hS : ExactSolve solve 2 1 (fun _ => Gen.REGULARIZATION_LAMBDA))
    (htot : ∀ k jac r, ∃ d, solve k jac r = .ok d) :
    newton twoFixed Config.default solve [0] =
      .ok ⟨[tfX3], 2, [], [(0, 0, 1.0), (1, 0, 1.0)], false⟩ := by
  have hpos : (0 : ℝ) < Gen.REGULARIZATION_LAMBDA := by rw [StepEx.lambda_real]; norm_num
  have hst : (Config.default : Config ℝ).stepTolerance = 1e-12 := rfl
  have h0 : newtonStep twoFixed Config.default solve 0 [0] [] = .next [tfY] [] := by
    rw [twoFixed_round Gen.REGULARIZATION_LAMBDA hpos Config.default solve hS htot
      default_tol_lt_half 0 0 [] (by rw [StepEx.lambda_real, hst]; norm_num [abs_of_pos]),
      StepEx.lambda_real]
    unfold tfY
    norm_num
  have h1 : newtonStep twoFixed Config.default solve 1 [tfY] [] = .next [tfX2] [] := by
    rw [twoFixed_round Gen.REGULARIZATION_LAMBDA hpos Config.default solve hS htot
      default_tol_lt_half 1 tfY [] (by
        rw [StepEx.lambda_real, hst]; unfold tfY; norm_num [abs_of_pos]),
      StepEx.lambda_real]
    rfl
  have h2 : newtonStep twoFixed Config.default solve 2 [tfX2] [] =
      .done ⟨[tfX3], 2, [], [(0, 0, 1.0), (1, 0, 1.0)], false⟩ := by
    rw [twoFixed_round_stop Gen.REGULARIZATION_LAMBDA hpos Config.default solve hS htot
      default_tol_lt_half 2 tfX2 [] (by
        rw [StepEx.lambda_real, hst]; unfold tfX2 tfY; norm_num [abs_of_pos]),
      StepEx.lambda_real]
    rfl
  show newtonLoop _ _ _ (32 + 1 + 1 + 1) 0 [0] [] = _
  rw [newtonLoop, h0]
  dsimp only
  rw [newtonLoop, h1]
  dsimp only
  rw [newtonLoop, h2]

/-- Non-vacuity of `twoFixed_default_loop` (and of `twoFixed_round`, `twoFixed_round_stop`,
`twoFixed_never_by_residual`): an exact total solver of damping `1e-9` exists, and with it the default
solve of the inconsistent list from `[0]` returns after two continuing rounds at the step-size
test. -/
theorem twoFixed_default_loop_exists :
    ∃ (solve : Nat → List (Triplet ℝ) → List ℝ → Except SolveError (List ℝ)) (res : NewtonOk ℝ),
      ExactSolve solve (numRows twoFixed) 1 (fun _ => Gen.REGULARIZATION_LAMBDA) ∧
      newton twoFixed Config.default solve [0] = .ok res ∧
      res.iterations = 2 ∧ res.byResidual = false ∧ res.values = [tfX3] := by
  have hpos : (0 : ℝ) < Gen.REGULARIZATION_LAMBDA := by rw [StepEx.lambda_real]; norm_num
  obtain ⟨s, hs, ht⟩ := exists_exactSolve 2 1 (fun _ => (Gen.REGULARIZATION_LAMBDA : ℝ))
    (fun _ => hpos)
  exact ⟨s, _, hs, twoFixed_default_loop s hs ht, rfl, rfl, rfl⟩

/-- The returned value of the default run is `1/2 − (1/2)·(1e-9/(2 + 1e-9))³`: three exact damped
steps from 0, each multiplying the error by `lam/(2 + lam)` (`twoFixed_round_error`).  It is NOT the
least-squares point `1/2`, and the largest residual there is above `0.49` — far above the residual
tolerance `1e-8`. -/
theorem tfX3_error : tfX3 - 1 / 2 = -(1 / 2) * (1e-9 / (2 + 1e-9)) ^ 3 ∧ tfX3 ≠ 1 / 2 ∧
    0.49 < max |tfX3 - 0| |tfX3 - 1| := by
  have e : tfX3 - 1 / 2 = -(1 / 2) * (1e-9 / (2 + 1e-9)) ^ 3 := by
    unfold tfX3 tfX2 tfY
    norm_num
  refine ⟨e, ?_, ?_⟩
  · intro h
    rw [h] at e
    norm_num at e
  · have := twoFixed_residual_ge_half tfX3
    norm_num at this ⊢
    rcases this with h | h
    · left; linarith
    · right; linarith

end Ezpz
