/-
Non-vacuity examples that take a GENUINE Newton step.

The examples of `Real/UntouchedEntry.lean` (`unmentioned_variable_returned_at_guess`) and of
`Real/DofEntry.lean` (`underconstrained_is_nullspace_participation`) start at the solution, so their
runs return in round 0 without ever calling the linear solver.  Here the same theorems are applied to
a run that is NOT started at the solution:

  request "variable 0 is 5" on two variables, guesses `[(0, 0), (1, 7)]`, tolerances `1e-5`, and as LU
  oracle ANY exact total solver of the damped normal equations with the code's damping `1e-9`
  (`exists_exactSolve`).

Round 0 fails the residual test (`|0 − 5| > 1e-5`), the solver answers the step
`[5/(1+1e-9), 0]`, the values become `[5/(1+1e-9), 7]`; round 1 passes the residual test.  The solve
succeeds with `iterations = 1`, variable 0 has moved, and
* variable 1 (unmentioned) is returned as 7 — by `unmentioned_variable_returned_at_guess_model_damping`;
* with the SVD oracle `σ = [1]`, `V = I₂` the under-constrained list is `[1]`, and it is the null-space
  participation set of the analysed Jacobian — by `underconstrained_is_nullspace_participation`.
-/
import Ezpz.Real.UntouchedEntry
import Ezpz.Real.DofEntry
import Ezpz.Real.UnionEntry
set_option linter.unusedSimpArgs false
namespace Ezpz.StepEx
open Ezpz Transc Matrix

/-- The request list: "variable 0 is 5". -/
def sxReqs : List (Constraint ℝ × Nat) := [(.fixed 0 5, 0)]
/-- Its single entry. -/
def sxEs : List (Entry ℝ) := [⟨.fixed 0 5, 0, 0⟩]
/-- Two variables: variable 0 starts at 0 (NOT the solution), variable 1 at 7. -/
def sxG : List (Nat × ℝ) := [(0, 0), (1, 7)]
/-- Tolerances `1e-5`, 30 rounds. -/
def sxCfg : Config ℝ := ⟨30, 1e-5, 1e-5⟩
/-- Where variable 0 lands after one exact damped step from 0: `5 / (1 + 1e-9)`. -/
noncomputable def sxA : ℝ := 5 / (1 + 1e-9)

/-- The enumerated request list. -/
theorem sxEnumerate : enumerate sxReqs = sxEs := rfl

/-- The code's damping constant over ℝ. -/
theorem lambda_real : (Gen.REGULARIZATION_LAMBDA : ℝ) = 1e-9 := rfl

/-- Residual, Jacobian and largest residual of the entry at the values `[x0, x1]`. -/
theorem sx_eval (x0 x1 : ℝ) :
    residualAll sxEs (lookup [x0, x1]) = .ok ([x0 - 5], []) ∧
    jacobianAll sxEs (lookup [x0, x1]) = .ok ([(0, 0, 1.0)], []) ∧
    maxAbs? [x0 - 5] = some |x0 - 5| := by
  refine ⟨?_, ?_, ?_⟩
  · simp [sxEs, residualAll, Constraint.residual, Constraint.residualV,
      Constraint.residualReads, lookup, takeRows, Constraint.residualDim, Res.mk1]
  · simp [sxEs, jacobianAll, jacobianFrom, pattern, patternFrom,
      Constraint.jacobianRows, Constraint.jacobianV,
      Constraint.jacobianReads, lookup, takeRows, Constraint.residualDim, Constraint.nonzeroes]
  · simp [maxAbs?]

/-- What an exact solver with damping `lam` answers on the `1 × 2` system with matrix `[1 0]` and
residual `ρ`: the step `[-ρ / (1 + lam k), 0]` — the second variable has an empty column and is not
moved. -/
theorem exactSolve_one_by_two (s : Nat → List (Triplet ℝ) → List ℝ → Except SolveError (List ℝ))
    (lam : Nat → ℝ) (hlam : ∀ k, 0 < lam k) (hs : ExactSolve s 1 2 lam) (k : Nat) (ρ : ℝ)
    (d : List ℝ) (h : s k [(0, 0, 1.0)] [ρ] = .ok d) : d = [-ρ / (1 + lam k), 0] := by
  obtain ⟨hl, hst⟩ := hs k _ _ d h
  match d, hl with
  | [d0, d1], _ =>
    have h0 := congrFun hst 0
    have h1 := congrFun hst 1
    simp [GN.IsStep, matOf, vecOf, Matrix.mulVec, dotProduct, Matrix.add_apply, Matrix.mul_apply,
      Fin.sum_univ_two, Matrix.one_apply] at h0 h1
    have hp : (1 + lam k) ≠ 0 := by have := hlam k; positivity
    have hd1 : d1 = 0 := by
      rcases h1 with h1 | h1
      · exact absurd h1 (ne_of_gt (hlam k))
      · exact h1
    have hd0 : d0 = -ρ / (1 + lam k) := by
      field_simp
      linarith
    rw [hd0, hd1]

/-- `5 / (1 + 1e-9)` is within the residual tolerance `1e-5` of 5. -/
theorem sxA_close : |sxA - 5| ≤ 1e-5 := by
  have e : sxA - 5 = -(5 * 1e-9 / (1 + 1e-9)) := by unfold sxA; field_simp; ring
  rw [e, abs_neg, abs_of_nonneg (by positivity), div_le_iff₀ (by norm_num)]
  norm_num

/-- Variable 0 has really moved: `5 / (1 + 1e-9) ≠ 0`. -/
theorem sxA_ne_zero : sxA ≠ 0 := by unfold sxA; positivity

section Run
variable (s : Nat → List (Triplet ℝ) → List ℝ → Except SolveError (List ℝ))
  (hs : ExactSolve s 1 2 (fun _ => Gen.REGULARIZATION_LAMBDA))
  (htot : ∀ k jac r, ∃ d, s k jac r = .ok d)
include hs htot

/-- Round 0: from the guess `[0, 7]` the residual test fails, the exact damped solver answers
`[5/(1+1e-9), 0]`, the step-size test does not fire, and the loop continues at `[5/(1+1e-9), 7]`. -/
theorem sx_step0 : newtonStep sxEs sxCfg s 0 [0, 7] [] = .next [sxA, 7] [] := by
  obtain ⟨hr, hj, hm⟩ := sx_eval 0 7
  obtain ⟨d, hd⟩ := htot 0 [(0, 0, 1.0)] [0 - 5]
  have hd' := exactSolve_one_by_two s (fun _ => Gen.REGULARIZATION_LAMBDA)
    (fun _ => by rw [lambda_real]; norm_num) hs 0 (0 - 5) d hd
  subst hd'
  have e : -((0 : ℝ) - 5) / (1 + Gen.REGULARIZATION_LAMBDA) = sxA := by
    rw [lambda_real]; unfold sxA; ring
  rw [e] at hd
  have hpos : (0 : ℝ) < sxA := by unfold sxA; positivity
  have hbig : (1 : ℝ) ≤ sxA := by
    unfold sxA; rw [le_div_iff₀ (by norm_num)]; norm_num
  rw [newtonStep_eval _ _ s 0 [0, 7] [] _ _ _ _ _ hr hj hm, if_neg (by
    simp only [sxCfg]; norm_num), hd]
  simp [sxCfg, applyStep, allFinite, stepInfNorm, stepThreshold, maxAbs0, maxAbs?, abs_of_pos hpos]
  rw [lit_0]
  norm_num
  linarith

omit hs htot in
/-- Round 1: at `[5/(1+1e-9), 7]` the residual test passes (whatever the solver). -/
theorem sx_step1 : newtonStep sxEs sxCfg s 1 [sxA, 7] [] =
    .done ⟨[sxA, 7], 1, [], [(0, 0, 1.0)], true⟩ := by
  obtain ⟨hr, hj, hm⟩ := sx_eval sxA 7
  rw [newtonStep_eval _ _ s 1 [sxA, 7] [] _ _ _ _ _ hr hj hm, if_pos (by
    simp only [sxCfg]; exact sxA_close)]
  rfl

/-- The Newton run: one continuing round (a genuine step), then a return at the residual test. -/
theorem sx_newton : newton sxEs sxCfg s [0, 7] =
    .ok ⟨[sxA, 7], 1, [], [(0, 0, 1.0)], true⟩ := by
  show newtonLoop _ _ _ (28 + 1 + 1) 0 [0, 7] [] = _
  rw [newtonLoop, sx_step0 s hs htot]
  dsimp only
  rw [newtonLoop, sx_step1 s]

omit hs htot in
/-- The model validates: both variables are declared by the guess list. -/
theorem sx_model : modelNew sxEs (sxG.map (·.1)) = .ok () := by
  simp [sxEs, sxG, modelNew, validateVariables, firstMissing, Constraint.nonzeroes, pattern,
    patternFrom, takeRows, Constraint.residualDim, List.zipIdx]

omit hs htot in
/-- The request is satisfied at the returned values. -/
theorem sx_sweep : unsatisfiedSweep sxEs (lookup [sxA, 7]) = .ok [] := by
  simp [sxEs, unsatisfiedSweep, Constraint.residual, Constraint.residualV, Constraint.residualReads,
    lookup, Constraint.residualDim, Res.mk1, isSatisfied, EPS_real]
  have : (1e-5 : ℝ) < 1e-4 := by norm_num
  exact decide_eq_true (lt_of_le_of_lt sxA_close this)

/-- `solveInner` without analysis: success after one iteration, values `[5/(1+1e-9), 7]`. -/
theorem sx_inner : solveInner sxEs sxG sxCfg s none = .ok ⟨[], [sxA, 7], 1, [], 0, none⟩ := by
  have hn : newton sxEs sxCfg s (sxG.map (·.2)) = .ok ⟨[sxA, 7], 1, [], [(0, 0, 1.0)], true⟩ :=
    sx_newton s hs htot
  simp only [solveInner, sx_model, hn, sx_sweep, runAnalysis]
  simp [lint, lintOne, maxPriority, sxEs]

/-- `solveInner` with the SVD oracle `σ = [1]`, `V = I₂`: the same run, under-constrained list `[1]`. -/
theorem sx_inner_svd : solveInner sxEs sxG sxCfg s (some (DofEntryEx.exSvd 0)) =
    .ok ⟨[], [sxA, 7], 1, [], 0, some [1]⟩ := by
  have hn : newton sxEs sxCfg s (sxG.map (·.2)) = .ok ⟨[sxA, 7], 1, [], [(0, 0, 1.0)], true⟩ :=
    sx_newton s hs htot
  have hlen : sxG.length = 2 := rfl
  simp only [solveInner, sx_model, hn, sx_sweep, runAnalysis, DofEntryEx.exSvd, hlen,
    DofEntryEx.ex_dof]
  simp [lint, lintOne, maxPriority, sxEs]

/-- **The prioritised solve succeeds after one genuine step** (no analysis). -/
theorem sx_run : solveWithPriority sxReqs sxG sxCfg (fun _ => s) none =
    .ok ⟨[], [sxA, 7], 1, [], 0, none⟩ := by
  rw [solveWithPriority_single_level sxReqs sxG sxCfg (fun _ => s) none 0 (by simp [sxReqs])
    (by simp [sxReqs]), sxEnumerate]
  exact sx_inner s hs htot

/-- **The prioritised solve with analysis succeeds after one genuine step**, reporting `[1]`. -/
theorem sx_run_svd : solveWithPriority sxReqs sxG sxCfg (fun _ => s) (some DofEntryEx.exSvd) =
    .ok ⟨[], [sxA, 7], 1, [], 0, some [1]⟩ := by
  rw [solveWithPriority_single_level sxReqs sxG sxCfg (fun _ => s) (some DofEntryEx.exSvd) 0
    (by simp [sxReqs]) (by simp [sxReqs]), sxEnumerate]
  exact sx_inner_svd s hs htot

end Run

/-! ### 1. `unmentioned_variable_returned_at_guess` on a run with a genuine step -/

/-- The request list does not mention variable 1. -/
theorem sx_unmentioned : UnmentionedReq sxReqs 1 := by
  simp [sxReqs, UnmentionedReq, Constraint.nonzeroes, Rows.all]

/-- **Non-vacuity of `unmentioned_variable_returned_at_guess` (model damping) on a run that takes a
real step.**  There is an LU oracle — at every level an exact total solver of the damped normal
equations for `1 × 2` systems with the code's damping `1e-9` — such that the solve of "variable 0 is 5"
from the guesses `[(0, 0), (1, 7)]` succeeds after ONE iteration, variable 0 has moved away from its
guess (`0 → 5/(1+1e-9) ≠ 0`, not started at the solution), and the theorem yields: the unmentioned
variable 1 is returned as 7. -/
theorem unmentioned_example_with_step : ∃ (solve : LinSolve ℝ) (o : Outcome ℝ),
    (∀ i, ExactSolve (solve i) 1 sxG.length (fun _ => Gen.REGULARIZATION_LAMBDA)) ∧
    (∀ i k jac r, ∃ d, solve i k jac r = .ok d) ∧
    UnmentionedReq sxReqs 1 ∧
    solveWithPriority sxReqs sxG sxCfg solve none = .ok o ∧
    o.iterations = 1 ∧ o.finalValues[0]? ≠ (sxG.map (·.2))[0]? ∧
    o.finalValues[1]? = some 7 := by
  have hpos : (0 : ℝ) < Gen.REGULARIZATION_LAMBDA := by rw [lambda_real]; norm_num
  obtain ⟨s, hs, ht⟩ := exists_exactSolve 1 2 (fun _ => (Gen.REGULARIZATION_LAMBDA : ℝ)) (fun _ => hpos)
  have hrun := sx_run s hs ht
  refine ⟨fun _ => s, _, fun _ => hs, fun _ => ht, sx_unmentioned, hrun, rfl, ?_, ?_⟩
  · simp [sxG, sxA_ne_zero]
  · have := unmentioned_variable_returned_at_guess_model_damping sxReqs sxG sxCfg (fun _ => s) none 1
      sx_unmentioned (fun _ => 1) (fun _ => hs) _ hrun
    exact this.trans (by simp [sxG])

/-! ### 2. `underconstrained_is_nullspace_participation` on a run with a genuine step -/

/-- The Jacobian of "variable 0 is 5" is the contribution `(0, 0, 1)` at every point. -/
theorem sx_jac (y : List ℝ) (jac : List (Triplet ℝ)) (w2 : List (Warning ℝ))
    (h : jacobianAll sxEs (lookup y) = .ok (jac, w2)) : jac = [(0, 0, 1.0)] := by
  simp [sxEs, jacobianAll, jacobianFrom, pattern, patternFrom,
    Constraint.jacobianRows, Constraint.jacobianV, Constraint.jacobianReads, lookup, takeRows,
    Constraint.residualDim, Constraint.nonzeroes] at h
  exact h.1.symm

/-- The outcome of the analysed run. -/
noncomputable def sxOut : Outcome ℝ := ⟨[], [sxA, 7], 1, [], 0, some [1]⟩

/-- The attempted requests of the analysed run. -/
theorem sx_attempted : attempted sxReqs sxOut = sxEs := by
  simp [attempted, sxOut, sxReqs, enumerate, sxEs]

/-- The hypothesis `hsvd` of `underconstrained_is_nullspace_participation` holds for the analysed run,
whatever the LU oracle: the analysed Jacobian is `[1 0]` and `σ = [1]`, `V = I₂` is a well-separated
SVD of it. -/
theorem sx_hyp (solve : LinSolve ℝ) : ∀ (i : Nat) (y : List ℝ) (jac : List (Triplet ℝ))
    (sigma : List ℝ) (V : List (List ℝ)),
      y.length = sxG.length →
      LastRound (attempted sxReqs sxOut) sxCfg (solve i) y jac sxOut.finalValues →
      DofEntryEx.exSvd i jac = .ok (sigma, V) →
      DofHyp (matOf (numRows (attempted sxReqs sxOut)) sxG.length jac) sigma V := by
  intro i y jac sigma V hy hlr hsv
  rw [sx_attempted] at hlr ⊢
  obtain ⟨_, _, w2, _, _, hj, _⟩ := hlr
  have hjac := sx_jac y jac w2 hj
  subst hjac
  simp only [DofEntryEx.exSvd, Except.ok.injEq, Prod.mk.injEq] at hsv
  obtain ⟨rfl, rfl⟩ := hsv
  have hR : numRows sxEs = 1 := rfl
  rw [hR]
  show DofHyp (matOf 1 2 [(0, 0, (1.0 : ℝ))]) _ _
  rw [DofEntryEx.ex_mat]
  exact ⟨by simp, by simp, DofEntryEx.ex_hV, DofEntryEx.ex_gapS, DofEntryEx.ex_gapP,
    DofEntryEx.ex_svd⟩

/-- **Non-vacuity of `underconstrained_is_nullspace_participation` on a run that takes a real step.**
With an exact total damped solver (damping `1e-9`) at every level and the SVD oracle `σ = [1]`,
`V = I₂`, `solve_analysis` of "variable 0 is 5" from `[(0, 0), (1, 7)]` succeeds after ONE iteration
(variable 0 moves from 0 to `5/(1+1e-9)`), every hypothesis of the theorem holds, and its conclusion
is obtained: the report is `[1]`, and it is the null-space participation set of the Jacobian of the
attempted requests at the start `y` of the last round. -/
theorem dof_example_with_step : ∃ (solve : LinSolve ℝ),
    (∀ i, ExactSolve (solve i) 1 2 (fun _ => Gen.REGULARIZATION_LAMBDA)) ∧
    solveWithPriority sxReqs sxG sxCfg solve (some DofEntryEx.exSvd) = .ok sxOut ∧
    sxOut.iterations = 1 ∧ sxOut.finalValues[0]? ≠ (sxG.map (·.2))[0]? ∧
    ∃ (us : List Nat) (i : Nat) (y : List ℝ) (jac : List (Triplet ℝ)),
      sxOut.underconstrained = some us ∧ us = [1] ∧ y.length = 2 ∧
      LastRound (attempted sxReqs sxOut) sxCfg (solve i) y jac sxOut.finalValues ∧
      ∀ (j : Nat) (hj : j < 2), j ∈ us ↔
        ∃ v : Fin 2 → ℝ,
          matOf (numRows (attempted sxReqs sxOut)) 2 jac *ᵥ v = 0 ∧ v ⟨j, hj⟩ ≠ 0 := by
  have hpos : (0 : ℝ) < Gen.REGULARIZATION_LAMBDA := by rw [lambda_real]; norm_num
  obtain ⟨s, hs, ht⟩ := exists_exactSolve 1 2 (fun _ => (Gen.REGULARIZATION_LAMBDA : ℝ)) (fun _ => hpos)
  have hrun : solveWithPriority sxReqs sxG sxCfg (fun _ => s) (some DofEntryEx.exSvd) = .ok sxOut :=
    sx_run_svd s hs ht
  refine ⟨fun _ => s, fun _ => hs, hrun, rfl, by simp [sxOut, sxG, sxA_ne_zero], ?_⟩
  obtain ⟨us, i, y, jac, hu, hy, hlr, _, hiff⟩ :=
    underconstrained_is_nullspace_participation sxReqs sxG sxCfg (fun _ => s) DofEntryEx.exSvd sxOut
      (by simp [sxReqs]) hrun (sx_hyp (fun _ => s))
  refine ⟨us, i, y, jac, hu, ?_, hy, hlr, hiff⟩
  simpa [sxOut] using hu.symm

end Ezpz.StepEx
