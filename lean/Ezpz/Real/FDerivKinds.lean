/-
C02 — the model's assembled residual as a map on Euclidean space, part 1: generic plumbing.

* `coord n i`, `asg n x`: a point `x` of `ℝⁿ` read as a total assignment `Nat → ℝ` (ids `≥ n` read 0);
  each coordinate is a continuous linear functional.
* `resRow es i v`, `jacRow es i v U`: row `i` of the assembled residual at the assignment `v`, and row
  `i` of the assembled Jacobian at `v` applied to the direction `U` — defined from the per-kind
  kernels `residualV` / `jacobianV` by recursion on the request list.
* `residualAll_getD`, `jacobianFrom_rowSum`: the model's `residualAll` / `jacobianFrom`, whenever they
  evaluate, produce exactly these rows (all 23 kinds; no hypothesis on the kinds).
* `rOf es n`, `JOf es n`: the model's residual / Jacobian at the coordinates of `x`, as a map
  `ℝⁿ → ℝᵐ` and a matrix-valued map; `rOf_apply`, `JOf_mulVec_apply`, `JOf_apply`: their rows for
  declared ids.
* `KindC1 c n xs`: the three residual slots of `c` have at `xs` the Fréchet derivative given by the
  model's Jacobian rows at `xs`, and the rows are continuous at `xs`.
* `SmoothKind` (first family: nine linear kinds, parallel, perpendicular, `Arc`; no guard, no
  hypothesis) and `kindC1_of_smooth`; `FarApart`, `kindC1_distance`, `kindC1_linesEqualLength`,
  `kindC1_arcRadius` (square roots; strictly farther apart than `EPSILON`); `RegularAt`,
  `kindC1_of_regular` (all of these together).
-/
import Ezpz.Real.LinearEntry
import Ezpz.Real.ContinuityGN
import Mathlib.Analysis.Calculus.FDeriv.Mul
import Mathlib.Analysis.Calculus.FDeriv.Add
import Mathlib.Analysis.Calculus.FDeriv.WithLp
import Mathlib.Analysis.InnerProductSpace.Calculus
namespace Ezpz
open Transc Matrix Topology Filter

/-! ### 1. Points of `ℝⁿ` as assignments -/

/-- Coordinate `i` of a point of `ℝⁿ` as a continuous linear functional; ids `≥ n` read as 0. -/
noncomputable def coord (n i : Nat) : EuclideanSpace ℝ (Fin n) →L[ℝ] ℝ :=
  if h : i < n then EuclideanSpace.proj (𝕜 := ℝ) (ι := Fin n) ⟨i, h⟩ else 0

/-- The total assignment read off a point of `ℝⁿ` (ids `≥ n` read as 0). -/
noncomputable def asg (n : Nat) (x : EuclideanSpace ℝ (Fin n)) : Nat → ℝ := fun i => coord n i x

/-- `asg` at an id `< n` is that coordinate. -/
theorem asg_lt (n : Nat) (x : EuclideanSpace ℝ (Fin n)) (i : Nat) (h : i < n) :
    asg n x i = x.ofLp ⟨i, h⟩ := by
  simp [asg, coord, h]

/-- `asg` at an id `≥ n` is 0. -/
theorem asg_ge (n : Nat) (x : EuclideanSpace ℝ (Fin n)) (i : Nat) (h : ¬ i < n) :
    asg n x i = 0 := by
  simp [asg, coord, h]

/-- The coordinates of `x`, as the list the model's loop holds. -/
noncomputable def coordList (n : Nat) (x : EuclideanSpace ℝ (Fin n)) : List ℝ := List.ofFn x.ofLp

/-- The coordinate list has `n` entries. -/
theorem coordList_length (n : Nat) (x : EuclideanSpace ℝ (Fin n)) : (coordList n x).length = n := by
  simp [coordList]

/-- Reading the coordinate list through the model's `lookup` (default `0.0`) is `asg`. -/
theorem lookup_coordList (n : Nat) (x : EuclideanSpace ℝ (Fin n)) :
    (fun i => (lookup (coordList n x) i).getD 0.0) = asg n x := by
  funext i
  by_cases h : i < n
  · simp [lookup, coordList, asg_lt n x i h, h]
  · simp [lookup, coordList, asg_ge n x i h, h, lit_0]

/-- The vector of the coordinate list is the point. -/
theorem vecOf_coordList (n : Nat) (x : EuclideanSpace ℝ (Fin n)) : vecOf n (coordList n x) = x.ofLp := by
  unfold coordList; exact vecOf_ofFn n x.ofLp

/-- The assignment of a point, restricted to ids `< n`, is its coordinate vector. -/
theorem asg_restrict (n : Nat) (u : EuclideanSpace ℝ (Fin n)) :
    (fun j : Fin n => asg n u j.val) = u.ofLp := by
  funext j; exact asg_lt n u j.val j.isLt

/-! ### 2. Rows of the assembled residual and Jacobian, from the kernels -/

/-- Row `i` of the assembled residual of `es` at the total assignment `v` (0 beyond the last row). -/
noncomputable def resRow : List (Entry ℝ) → Nat → (Nat → ℝ) → ℝ
  | [], _, _ => 0
  | e :: rest, i, v =>
    if i < e.c.residualDim then
      (takeRows e.c.residualDim (e.c.residualV v).r0 (e.c.residualV v).r1 (e.c.residualV v).r2).getD i 0
    else resRow rest (i - e.c.residualDim) v

/-- Row `i` of the assembled Jacobian of `es` at the total assignment `v`, applied to the direction
`U` (aliased ids add up, as in the scatter's `+=`; 0 beyond the last row). -/
noncomputable def jacRow : List (Entry ℝ) → Nat → (Nat → ℝ) → (Nat → ℝ) → ℝ
  | [], _, _, _ => 0
  | e :: rest, i, v, U =>
    if i < e.c.residualDim then
      ((takeRows e.c.residualDim (e.c.jacobianV v).r0 (e.c.jacobianV v).r1 (e.c.jacobianV v).r2).map
        (fun row => rowApply row U)).getD i 0
    else jacRow rest (i - e.c.residualDim) v U

/-- `resRow` of a non-empty list. -/
theorem resRow_cons (e : Entry ℝ) (rest : List (Entry ℝ)) (i : Nat) (v : Nat → ℝ) :
    resRow (e :: rest) i v =
      if i < e.c.residualDim then
        (takeRows e.c.residualDim (e.c.residualV v).r0 (e.c.residualV v).r1 (e.c.residualV v).r2).getD i 0
      else resRow rest (i - e.c.residualDim) v := rfl

/-- `jacRow` of a non-empty list. -/
theorem jacRow_cons (e : Entry ℝ) (rest : List (Entry ℝ)) (i : Nat) (v U : Nat → ℝ) :
    jacRow (e :: rest) i v U =
      if i < e.c.residualDim then
        ((takeRows e.c.residualDim (e.c.jacobianV v).r0 (e.c.jacobianV v).r1 (e.c.jacobianV v).r2).map
          (fun row => rowApply row U)).getD i 0
      else jacRow rest (i - e.c.residualDim) v U := rfl

/-- **The model's global residual, row by row** (all kinds): whenever `residualAll` evaluates, its
`i`-th component is `resRow es i` at the assignment read with default `0.0`. -/
theorem residualAll_getD (X : Nat → Option ℝ) :
    ∀ (es : List (Entry ℝ)) (rs : List ℝ) (ws : List (Warning ℝ)),
      residualAll es X = .ok (rs, ws) →
      ∀ i, rs.getD i 0 = resRow es i (fun j => (X j).getD 0.0) := by
  intro es
  induction es with
  | nil =>
    intro rs ws h i
    simp only [residualAll, Except.ok.injEq, Prod.mk.injEq] at h
    rw [← h.1]; simp [resRow]
  | cons e rest ih =>
    intro rs ws h i
    obtain ⟨rs', ws', h', rfl, _⟩ := residualAll_cons_okV e rest X rs ws h
    have hlen := takeRows_length_dim e.c (e.c.residualV (fun i => (X i).getD 0.0)).r0
      (e.c.residualV (fun i => (X i).getD 0.0)).r1 (e.c.residualV (fun i => (X i).getD 0.0)).r2
    rw [resRow_cons]
    by_cases hi : i < e.c.residualDim
    · rw [if_pos hi, getD_append_lt _ _ _ (by rw [hlen]; exact hi)]
    · rw [if_neg hi, getD_append_ge _ _ _ (by rw [hlen]; omega), hlen]
      exact ih rs' ws' h' _

/-- **The model's Jacobian contributions, row by row** (all kinds): whenever `jacobianFrom`
evaluates, the contributions of row `i`, applied to a direction `U`, sum to `jacRow es (i - row0)`. -/
theorem jacobianFrom_rowSum (pat : List (Nat × Nat)) (X : Nat → Option ℝ) (U : Nat → ℝ) :
    ∀ (es : List (Entry ℝ)) (row0 : Nat) (ts : List (Triplet ℝ)) (wj : List (Warning ℝ)),
      jacobianFrom pat es X row0 = .ok (ts, wj) →
      ∀ i, rowSum ts U i =
        if row0 ≤ i then jacRow es (i - row0) (fun j => (X j).getD 0.0) U else 0 := by
  intro es
  induction es with
  | nil =>
    intro row0 ts wj h i
    simp only [jacobianFrom, Except.ok.injEq, Prod.mk.injEq] at h
    rw [← h.1]; simp [rowSum, jacRow]
  | cons e rest ih =>
    intro row0 ts wj h i
    obtain ⟨j, ts', wj', hjr, _, hj', rfl, _⟩ := jacobianFrom_cons_ok pat e rest X row0 ts wj h
    have hjv : j = e.c.jacobianV (fun i => (X i).getD 0.0) := by
      unfold Constraint.jacobianRows at hjr
      split at hjr
      · injection hjr with hjr; exact hjr.symm
      · simp at hjr
    subst hjv
    rw [rowSum_append, ih _ ts' wj' hj' i]
    have hhead := rowSum_rows (takeRows e.c.residualDim
      (e.c.jacobianV (fun i => (X i).getD 0.0)).r0 (e.c.jacobianV (fun i => (X i).getD 0.0)).r1
      (e.c.jacobianV (fun i => (X i).getD 0.0)).r2) row0 U i 0
    unfold entryTrips
    rw [hhead, Nat.add_zero]
    have hlen : ((takeRows e.c.residualDim
      (e.c.jacobianV (fun i => (X i).getD 0.0)).r0 (e.c.jacobianV (fun i => (X i).getD 0.0)).r1
      (e.c.jacobianV (fun i => (X i).getD 0.0)).r2).map (fun row => rowApply row U)).length =
        e.c.residualDim := by
      rw [List.length_map, takeRows_length_dim]
    rw [jacRow_cons]
    by_cases h1 : row0 ≤ i
    · rw [if_pos h1, if_pos h1]
      by_cases h2 : i - row0 < e.c.residualDim
      · rw [if_pos h2, if_neg (by omega), add_zero]
      · rw [if_neg h2, if_pos (by omega), getD_beyond _ _ (by rw [hlen]; omega), zero_add]
        have : i - (row0 + e.c.residualDim) = i - row0 - e.c.residualDim := by omega
        rw [this]
    · rw [if_neg h1, if_neg h1, if_neg (by omega), add_zero]

/-! ### 3. The model's residual and Jacobian as maps on `ℝⁿ` -/

/-- **The model's assembled residual as a map `ℝⁿ → ℝᵐ`** (`m = numRows es`): the vector of
`residualAll es` at the coordinates of `x`; where the evaluation reports an error — it does not
when all ids are `< n` — the zero vector. -/
noncomputable def rOf (es : List (Entry ℝ)) (n : Nat) (x : EuclideanSpace ℝ (Fin n)) :
    EuclideanSpace ℝ (Fin (numRows es)) :=
  WithLp.toLp 2 (match residualAll es (lookup (coordList n x)) with
    | .ok (r, _) => vecOf (numRows es) r
    | .error _ => 0)

/-- **The model's assembled Jacobian as a matrix-valued map on `ℝⁿ`**: the matrix of the
contributions of `jacobianAll es` at the coordinates of `x` (zero matrix on an evaluation error). -/
noncomputable def JOf (es : List (Entry ℝ)) (n : Nat) (x : EuclideanSpace ℝ (Fin n)) :
    Matrix (Fin (numRows es)) (Fin n) ℝ :=
  match jacobianAll es (lookup (coordList n x)) with
  | .ok (jac, _) => matOf (numRows es) n jac
  | .error _ => 0

/-- For declared ids, `rOf` is the vector of the residual list the model computes. -/
theorem rOf_eq (es : List (Entry ℝ)) (n : Nat) (x : EuclideanSpace ℝ (Fin n)) (r : List ℝ)
    (w : List (Warning ℝ)) (h : residualAll es (lookup (coordList n x)) = .ok (r, w)) :
    (rOf es n x).ofLp = vecOf (numRows es) r := by
  unfold rOf; rw [h]

/-- For declared ids, `JOf` is the matrix of the contributions the model computes. -/
theorem JOf_eq (es : List (Entry ℝ)) (n : Nat) (x : EuclideanSpace ℝ (Fin n))
    (jac : List (Triplet ℝ)) (w : List (Warning ℝ))
    (h : jacobianAll es (lookup (coordList n x)) = .ok (jac, w)) :
    JOf es n x = matOf (numRows es) n jac := by
  unfold JOf; rw [h]

/-- **Rows of `rOf`**: for ids `< n`, component `i` of `rOf es n x` is `resRow es i` at the
assignment of `x`. -/
theorem rOf_apply (es : List (Entry ℝ)) (n : Nat) (hd : Declared es n)
    (x : EuclideanSpace ℝ (Fin n)) (i : Fin (numRows es)) :
    (rOf es n x).ofLp i = resRow es i.val (asg n x) := by
  have hd' : Declared es (coordList n x).length := by rw [coordList_length]; exact hd
  obtain ⟨r, wr, hr⟩ := residualAll_ok (coordList n x) es hd'
  rw [rOf_eq es n x r wr hr, ← lookup_coordList n x]
  exact residualAll_getD _ es r wr hr i.val

/-- **Rows of `JOf`, applied to a direction**: for ids `< n`, component `i` of `JOf es n x *ᵥ u` is
`jacRow es i` at the assignment of `x`, applied to the assignment of `u`. -/
theorem JOf_mulVec_apply (es : List (Entry ℝ)) (n : Nat) (hd : Declared es n)
    (x u : EuclideanSpace ℝ (Fin n)) (i : Fin (numRows es)) :
    (JOf es n x *ᵥ u.ofLp) i = jacRow es i.val (asg n x) (asg n u) := by
  have hd' : Declared es (coordList n x).length := by rw [coordList_length]; exact hd
  obtain ⟨jac, wj, hj⟩ := jacobianFrom_ok (pattern es) (coordList n x) es 0 hd' (fun _ h => h)
  have hj' : jacobianAll es (lookup (coordList n x)) = .ok (jac, wj) := hj
  have hcols : ∀ t ∈ jac, t.2.1 < n := fun t ht =>
    (jacobianAll_in_range es (lookup (coordList n x)) n hd jac wj hj' t ht).2
  rw [JOf_eq es n x jac wj hj', ← asg_restrict n u, matOf_mulVec _ _ jac (asg n u) hcols i,
    jacobianFrom_rowSum (pattern es) _ (asg n u) es 0 jac wj hj i.val, ← lookup_coordList n x]
  simp

/-! ### 4. Per-kind regularity: Fréchet derivative of the residual rows, continuity of the Jacobian rows -/

/-- A Jacobian row as a continuous linear functional on `ℝⁿ`: `Σ pd · (coordinate id)`. -/
noncomputable def rowCLM (n : Nat) (row : List (JVar ℝ)) : EuclideanSpace ℝ (Fin n) →L[ℝ] ℝ :=
  (row.map (fun e => e.pd • coord n e.id)).sum

/-- `rowCLM` applied to a direction is the model's `rowApply` at the direction's assignment. -/
theorem rowCLM_apply (n : Nat) (row : List (JVar ℝ)) (u : EuclideanSpace ℝ (Fin n)) :
    rowCLM n row u = rowApply row (asg n u) := by
  induction row with
  | nil => simp [rowCLM, rowApply]
  | cons e rest ih =>
    simp only [rowCLM, rowApply, List.map_cons, List.sum_cons] at ih ⊢
    rw [_root_.add_apply, ih]
    simp [asg]

/-- **A kind is `C¹` at `xs`** (as a function of the point of `ℝⁿ`): each of the three residual slots
has, at `xs`, the Fréchet derivative given by the corresponding Jacobian row of the model at `xs`
(unused slots are the constant `0.0` with an empty row), and each Jacobian row, applied to any fixed
direction, is continuous at `xs`. -/
structure KindC1 (c : Constraint ℝ) (n : Nat) (xs : EuclideanSpace ℝ (Fin n)) : Prop where
  d0 : HasFDerivAt (fun x => (c.residualV (asg n x)).r0) (rowCLM n (c.jacobianV (asg n xs)).r0) xs
  d1 : HasFDerivAt (fun x => (c.residualV (asg n x)).r1) (rowCLM n (c.jacobianV (asg n xs)).r1) xs
  d2 : HasFDerivAt (fun x => (c.residualV (asg n x)).r2) (rowCLM n (c.jacobianV (asg n xs)).r2) xs
  c0 : ∀ U : Nat → ℝ, ContinuousAt (fun x => rowApply (c.jacobianV (asg n x)).r0 U) xs
  c1 : ∀ U : Nat → ℝ, ContinuousAt (fun x => rowApply (c.jacobianV (asg n x)).r1 U) xs
  c2 : ∀ U : Nat → ℝ, ContinuousAt (fun x => rowApply (c.jacobianV (asg n x)).r2 U) xs

/-- Structural Fréchet derivative of a polynomial in the coordinates. -/
macro "fderiv_poly" : tactic => `(tactic| (
  repeat' (first
    | exact (coord _ _).hasFDerivAt
    | exact hasFDerivAt_const _ _
    | apply HasFDerivAt.fun_sub
    | apply HasFDerivAt.fun_add
    | apply HasFDerivAt.fun_mul
    | apply HasFDerivAt.fun_neg)))

/-- Unfold the kernels of the polynomial kinds down to coordinates. -/
macro "unfold_poly" : tactic => `(tactic| simp only [Constraint.residualV, Constraint.jacobianV,
  linesAtAngleResidual, linesAtAngleJac, jvars4, Res.mk1, Res.mk2, sqr, asg, rowApply, rowCLM,
  List.map_cons, List.map_nil, List.sum_cons, List.sum_nil, lit_0, lit_1, lit_2, lit_half,
  div_eq_mul_inv])

/-- Close `HasFDerivAt f (rowCLM …) xs` for a polynomial kind. -/
macro "kind_fderiv" : tactic => `(tactic| (
  unfold_poly
  apply HasFDerivAt.congr_fderiv
  · fderiv_poly
  · ext u
    simp
    try ring))

/-- Close `∀ U, ContinuousAt (fun x => rowApply (row at x) U) xs` for a polynomial kind. -/
macro "kind_cont" : tactic => `(tactic| (
  intro U
  unfold_poly
  fun_prop))

/-- The first family: kinds whose residual rows are polynomials in the coordinates, with the model's
Jacobian rows as their gradient and **no guard**: the nine linear kinds, `LinesAtAngle` with
`Parallel` / `Perpendicular`, and `Arc` (`isArc`). -/
def SmoothKind : Constraint ℝ → Prop
  | .fixed .. | .scalarEqual .. | .horizontal .. | .vertical .. | .horizontalDistance ..
  | .verticalDistance .. | .pointsCoincident .. | .midpoint .. | .circleRadius .. => True
  | .linesAtAngle _ _ .parallel | .linesAtAngle _ _ .perpendicular => True
  | .isArc .. => True
  | _ => False

/-- Close `KindC1 c n xs` for a polynomial kind without guard. -/
macro "kind_c1" : tactic => `(tactic| (
  constructor
  · kind_fderiv
  · kind_fderiv
  · kind_fderiv
  · kind_cont
  · kind_cont
  · kind_cont))

/-- **Every kind of the first family is `C¹` at every point of `ℝⁿ`**, for every `n` and every
assignment of ids to its slots (aliased ids and ids `≥ n` included). -/
theorem kindC1_of_smooth (c : Constraint ℝ) (h : SmoothKind c) (n : Nat)
    (xs : EuclideanSpace ℝ (Fin n)) : KindC1 c n xs := by
  cases c with
  | fixed id e => kind_c1
  | scalarEqual a b => kind_c1
  | horizontal l => kind_c1
  | vertical l => kind_c1
  | horizontalDistance p q d => kind_c1
  | verticalDistance p q d => kind_c1
  | pointsCoincident p q => kind_c1
  | midpoint l p => kind_c1
  | circleRadius c r => kind_c1
  | isArc a => kind_c1
  | linesAtAngle l0 l1 k =>
    cases k with
    | parallel => kind_c1
    | perpendicular => kind_c1
    | other a => exact h.elim
  | _ => exact h.elim

/-! ### 5. Kinds with a square root: `Distance`, `LinesEqualLength`, `ArcRadius` away from coincident points -/

/-- Two points are farther apart than `EPSILON` at the assignment `v` (strictly: on the boundary the
model's Jacobian jumps, so it is not continuous there). -/
def FarApart (p q : Pt) (v : Nat → ℝ) : Prop :=
  EPS < Real.sqrt ((v p.x - v q.x) * (v p.x - v q.x) + (v p.y - v q.y) * (v p.y - v q.y))

/-- The squared distance of two points as a function of the point of `ℝⁿ`. -/
noncomputable def sqDist (n : Nat) (p q : Pt) (x : EuclideanSpace ℝ (Fin n)) : ℝ :=
  (coord n p.x x - coord n q.x x) * (coord n p.x x - coord n q.x x) +
    (coord n p.y x - coord n q.y x) * (coord n p.y x - coord n q.y x)

/-- The squared distance is a continuous function of the point. -/
theorem continuous_sqDist (n : Nat) (p q : Pt) : Continuous (sqDist n p q) := by
  unfold sqDist; fun_prop

/-- Far apart at `xs` ⇒ the guard `dist < EPS` is false in a neighbourhood of `xs`. -/
theorem eventually_far (n : Nat) (p q : Pt) (xs : EuclideanSpace ℝ (Fin n))
    (h : FarApart p q (asg n xs)) :
    ∀ᶠ x in 𝓝 xs, ¬ Real.sqrt (sqDist n p q x) < EPS := by
  have hc : ContinuousAt (fun x => Real.sqrt (sqDist n p q x)) xs :=
    (Real.continuous_sqrt.comp (continuous_sqDist n p q)).continuousAt
  filter_upwards [hc.eventually (lt_mem_nhds (show EPS < Real.sqrt (sqDist n p q xs) from h))] with x hx
  exact not_lt.mpr hx.le

/-- Far apart ⇒ the distance is positive. -/
theorem far_pos (n : Nat) (p q : Pt) (xs : EuclideanSpace ℝ (Fin n))
    (h : FarApart p q (asg n xs)) : 0 < Real.sqrt (sqDist n p q xs) :=
  lt_trans EPS_pos h

/-- Far apart ⇒ the squared distance is not 0 (so `sqrt` is differentiable there). -/
theorem far_ne (n : Nat) (p q : Pt) (xs : EuclideanSpace ℝ (Fin n))
    (h : FarApart p q (asg n xs)) : sqDist n p q xs ≠ 0 := by
  intro h0
  have := far_pos n p q xs h
  rw [h0, Real.sqrt_zero] at this
  exact lt_irrefl _ this

/-- Structural Fréchet derivative including `sqrt` (side conditions are left as goals). -/
macro "fderiv_struct" : tactic => `(tactic| (
  repeat' (first
    | exact (coord _ _).hasFDerivAt
    | exact hasFDerivAt_const _ _
    | apply HasFDerivAt.fun_sub
    | apply HasFDerivAt.fun_add
    | apply HasFDerivAt.fun_mul
    | apply HasFDerivAt.fun_neg
    | apply HasFDerivAt.sqrt)))

/-- **`Distance(p, q, d)` is `C¹` at every point where `p` and `q` are farther apart than `EPSILON`**
(all id assignments): the residual `hypot(p − q) − d` has the model's Jacobian row as Fréchet
derivative, and that row is continuous there (the guard `dist < EPSILON` is off in a
neighbourhood). -/
theorem kindC1_distance (p q : Pt) (d : ℝ) (n : Nat) (xs : EuclideanSpace ℝ (Fin n))
    (h : FarApart p q (asg n xs)) : KindC1 (.distance p q d) n xs := by
  have hg : ¬ Real.sqrt (sqDist n p q xs) < EPS := not_lt.mpr (le_of_lt h)
  have hpos := far_pos n p q xs h
  have hne := far_ne n p q xs h
  unfold sqDist at hg hpos hne
  constructor
  · simp only [Constraint.residualV, Constraint.jacobianV, distResidual, distJacRow, hypot_real,
      Res.mk1, asg]
    simp only [hg, ↓reduceIte]
    simp only [rowCLM, List.map_cons, List.map_nil, List.sum_cons, List.sum_nil]
    apply HasFDerivAt.congr_fderiv
    · fderiv_struct
      exact hne
    · ext u
      simp
      field_simp
      ring
  · simp only [Constraint.residualV, Constraint.jacobianV, distResidual, distJacRow, hypot_real,
      Res.mk1, asg]
    simp only [hg, ↓reduceIte]
    simpa [rowCLM] using hasFDerivAt_const (0.0 : ℝ) xs
  · simp only [Constraint.residualV, Constraint.jacobianV, distResidual, distJacRow, hypot_real,
      Res.mk1, asg]
    simp only [hg, ↓reduceIte]
    simpa [rowCLM] using hasFDerivAt_const (0.0 : ℝ) xs
  · intro U
    have hev := eventually_far n p q xs h
    have hc : ContinuousAt (fun x : EuclideanSpace ℝ (Fin n) =>
        (coord n p.x x - coord n q.x x) / Real.sqrt (sqDist n p q x) * U p.x +
        ((coord n p.y x - coord n q.y x) / Real.sqrt (sqDist n p q x) * U p.y +
        ((-coord n p.x x + coord n q.x x) / Real.sqrt (sqDist n p q x) * U q.x +
        ((-coord n p.y x + coord n q.y x) / Real.sqrt (sqDist n p q x) * U q.y + 0)))) xs := by
      have hs : ContinuousAt (fun x => Real.sqrt (sqDist n p q x)) xs :=
        (Real.continuous_sqrt.comp (continuous_sqDist n p q)).continuousAt
      have hs0 : Real.sqrt (sqDist n p q xs) ≠ 0 := (far_pos n p q xs h).ne'
      fun_prop (disch := exact hs0)
    refine hc.congr ?_
    filter_upwards [hev] with x hx
    unfold sqDist at hx
    simp only [Constraint.jacobianV, distJacRow, hypot_real, asg, hx, ↓reduceIte, rowApply,
      List.map_cons, List.map_nil, List.sum_cons, List.sum_nil, sqDist]
  · intro U
    have : (fun x => rowApply ((Constraint.distance p q d).jacobianV (asg n x)).r1 U) = fun _ => 0 := by
      funext x
      simp only [Constraint.jacobianV]
      cases distJacRow (asg n x) p q <;> simp [rowApply]
    rw [this]; exact continuousAt_const
  · intro U
    have : (fun x => rowApply ((Constraint.distance p q d).jacobianV (asg n x)).r2 U) = fun _ => 0 := by
      funext x
      simp only [Constraint.jacobianV]
      cases distJacRow (asg n x) p q <;> simp [rowApply]
    rw [this]; exact continuousAt_const

/-- **`LinesEqualLength(l0, l1)` is `C¹` at every point where both segments are longer than
`EPSILON`** (all id assignments). -/
theorem kindC1_linesEqualLength (l0 l1 : Seg) (n : Nat) (xs : EuclideanSpace ℝ (Fin n))
    (h0 : FarApart l0.p0 l0.p1 (asg n xs)) (h1 : FarApart l1.p0 l1.p1 (asg n xs)) :
    KindC1 (.linesEqualLength l0 l1) n xs := by
  have hg0 : ¬ Real.sqrt (sqDist n l0.p0 l0.p1 xs) < EPS := not_lt.mpr (le_of_lt h0)
  have hg1 : ¬ Real.sqrt (sqDist n l1.p0 l1.p1 xs) < EPS := not_lt.mpr (le_of_lt h1)
  have hpos0 := far_pos n _ _ xs h0
  have hpos1 := far_pos n _ _ xs h1
  have hne0 := far_ne n _ _ xs h0
  have hne1 := far_ne n _ _ xs h1
  unfold sqDist at hg0 hg1 hpos0 hpos1 hne0 hne1
  constructor
  · simp only [Constraint.residualV, Constraint.jacobianV, hypot_real, Res.mk1, asg, jvars4]
    simp only [hg0, hg1, or_self, ↓reduceIte]
    simp only [rowCLM, List.map_cons, List.map_nil, List.sum_cons, List.sum_nil]
    apply HasFDerivAt.congr_fderiv
    · fderiv_struct
      · exact hne0
      · exact hne1
    · ext u
      simp
      field_simp
      ring
  · simp only [Constraint.residualV, Constraint.jacobianV, hypot_real, Res.mk1, asg, jvars4]
    simp only [hg0, hg1, or_self, ↓reduceIte]
    simpa [rowCLM] using hasFDerivAt_const (0.0 : ℝ) xs
  · simp only [Constraint.residualV, Constraint.jacobianV, hypot_real, Res.mk1, asg, jvars4]
    simp only [hg0, hg1, or_self, ↓reduceIte]
    simpa [rowCLM] using hasFDerivAt_const (0.0 : ℝ) xs
  · intro U
    have hev0 := eventually_far n _ _ xs h0
    have hev1 := eventually_far n _ _ xs h1
    have hc : ContinuousAt (fun x : EuclideanSpace ℝ (Fin n) =>
        (coord n l0.p0.x x - coord n l0.p1.x x) / Real.sqrt (sqDist n l0.p0 l0.p1 x) * U l0.p0.x +
        ((coord n l0.p0.y x - coord n l0.p1.y x) / Real.sqrt (sqDist n l0.p0 l0.p1 x) * U l0.p0.y +
        ((-coord n l0.p0.x x + coord n l0.p1.x x) / Real.sqrt (sqDist n l0.p0 l0.p1 x) * U l0.p1.x +
        ((-coord n l0.p0.y x + coord n l0.p1.y x) / Real.sqrt (sqDist n l0.p0 l0.p1 x) * U l0.p1.y +
        ((-coord n l1.p0.x x + coord n l1.p1.x x) / Real.sqrt (sqDist n l1.p0 l1.p1 x) * U l1.p0.x +
        ((-coord n l1.p0.y x + coord n l1.p1.y x) / Real.sqrt (sqDist n l1.p0 l1.p1 x) * U l1.p0.y +
        ((coord n l1.p0.x x - coord n l1.p1.x x) / Real.sqrt (sqDist n l1.p0 l1.p1 x) * U l1.p1.x +
        ((coord n l1.p0.y x - coord n l1.p1.y x) / Real.sqrt (sqDist n l1.p0 l1.p1 x) * U l1.p1.y +
          0)))))))) xs := by
      have hs0 : ContinuousAt (fun x => Real.sqrt (sqDist n l0.p0 l0.p1 x)) xs :=
        (Real.continuous_sqrt.comp (continuous_sqDist n _ _)).continuousAt
      have hs1 : ContinuousAt (fun x => Real.sqrt (sqDist n l1.p0 l1.p1 x)) xs :=
        (Real.continuous_sqrt.comp (continuous_sqDist n _ _)).continuousAt
      have hz0 : Real.sqrt (sqDist n l0.p0 l0.p1 xs) ≠ 0 := (far_pos n _ _ xs h0).ne'
      have hz1 : Real.sqrt (sqDist n l1.p0 l1.p1 xs) ≠ 0 := (far_pos n _ _ xs h1).ne'
      fun_prop (disch := first | exact hz0 | exact hz1)
    refine hc.congr ?_
    filter_upwards [hev0, hev1] with x hx0 hx1
    unfold sqDist at hx0 hx1
    simp only [Constraint.jacobianV, hypot_real, asg, jvars4, hx0, hx1, or_self, ↓reduceIte, rowApply,
      List.map_cons, List.map_nil, List.sum_cons, List.sum_nil, sqDist]
  · intro U
    have : (fun x => rowApply ((Constraint.linesEqualLength l0 l1).jacobianV (asg n x)).r1 U) =
        fun _ => 0 := by
      funext x
      simp only [Constraint.jacobianV]
      split <;> simp [rowApply]
    rw [this]; exact continuousAt_const
  · intro U
    have : (fun x => rowApply ((Constraint.linesEqualLength l0 l1).jacobianV (asg n x)).r2 U) =
        fun _ => 0 := by
      funext x
      simp only [Constraint.jacobianV]
      split <;> simp [rowApply]
    rw [this]; exact continuousAt_const

/-- **`ArcRadius(a, r)` is `C¹` at every point where the centre is farther than `EPSILON` from both
the start and the end point** (two `Distance` rows; all id assignments). -/
theorem kindC1_arcRadius (a : ArcD) (r : ℝ) (n : Nat) (xs : EuclideanSpace ℝ (Fin n))
    (h0 : FarApart a.center a.start (asg n xs)) (h1 : FarApart a.center a.stop (asg n xs)) :
    KindC1 (.arcRadius a r) n xs := by
  have hg0 : ¬ Real.sqrt (sqDist n a.center a.start xs) < EPS := not_lt.mpr (le_of_lt h0)
  have hg1 : ¬ Real.sqrt (sqDist n a.center a.stop xs) < EPS := not_lt.mpr (le_of_lt h1)
  have hpos0 := far_pos n _ _ xs h0
  have hpos1 := far_pos n _ _ xs h1
  have hne0 := far_ne n _ _ xs h0
  have hne1 := far_ne n _ _ xs h1
  unfold sqDist at hg0 hg1 hpos0 hpos1 hne0 hne1
  constructor
  · simp only [Constraint.residualV, Constraint.jacobianV, distResidual, distJacRow, hypot_real,
      Res.mk2, asg]
    simp only [hg0, ↓reduceIte, Option.getD_some]
    simp only [rowCLM, List.map_cons, List.map_nil, List.sum_cons, List.sum_nil]
    apply HasFDerivAt.congr_fderiv
    · fderiv_struct
      exact hne0
    · ext u
      simp
      field_simp
      ring
  · simp only [Constraint.residualV, Constraint.jacobianV, distResidual, distJacRow, hypot_real,
      Res.mk2, asg]
    simp only [hg1, ↓reduceIte, Option.getD_some]
    simp only [rowCLM, List.map_cons, List.map_nil, List.sum_cons, List.sum_nil]
    apply HasFDerivAt.congr_fderiv
    · fderiv_struct
      exact hne1
    · ext u
      simp
      field_simp
      ring
  · simp only [Constraint.residualV, Constraint.jacobianV, Res.mk2]
    simpa [rowCLM] using hasFDerivAt_const (0.0 : ℝ) xs
  · intro U
    have hev := eventually_far n _ _ xs h0
    have hc : ContinuousAt (fun x : EuclideanSpace ℝ (Fin n) =>
        (coord n a.center.x x - coord n a.start.x x) / Real.sqrt (sqDist n a.center a.start x) * U a.center.x +
        ((coord n a.center.y x - coord n a.start.y x) / Real.sqrt (sqDist n a.center a.start x) * U a.center.y +
        ((-coord n a.center.x x + coord n a.start.x x) / Real.sqrt (sqDist n a.center a.start x) * U a.start.x +
        ((-coord n a.center.y x + coord n a.start.y x) / Real.sqrt (sqDist n a.center a.start x) * U a.start.y + 0)))) xs := by
      have hs : ContinuousAt (fun x => Real.sqrt (sqDist n a.center a.start x)) xs :=
        (Real.continuous_sqrt.comp (continuous_sqDist n _ _)).continuousAt
      have hs0 : Real.sqrt (sqDist n a.center a.start xs) ≠ 0 := (far_pos n _ _ xs h0).ne'
      fun_prop (disch := exact hs0)
    refine hc.congr ?_
    filter_upwards [hev] with x hx
    unfold sqDist at hx
    simp only [Constraint.jacobianV, distJacRow, hypot_real, asg, hx, ↓reduceIte, rowApply,
      List.map_cons, List.map_nil, List.sum_cons, List.sum_nil, sqDist, Option.getD_some]
  · intro U
    have hev := eventually_far n _ _ xs h1
    have hc : ContinuousAt (fun x : EuclideanSpace ℝ (Fin n) =>
        (coord n a.center.x x - coord n a.stop.x x) / Real.sqrt (sqDist n a.center a.stop x) * U a.center.x +
        ((coord n a.center.y x - coord n a.stop.y x) / Real.sqrt (sqDist n a.center a.stop x) * U a.center.y +
        ((-coord n a.center.x x + coord n a.stop.x x) / Real.sqrt (sqDist n a.center a.stop x) * U a.stop.x +
        ((-coord n a.center.y x + coord n a.stop.y x) / Real.sqrt (sqDist n a.center a.stop x) * U a.stop.y + 0)))) xs := by
      have hs : ContinuousAt (fun x => Real.sqrt (sqDist n a.center a.stop x)) xs :=
        (Real.continuous_sqrt.comp (continuous_sqDist n _ _)).continuousAt
      have hs0 : Real.sqrt (sqDist n a.center a.stop xs) ≠ 0 := (far_pos n _ _ xs h1).ne'
      fun_prop (disch := exact hs0)
    refine hc.congr ?_
    filter_upwards [hev] with x hx
    unfold sqDist at hx
    simp only [Constraint.jacobianV, distJacRow, hypot_real, asg, hx, ↓reduceIte, rowApply,
      List.map_cons, List.map_nil, List.sum_cons, List.sum_nil, sqDist, Option.getD_some]
  · intro U
    simp only [Constraint.jacobianV, rowApply, List.map_nil, List.sum_nil]
    exact continuousAt_const


/-- **Regularity of a request at an assignment** — the hypothesis under which the kinds covered
here are `C¹`: nothing for the first family (`SmoothKind`); for `Distance` the two points, for
`LinesEqualLength` the end points of both segments, for `ArcRadius` the centre and each of start /
end, are farther apart than `EPSILON` (strictly).  `False` for every other kind (not covered). -/
def RegularAt : Constraint ℝ → (Nat → ℝ) → Prop
  | .distance p q _, v => FarApart p q v
  | .linesEqualLength l0 l1, v => FarApart l0.p0 l0.p1 v ∧ FarApart l1.p0 l1.p1 v
  | .arcRadius a _, v => FarApart a.center a.start v ∧ FarApart a.center a.stop v
  | c, _ => SmoothKind c

/-- The first family is regular everywhere. -/
theorem regularAt_of_smooth (c : Constraint ℝ) (h : SmoothKind c) (v : Nat → ℝ) : RegularAt c v := by
  cases c <;> first | exact h.elim | exact h

/-- **Every covered kind is `C¹` where it is regular**: `RegularAt c (asg n xs) → KindC1 c n xs`. -/
theorem kindC1_of_regular (c : Constraint ℝ) (n : Nat) (xs : EuclideanSpace ℝ (Fin n))
    (h : RegularAt c (asg n xs)) : KindC1 c n xs := by
  cases c with
  | distance p q d => exact kindC1_distance p q d n xs h
  | linesEqualLength l0 l1 => exact kindC1_linesEqualLength l0 l1 n xs h.1 h.2
  | arcRadius a r => exact kindC1_arcRadius a r n xs h.1 h.2
  | _ => refine kindC1_of_smooth _ ?_ n xs; exact h

end Ezpz
